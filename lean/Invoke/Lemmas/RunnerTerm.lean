import Invoke.Lemmas.RunnerStdin
import Invoke.Lemmas.RunnerIO
/-! Termination of the runner transition system under fair rounds (C08): a measure that no thread
    step increases, a Boolean enabledness predicate for each thread's productive step, stability
    of enabledness under other threads' steps, and the lifting to covering rounds. -/
namespace Inv

/-- the environment has come to an end: the process exited (or was killed) and every holder of the
    pipes' write ends has closed them -/
structure EnvDone (s : S) : Prop where
  exited : s.exited = true
  outClosed : s.out.isOpen = false
  errClosed : s.err.isOpen = false
  readPos : 0 < s.readSize

def bytesOf (b : List Chunk) : Nat := (b.map List.length).sum + b.length
def muRd (p : Pipe) (pc : RdPc) : Nat := if pc = .read then bytesOf p.buf + 1 else 0
def muO (s : S) : Nat := muRd s.out s.outPc
def muE (s : S) : Nat := if s.pty then 0 else muRd s.err s.errPc

def inRank (fin : Bool) : InPc → Nat
  | .read => if fin then 2 else 1
  | .isSet false => 1
  | .isSet true => 3
  | .write _ => 4
  | .close => 0
  | .done => 0
def closeCredit (s : S) : Nat := if !s.pty && !s.inClosed then 2 else 0
def muI (s : S) : Nat :=
  if !s.hasStdin || s.inPc = .done then 0
  else 4 * s.inScript.length + closeCredit s + inRank s.fin s.inPc

def mRank (J : Nat) : MainPc → Nat
  | .done => 0
  | .stop => 1
  | .checkTimeout => 2
  | .join i _ _ => 3 + (J - i)
  | .setFin => J + 5
  | .settleCancel => J + 6
  | .settleCheck => J + 7
  | .pollDead true => J + 8
  | .poll => J + 9
  | .pollDead false => J + 10
  | .sendIntr => J + 10
  | .idle => J + 11
def muM (s : S) : Nat := mRank s.joinOrder.length s.mainPc + (if s.intr then 3 else 0)

def mu (s : S) : Nat := muM s + muO s + muE s + muI s

def Terminal (s : S) : Prop :=
  s.mainPc = .done ∧ S.rdDone s.outPc = true ∧ (s.pty = true ∨ S.rdDone s.errPc = true) ∧
  (s.hasStdin = false ∨ s.inPc = .done)

instance (s : S) : Decidable (Terminal s) := by unfold Terminal; infer_instance

def preJoin : MainPc → Bool
  | .idle => true | .poll => true | .pollDead _ => true | .sendIntr => true | .settleCheck => true | .settleCancel => true
  | .setFin => true | _ => false

/-- facts about reachable states that the termination argument needs -/
structure TermWF (s : S) : Prop where
  finOrPre : s.fin = true ∨ preJoin s.mainPc = true ∨ s.hasStdin = false
  closePre : s.inPc = .close → s.inClosed = false ∧ s.pty = false

/-! ### readers -/

theorem bytesOf_cons (c : Chunk) (r : List Chunk) : bytesOf (c :: r) = c.length + 1 + bytesOf r := by
  simp [bytesOf]; omega

theorem readerStep_le (n : Nat) (p : Pipe) (pc : RdPc) (cap : List Chunk) :
    muRd (readerStep n p pc cap).1 (readerStep n p pc cap).2.1 ≤ muRd p pc := by
  unfold readerStep muRd
  split
  · simp
  · simp
  · split
    · simp
    · split
      · rename_i c r hb
        split
        · simp [hb, bytesOf_cons]
        · rename_i hl
          simp only [hb, bytesOf_cons, if_true, List.length_drop]; omega
      · split <;> simp

theorem readerStep_lt (n : Nat) (hn : 0 < n) (p : Pipe) (pc : RdPc) (cap : List Chunk)
    (hr : pc = .read) (hc : p.isOpen = false) :
    muRd (readerStep n p pc cap).1 (readerStep n p pc cap).2.1 < muRd p pc := by
  subst hr
  unfold readerStep muRd
  simp only []
  split
  · simp
  · split
    · rename_i c r hb
      split
      · simp [hb, bytesOf_cons]
      · rename_i hl
        simp only [hb, bytesOf_cons, if_true, List.length_drop]; omega
    · simp [hc]

/-! ### stdin handler -/

def canClose (s : S) : Bool := !s.pty && !s.inClosed

/-- the handler's next step is productive (strictly decreases its measure) -/
def EnIn (s : S) : Bool :=
  s.hasStdin && (match s.inPc with
    | .read => !(s.inScript.isEmpty && !canClose s && !s.fin)
    | .isSet false => s.fin
    | .isSet true => true
    | .write _ => true
    | .close => true
    | .done => false)

theorem stdinStep_le (s : S) (hw : TermWF s) : muI (stdinStep s) ≤ muI s := by
  unfold stdinStep
  split
  · exact Nat.le_refl _
  · rename_i hst
    have hst' : s.hasStdin = true := by simpa using hst
    split
    · rename_i hpc
      split
      · rename_i hsc
        split
        · simp [muI, hst', hpc, hsc, closeCredit, inRank]
        · rename_i hcl
          have : closeCredit s = 0 := by simp [closeCredit]; simpa using hcl
          simp [muI, hst', hpc, hsc, closeCredit, inRank]
          split <;> omega
      · rename_i d r hsc
        simp [muI, hst', hpc, hsc, closeCredit, inRank]; split <;> omega
      · rename_i r hsc
        simp [muI, hst', hpc, hsc, closeCredit, inRank]; split <;> omega
      · rename_i r hsc
        split
        · simp [muI, hst', hpc, hsc, closeCredit, inRank]; split <;> omega
        · simp [muI, hst', hpc, hsc, closeCredit, inRank]; split <;> omega
    · rename_i d hpc
      simp [muI, hst', hpc, closeCredit, inRank]
    · rename_i hpc
      obtain ⟨hc, hp⟩ := hw.closePre hpc
      simp [muI, hst', hpc, closeCredit, inRank, hc, hp]
    · rename_i hd hpc
      split
      · simp [muI, hst', hpc]
      · rename_i hf
        simp [muI, hst', hpc, closeCredit, inRank]
        cases hd <;> simp_all <;> split <;> omega
    · exact Nat.le_refl _

theorem stdinStep_lt (s : S) (hw : TermWF s) (he : EnIn s = true) : muI (stdinStep s) < muI s := by
  unfold EnIn at he
  simp only [Bool.and_eq_true] at he
  obtain ⟨hst', he⟩ := he
  unfold stdinStep
  simp only [hst', Bool.not_true, Bool.false_eq_true, if_false]
  split
  · rename_i hpc
    simp only [hpc] at he
    split
    · rename_i hsc
      split
      · simp [muI, hst', hpc, hsc, closeCredit, inRank]; (repeat' split) <;> omega
      · rename_i hcl
        have hcc : canClose s = false := by simpa [canClose] using hcl
        have hf : s.fin = true := by simpa [hsc, hcc] using he
        have h2 : (!s.pty && !s.inClosed) = false := by simpa using hcl
        simp [muI, hst', hpc, hsc, closeCredit, h2, inRank, hf]
    · rename_i d r hsc
      simp [muI, hst', hpc, hsc, closeCredit, inRank]; (repeat' split) <;> omega
    · rename_i r hsc
      simp [muI, hst', hpc, hsc, closeCredit, inRank]; (repeat' split) <;> omega
    · rename_i r hsc
      split
      · simp [muI, hst', hpc, hsc, closeCredit, inRank]; (repeat' split) <;> omega
      · simp [muI, hst', hpc, hsc, closeCredit, inRank]; (repeat' split) <;> omega
  · rename_i d hpc
    simp [muI, hst', hpc, closeCredit, inRank]
  · rename_i hpc
    obtain ⟨hc, hp⟩ := hw.closePre hpc
    simp [muI, hst', hpc, closeCredit, inRank, hc, hp]
  · rename_i hd hpc
    simp only [hpc] at he
    cases hd with
    | false =>
      have hf : s.fin = true := by simpa using he
      simp [muI, hst', hpc, hf, inRank]
    | true =>
      simp [muI, hst', hpc, closeCredit, inRank]; split <;> omega
  · rename_i hpc
    simp [hpc] at he

/-! ### main thread -/

def EnMain (s : S) : Bool :=
  match s.mainPc with
  | .done => false
  | .join i n tmo =>
    (match s.joinOrder[i]? with
     | none => true
     | some a => s.finished a || (tmo && decide (joinPatience ≤ n)))
  | _ => true

theorem muI_congr (s t : S) (h1 : t.hasStdin = s.hasStdin) (h2 : t.inPc = s.inPc) (h3 : t.inScript = s.inScript)
    (h4 : t.pty = s.pty) (h5 : t.inClosed = s.inClosed) (h6 : t.fin = s.fin) : muI t = muI s := by
  simp [muI, closeCredit, h1, h2, h3, h4, h5, h6]

theorem muI_fin_le (s t : S) (h1 : t.hasStdin = s.hasStdin) (h2 : t.inPc = s.inPc) (h3 : t.inScript = s.inScript)
    (h4 : t.pty = s.pty) (h5 : t.inClosed = s.inClosed) : muI t ≤ muI s + 1 := by
  simp only [muI, closeCredit, h1, h2, h3, h4, h5]
  split
  · omega
  · cases s.inPc <;> simp [inRank] <;> (repeat' split) <;> omega

theorem joinOrder_congr (s t : S) (h : t.opts = s.opts) : t.joinOrder = s.joinOrder := by
  simp only [S.opts, Prod.mk.injEq] at h
  simp [S.joinOrder, h.1, h.2.2.2.1]

theorem mainStep_fin (s : S) (h : s.mainPc ≠ .setFin) : (mainStep s).fin = s.fin := by
  unfold mainStep nextJoin enterJoin afterJoins leaveWait
  cases hm : s.mainPc <;> simp only [] <;> (repeat' split) <;> simp_all

theorem muM_afterJoins (s : S) : muM (afterJoins s) ≤ 2 + (if s.intr then 3 else 0) := by
  unfold afterJoins muM
  (repeat' split) <;> simp_all [mRank]

def intrW (s : S) : Nat := if s.intr then 3 else 0

theorem muM_enterJoin (s : S) (k : Nat) :
    muM (enterJoin s k) ≤ 3 + (s.joinOrder.length - k) + intrW s := by
  unfold enterJoin
  split
  · simp [muM, mRank, intrW, S.joinOrder]
  · have := muM_afterJoins s
    simp only [intrW]; omega

theorem mainStep_muM_le (s : S) (he : EnvDone s) :
    muM (mainStep s) + (if s.mainPc = .setFin then 1 else 0) ≤ muM s := by
  have hJ : 1 ≤ s.joinOrder.length := by simp [S.joinOrder]
  cases hm : s.mainPc with
  | idle => simp [mainStep, muM, mRank, hm, S.joinOrder]
  | poll =>
    simp only [mainStep, hm]
    split
    · rename_i hi
      simp [muM, mRank, hm, hi, S.joinOrder]
    · rename_i hi
      simp [muM, mRank, hm, hi, he.exited, S.joinOrder]
  | sendIntr => simp [mainStep, muM, mRank, hm, S.joinOrder]
  | pollDead b =>
    simp only [mainStep, hm]
    split
    · unfold leaveWait
      cases b <;> split <;> simp [muM, mRank, hm, S.joinOrder] <;> omega
    · rename_i hb
      have : b = false := by cases b <;> simp_all
      subst this
      simp [muM, mRank, hm, S.joinOrder]
  | setFin =>
    simp only [mainStep, hm]
    have h1 := muM_enterJoin { s with fin := true } 0
    have : ({ s with fin := true } : S).joinOrder = s.joinOrder := by simp [S.joinOrder]
    simp only [this, intrW] at h1
    simp only [muM, mRank, hm, if_true] at h1 ⊢
    omega
  | join i n tmo =>
    simp only [mainStep, hm]
    split
    · have := muM_afterJoins s
      simp only [muM, mRank, hm] at this ⊢; simp; omega
    · rename_i a ha
      have hi : i < s.joinOrder.length := by
        rcases Nat.lt_or_ge i s.joinOrder.length with h | h
        · exact h
        · have := List.getElem?_eq_none h; rw [this] at ha; cases ha
      have h1 := muM_enterJoin s (i + 1)
      have hs : muM s = 3 + (s.joinOrder.length - i) + intrW s := by simp [muM, mRank, hm, intrW]
      split
      · simp only [nextJoin, hs]; simp; omega
      · split
        · simp only [nextJoin, hs]; simp; omega
        · simp [muM, mRank, hm, S.joinOrder]
  | settleCheck => simp only [mainStep, hm]; split <;> simp [muM, mRank, hm, S.joinOrder]
  | settleCancel => simp [mainStep, muM, mRank, hm, S.joinOrder]
  | checkTimeout => simp [mainStep, muM, mRank, hm]
  | stop => simp [mainStep, muM, mRank, hm]
  | done => simp [mainStep, hm]

theorem mainStep_muM_lt (s : S) (he : EnvDone s) (hen : EnMain s = true) :
    muM (mainStep s) + (if s.mainPc = .setFin then 1 else 0) < muM s := by
  have hJ : 1 ≤ s.joinOrder.length := by simp [S.joinOrder]
  cases hm : s.mainPc with
  | idle => simp [mainStep, muM, mRank, hm, S.joinOrder]
  | poll =>
    simp only [mainStep, hm]
    split
    · rename_i hi
      simp [muM, mRank, hm, hi, S.joinOrder]
    · rename_i hi
      simp [muM, mRank, hm, hi, he.exited, S.joinOrder]
  | sendIntr => simp [mainStep, muM, mRank, hm, S.joinOrder]
  | pollDead b =>
    simp only [mainStep, hm]
    split
    · unfold leaveWait
      cases b <;> split <;> simp [muM, mRank, hm, S.joinOrder] <;> omega
    · rename_i hb
      have : b = false := by cases b <;> simp_all
      subst this
      simp [muM, mRank, hm, S.joinOrder]
  | setFin =>
    simp only [mainStep, hm]
    have h1 := muM_enterJoin { s with fin := true } 0
    have : ({ s with fin := true } : S).joinOrder = s.joinOrder := by simp [S.joinOrder]
    simp only [this, intrW] at h1
    simp only [muM, mRank, hm, if_true] at h1 ⊢
    omega
  | join i n tmo =>
    simp only [mainStep, hm]
    split
    · have := muM_afterJoins s
      simp only [muM, mRank, hm] at this ⊢; simp; omega
    · rename_i a ha
      have hi : i < s.joinOrder.length := by
        rcases Nat.lt_or_ge i s.joinOrder.length with h | h
        · exact h
        · have := List.getElem?_eq_none h; rw [this] at ha; cases ha
      have h1 := muM_enterJoin s (i + 1)
      have hs : muM s = 3 + (s.joinOrder.length - i) + intrW s := by simp [muM, mRank, hm, intrW]
      split
      · simp only [nextJoin, hs]; simp; omega
      · split
        · simp only [nextJoin, hs]; simp; omega
        · rename_i hf ht
          exfalso
          simp only [EnMain, hm, ha, Bool.or_eq_true] at hen
          rcases hen with h | h
          · exact hf h
          · exact ht h
  | settleCheck => simp only [mainStep, hm]; split <;> simp [muM, mRank, hm, S.joinOrder]
  | settleCancel => simp [mainStep, muM, mRank, hm, S.joinOrder]
  | checkTimeout => simp [mainStep, muM, mRank, hm]
  | stop => simp [mainStep, muM, mRank, hm]
  | done => simp [EnMain, hm] at hen

/-! ### assembling: every thread step is non-increasing, productive steps decrease -/

theorem killEffect_id (s : S) (he : s.exited = true) : killEffect s = s := by
  simp [killEffect, he]

theorem stdinStep_mainframe (s : S) :
    (stdinStep s).mainPc = s.mainPc ∧ (stdinStep s).intr = s.intr ∧ (stdinStep s).fin = s.fin ∧
    (stdinStep s).exited = s.exited ∧ (stdinStep s).readSize = s.readSize := by
  unfold stdinStep; (repeat' split) <;> simp

theorem muM_congr (s t : S) (h1 : t.opts = s.opts) (h2 : t.mainPc = s.mainPc) (h3 : t.intr = s.intr) : muM t = muM s := by
  simp [muM, joinOrder_congr s t h1, h2, h3]

theorem step_mu_le (s : S) (a : Actor) (he : EnvDone s) (hw : TermWF s) : mu (step s a) ≤ mu s := by
  cases a with
  | out =>
    have h := readerStep_le s.readSize s.out s.outPc s.capOut
    have e1 : muM (step s .out) = muM s := rfl
    have e2 : muI (step s .out) = muI s := rfl
    have e3 : muE (step s .out) = muE s := rfl
    have e4 : muO (step s .out) ≤ muO s := by simpa [step, muO] using h
    simp only [mu]; omega
  | err =>
    by_cases hp : s.pty = true
    · simp [step, hp]
    · have hs : step s .err = { s with err := (readerStep s.readSize s.err s.errPc s.capErr).1,
                                       errPc := (readerStep s.readSize s.err s.errPc s.capErr).2.1,
                                       capErr := (readerStep s.readSize s.err s.errPc s.capErr).2.2,
                                       mirErr := mirrorOf s.hideErr s.mirErr s.capErr (readerStep s.readSize s.err s.errPc s.capErr).2.2 } := by
        simp [step, hp]
      have h := readerStep_le s.readSize s.err s.errPc s.capErr
      have e1 : muM (step s .err) = muM s := by rw [hs]; rfl
      have e2 : muI (step s .err) = muI s := by rw [hs]; rfl
      have e3 : muO (step s .err) = muO s := by rw [hs]; rfl
      have e4 : muE (step s .err) ≤ muE s := by rw [hs]; simpa [muE, hp] using h
      simp only [mu]; omega
  | stdin =>
    have h := stdinStep_le s hw
    obtain ⟨f1, f2, f3, f4, _, _⟩ := stdinStep_frame s
    obtain ⟨m1, m2, _, _, _⟩ := stdinStep_mainframe s
    have ho := opts_stdin s
    have hM : muM (stdinStep s) = muM s := muM_congr s _ ho m1 m2
    have hp : (stdinStep s).pty = s.pty := by
      simp only [S.opts, Prod.mk.injEq] at ho; exact ho.2.2.2.1
    simp only [mu, step, muO, muE, hM, f1, f2, f3, f4, hp]; omega
  | timer =>
    simp only [step, timerStep]
    split
    · exact Nat.le_refl _
    · split
      · simp [mu, muM, muO, muE, muI, closeCredit, S.joinOrder]
      · split
        · simp [mu, muM, muO, muE, muI, closeCredit, S.joinOrder]
        · rw [killEffect_id s he.exited]
          simp [mu, muM, muO, muE, muI, closeCredit, S.joinOrder]
      · simp [mu, muM, muO, muE, muI, closeCredit, S.joinOrder]
      · exact Nat.le_refl _
  | main =>
    have h := mainStep_muM_le s he
    obtain ⟨f1, f2, f3, f4, _, _⟩ := mainStep_frame s
    obtain ⟨_, g2, g3, _, g5, _, _⟩ := mainStep_stdin_frame s
    have ho := opts_main s
    have hp : (mainStep s).pty = s.pty := by
      simp only [S.opts, Prod.mk.injEq] at ho; exact ho.2.2.2.1
    have hhs : (mainStep s).hasStdin = s.hasStdin := by
      simp only [S.opts, Prod.mk.injEq] at ho; exact ho.1
    have hI : muI (mainStep s) ≤ muI s + (if s.mainPc = .setFin then 1 else 0) := by
      by_cases hm : s.mainPc = .setFin
      · simp only [hm, if_true]; exact muI_fin_le s _ hhs g2 g3 hp g5
      · simp only [hm, if_false, Nat.add_zero]
        exact Nat.le_of_eq (muI_congr s _ hhs g2 g3 hp g5 (mainStep_fin s hm))
    simp only [mu, step, muO, muE, f1, f2, f3, f4, hp]; omega

/-- the productive step of each thread is available (the timer is never required to move) -/
def En (s : S) : Actor → Bool
  | .out => s.outPc = .read
  | .err => !s.pty && s.errPc = .read
  | .stdin => EnIn s
  | .main => EnMain s
  | .timer => false

theorem step_mu_lt (s : S) (a : Actor) (he : EnvDone s) (hw : TermWF s) (hen : En s a = true) :
    mu (step s a) < mu s := by
  cases a with
  | out =>
    have hr : s.outPc = .read := by simpa [En] using hen
    have h := readerStep_lt s.readSize he.readPos s.out s.outPc s.capOut hr he.outClosed
    have e1 : muM (step s .out) = muM s := rfl
    have e2 : muI (step s .out) = muI s := rfl
    have e3 : muE (step s .out) = muE s := rfl
    have e4 : muO (step s .out) < muO s := by simpa [step, muO] using h
    simp only [mu]; omega
  | err =>
    simp only [En, Bool.and_eq_true, Bool.not_eq_true', decide_eq_true_eq] at hen
    obtain ⟨hp, hr⟩ := hen
    have hs : step s .err = { s with err := (readerStep s.readSize s.err s.errPc s.capErr).1,
                                     errPc := (readerStep s.readSize s.err s.errPc s.capErr).2.1,
                                     capErr := (readerStep s.readSize s.err s.errPc s.capErr).2.2,
                                       mirErr := mirrorOf s.hideErr s.mirErr s.capErr (readerStep s.readSize s.err s.errPc s.capErr).2.2 } := by
      simp [step, hp]
    have h := readerStep_lt s.readSize he.readPos s.err s.errPc s.capErr hr he.errClosed
    have e1 : muM (step s .err) = muM s := by rw [hs]; rfl
    have e2 : muI (step s .err) = muI s := by rw [hs]; rfl
    have e3 : muO (step s .err) = muO s := by rw [hs]; rfl
    have e4 : muE (step s .err) < muE s := by rw [hs]; simpa [muE, hp] using h
    simp only [mu]; omega
  | stdin =>
    have h := stdinStep_lt s hw (by simpa [En] using hen)
    obtain ⟨f1, f2, f3, f4, _, _⟩ := stdinStep_frame s
    obtain ⟨m1, m2, _, _, _⟩ := stdinStep_mainframe s
    have ho := opts_stdin s
    have hM : muM (stdinStep s) = muM s := muM_congr s _ ho m1 m2
    have hp : (stdinStep s).pty = s.pty := by
      simp only [S.opts, Prod.mk.injEq] at ho; exact ho.2.2.2.1
    simp only [mu, step, muO, muE, hM, f1, f2, f3, f4, hp]; omega
  | timer => simp [En] at hen
  | main =>
    have h := mainStep_muM_lt s he (by simpa [En] using hen)
    obtain ⟨f1, f2, f3, f4, _, _⟩ := mainStep_frame s
    obtain ⟨_, g2, g3, _, g5, _, _⟩ := mainStep_stdin_frame s
    have ho := opts_main s
    have hp : (mainStep s).pty = s.pty := by
      simp only [S.opts, Prod.mk.injEq] at ho; exact ho.2.2.2.1
    have hhs : (mainStep s).hasStdin = s.hasStdin := by
      simp only [S.opts, Prod.mk.injEq] at ho; exact ho.1
    have hI : muI (mainStep s) ≤ muI s + (if s.mainPc = .setFin then 1 else 0) := by
      by_cases hm : s.mainPc = .setFin
      · simp only [hm, if_true]; exact muI_fin_le s _ hhs g2 g3 hp g5
      · simp only [hm, if_false, Nat.add_zero]
        exact Nat.le_of_eq (muI_congr s _ hhs g2 g3 hp g5 (mainStep_fin s hm))
    simp only [mu, step, muO, muE, f1, f2, f3, f4, hp]; omega

/-! ### invariants are preserved by thread steps -/

theorem envDone_step (s : S) (a : Actor) (he : EnvDone s) : EnvDone (step s a) := by
  obtain ⟨h1, h2, h3, h4⟩ := he
  cases a with
  | out =>
    refine ⟨h1, ?_, h3, h4⟩
    simp only [step]
    unfold readerStep; (repeat' split) <;> simp_all
  | err =>
    simp only [step]; split
    · exact ⟨h1, h2, h3, h4⟩
    · refine ⟨h1, h2, ?_, h4⟩
      unfold readerStep; (repeat' split) <;> simp_all
  | stdin =>
    obtain ⟨f1, f2, _, _, _, _⟩ := stdinStep_frame s
    obtain ⟨_, _, _, m4, m5⟩ := stdinStep_mainframe s
    exact ⟨by simp only [step]; rw [m4]; exact h1, by simp only [step]; rw [f1]; exact h2,
           by simp only [step]; rw [f2]; exact h3, by simp only [step]; rw [m5]; exact h4⟩
  | timer =>
    simp only [step, timerStep]
    split
    · exact ⟨h1, h2, h3, h4⟩
    · split
      · exact ⟨h1, h2, h3, h4⟩
      · split
        · exact ⟨h1, h2, h3, h4⟩
        · rw [killEffect_id s h1]; exact ⟨h1, h2, h3, h4⟩
      · exact ⟨h1, h2, h3, h4⟩
      · exact ⟨h1, h2, h3, h4⟩
  | main =>
    obtain ⟨f1, f2, _, _, _, _⟩ := mainStep_frame s
    have ho := opts_main s
    simp only [S.opts, Prod.mk.injEq] at ho
    have hex : (mainStep s).exited = s.exited := by
      unfold mainStep nextJoin enterJoin afterJoins leaveWait
      cases s.mainPc <;> simp only [] <;> (repeat' split) <;> simp_all
    exact ⟨by simp only [step]; rw [hex]; exact h1, by simp only [step]; rw [f1]; exact h2,
           by simp only [step]; rw [f2]; exact h3, by simp only [step]; rw [ho.2.2.2.2.2.2.2]; exact h4⟩

theorem mainStep_finOrPre (s : S) (h : s.fin = true ∨ preJoin s.mainPc = true ∨ s.hasStdin = false) :
    (mainStep s).fin = true ∨ preJoin (mainStep s).mainPc = true ∨ (mainStep s).hasStdin = false := by
  have ho := opts_main s
  simp only [S.opts, Prod.mk.injEq] at ho
  rcases h with h | h | h
  · exact Or.inl ((mainStep_stdin_frame s).2.2.2.2.2.2 h)
  · cases hm : s.mainPc with
    | idle => right; left; simp [mainStep, hm, preJoin]
    | poll => right; left; simp only [mainStep, hm]; split <;> rfl
    | sendIntr => right; left; simp [mainStep, hm, preJoin]
    | pollDead b => right; left; simp only [mainStep, hm]; unfold leaveWait; (repeat' split) <;> rfl
    | settleCheck => right; left; simp only [mainStep, hm]; split <;> rfl
    | settleCancel => right; left; simp [mainStep, hm, preJoin]
    | setFin =>
      left
      simp only [mainStep, hm]
      unfold enterJoin afterJoins
      (repeat' split) <;> simp
    | join i n t => simp [hm, preJoin] at h
    | checkTimeout => simp [hm, preJoin] at h
    | stop => simp [hm, preJoin] at h
    | done => simp [hm, preJoin] at h
  · exact Or.inr (Or.inr (by rw [ho.1]; exact h))

theorem termWF_step (s : S) (a : Actor) (hw : TermWF s) : TermWF (step s a) := by
  obtain ⟨h1, h2⟩ := hw
  cases a with
  | out => exact ⟨h1, h2⟩
  | err => simp only [step]; split <;> exact ⟨h1, h2⟩
  | timer =>
    simp only [step, timerStep]
    split
    · exact ⟨h1, h2⟩
    · split
      · exact ⟨h1, h2⟩
      · split
        · exact ⟨h1, h2⟩
        · obtain ⟨_, k2, _, _, k5, _, k7⟩ := killEffect_stdin_frame s
          have ko := opts_kill s
          simp only [S.opts, Prod.mk.injEq] at ko
          have km : (killEffect s).mainPc = s.mainPc := by unfold killEffect; split <;> rfl
          exact ⟨by simpa [k7, km, ko.1] using h1, by simpa [k2, k5, ko.2.2.2.1] using h2⟩
      · exact ⟨h1, h2⟩
      · exact ⟨h1, h2⟩
  | main =>
    obtain ⟨_, g2, _, _, g5, _, _⟩ := mainStep_stdin_frame s
    have ho := opts_main s
    simp only [S.opts, Prod.mk.injEq] at ho
    exact ⟨mainStep_finOrPre s h1, by simp only [step]; rw [g2, g5, ho.2.2.2.1]; exact h2⟩
  | stdin =>
    obtain ⟨m1, _, m3, _, _⟩ := stdinStep_mainframe s
    have ho := opts_stdin s
    simp only [S.opts, Prod.mk.injEq] at ho
    refine ⟨by simp only [step]; rw [m3, m1, ho.1]; exact h1, ?_⟩
    simp only [step]
    unfold stdinStep
    (repeat' split) <;> simp_all

/-! ### progress and stability -/

theorem joinOrder_mem (s : S) (a : Actor) (i : Nat) (h : s.joinOrder[i]? = some a) :
    a = .out ∨ (a = .stdin ∧ s.hasStdin = true) ∨ (a = .err ∧ s.pty = false) := by
  have hm : a ∈ s.joinOrder := List.mem_of_getElem? h
  simp only [S.joinOrder, List.mem_append, List.mem_singleton] at hm
  rcases hm with (hm | hm) | hm
  · exact Or.inl hm
  · split at hm
    · rename_i hh; simp at hm; exact Or.inr (Or.inl ⟨hm, hh⟩)
    · simp at hm
  · split at hm
    · simp at hm
    · rename_i hh; simp at hm; exact Or.inr (Or.inr ⟨hm, by simpa using hh⟩)

theorem progress (s : S) (hw : TermWF s) (hn : ¬ Terminal s) : ∃ a, En s a = true := by
  by_cases ho : s.outPc = .read
  · exact ⟨.out, by simp [En, ho]⟩
  by_cases hp : s.pty = false ∧ s.errPc = .read
  · exact ⟨.err, by simp [En, hp.1, hp.2]⟩
  have hod : S.rdDone s.outPc = true := by cases h : s.outPc <;> simp_all [S.rdDone]
  have hed : s.pty = true ∨ S.rdDone s.errPc = true := by
    cases hpt : s.pty with
    | true => exact Or.inl rfl
    | false =>
      right
      cases h : s.errPc <;> simp_all [S.rdDone]
  by_cases hs : s.hasStdin = true ∧ s.inPc ≠ .done
  · obtain ⟨hs1, hs2⟩ := hs
    by_cases hen : EnIn s = true
    · exact ⟨.stdin, by simpa [En] using hen⟩
    · -- the handler waits for `program_finished`: main is still before the joins
      have hfin : s.fin = false := by
        cases hf : s.fin with
        | false => rfl
        | true =>
          exfalso; apply hen
          simp only [EnIn, hs1, Bool.true_and]
          cases hpc : s.inPc with
          | read => simp [hf]
          | write d => rfl
          | close => rfl
          | isSet b => cases b <;> simp [hf]
          | done => exact absurd hpc hs2
      have hpre : preJoin s.mainPc = true := by
        rcases hw.finOrPre with h | h | h
        · rw [hfin] at h; cases h
        · exact h
        · rw [hs1] at h; cases h
      refine ⟨.main, ?_⟩
      simp only [En, EnMain]
      cases hm : s.mainPc <;> simp_all [preJoin]
  · have hsd : s.hasStdin = false ∨ s.inPc = .done := by
      cases hh : s.hasStdin with
      | false => exact Or.inl rfl
      | true =>
        right
        cases hc : s.inPc with
        | done => rfl
        | read => exact absurd ⟨hh, by simp [hc]⟩ hs
        | write d => exact absurd ⟨hh, by simp [hc]⟩ hs
        | close => exact absurd ⟨hh, by simp [hc]⟩ hs
        | isSet b => exact absurd ⟨hh, by simp [hc]⟩ hs
    have hmd : s.mainPc ≠ .done := fun hm => hn ⟨hm, hod, hed, hsd⟩
    refine ⟨.main, ?_⟩
    simp only [En, EnMain]
    cases hm : s.mainPc with
    | done => exact absurd hm hmd
    | join i n tmo =>
      simp only []
      cases hj : s.joinOrder[i]? with
      | none => rfl
      | some a =>
        simp only [Bool.or_eq_true]
        left
        rcases joinOrder_mem s a i hj with h | ⟨h, _⟩ | ⟨h, hpty⟩
        · subst h; simpa [S.finished] using hod
        · subst h
          rcases hsd with h | h
          · simp [S.finished, h]
          · simp [S.finished, h]
        · subst h
          rcases hed with h | h
          · rw [hpty] at h; cases h
          · simp [S.finished, h]
    | idle => rfl
    | poll => rfl
    | pollDead b => rfl
    | sendIntr => rfl
    | settleCheck => rfl
    | settleCancel => rfl
    | setFin => rfl
    | checkTimeout => rfl
    | stop => rfl

theorem readerStep_mono (n : Nat) (p : Pipe) (pc : RdPc) (cap : List Chunk) (h : S.rdDone pc = true) :
    S.rdDone (readerStep n p pc cap).2.1 = true := by
  unfold readerStep; cases pc <;> simp_all [S.rdDone]

theorem timerStep_frame (s : S) :
    (timerStep s).outPc = s.outPc ∧ (timerStep s).errPc = s.errPc ∧ (timerStep s).inPc = s.inPc ∧
    (timerStep s).inScript = s.inScript ∧ (timerStep s).inClosed = s.inClosed ∧ (timerStep s).fin = s.fin ∧
    (timerStep s).mainPc = s.mainPc ∧ (timerStep s).opts = s.opts := by
  unfold timerStep
  split
  · simp
  · split
    · simp [S.opts]
    · split
      · simp [S.opts]
      · have k := killEffect_stdin_frame s
        have ko := opts_kill s
        have km : (killEffect s).mainPc = s.mainPc ∧ (killEffect s).outPc = s.outPc ∧ (killEffect s).errPc = s.errPc := by
          unfold killEffect; split <;> simp
        simp only [S.opts] at ko ⊢
        simp_all
    · simp [S.opts]
    · simp

theorem finished_congr (s t : S) (a : Actor) (ho : t.opts = s.opts)
    (h1 : S.rdDone s.outPc = true → S.rdDone t.outPc = true)
    (h2 : S.rdDone s.errPc = true → S.rdDone t.errPc = true)
    (h3 : s.inPc = .done → t.inPc = .done)
    (hm : a ≠ .main) (ht : a ≠ .timer) (hf : s.finished a = true) : t.finished a = true := by
  simp only [S.opts, Prod.mk.injEq] at ho
  cases a with
  | main => exact absurd rfl hm
  | timer => exact absurd rfl ht
  | out => simpa [S.finished] using h1 (by simpa [S.finished] using hf)
  | err =>
    simp only [S.finished, Bool.or_eq_true] at hf ⊢
    rcases hf with h | h
    · exact Or.inl (by rw [ho.2.2.2.1]; exact h)
    · exact Or.inr (h2 h)
  | stdin =>
    simp only [S.finished, Bool.or_eq_true, Bool.not_eq_true', decide_eq_true_eq] at hf ⊢
    rcases hf with h | h
    · exact Or.inl (by rw [ho.1]; exact h)
    · exact Or.inr (h3 h)

theorem enMain_congr (s t : S) (ho : t.opts = s.opts) (hm : t.mainPc = s.mainPc)
    (h1 : S.rdDone s.outPc = true → S.rdDone t.outPc = true)
    (h2 : S.rdDone s.errPc = true → S.rdDone t.errPc = true)
    (h3 : s.inPc = .done → t.inPc = .done) (he : EnMain s = true) : EnMain t = true := by
  unfold EnMain at he ⊢
  rw [hm, joinOrder_congr s t ho]
  cases hpc : s.mainPc with
  | join i n tmo =>
    simp only [hpc] at he ⊢
    cases hj : s.joinOrder[i]? with
    | none => rfl
    | some a =>
      simp only [hj, Bool.or_eq_true] at he ⊢
      rcases he with h | h
      · left
        rcases joinOrder_mem s a i hj with e | ⟨e, _⟩ | ⟨e, _⟩ <;> subst e <;>
          exact finished_congr s t _ ho h1 h2 h3 (by simp) (by simp) h
      · exact Or.inr h
  | done => simp [hpc] at he
  | idle => rfl
  | poll => rfl
  | pollDead b => rfl
  | sendIntr => rfl
  | settleCheck => rfl
  | settleCancel => rfl
  | setFin => rfl
  | checkTimeout => rfl
  | stop => rfl

theorem enIn_congr (s t : S) (ho : t.opts = s.opts) (h2 : t.inPc = s.inPc) (h3 : t.inScript = s.inScript)
    (h5 : t.inClosed = s.inClosed) (h6 : s.fin = true → t.fin = true) (he : EnIn s = true) : EnIn t = true := by
  simp only [S.opts, Prod.mk.injEq] at ho
  unfold EnIn canClose at he ⊢
  rw [ho.1, h2, h3, h5, ho.2.2.2.1]
  simp only [Bool.and_eq_true] at he ⊢
  refine ⟨he.1, ?_⟩
  have he2 := he.2
  cases hpc : s.inPc with
  | read =>
    simp only [hpc] at he2 ⊢
    cases hf : s.fin with
    | true => simp [h6 hf]
    | false => simp only [hf] at he2; cases htf : t.fin <;> simp_all
  | isSet b =>
    cases b with
    | true => rfl
    | false => simp only [hpc] at he2 ⊢; exact h6 he2
  | write d => rfl
  | close => rfl
  | done => simp [hpc] at he2

theorem en_err_iff (s : S) : En s .err = true ↔ s.pty = false ∧ s.errPc = .read := by
  simp [En]

theorem en_err_congr (s t : S) (ho : t.opts = s.opts) (h : t.errPc = s.errPc) (he : En s .err = true) : En t .err = true := by
  simp only [S.opts, Prod.mk.injEq] at ho
  rw [en_err_iff] at he ⊢
  rw [ho.2.2.2.1, h]; exact he

theorem en_stable (s : S) (a b : Actor) (he : En s a = true) (hab : b ≠ a) : En (step s b) a = true := by
  have ho := opts_step s b
  cases b with
  | out =>
    have hpc : S.rdDone s.outPc = true → S.rdDone (step s .out).outPc = true := readerStep_mono _ _ _ _
    cases a with
    | out => exact absurd rfl hab
    | err => exact en_err_congr s _ ho rfl he
    | timer => simp [En] at he
    | stdin => exact enIn_congr s _ ho rfl rfl rfl (fun h => h) (by simpa [En] using he)
    | main => exact enMain_congr s _ ho rfl hpc (fun h => h) (fun h => h) (by simpa [En] using he)
  | err =>
    have hpc : S.rdDone s.errPc = true → S.rdDone (step s .err).errPc = true := by
      simp only [step]; split
      · exact fun h => h
      · exact readerStep_mono _ _ _ _
    have hfr : (step s .err).outPc = s.outPc ∧ (step s .err).inPc = s.inPc ∧ (step s .err).inScript = s.inScript ∧
        (step s .err).inClosed = s.inClosed ∧ (step s .err).fin = s.fin ∧ (step s .err).mainPc = s.mainPc := by
      simp only [step]; split <;> simp
    obtain ⟨f1, f2, f3, f4, f5, f6⟩ := hfr
    have q1 : S.rdDone s.outPc = true → S.rdDone (step s .err).outPc = true := by rw [f1]; exact fun h => h
    have q3 : s.inPc = .done → (step s .err).inPc = .done := by rw [f2]; exact fun h => h
    have q6 : s.fin = true → (step s .err).fin = true := by rw [f5]; exact fun h => h
    cases a with
    | err => exact absurd rfl hab
    | out => simpa [En, f1] using he
    | timer => simp [En] at he
    | stdin => exact enIn_congr s _ ho f2 f3 f4 q6 (by simpa [En] using he)
    | main => exact enMain_congr s _ ho f6 q1 hpc q3 (by simpa [En] using he)
  | timer =>
    obtain ⟨t1, t2, t3, t4, t5, t6, t7, _⟩ := timerStep_frame s
    have q1 : S.rdDone s.outPc = true → S.rdDone (step s .timer).outPc = true := by simp only [step]; rw [t1]; exact fun h => h
    have q2 : S.rdDone s.errPc = true → S.rdDone (step s .timer).errPc = true := by simp only [step]; rw [t2]; exact fun h => h
    have q3 : s.inPc = .done → (step s .timer).inPc = .done := by simp only [step]; rw [t3]; exact fun h => h
    have q6 : s.fin = true → (step s .timer).fin = true := by simp only [step]; rw [t6]; exact fun h => h
    cases a with
    | timer => exact absurd rfl hab
    | out => simpa [En, step, t1] using he
    | err => exact en_err_congr s _ ho t2 he
    | stdin => exact enIn_congr s _ ho t3 t4 t5 q6 (by simpa [En] using he)
    | main => exact enMain_congr s _ ho t7 q1 q2 q3 (by simpa [En] using he)
  | stdin =>
    obtain ⟨f1, f2, f3, f4, _, _⟩ := stdinStep_frame s
    obtain ⟨m1, _, _, _, _⟩ := stdinStep_mainframe s
    have hd : s.inPc = .done → (step s .stdin).inPc = .done := by
      intro h; simp only [step]; unfold stdinStep; split
      · exact h
      · simp [h]
    have q1 : S.rdDone s.outPc = true → S.rdDone (step s .stdin).outPc = true := by simp only [step]; rw [f3]; exact fun h => h
    have q2 : S.rdDone s.errPc = true → S.rdDone (step s .stdin).errPc = true := by simp only [step]; rw [f4]; exact fun h => h
    cases a with
    | stdin => exact absurd rfl hab
    | out => simpa [En, step, f3] using he
    | err => exact en_err_congr s _ ho f4 he
    | timer => simp [En] at he
    | main => exact enMain_congr s _ ho m1 q1 q2 hd (by simpa [En] using he)
  | main =>
    obtain ⟨_, _, f3, f4, _, _⟩ := mainStep_frame s
    obtain ⟨_, g2, g3, _, g5, _, g7⟩ := mainStep_stdin_frame s
    cases a with
    | main => exact absurd rfl hab
    | out => simpa [En, step, f3] using he
    | err => exact en_err_congr s _ ho f4 he
    | timer => simp [En] at he
    | stdin => exact enIn_congr s _ ho g2 g3 g5 g7 (by simpa [En] using he)

/-! ### rounds -/

structure Good (s : S) : Prop where
  env : EnvDone s
  wf : TermWF s

theorem good_step (s : S) (a : Actor) (h : Good s) : Good (step s a) :=
  ⟨envDone_step s a h.env, termWF_step s a h.wf⟩

def runRound (s : S) (r : List Actor) : S := r.foldl step s

theorem good_round (s : S) (r : List Actor) (h : Good s) : Good (runRound s r) := by
  induction r generalizing s with
  | nil => exact h
  | cons a r ih => exact ih _ (good_step s a h)

theorem round_le (s : S) (r : List Actor) (h : Good s) : mu (runRound s r) ≤ mu s := by
  induction r generalizing s with
  | nil => exact Nat.le_refl _
  | cons a r ih => exact Nat.le_trans (ih _ (good_step s a h)) (step_mu_le s a h.env h.wf)

theorem round_dec_of (s : S) (r : List Actor) (a : Actor) (h : Good s) (hd : En s a = true) (ha : a ∈ r) :
    mu (runRound s r) < mu s := by
  induction r generalizing s with
  | nil => cases ha
  | cons b r ih =>
    by_cases hb : b = a
    · subst hb
      exact Nat.lt_of_le_of_lt (round_le _ r (good_step s b h)) (step_mu_lt s b h.env h.wf hd)
    · have ha' : a ∈ r := by
        cases ha with
        | head => exact absurd rfl hb
        | tail _ h' => exact h'
      exact Nat.lt_of_lt_of_le (ih _ (good_step s b h) (en_stable s a b hd hb) ha') (step_mu_le s b h.env h.wf)

/-- a round is fair when every thread of the runner occurs in it (the timer need not) -/
def Covers (r : List Actor) : Prop := ∀ a : Actor, a ≠ .timer → a ∈ r

theorem round_decreases (s : S) (r : List Actor) (h : Good s) (hn : ¬ Terminal s) (hc : Covers r) :
    mu (runRound s r) < mu s := by
  obtain ⟨a, hd⟩ := progress s h.wf hn
  have hat : a ≠ .timer := by intro e; subst e; simp [En] at hd
  exact round_dec_of s r a h hd (hc a hat)

theorem terminal_step (s : S) (a : Actor) (h : Terminal s) : Terminal (step s a) := by
  obtain ⟨h1, h2, h3, h4⟩ := h
  have ho := opts_step s a
  simp only [S.opts, Prod.mk.injEq] at ho
  cases a with
  | out =>
    exact ⟨h1, readerStep_mono _ _ _ _ h2, h3, h4⟩
  | err =>
    simp only [step]; split
    · exact ⟨h1, h2, h3, h4⟩
    · refine ⟨h1, h2, ?_, h4⟩
      rcases h3 with h | h
      · exact Or.inl h
      · exact Or.inr (readerStep_mono _ _ _ _ h)
  | timer =>
    obtain ⟨t1, t2, t3, _, _, _, t7, _⟩ := timerStep_frame s
    refine ⟨by simp only [step]; rw [t7]; exact h1, by simp only [step]; rw [t1]; exact h2, ?_, ?_⟩
    · rcases h3 with h | h
      · exact Or.inl (by rw [ho.2.2.2.1]; exact h)
      · exact Or.inr (by simp only [step]; rw [t2]; exact h)
    · rcases h4 with h | h
      · exact Or.inl (by rw [ho.1]; exact h)
      · exact Or.inr (by simp only [step]; rw [t3]; exact h)
  | stdin =>
    obtain ⟨_, _, f3, f4, _, _⟩ := stdinStep_frame s
    obtain ⟨m1, _, _, _, _⟩ := stdinStep_mainframe s
    refine ⟨by simp only [step]; rw [m1]; exact h1, by simp only [step]; rw [f3]; exact h2, ?_, ?_⟩
    · rcases h3 with h | h
      · exact Or.inl (by rw [ho.2.2.2.1]; exact h)
      · exact Or.inr (by simp only [step]; rw [f4]; exact h)
    · rcases h4 with h | h
      · exact Or.inl (by rw [ho.1]; exact h)
      · right; simp only [step]; unfold stdinStep; split
        · exact h
        · simp [h]
  | main =>
    have : mainStep s = s := by simp [mainStep, h1]
    simp only [step]; rw [this]; exact ⟨h1, h2, h3, h4⟩

theorem terminal_round (s : S) (r : List Actor) (h : Terminal s) : Terminal (runRound s r) := by
  induction r generalizing s with
  | nil => exact h
  | cons a r ih => exact ih _ (terminal_step s a h)

theorem good_rounds (rs : List (List Actor)) (s : S) (h : Good s) : Good (rs.foldl runRound s) := by
  induction rs generalizing s with
  | nil => exact h
  | cons r rs ih => exact ih _ (good_round s r h)

/-- after `n` covering rounds the measure dropped by `n`, or the run is over -/
theorem rounds_bound (rs : List (List Actor)) (s : S) (h : Good s) (hc : ∀ r ∈ rs, Covers r) :
    Terminal (rs.foldl runRound s) ∨ mu (rs.foldl runRound s) + rs.length ≤ mu s := by
  induction rs generalizing s with
  | nil => right; simp
  | cons r rs ih =>
    by_cases ht : Terminal s
    · left
      have hpres : ∀ (rs : List (List Actor)) (s : S), Terminal s → Terminal (rs.foldl runRound s) := by
        intro rs
        induction rs with
        | nil => intro s h; exact h
        | cons r rs ih2 => intro s h; exact ih2 _ (terminal_round s r h)
      exact hpres (r :: rs) s ht
    · have hdec := round_decreases s r h ht (hc r (List.mem_cons_self ..))
      rcases ih (runRound s r) (good_round s r h) (fun r' hr' => hc r' (List.mem_cons_of_mem _ hr')) with h1 | h1
      · exact Or.inl h1
      · right
        simp only [List.foldl_cons, List.length_cons]
        omega

/-! ### reachable states -/

theorem termWF_env (s : S) (e : EnvAct) (h : TermWF s) : TermWF (envStep s e) := by
  obtain ⟨h1, h2⟩ := h
  cases e <;> simp only [envStep] <;> (try split) <;> exact ⟨h1, h2⟩

theorem termWF_run (s : S) (evs : List Ev) (h : TermWF s) : TermWF (run s evs) := by
  induction evs generalizing s with
  | nil => exact h
  | cons e r ih =>
    simp only [run, List.foldl_cons] at ih ⊢
    apply ih
    cases e with
    | act a => exact termWF_step s a h
    | env e => exact termWF_env s e h

theorem termWF_init (hi ht w p e : Bool) (o er : List Chunk) (ins : List InItem) (ho sf : Bool) (n : Nat) (asy : Bool) :
    TermWF (S.init hi ht w p e o er ins ho sf n asy) := by
  refine ⟨?_, by simp [S.init]⟩
  cases sf <;> cases asy <;> simp [S.init, preJoin]

/-- once `run` has returned the timer is no longer armed -/
structure DoneDisarmed (s : S) : Prop where
  done : s.mainPc = .done → s.tmPc ≠ .armed
  noTimer : s.hasTimer = false → s.tmPc = .none
  startFails : s.startFails = true → s.tmPc = .none

theorem doneDisarmed_step (s : S) (a : Actor) (h : DoneDisarmed s) : DoneDisarmed (step s a) := by
  obtain ⟨h1, h2, h3⟩ := h
  cases a with
  | out => exact ⟨h1, h2, h3⟩
  | err => simp only [step]; split <;> exact ⟨h1, h2, h3⟩
  | stdin =>
    obtain ⟨m1, _, _, _, _⟩ := stdinStep_mainframe s
    have ho := opts_stdin s
    simp only [S.opts, Prod.mk.injEq] at ho
    have ht : (stdinStep s).tmPc = s.tmPc := by unfold stdinStep; (repeat' split) <;> rfl
    constructor
    · simp only [step]; rw [m1, ht]; exact h1
    · simp only [step]; rw [ho.2.1, ht]; exact h2
    · simp only [step]; rw [ho.2.2.2.2.2.2.1, ht]; exact h3
  | timer =>
    obtain ⟨_, _, _, _, _, _, t7, to⟩ := timerStep_frame s
    simp only [S.opts, Prod.mk.injEq] at to
    have key : (timerStep s).tmPc ≠ .armed ∧ (s.tmPc = .none → (timerStep s).tmPc = .none) := by
      unfold timerStep
      split
      · rename_i hh
        have : s.hasTimer = false := by simpa using hh
        rw [h2 this]; simp
      · split <;> (try split) <;> simp_all
    constructor
    · intro _; simp only [step]; exact key.1
    · intro hf; simp only [step] at hf ⊢; rw [to.2.1] at hf; exact key.2 (h2 hf)
    · intro hs; simp only [step] at hs ⊢; rw [to.2.2.2.2.2.2.1] at hs; exact key.2 (h3 hs)
  | main =>
    have ho := opts_main s
    simp only [S.opts, Prod.mk.injEq] at ho
    by_cases hd : s.mainPc = .done
    · have : mainStep s = s := by simp [mainStep, hd]
      simp only [step]; rw [this]; exact ⟨h1, h2, h3⟩
    · have key : (mainStep s).tmPc = s.tmPc ∨ ((mainStep s).tmPc = .cancelled ∧ s.tmPc = .armed) := by
        unfold mainStep nextJoin enterJoin afterJoins leaveWait
        cases s.mainPc <;> simp only [] <;> (repeat' split) <;> simp_all
      have key2 : (mainStep s).mainPc = .done → s.mainPc = .stop ∨ (s.hasTimer = false) ∨ s.startFails = true := by
        unfold mainStep nextJoin enterJoin afterJoins leaveWait
        cases hm : s.mainPc <;> simp only [] <;> (repeat' split) <;> simp_all
      constructor
      · intro hdone
        simp only [step] at hdone ⊢
        rcases key with k | ⟨k, _⟩
        · rw [k]
          rcases key2 hdone with hs | hs | hs
          · intro ha
            have : (mainStep s).tmPc = .cancelled := by simp [mainStep, hs, ha]
            rw [k, ha] at this; cases this
          · rw [h2 hs]; simp
          · rw [h3 hs]; simp
        · rw [k]; simp
      · intro hf
        simp only [step] at hf ⊢
        rw [ho.2.1] at hf
        rcases key with k | ⟨_, k⟩
        · rw [k]; exact h2 hf
        · have := h2 hf; rw [k] at this; cases this
      · intro hs
        simp only [step] at hs ⊢
        rw [ho.2.2.2.2.2.2.1] at hs
        rcases key with k | ⟨_, k⟩
        · rw [k]; exact h3 hs
        · have := h3 hs; rw [k] at this; cases this

theorem doneDisarmed_env (s : S) (e : EnvAct) (h : DoneDisarmed s) : DoneDisarmed (envStep s e) := by
  obtain ⟨h1, h2, h3⟩ := h
  cases e <;> simp only [envStep] <;> (try split) <;> exact ⟨h1, h2, h3⟩

theorem doneDisarmed_run (s : S) (evs : List Ev) (h : DoneDisarmed s) : DoneDisarmed (run s evs) := by
  induction evs generalizing s with
  | nil => exact h
  | cons e r ih =>
    simp only [run, List.foldl_cons] at ih ⊢
    apply ih
    cases e with
    | act a => exact doneDisarmed_step s a h
    | env e => exact doneDisarmed_env s e h

theorem doneDisarmed_init (hi ht w p e : Bool) (o er : List Chunk) (ins : List InItem) (ho sf : Bool) (n : Nat) (asy : Bool) :
    DoneDisarmed (S.init hi ht w p e o er ins ho sf n asy) := by
  cases ht <;> cases sf <;> cases asy <;> constructor <;> simp [S.init]

end Inv
