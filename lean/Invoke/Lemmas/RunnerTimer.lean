import Invoke.Lemmas.RunnerStdin
/-! Helper lemmas about the timeout timer of the runner transition system (C14): the bookkeeping
    invariant `TimerInv` (kill issued / kill skipped / timer disarmed early vs. timer and main-thread
    program counters) is preserved by every step of every actor and of the environment. -/
namespace Inv

def timerFired (t : TmPc) : Bool := t = .finish || t = .done

def pastWait : MainPc → Bool
  | .idle | .poll | .pollDead _ | .sendIntr => false
  | _ => true
def pastSettle : MainPc → Bool
  | .idle | .poll | .pollDead _ | .sendIntr | .settleCheck | .settleCancel => false
  | _ => true
def decided : MainPc → Bool
  | .stop | .done => true
  | _ => false

structure TimerInv (s : S) : Prop where
  kills : s.kills = (if s.killIssued then 1 else 0)
  fired : timerFired s.tmPc = (s.killIssued || s.killSkipped)
  skippedDone : s.killSkipped = true → s.processDone = true
  cancelled : s.tmPc = .cancelled → s.mainPc = .done ∨ s.early = true
  noneIff : s.tmPc = .none ↔ (s.hasTimer = false ∨ s.startFails = true)
  pcTimer : (s.mainPc = .settleCheck ∨ s.mainPc = .settleCancel ∨ s.mainPc = .checkTimeout) → s.hasTimer = true
  settle : (s.mainPc = .settleCheck ∨ s.mainPc = .settleCancel) →
    s.processDone = true ∧ s.killIssued = false ∧ s.early = false
  startFailsDone : s.startFails = true → s.mainPc = .done
  earlyPast : s.early = true → pastSettle s.mainPc = true ∧ s.processDone = true ∧ s.killIssued = false
  settled : s.hasTimer = true → pastSettle s.mainPc = true → s.processDone = true →
    s.killIssued = true ∨ s.early = true
  waitDead : s.startFails = false → pastWait s.mainPc = true → s.processDone = false → s.anyDead = true
  check : s.mainPc = .checkTimeout → s.killIssued = false ∧ s.processDone = true
  decidedDone : decided s.mainPc = true → s.startFails = false → s.outcome ≠ .threadExc → s.processDone = true
  timedOutIssued : ∀ rc, s.outcome = .timedOut rc → s.killIssued = true
  issuedTimedOut : decided s.mainPc = true → s.killIssued = true →
    s.outcome = .threadExc ∨ ∃ rc, s.outcome = .timedOut rc
  doneExited : s.processDone = true → s.exited = true
  pollFin : s.mainPc = .pollDead true → s.exited = true
  late : s.killsAfterReturn ≤ s.kills
  lateExc : 0 < s.killsAfterReturn → s.outcome = .threadExc
  lateDone : 0 < s.killsAfterReturn → s.mainPc = .done

theorem timerInv_env (s : S) (e : EnvAct) (h : TimerInv s) : TimerInv (envStep s e) := by
  obtain ⟨h1, h2, h3, h4, h5, h6, h7, h8, h9, h10, h11, h12, h13, h14, h15, h16, h17, h18, h19, h20⟩ := h
  cases e <;> simp only [envStep] <;> (try split) <;>
    first
    | exact ⟨h1, h2, h3, h4, h5, h6, h7, h8, h9, h10, h11, h12, h13, h14, h15, h16, h17, h18, h19, h20⟩
    | (constructor <;> simp_all [S.anyDead])

theorem timerInv_stdin (s : S) (h : TimerInv s) : TimerInv (stdinStep s) := by
  obtain ⟨h1, h2, h3, h4, h5, h6, h7, h8, h9, h10, h11, h12, h13, h14, h15, h16, h17, h18, h19, h20⟩ := h
  unfold stdinStep
  (repeat' split) <;> exact ⟨h1, h2, h3, h4, h5, h6, h7, h8, h9, h10, h11, h12, h13, h14, h15, h16, h17, h18, h19, h20⟩

theorem readerStep_dead (n : Nat) (p : Pipe) (cap : List Chunk) : (readerStep n p .dead cap).2.1 = .dead := rfl

theorem anyDead_out (s : S) (h : s.anyDead = true) : (step s .out).anyDead = true := by
  simp only [S.anyDead, Bool.or_eq_true, decide_eq_true_eq, Bool.and_eq_true, Bool.not_eq_true'] at h ⊢
  simp only [step]
  rcases h with h | h
  · left; rw [h]; rfl
  · right; exact h

theorem anyDead_err (s : S) (h : s.anyDead = true) : (step s .err).anyDead = true := by
  simp only [step]
  split
  · exact h
  · simp only [S.anyDead, Bool.or_eq_true, decide_eq_true_eq, Bool.and_eq_true, Bool.not_eq_true'] at h ⊢
    rcases h with h | h
    · left; exact h
    · right; refine ⟨h.1, ?_⟩; rw [h.2]; rfl

theorem timerInv_reader_out (s : S) (h : TimerInv s) : TimerInv (step s .out) := by
  obtain ⟨h1, h2, h3, h4, h5, h6, h7, h8, h9, h10, h11, h12, h13, h14, h15, h16, h17, h18, h19, h20⟩ := h
  exact ⟨h1, h2, h3, h4, h5, h6, h7, h8, h9, h10, fun a b c => anyDead_out s (h11 a b c), h12, h13, h14, h15, h16, h17, h18, h19, h20⟩

theorem timerInv_reader_err (s : S) (h : TimerInv s) : TimerInv (step s .err) := by
  have hd := anyDead_err s
  obtain ⟨h1, h2, h3, h4, h5, h6, h7, h8, h9, h10, h11, h12, h13, h14, h15, h16, h17, h18, h19, h20⟩ := h
  cases hp : s.pty with
  | true =>
    simp only [step, hp, if_true]
    exact ⟨h1, h2, h3, h4, h5, h6, h7, h8, h9, h10, h11, h12, h13, h14, h15, h16, h17, h18, h19, h20⟩
  | false =>
    simp only [step, hp] at hd ⊢
    exact ⟨h1, h2, h3, h4, h5, h6, h7, h8, h9, h10, fun a b c => hd (h11 a b c), h12, h13, h14, h15, h16, h17, h18, h19, h20⟩

theorem killEffect_timer_frame (s : S) :
    (killEffect s).tmPc = s.tmPc ∧ (killEffect s).mainPc = s.mainPc ∧ (killEffect s).hasTimer = s.hasTimer ∧
    (killEffect s).startFails = s.startFails ∧ (killEffect s).outcome = s.outcome ∧
    (killEffect s).kills = s.kills ∧ (killEffect s).killsAfterReturn = s.killsAfterReturn ∧
    (killEffect s).processDone = s.processDone ∧ (killEffect s).killIssued = s.killIssued ∧
    (killEffect s).killSkipped = s.killSkipped ∧ (killEffect s).early = s.early ∧
    (killEffect s).outPc = s.outPc ∧ (killEffect s).errPc = s.errPc ∧ (killEffect s).pty = s.pty ∧
    (s.exited = true → (killEffect s).exited = true) := by
  unfold killEffect; split <;> simp

theorem timerInv_timer (s : S) (h : TimerInv s) : TimerInv (timerStep s) := by
  have h' := h
  obtain ⟨h1, h2, h3, h4, h5, h6, h7, h8, h9, h10, h11, h12, h13, h14, h15, h16, h17, h18, h19, h20⟩ := h
  unfold timerStep
  split
  · exact h'
  · rename_i hht
    have hht' : s.hasTimer = true := by simpa using hht
    split
    · rename_i ha
      constructor <;> simp_all [timerFired, S.anyDead]
    · rename_i hk
      split
      · rename_i hpd
        constructor <;> simp_all [timerFired, S.anyDead]
      · rename_i hpd
        obtain ⟨k1, k2, k3, k4, k5, k6, k7, k8, k9, k10, k11, k12, k13, k14, k15⟩ := killEffect_timer_frame s
        constructor <;> simp_all [timerFired, lateKill, S.anyDead]
        · split <;> omega
        · intro hd
          have hm : s.mainPc = .done := by
            by_cases hm : s.mainPc = .done
            · exact hm
            · simp [hm] at hd
          apply h13; rw [hm]; rfl
        · intro hd
          by_cases hm : s.mainPc = .done
          · exact hm
          · simp [hm] at hd
    · rename_i hf
      constructor <;> simp_all [timerFired, S.anyDead]
    · exact h'

theorem decideOutcome_false_ne (s : S) (rc : Int) : decideOutcome s false ≠ .timedOut rc := by
  unfold decideOutcome; simp only [Bool.false_eq_true, if_false]; split <;> simp

theorem decideOutcome_true (s : S) : decideOutcome s true = .timedOut s.rc := by
  simp [decideOutcome]

/-- the joins are over: `s` is at `setFin` or at a `join` -/
def joining : MainPc → Bool
  | .setFin | .join _ _ _ => true
  | _ => false

theorem joining_facts {pc : MainPc} (h : joining pc = true) :
    pastWait pc = true ∧ pastSettle pc = true ∧ decided pc = false ∧ pc ≠ .done ∧ pc ≠ .settleCheck ∧
    pc ≠ .settleCancel ∧ pc ≠ .checkTimeout := by
  cases pc <;> simp_all [joining, pastWait, pastSettle, decided]

theorem afterJoins_timer (s : S) (h : TimerInv s) (hm : joining s.mainPc = true) : TimerInv (afterJoins s) := by
  obtain ⟨h1, h2, h3, h4, h5, h6, h7, h8, h9, h10, h11, h12, h13, h14, h15, h16, h17, h18, h19, h20⟩ := h
  obtain ⟨j1, j2, j3, j4, j5, j6, j7⟩ := joining_facts hm
  have hsf : s.startFails = false := by
    cases hx : s.startFails with
    | false => rfl
    | true => exact absurd (h8 hx) j4
  have hk0 : s.killsAfterReturn = 0 := by
    rcases Nat.eq_zero_or_pos s.killsAfterReturn with h | h
    · exact h
    · exact absurd (h20 h) j4
  have hearly : s.early = true → s.processDone = true ∧ s.killIssued = false := fun he => (h9 he).2
  have hcanc : s.tmPc = .cancelled → s.early = true := fun hc => (h4 hc).resolve_left j4
  unfold afterJoins
  split
  · -- a worker died
    split
    · refine ⟨h1, h2, h3, fun hc => Or.inr (hcanc hc), h5, by simp, by simp, by simp [hsf],
        fun he => ⟨rfl, hearly he⟩, fun a _ c => h10 a j2 c, fun _ _ c => h11 hsf j1 c, by simp,
        by simp, by simp, by simp, h16, by simp, h18, by simp, by simp [hk0]⟩
    · refine ⟨h1, h2, h3, fun hc => Or.inr (hcanc hc), h5, by simp, by simp, by simp,
        fun he => ⟨rfl, hearly he⟩, fun a _ c => h10 a j2 c, fun _ _ c => h11 hsf j1 c, by simp,
        by simp, by simp, by simp, h16, by simp, h18, by simp, by simp [hk0]⟩
  · rename_i hnd
    have hpd : s.processDone = true := by
      cases hx : s.processDone with
      | true => rfl
      | false => exact absurd (h11 hsf j1 hx) hnd
    split
    · rename_i hht
      split
      · rename_i hki
        refine ⟨h1, h2, h3, fun hc => Or.inr (hcanc hc), h5, by simp, by simp, by simp [hsf],
          fun he => ⟨rfl, hearly he⟩, fun a _ c => h10 a j2 c, fun _ _ c => h11 hsf j1 c, by simp,
          fun _ _ _ => hpd, fun _ _ => hki, fun _ _ => Or.inr ⟨s.rc, decideOutcome_true s⟩, h16, by simp, h18,
          by simp [hk0], by simp [hk0]⟩
      · rename_i hki
        refine ⟨h1, h2, h3, fun hc => Or.inr (hcanc hc), h5, fun _ => hht, by simp, by simp [hsf],
          fun he => ⟨rfl, hearly he⟩, fun a _ c => h10 a j2 c, fun _ _ c => h11 hsf j1 c,
          fun _ => ⟨by simpa using hki, hpd⟩, by simp [decided], h14, by simp [decided], h16, by simp, h18,
          by simp [hk0], by simp [hk0]⟩
    · rename_i hht
      have hnone : s.tmPc = .none := h5.2 (Or.inl (by simpa using hht))
      have hki : s.killIssued = false := by
        have := h2; rw [hnone] at this; simp [timerFired] at this; exact this.1
      refine ⟨h1, h2, h3, fun hc => Or.inr (hcanc hc), h5, by simp, by simp, by simp,
        fun he => ⟨rfl, hearly he⟩, fun a _ c => h10 a j2 c, fun _ _ c => h11 hsf j1 c, by simp,
        fun _ _ _ => hpd, fun rc hrc => absurd hrc (decideOutcome_false_ne s rc), by simp [hki], h16, by simp, h18,
        by simp [hk0], by simp [hk0]⟩

theorem enterJoin_timer (s : S) (i : Nat) (h : TimerInv s) (hm : joining s.mainPc = true) :
    TimerInv (enterJoin s i) := by
  unfold enterJoin
  split
  · obtain ⟨h1, h2, h3, h4, h5, h6, h7, h8, h9, h10, h11, h12, h13, h14, h15, h16, h17, h18, h19, h20⟩ := h
    obtain ⟨j1, j2, j3, j4, j5, j6, j7⟩ := joining_facts hm
    have hsf : s.startFails = false := by
      cases hx : s.startFails with
      | false => rfl
      | true => exact absurd (h8 hx) j4
    have hk0 : s.killsAfterReturn = 0 := by
      rcases Nat.eq_zero_or_pos s.killsAfterReturn with h | h
      · exact h
      · exact absurd (h20 h) j4
    exact ⟨h1, h2, h3, fun hc => Or.inr ((h4 hc).resolve_left j4), h5, by simp, by simp, by simp [hsf],
      fun he => ⟨rfl, (h9 he).2⟩, fun a _ c => h10 a j2 c, fun _ _ c => h11 hsf j1 c, by simp,
      by simp [decided], h14, by simp [decided], h16, by simp, h18, h19, by simp [hk0]⟩
  · exact afterJoins_timer s h hm

theorem leaveWait_timer (s : S) (fin : Bool) (h : TimerInv s) (hpc : s.mainPc = .pollDead fin)
    (hx : s.processDone = false → s.anyDead = true) : TimerInv (leaveWait s) := by
  obtain ⟨h1, h2, h3, h4, h5, h6, h7, h8, h9, h10, h11, h12, h13, h14, h15, h16, h17, h18, h19, h20⟩ := h
  have hd : s.mainPc ≠ .done := by rw [hpc]; simp
  have hsf : s.startFails = false := by
    cases hx : s.startFails with
    | false => rfl
    | true => exact absurd (h8 hx) hd
  have hk0 : s.killsAfterReturn = 0 := by
    rcases Nat.eq_zero_or_pos s.killsAfterReturn with h | h
    · exact h
    · exact absurd (h20 h) hd
  have hcanc : s.tmPc = .cancelled → s.early = true := fun hc => (h4 hc).resolve_left hd
  have hne : s.early = false := by
    cases hx : s.early with
    | false => rfl
    | true => have := (h9 hx).1; simp [hpc, pastSettle] at this
  unfold leaveWait
  split
  · rename_i hc
    simp only [Bool.and_eq_true, Bool.not_eq_true'] at hc
    exact ⟨h1, h2, h3, fun hc => Or.inr (hcanc hc), h5, fun _ => hc.1.1, fun _ => ⟨hc.1.2, hc.2, hne⟩,
      by simp [hsf], by simp [hne], by simp [pastSettle], fun _ _ c => hx c, by simp, by simp [decided], h14,
      by simp [decided], h16, by simp, h18, h19, by simp [hk0]⟩
  · rename_i hc
    refine ⟨h1, h2, h3, fun hc => Or.inr (hcanc hc), h5, by simp, by simp,
      by simp [hsf], by simp [hne], ?_, fun _ _ c => hx c, by simp, by simp [decided], h14,
      by simp [decided], h16, by simp, h18, h19, by simp [hk0]⟩
    intro hht _ hpd
    left
    show s.killIssued = true
    have hht' : s.hasTimer = true := hht
    have hpd' : s.processDone = true := hpd
    cases hki : s.killIssued with
    | true => rfl
    | false => simp [hht', hpd', hki] at hc

theorem timerInv_main (s : S) (h : TimerInv s) : TimerInv (mainStep s) := by
  have h' := h
  obtain ⟨h1, h2, h3, h4, h5, h6, h7, h8, h9, h10, h11, h12, h13, h14, h15, h16, h17, h18, h19, h20⟩ := h
  by_cases hd : s.mainPc = .done
  · unfold mainStep; simp only [hd]; exact h'
  have hsf : s.startFails = false := by
    cases hx : s.startFails with
    | false => rfl
    | true => exact absurd (h8 hx) hd
  have hk0 : s.killsAfterReturn = 0 := by
    rcases Nat.eq_zero_or_pos s.killsAfterReturn with h | h
    · exact h
    · exact absurd (h20 h) hd
  have hcanc : s.tmPc = .cancelled → s.early = true := fun hc => (h4 hc).resolve_left hd
  unfold mainStep
  split
  · -- idle
    rename_i hpc
    have hne : s.early = false := by
      cases hx : s.early with
      | false => rfl
      | true => have := (h9 hx).1; simp [hpc, pastSettle] at this
    exact ⟨h1, h2, h3, fun hc => Or.inr (hcanc hc), h5, by simp, by simp, by simp [hsf],
      by simp [hne], by simp [pastSettle], by simp [pastWait], by simp, by simp [decided], h14,
      by simp [decided], h16, by simp, h18, h19, by simp [hk0]⟩
  · -- poll
    rename_i hpc
    have hne : s.early = false := by
      cases hx : s.early with
      | false => rfl
      | true => have := (h9 hx).1; simp [hpc, pastSettle] at this
    split
    · exact ⟨h1, h2, h3, fun hc => Or.inr (hcanc hc), h5, by simp, by simp, by simp [hsf],
        by simp [hne], by simp [pastSettle], by simp [pastWait], by simp, by simp [decided], h14,
        by simp [decided], h16, by simp, h18, h19, by simp [hk0]⟩
    · exact ⟨h1, h2, h3, fun hc => Or.inr (hcanc hc), h5, by simp, by simp, by simp [hsf],
        by simp [hne], by simp [pastSettle], by simp [pastWait], by simp, by simp [decided], h14,
        by simp [decided], h16, by simp, h18, h19, by simp [hk0]⟩
  · -- sendIntr
    rename_i hpc
    have hne : s.early = false := by
      cases hx : s.early with
      | false => rfl
      | true => have := (h9 hx).1; simp [hpc, pastSettle] at this
    exact ⟨h1, h2, h3, fun hc => Or.inr (hcanc hc), h5, by simp, by simp, by simp [hsf],
      by simp [hne], by simp [pastSettle], by simp [pastWait], by simp, by simp [decided], h14,
      by simp [decided], h16, by simp, h18, h19, by simp [hk0]⟩
  · -- pollDead
    rename_i fin hpc
    have hne : s.early = false := by
      cases hx : s.early with
      | false => rfl
      | true => have := (h9 hx).1; simp [hpc, pastSettle] at this
    have hfx : fin = true → s.exited = true := fun hf => h17 (by rw [hpc, hf])
    split
    · rename_i hleave
      apply leaveWait_timer _ fin
      · refine ⟨h1, h2, ?_, h4, h5, h6, by simp [hpc], h8, by simp [hne], by simp [hpc, pastSettle],
          by simp [hpc, pastWait], by simp [hpc], by simp [hpc, decided], h14, h15, ?_, h17, h18, h19, h20⟩
        · intro hk; simp [h3 hk]
        · intro hpd
          simp only [Bool.or_eq_true] at hpd
          rcases hpd with hpd | hpd
          · exact h16 hpd
          · exact hfx hpd
      · exact hpc
      · intro hpd
        simp only [Bool.or_eq_false_iff] at hpd
        simpa [hpd.2, S.anyDead] using hleave
    · exact ⟨h1, h2, h3, fun hc => Or.inr (hcanc hc), h5, by simp, by simp, by simp [hsf],
        by simp [hne], by simp [pastSettle], by simp [pastWait], by simp, by simp [decided], h14,
        by simp [decided], h16, by simp, h18, h19, by simp [hk0]⟩
  · -- settleCheck
    rename_i hpc
    obtain ⟨s1, s2, s3⟩ := h7 (Or.inl hpc)
    have hht := h6 (Or.inl hpc)
    split
    · exact ⟨h1, h2, h3, fun hc => Or.inr (hcanc hc), h5, fun _ => hht, fun _ => ⟨s1, s2, s3⟩, by simp [hsf],
        by simp [s3], by simp [pastSettle], by simp [s1], by simp, by simp [decided], h14,
        by simp [decided], h16, by simp, h18, h19, by simp [hk0]⟩
    · rename_i hc
      -- the timer is not alive and no kill was skipped: impossible
      exfalso
      simp only [Bool.or_eq_true, not_or, Bool.not_eq_true] at hc
      have hfire := h2
      rw [s2, hc.2] at hfire
      cases ht : s.tmPc with
      | none => have := h5.1 ht; simp [hht, hsf] at this
      | cancelled => have := hcanc ht; simp [s3] at this
      | armed => simp [ht, timerAlive] at hc
      | kill => simp [ht, timerAlive] at hc
      | finish => simp [ht, timerAlive] at hc
      | done => simp [ht, timerFired] at hfire
  · -- settleCancel
    rename_i hpc
    obtain ⟨s1, s2, s3⟩ := h7 (Or.inr hpc)
    have hht := h6 (Or.inr (Or.inl hpc))
    refine ⟨h1, ?_, h3, fun _ => Or.inr rfl, ?_, by simp, by simp, by simp [hsf],
        fun _ => ⟨rfl, s1, s2⟩, fun _ _ _ => Or.inr rfl, by simp [s1], by simp, by simp [decided], h14,
        by simp [decided], h16, by simp, h18, h19, by simp [hk0]⟩
    · split
      · rename_i ha; simpa [timerFired, ha] using h2
      · exact h2
    · split
      · rename_i ha; have := h5; simp [ha] at this ⊢; exact this
      · exact h5
  · -- setFin
    rename_i hpc
    apply enterJoin_timer
    · exact ⟨h1, h2, h3, h4, h5, h6, h7, h8, h9, h10, h11, h12, h13, h14, h15, h16, h17, h18, h19, h20⟩
    · simp [hpc, joining]
  · -- join
    rename_i hpc
    have hj : joining s.mainPc = true := by simp [hpc, joining]
    split
    · exact afterJoins_timer s h' hj
    · split
      · exact enterJoin_timer s _ h' hj
      · split
        · exact enterJoin_timer s _ h' hj
        · obtain ⟨j1, j2, j3, j4, j5, j6, j7⟩ := joining_facts hj
          exact ⟨h1, h2, h3, fun hc => Or.inr (hcanc hc), h5, by simp, by simp, by simp [hsf],
            fun he => ⟨rfl, (h9 he).2⟩, fun a _ c => h10 a j2 c, fun _ _ c => h11 hsf j1 c, by simp,
            by simp [decided], h14, by simp [decided], h16, by simp, h18, h19, by simp [hk0]⟩
  · -- checkTimeout
    rename_i hpc
    obtain ⟨c1, c2⟩ := h12 hpc
    have hht := h6 (Or.inr (Or.inr hpc))
    have hearly : s.early = true := by
      rcases h10 hht (by simp [hpc, pastSettle]) c2 with h | h
      · simp [c1] at h
      · exact h
    have hb : (!timerAlive s.tmPc && !s.early) = false := by simp [hearly]
    rw [hb]
    exact ⟨h1, h2, h3, fun hc => Or.inr (hcanc hc), h5, by simp, by simp, by simp [hsf],
      fun he => ⟨rfl, (h9 he).2⟩, fun _ _ _ => Or.inr hearly, by simp [c2], by simp,
      fun _ _ _ => c2, fun rc hrc => absurd hrc (decideOutcome_false_ne s rc), by simp [c1], h16, by simp, h18,
      by simp [hk0], by simp [hk0]⟩
  · -- stop
    rename_i hpc
    refine ⟨h1, ?_, h3, fun _ => Or.inl rfl, ?_, by simp, by simp, by simp,
      fun he => ⟨rfl, (h9 he).2⟩, fun a _ c => h10 a (by simp [hpc, pastSettle]) c,
      fun a _ c => h11 a (by simp [hpc, pastWait]) c, by simp,
      fun _ a b => h13 (by simp [hpc, decided]) a b, h14, fun _ a => h15 (by simp [hpc, decided]) a, h16, by simp, h18,
      h19, by simp⟩
    · split
      · rename_i ha; simpa [timerFired, ha] using h2
      · exact h2
    · split
      · rename_i ha; have := h5; simp [ha] at this ⊢; exact this
      · exact h5
  · exact absurd (by assumption) hd

theorem timerInv_step (s : S) (a : Actor) (h : TimerInv s) : TimerInv (step s a) := by
  cases a with
  | main => exact timerInv_main s h
  | stdin => exact timerInv_stdin s h
  | timer => exact timerInv_timer s h
  | out => exact timerInv_reader_out s h
  | err => exact timerInv_reader_err s h

theorem timerInv_run (s : S) (evs : List Ev) (h : TimerInv s) : TimerInv (run s evs) := by
  induction evs generalizing s with
  | nil => exact h
  | cons e r ih =>
    simp only [run, List.foldl_cons] at ih ⊢
    apply ih
    cases e with
    | act a => exact timerInv_step s a h
    | env e => exact timerInv_env s e h

theorem timerInv_init (hi ht w p e : Bool) (o er : List Chunk) (ins : List InItem) (ho sf : Bool) (n : Nat) (asy : Bool) :
    TimerInv (S.init hi ht w p e o er ins ho sf n asy) := by
  cases ht <;> cases sf <;> cases asy <;> constructor <;> simp [S.init, timerFired, pastWait, pastSettle, decided]

/-! ### the command seen to have finished in time: stability -/

/-- "the main thread saw the subprocess ended before any kill was issued" -/
def Timely (s : S) : Prop := s.processDone = true ∧ s.killIssued = false

theorem timely_env (s : S) (e : EnvAct) (h : Timely s) : Timely (envStep s e) := by
  cases e <;> simp only [envStep] <;> (try split) <;> exact h

theorem timely_step (s : S) (a : Actor) (h : Timely s) : Timely (step s a) := by
  obtain ⟨h1, h2⟩ := h
  cases a with
  | out => exact ⟨h1, h2⟩
  | err => simp only [step]; split <;> exact ⟨h1, h2⟩
  | stdin => simp only [step]; unfold stdinStep; (repeat' split) <;> exact ⟨h1, h2⟩
  | timer =>
    simp only [step]; unfold timerStep
    split
    · exact ⟨h1, h2⟩
    · split
      · exact ⟨h1, h2⟩
      · first
        | exact ⟨h1, h2⟩
        | (split
           · exact ⟨h1, h2⟩
           · rename_i hn; exact absurd h1 hn)
      · exact ⟨h1, h2⟩
      · exact ⟨h1, h2⟩
  | main =>
    simp only [step, Timely]
    unfold mainStep nextJoin enterJoin afterJoins leaveWait
    cases s.mainPc <;> simp only [] <;> (repeat' split) <;> simp_all

theorem timely_run (s : S) (evs : List Ev) (h : Timely s) : Timely (run s evs) := by
  induction evs generalizing s with
  | nil => exact h
  | cons e r ih =>
    simp only [run, List.foldl_cons] at ih ⊢
    apply ih
    cases e with
    | act a => exact timely_step s a h
    | env e => exact timely_env s e h

/-- once the subprocess has been seen ended, its exit status never changes again -/
theorem rc_frozen_step (s : S) (e : Ev) (hx : s.exited = true) : (evStep s e).rc = s.rc ∧ (evStep s e).exited = true := by
  cases e with
  | env e => cases e <;> simp only [evStep, envStep] <;> (try split) <;> simp_all
  | act a =>
    cases a with
    | out => exact ⟨rfl, hx⟩
    | err => simp only [evStep, step]; split <;> exact ⟨rfl, hx⟩
    | stdin => simp only [evStep, step]; unfold stdinStep; (repeat' split) <;> exact ⟨rfl, hx⟩
    | timer =>
      simp only [evStep, step]; unfold timerStep killEffect
      (repeat' split) <;> simp_all
    | main =>
      simp only [evStep, step]
      unfold mainStep nextJoin enterJoin afterJoins leaveWait
      cases s.mainPc <;> simp only [] <;> (repeat' split) <;> simp_all

theorem rc_frozen_run (s : S) (evs : List Ev) (hx : s.exited = true) : (run s evs).rc = s.rc ∧ (run s evs).exited = true := by
  induction evs generalizing s with
  | nil => exact ⟨rfl, hx⟩
  | cons e r ih =>
    simp only [run, List.foldl_cons] at ih ⊢
    obtain ⟨k1, k2⟩ := rc_frozen_step s e hx
    obtain ⟨i1, i2⟩ := ih (evStep s e) k2
    exact ⟨by rw [i1, k1], i2⟩

/-! ### the shape of the outcome once `_finish` has decided -/

def OutcomeShape (s : S) : Prop :=
  decided s.mainPc = true → s.startFails = false →
    s.outcome = .threadExc ∨ (∃ rc, s.outcome = .timedOut rc) ∨ s.outcome = decideOutcome s false

theorem decideOutcome_congr (s t : S) (b : Bool) (h1 : t.rc = s.rc) (h2 : t.warn = s.warn) :
    decideOutcome t b = decideOutcome s b := by
  simp [decideOutcome, h1, h2]

theorem decideOutcome_false_ne_exc (s : S) : decideOutcome s false ≠ .threadExc := by
  unfold decideOutcome; simp only [Bool.false_eq_true, if_false]; split <;> simp

theorem decideOutcome_cases (s : S) (b : Bool) :
    (∃ rc, decideOutcome s b = .timedOut rc) ∨ decideOutcome s b = decideOutcome s false := by
  cases b with
  | false => exact Or.inr rfl
  | true => exact Or.inl ⟨s.rc, decideOutcome_true s⟩

theorem main_decides (s : S) (hnd : decided s.mainPc = false) (hd : decided (mainStep s).mainPc = true) :
    (mainStep s).outcome = .threadExc ∨ (∃ rc, (mainStep s).outcome = .timedOut rc) ∨
    (mainStep s).outcome = decideOutcome (mainStep s) false := by
  revert hd
  unfold mainStep nextJoin enterJoin afterJoins leaveWait
  cases hpc : s.mainPc <;> simp only [] <;> (repeat' split) <;>
    simp_all [decided, decideOutcome]
  by_cases hb : timerAlive s.tmPc = false ∧ s.early = false
  · simp [hb]
  · right; right; intro h1 h2; exact absurd ⟨h1, h2⟩ hb

theorem decided_frame (s : S) (e : Ev) (hd : decided s.mainPc = true) :
    (evStep s e).outcome = s.outcome ∧ decided (evStep s e).mainPc = true ∧ (evStep s e).warn = s.warn ∧
    (evStep s e).startFails = s.startFails := by
  cases e with
  | env e => cases e <;> simp only [evStep, envStep] <;> (try split) <;> simp_all
  | act a =>
    cases a with
    | out => exact ⟨rfl, hd, rfl, rfl⟩
    | err => simp only [evStep, step]; split <;> exact ⟨rfl, hd, rfl, rfl⟩
    | stdin => simp only [evStep, step]; unfold stdinStep; (repeat' split) <;> exact ⟨rfl, hd, rfl, rfl⟩
    | timer =>
      simp only [evStep, step]; unfold timerStep killEffect
      (repeat' split) <;> simp_all
    | main =>
      simp only [evStep, step]
      unfold mainStep
      cases hpc : s.mainPc <;> simp_all [decided]

theorem undecided_stays (s : S) (e : Ev) (hnd : decided s.mainPc = false) (hd : decided (evStep s e).mainPc = true) :
    e = .act .main := by
  cases e with
  | env e => exfalso; cases e <;> simp only [evStep, envStep] at hd <;> (try split at hd) <;> simp_all
  | act a =>
    cases a with
    | main => rfl
    | out => exfalso; simp [evStep, step, hnd] at hd
    | err => exfalso; simp only [evStep, step] at hd; split at hd <;> simp_all
    | stdin =>
      exfalso; simp only [evStep, step] at hd; unfold stdinStep at hd
      (repeat' split at hd) <;> simp_all
    | timer =>
      exfalso; simp only [evStep, step] at hd; unfold timerStep killEffect at hd
      (repeat' split at hd) <;> simp_all

theorem outcomeShape_ev (s : S) (e : Ev) (ht : TimerInv s) (h : OutcomeShape s) : OutcomeShape (evStep s e) := by
  intro hd' hsf'
  by_cases hdec : decided s.mainPc = true
  · -- already decided: nothing that matters changes unless the outcome is the worker failure
    obtain ⟨f1, f2, f3, f4⟩ := decided_frame s e hdec
    have hsf : s.startFails = false := by rw [← f4]; exact hsf'
    rw [f1]
    rcases h hdec hsf with h | h | h
    · exact Or.inl h
    · exact Or.inr (Or.inl h)
    · right; right
      have hne : s.outcome ≠ .threadExc := by rw [h]; exact decideOutcome_false_ne_exc s
      have hx := ht.doneExited (ht.decidedDone hdec hsf hne)
      rw [h]; exact (decideOutcome_congr s (evStep s e) false (rc_frozen_step s e hx).1 f3).symm
  · have hnd : decided s.mainPc = false := by simpa using hdec
    have he := undecided_stays s e hnd hd'
    subst he
    exact main_decides s hnd hd'

theorem outcomeShape_run (s : S) (evs : List Ev) (ht : TimerInv s) (h : OutcomeShape s) : OutcomeShape (run s evs) := by
  induction evs generalizing s with
  | nil => exact h
  | cons e r ih =>
    simp only [run, List.foldl_cons] at ih ⊢
    apply ih
    · cases e with
      | act a => exact timerInv_step s a ht
      | env e => exact timerInv_env s e ht
    · exact outcomeShape_ev s e ht h

theorem outcomeShape_init (hi ht w p e : Bool) (o er : List Chunk) (ins : List InItem) (ho sf : Bool) (n : Nat) (asy : Bool) :
    OutcomeShape (S.init hi ht w p e o er ins ho sf n asy) := by
  intro hd hsf
  cases sf <;> cases asy <;> simp_all [S.init, decided]

/-- an issued kill ends the command: `killIssued → exited` along every schedule -/
theorem killed_exited_ev (s : S) (e : Ev) (h : s.killIssued = true → s.exited = true) :
    (evStep s e).killIssued = true → (evStep s e).exited = true := by
  cases hx : s.exited with
  | true => intro _; exact (rc_frozen_step s e hx).2
  | false =>
    have hk : s.killIssued = false := by
      cases hk : s.killIssued with
      | false => rfl
      | true => simp [h hk] at hx
    cases e with
    | env e => cases e <;> simp only [evStep, envStep] <;> (try split) <;> simp_all
    | act a =>
      cases a with
      | out => simp [evStep, step, hk]
      | err => simp only [evStep, step]; split <;> simp [hk]
      | stdin => simp only [evStep, step]; unfold stdinStep; (repeat' split) <;> simp [hk]
      | timer =>
        simp only [evStep, step]; unfold timerStep killEffect
        (repeat' split) <;> simp_all
      | main =>
        simp only [evStep, step]
        unfold mainStep nextJoin enterJoin afterJoins leaveWait
        cases s.mainPc <;> simp only [] <;> (repeat' split) <;> simp_all

theorem killed_exited_run (s : S) (evs : List Ev) (h : s.killIssued = true → s.exited = true) :
    (run s evs).killIssued = true → (run s evs).exited = true := by
  induction evs generalizing s with
  | nil => exact h
  | cons e r ih =>
    simp only [run, List.foldl_cons] at ih ⊢
    exact ih (evStep s e) (killed_exited_ev s e h)

/-- a failed start never enters the wait loop, so it never "sees the subprocess end" -/
def SfInv (s : S) : Prop := s.startFails = true → s.processDone = false

theorem sfInv_ev (s : S) (e : Ev) (ht : TimerInv s) (h : SfInv s) : SfInv (evStep s e) := by
  intro hsf'
  have ho : (evStep s e).opts = s.opts := by
    cases e with
    | act a => exact opts_step s a
    | env e => exact opts_env s e
  simp only [S.opts, Prod.mk.injEq] at ho
  have hsf : s.startFails = true := by rw [← ho.2.2.2.2.2.2.1]; exact hsf'
  have hd := ht.startFailsDone hsf
  have hp := h hsf
  cases e with
  | env e => cases e <;> simp only [evStep, envStep] <;> (try split) <;> exact hp
  | act a =>
    cases a with
    | out => exact hp
    | err => simp only [evStep, step]; split <;> exact hp
    | stdin => simp only [evStep, step]; unfold stdinStep; (repeat' split) <;> exact hp
    | timer =>
      simp only [evStep, step]; unfold timerStep killEffect
      (repeat' split) <;> simp_all
    | main => simp only [evStep, step]; unfold mainStep; simp only [hd]; exact hp

theorem startFails_never_done (hi ht w p e : Bool) (o er : List Chunk) (ins : List InItem) (ho sf : Bool) (n : Nat) (asy : Bool)
    (evs : List Ev) (h1 : (run (S.init hi ht w p e o er ins ho sf n asy) evs).startFails = true)
    (h2 : (run (S.init hi ht w p e o er ins ho sf n asy) evs).processDone = true) : False := by
  have key : ∀ (s : S) (evs : List Ev), TimerInv s → SfInv s → SfInv (run s evs) := by
    intro s evs
    induction evs generalizing s with
    | nil => intro _ h; exact h
    | cons e r ih =>
      intro ht h
      simp only [run, List.foldl_cons] at ih ⊢
      apply ih
      · cases e with
        | act a => exact timerInv_step s a ht
        | env e => exact timerInv_env s e ht
      · exact sfInv_ev s e ht h
  have := key _ evs (timerInv_init hi ht w p e o er ins ho sf n asy) (by intro _; simp [S.init]) h1
  rw [h2] at this; cases this

end Inv
