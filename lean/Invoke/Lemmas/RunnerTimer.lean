import Invoke.Lemmas.RunnerStdin
/-! Helper lemmas about the timeout timer of the runner transition system (C14). -/
namespace Inv

def timerFired (t : TmPc) : Bool := t = .finish || t = .done

structure TimerInv (s : S) : Prop where
  kills : s.kills = (if timerFired s.tmPc then 1 else 0)
  cancelledDone : s.tmPc = .cancelled → s.mainPc = .done
  noneIff : s.tmPc = .none ↔ (s.hasTimer = false ∨ s.startFails = true)
  checkHasTimer : s.mainPc = .checkTimeout → s.hasTimer = true
  startFailsDone : s.startFails = true → s.mainPc = .done
  timedOutDone : ∀ rc, s.outcome = .timedOut rc → s.tmPc = .done
  late : s.killsAfterReturn ≤ s.kills

theorem timerInv_env (s : S) (e : EnvAct) (h : TimerInv s) : TimerInv (envStep s e) := by
  obtain ⟨h1, h2, h3, h4, h5, h6, h7⟩ := h
  cases e <;> simp only [envStep] <;> (try split) <;> exact ⟨h1, h2, h3, h4, h5, h6, h7⟩

theorem timerInv_stdin (s : S) (h : TimerInv s) : TimerInv (stdinStep s) := by
  obtain ⟨h1, h2, h3, h4, h5, h6, h7⟩ := h
  unfold stdinStep
  (repeat' split) <;> exact ⟨h1, h2, h3, h4, h5, h6, h7⟩

theorem killEffect_timer_frame (s : S) :
    (killEffect s).tmPc = s.tmPc ∧ (killEffect s).mainPc = s.mainPc ∧ (killEffect s).hasTimer = s.hasTimer ∧
    (killEffect s).startFails = s.startFails ∧ (killEffect s).outcome = s.outcome ∧
    (killEffect s).kills = s.kills ∧ (killEffect s).killsAfterReturn = s.killsAfterReturn := by
  unfold killEffect; split <;> simp

theorem timerInv_timer (s : S) (h : TimerInv s) : TimerInv (timerStep s) := by
  obtain ⟨h1, h2, h3, h4, h5, h6, h7⟩ := h
  unfold timerStep
  split
  · exact ⟨h1, h2, h3, h4, h5, h6, h7⟩
  · rename_i hht
    have hht' : s.hasTimer = true := by simpa using hht
    split
    · rename_i ha
      refine ⟨?_, ?_, ?_, h4, h5, ?_, h7⟩
      · simpa [timerFired, ha] using h1
      · intro hc; cases hc
      · have := h3; simp [ha] at this ⊢; exact this
      · intro rc hrc; have := h6 rc hrc; simp [ha] at this
    · rename_i hk
      obtain ⟨k1, k2, k3, k4, k5, k6, k7⟩ := killEffect_timer_frame s
      refine ⟨?_, ?_, ?_, ?_, ?_, ?_, ?_⟩
      · simp [timerFired, h1, hk]
      · intro hc; cases hc
      · have := h3; simp [hk] at this; simp [k3, k4]; exact this
      · simpa [k2, k3] using h4
      · simpa [k2, k4] using h5
      · intro rc hrc; simp only [k5] at hrc; have := h6 rc hrc; simp [hk] at this
      · simp only [lateKill]; split <;> omega
    · rename_i hf
      refine ⟨?_, ?_, ?_, h4, h5, ?_, h7⟩
      · simpa [timerFired, hf] using h1
      · intro hc; cases hc
      · have := h3; simp [hf] at this ⊢; exact this
      · intro rc _; rfl
    · exact ⟨h1, h2, h3, h4, h5, h6, h7⟩

theorem decideOutcome_false_ne (s : S) (rc : Int) : decideOutcome s false ≠ .timedOut rc := by
  unfold decideOutcome; simp only [Bool.false_eq_true, if_false]; split <;> simp

theorem afterJoins_timer (s : S) (h : TimerInv s) (hm : s.mainPc ≠ .done) : TimerInv (afterJoins s) := by
  obtain ⟨h1, h2, h3, h4, h5, h6, h7⟩ := h
  have hsf : s.startFails = false := by
    cases hx : s.startFails with
    | false => rfl
    | true => exact absurd (h5 hx) hm
  have hnc : s.tmPc ≠ .cancelled := fun hc => hm (h2 hc)
  unfold afterJoins
  split
  · split
    · exact ⟨h1, fun hc => absurd hc hnc, h3, by simp, by simp [hsf], by simp, h7⟩
    · exact ⟨h1, fun hc => absurd hc hnc, h3, by simp, by simp [hsf], by simp, h7⟩
  · split
    · rename_i hht
      exact ⟨h1, fun hc => absurd hc hnc, h3, fun _ => hht, by simp [hsf], h6, h7⟩
    · refine ⟨h1, fun hc => absurd hc hnc, h3, by simp, by simp [hsf], ?_, h7⟩
      intro rc hrc
      exact absurd hrc (decideOutcome_false_ne s rc)

theorem enterJoin_timer (s : S) (i : Nat) (h : TimerInv s) (hm : s.mainPc ≠ .done) : TimerInv (enterJoin s i) := by
  unfold enterJoin
  split
  · obtain ⟨h1, h2, h3, h4, h5, h6, h7⟩ := h
    have hsf : s.startFails = false := by
      cases hx : s.startFails with
      | false => rfl
      | true => exact absurd (h5 hx) hm
    exact ⟨h1, fun hc => absurd (h2 hc) hm, h3, by simp, by simp [hsf], h6, h7⟩
  · exact afterJoins_timer s h hm

theorem timerInv_main (s : S) (h : TimerInv s) : TimerInv (mainStep s) := by
  have h' := h
  obtain ⟨h1, h2, h3, h4, h5, h6, h7⟩ := h
  by_cases hd : s.mainPc = .done
  · unfold mainStep; simp only [hd]; exact h'
  have hsf : s.startFails = false := by
    cases hx : s.startFails with
    | false => rfl
    | true => exact absurd (h5 hx) hd
  have hnc : s.tmPc ≠ .cancelled := fun hc => hd (h2 hc)
  unfold mainStep
  split
  · split
    · exact ⟨h1, fun hc => absurd hc hnc, h3, by simp, by simp [hsf], h6, h7⟩
    · exact ⟨h1, fun hc => absurd hc hnc, h3, by simp, by simp [hsf], h6, h7⟩
  · exact ⟨h1, fun hc => absurd hc hnc, h3, by simp, by simp [hsf], h6, h7⟩
  · split
    · exact ⟨h1, fun hc => absurd hc hnc, h3, by simp, by simp [hsf], h6, h7⟩
    · exact ⟨h1, fun hc => absurd hc hnc, h3, by simp, by simp [hsf], h6, h7⟩
  · apply enterJoin_timer
    · exact ⟨h1, h2, h3, h4, h5, h6, h7⟩
    · simpa using hd
  · split
    · exact afterJoins_timer s h' hd
    · split
      · exact enterJoin_timer s _ h' hd
      · split
        · exact enterJoin_timer s _ h' hd
        · exact ⟨h1, fun hc => absurd hc hnc, h3, by simp, by simp [hsf], h6, h7⟩
  · rename_i hck
    refine ⟨h1, fun hc => absurd hc hnc, h3, by simp, by simp [hsf], ?_, h7⟩
    intro rc hrc
    simp only [decideOutcome] at hrc
    have hht := h4 hck
    cases ht : s.tmPc with
    | done => rfl
    | cancelled => exact absurd ht hnc
    | none => have := h3.1 ht; simp [hht, hsf] at this
    | armed => simp [ht, timerAlive] at hrc; split at hrc <;> simp at hrc
    | kill => simp [ht, timerAlive] at hrc; split at hrc <;> simp at hrc
    | finish => simp [ht, timerAlive] at hrc; split at hrc <;> simp at hrc
  · refine ⟨?_, ?_, ?_, by simp, by simp, ?_, h7⟩
    · split
      · rename_i ha; simpa [timerFired, ha] using h1
      · exact h1
    · intro _; rfl
    · split
      · rename_i ha; have := h3; simp [ha] at this ⊢; exact this
      · exact h3
    · intro rc hrc
      have := h6 rc hrc
      simp [this]
  · exact absurd (by assumption) hd

theorem timerInv_step (s : S) (a : Actor) (h : TimerInv s) : TimerInv (step s a) := by
  cases a with
  | main => exact timerInv_main s h
  | stdin => exact timerInv_stdin s h
  | timer => exact timerInv_timer s h
  | out => obtain ⟨h1, h2, h3, h4, h5, h6, h7⟩ := h; exact ⟨h1, h2, h3, h4, h5, h6, h7⟩
  | err =>
    obtain ⟨h1, h2, h3, h4, h5, h6, h7⟩ := h
    simp only [step]; split <;> exact ⟨h1, h2, h3, h4, h5, h6, h7⟩

theorem timerInv_run (s : S) (evs : List Ev) (h : TimerInv s) : TimerInv (run s evs) := by
  induction evs generalizing s with
  | nil => exact h
  | cons e r ih =>
    simp only [run, List.foldl_cons] at ih ⊢
    apply ih
    cases e with
    | act a => exact timerInv_step s a h
    | env e => exact timerInv_env s e h

theorem timerInv_init (hi ht w p e : Bool) (o er : List Chunk) (ins : List InItem) (ho sf : Bool) (n : Nat) :
    TimerInv (S.init hi ht w p e o er ins ho sf n) := by
  cases ht <;> cases sf <;> refine ⟨?_, ?_, ?_, ?_, ?_, ?_, ?_⟩ <;> simp [S.init, timerFired]

end Inv
