import Invoke.Lemmas.SpellItems
/-! C01 — task switch, chains of calls, and the end-to-end connection to `parseArgv`. -/
open Inv Inv.M
namespace Inv

/-- one task call of the chain: (name token — primary name or alias, the registry context it resolves to, its items) -/
structure Call where
  tname : Tok
  ctx : Ctx
  items : List Item

def Call.toks (k : Call) : List Tok := k.tname :: k.items.flatMap Item.toks
/-- the context a call must produce: a fresh copy of the registry context with exactly the items' effects -/
def Call.result (k : Call) : Ctx := k.items.foldl Item.apply k.ctx

/-- the token `t` can be read as a task name in the context `prev` (the core context, or the previous call's final
    context): it is not flag-like, is not a flag of `prev`, and `prev` has all its positionals -/
def NameOK (prev : Option Ctx) (t : Tok) : Prop :=
  isFlag t = false ∧ ∀ p, prev = some p → assoc? t p.flags = none ∧ assoc? t p.inverse = none ∧ p.missingPositional = []

def CallOK (ic : Option Ctx) (reg : List Ctx) (prev : Option Ctx) (k : Call) : Prop :=
  NameOK prev k.tname ∧
  reg.find? (fun c => c.name = some k.tname || c.aliases.contains k.tname) = some k.ctx ∧
  ItemsOK ic reg false k.ctx k.items

/-- side conditions of a whole chain; `prev` is the context the next name token is read in; at the end every
    positional of the last context is filled; only the LAST call may end with a bare optional-value flag
    (documented ambiguity: a task name after such a flag is refused) -/
def ChainOK (ic : Option Ctx) (reg : List Ctx) : Option Ctx → List Call → Prop
  | prev, [] => ∀ p, prev = some p → p.missingPositional = []
  | prev, k :: r => CallOK ic reg prev k ∧ (r ≠ [] → endsBare false k.items = false) ∧ ChainOK ic reg (some k.result) r

/-- TASK SWITCH from a ready state: the finished context is appended, a fresh copy of the named one becomes current -/
theorem step_switch {m c} (h : Ready m c) (tname : Tok) (c2 : Ctx)
    (hn : NameOK (some c) tname)
    (hlk : m.lookupCtx tname = some c2) :
    ∃ m', runToks m [tname] = .ok m' ∧ Ready m' c2 ∧
      m'.initial = m.initial ∧ m'.done = m.done ++ [c] ∧ m'.registry = m.registry ∧ m'.ignoreUnknown = m.ignoreUnknown := by
  obtain ⟨htnf, hp⟩ := hn
  obtain ⟨hf, hi, hmiss⟩ := hp c rfl
  have hctx := ctx_of_ready h
  have henter : M.enter m = .ok m := enter_ready h hmiss
  let m1 : M := { m with done := m.done ++ [c], cur := some c2, curIsInitial := false, flag := none }
  have hsw : m.switchToContext tname = .ok m1 := by
    unfold M.switchToContext
    simp only [henter, hlk, bind, Except.bind, h.notInit, h.cur]
    cases hfl : m.flag with
    | none => simp [m1]
    | some p =>
      obtain ⟨w, i⟩ := p
      cases w with
      | initial => exact absurd hfl (h.noInit i)
      | cur => simp [m1]
  have hh : m.handle tname = .ok m1 := by
    rw [← hsw]
    unfold M.handle
    simp [h.st, hctx, hf, hi, h.nw, hmiss, hlk]
  refine ⟨m1, runToks_single (procTok_one _ (presplit_nonflag m tname htnf) hh), ?_, rfl, rfl, rfl, rfl⟩
  refine ⟨h.st, rfl, rfl, h.unp, ?_, ?_, ?_⟩
  · simp [M.waiting, M.flagArg, m1]
  · intro a ha; simp [M.flagArg, m1] at ha
  · intro i hi'; simp [m1] at hi'

/-- CHAIN: from a ready state, further calls each produce exactly their own context; none touches a neighbour -/
theorem chain_step (ic : Option Ctx) (reg : List Ctx) (calls : List Call) {m c} (h : Ready m c)
    (hinit : m.initial = ic) (hreg : m.registry = reg)
    (hok : ChainOK ic reg (some c) calls) :
    ∃ m' c' pend, runToks m (calls.flatMap Call.toks) = .ok m' ∧ Btw pend m' c' ∧
      m'.initial = ic ∧ m'.registry = reg ∧ m'.ignoreUnknown = m.ignoreUnknown ∧ c'.missingPositional = [] ∧
      m'.done ++ [c'] = m.done ++ [c] ++ calls.map Call.result := by
  induction calls generalizing m c with
  | nil => exact ⟨m, c, false, rfl, by simpa [Btw] using h, hinit, hreg, rfl, hok c rfl, by simp⟩
  | cons k r ih =>
    obtain ⟨⟨hname, hfind, hitems⟩, hlast, hrest⟩ := hok
    have hlk : m.lookupCtx k.tname = some k.ctx := by simpa [M.lookupCtx, hreg] using hfind
    obtain ⟨m1, hrun1, hr1, hi1, hd1, hg1, hu1⟩ := step_switch h k.tname k.ctx hname hlk
    have hitems' : ItemsOK m1.initial m1.registry false k.ctx k.items := by rw [hi1, hg1, hinit, hreg]; exact hitems
    have hb1 : Btw false m1 k.ctx := by simpa [Btw] using hr1
    obtain ⟨m2, hrun2, hr2, hfr2⟩ := items_step k.items hb1 hitems'
    have hinit2 : m2.initial = ic := by rw [hfr2.1, hi1, hinit]
    have hreg2 : m2.registry = reg := by rw [hfr2.2.2.1, hg1, hreg]
    have e0 : (k :: r).flatMap Call.toks = [k.tname] ++ (k.items.flatMap Item.toks ++ r.flatMap Call.toks) := by
      simp [List.flatMap_cons, Call.toks]
    have e1 : runToks m ([k.tname] ++ (k.items.flatMap Item.toks ++ r.flatMap Call.toks)) =
        runToks m1 (k.items.flatMap Item.toks ++ r.flatMap Call.toks) := by
      rw [runToks_append, hrun1]; rfl
    have e2 : runToks m1 (k.items.flatMap Item.toks ++ r.flatMap Call.toks) = runToks m2 (r.flatMap Call.toks) := by
      rw [runToks_append, hrun2]; rfl
    cases r with
    | nil =>
      refine ⟨m2, k.result, endsBare false k.items, ?_, hr2, hinit2, hreg2, ?_, hrest _ rfl, ?_⟩
      · rw [e0, e1, e2]; rfl
      · rw [hfr2.2.2.2, hu1]
      · rw [hfr2.2.1, hd1]; simp [Call.result]
    | cons k2 r2 =>
      have hnb : endsBare false k.items = false := hlast (by simp)
      rw [hnb] at hr2
      have hr2' : Ready m2 (k.items.foldl Item.apply k.ctx) := by simpa [Btw] using hr2
      obtain ⟨m3, c3, pend, hrun3, hr3, hi3, hg3, hu3, hm3, hd3⟩ := ih hr2' hinit2 hreg2 hrest
      refine ⟨m3, c3, pend, ?_, hr3, hi3, hg3, ?_, hm3, ?_⟩
      · rw [e0, e1, e2]; exact hrun3
      · rw [hu3, hfr2.2.2.2, hu1]
      · rw [hd3, hfr2.2.1, hd1]; simp [Call.result, List.append_assoc]

theorem takeWhile_all {α} (p : α → Bool) (l : List α) (h : ∀ x ∈ l, p x = true) : l.takeWhile p = l := by
  induction l with
  | nil => rfl
  | cons x xs ih => simp [List.takeWhile, h x (by simp), ih (fun y hy => h y (by simp [hy]))]
theorem dropWhile_all {α} (p : α → Bool) (l : List α) (h : ∀ x ∈ l, p x = true) : l.dropWhile p = [] := by
  induction l with
  | nil => rfl
  | cons x xs ih => simp [List.dropWhile, h x (by simp), ih (fun y hy => h y (by simp [hy]))]

/-- the machine `parseArgv` starts from -/
def M.start (ic : Option Ctx) (reg : List Ctx) (ign : Bool) : M :=
  { initial := ic, cur := none, registry := reg, ignoreUnknown := ign }

theorem start_enter (ic : Option Ctx) (reg : List Ctx) (ign : Bool)
    (hic : ∀ p, ic = some p → p.missingPositional = []) : M.enter (M.start ic reg ign) = .ok (M.start ic reg ign) := by
  have hfa : (M.start ic reg ign).flagArg = none := rfl
  cases ic with
  | none => simp [M.enter, M.completeFlag, M.flagArg, M.completeContext, M.ctx, M.start, bind, Except.bind]
  | some p =>
    have := hic p rfl
    simp [M.enter, M.completeFlag, M.flagArg, M.completeContext, M.ctx, M.start, this, bind, Except.bind]

/-- the FIRST task name, read in the core context (or with no core context at all) -/
theorem first_switch (ic : Option Ctx) (reg : List Ctx) (ign : Bool) (tname : Tok) (c : Ctx)
    (hn : NameOK ic tname)
    (hfind : reg.find? (fun c => c.name = some tname || c.aliases.contains tname) = some c) :
    ∃ m1, runToks (M.start ic reg ign) [tname] = .ok m1 ∧ Ready m1 c ∧
      m1.initial = ic ∧ m1.done = [] ∧ m1.registry = reg ∧ m1.ignoreUnknown = ign := by
  obtain ⟨htnf, hp⟩ := hn
  let mi := M.start ic reg ign
  have henter : M.enter mi = .ok mi := start_enter ic reg ign (fun p hp' => (hp p hp').2.2)
  let m1 : M := { mi with cur := some c, curIsInitial := false }
  have hfa_i : mi.flagArg = none := rfl
  have hw_i : mi.waiting = false := by simp [M.waiting, hfa_i]
  have hlk : mi.lookupCtx tname = some c := hfind
  have hst : mi.st = .context := rfl
  have hsw : mi.switchToContext tname = .ok m1 := by
    unfold M.switchToContext
    simp [henter, hlk, bind, Except.bind]
    rfl
  have hh : mi.handle tname = .ok m1 := by
    rw [← hsw]
    unfold M.handle
    cases hic : ic with
    | none =>
      have hctx : mi.ctx = none := by simp [mi, M.start, M.ctx, hic]
      simp [hst, hctx, hw_i, hlk]
    | some p =>
      have hctx : mi.ctx = some p := by simp [mi, M.start, M.ctx, hic]
      obtain ⟨h1, h2, h3⟩ := hp p hic
      simp [hst, hctx, h1, h2, h3, hw_i, hlk]
  refine ⟨m1, runToks_single (procTok_one _ (presplit_nonflag mi tname htnf) hh), ?_, rfl, rfl, rfl, rfl⟩
  refine ⟨rfl, rfl, rfl, rfl, ?_, ?_, ?_⟩
  · simp [M.waiting, M.flagArg, m1, mi, M.start]
  · intro a ha; simp [M.flagArg, m1, mi, M.start] at ha
  · intro i hi; simp [m1, mi, M.start] at hi

theorem finish_ready {m c} (h : Ready m c) (hmiss : c.missingPositional = []) :
    M.enter { m with st := .end } = .ok { m with st := .end } := by
  have hcf : M.completeFlag { m with st := .end } = .ok { m with st := .end } :=
    completeFlag_settled _ (fun a ha => (h.settled a ha).1) h.nw
  have hctx : M.ctx { m with st := .end } = some c := by simp [M.ctx, h.notInit, h.cur]
  simp [M.enter, hcf, M.completeContext, hctx, hmiss, bind, Except.bind]

/-- end of the command line: a still-pending bare optional-value flag is tied off with `True` -/
theorem finish_btw {pend : Bool} {m c} (h : Btw pend m c) (hmiss : c.missingPositional = []) :
    ∃ m', M.enter { m with st := .end } = .ok m' ∧ m'.cur = some c ∧ m'.curIsInitial = false ∧ m'.unparsed = [] ∧
      m'.initial = m.initial ∧ m'.done = m.done := by
  cases pend with
  | false =>
    have hr : Ready m c := by simpa [Btw] using h
    exact ⟨_, finish_ready hr hmiss, hr.cur, hr.notInit, hr.unp, rfl, rfl⟩
  | true =>
    simp only [Btw, if_true] at h
    obtain ⟨c0, i, a, hp, rfl⟩ := h
    obtain ⟨hc, hf, _, hinc⟩ := popt_facts hp
    have hset : a.setValue (.b true) (cast := false) = .ok a.seen := by
      have hl : ¬ a.spec.kind = .list := hp.nolist
      simp [Arg.setValue, hinc, hl, Arg.seen]
    have hfa : M.flagArg { m with st := .end } = some a := hf
    have hcf : M.completeFlag { m with st := .end } = .ok { (m.completed c0 i a) with st := .end } := by
      unfold M.completeFlag
      simp [hfa, hp.opt, hp.raw, hset, bind, Except.bind]
      simp [M.updFlagArg, hp.flag, M.ctx, M.setCtx, hp.notInit, hp.cur, M.completed, Ctx.setArg]
    have hctx : M.ctx { (m.completed c0 i a) with st := .end } = some (c0.setArg i a.seen) := by
      simp [M.ctx, M.completed, hp.notInit]
    refine ⟨{ (m.completed c0 i a) with st := .end }, ?_, rfl, hp.notInit, hp.unp, rfl, rfl⟩
    simp [M.enter, hcf, M.completeContext, hctx, hmiss, bind, Except.bind]

/-- END-TO-END: a whole chain of calls, each spelled by any admissible items in any order, parses to the core
    context (if any) followed by exactly one context per call — the call's own registry context with exactly its
    items' effects. -/
theorem parse_chain_core (ic : Option Ctx) (reg : List Ctx) (ign : Bool) (calls : List Call)
    (hok : ChainOK ic reg ic calls)
    (hbody : ∀ t ∈ calls.flatMap Call.toks, t ≠ ['-', '-']) :
    parseArgv ic reg ign (calls.flatMap Call.toks) =
      .ok { contexts := ic.toList ++ calls.map Call.result, unparsed := [], remainder := [] } := by
  have hall : ∀ t ∈ calls.flatMap Call.toks, (decide (t ≠ ['-', '-'])) = true := by
    intro t ht; simpa using hbody t ht
  have htw : (calls.flatMap Call.toks).takeWhile (· ≠ ['-', '-']) = calls.flatMap Call.toks := takeWhile_all _ _ hall
  have hdw : (calls.flatMap Call.toks).dropWhile (· ≠ ['-', '-']) = [] := dropWhile_all _ _ hall
  unfold parseArgv
  simp only [htw, hdw, List.drop_nil, bind, Except.bind]
  have hm0e : ({ initial := ic, cur := none, registry := reg, ignoreUnknown := ign } : M) = M.start ic reg ign := rfl
  rw [hm0e]
  cases calls with
  | nil =>
    have hic : ∀ p, ic = some p → p.missingPositional = [] := hok
    rw [start_enter ic reg ign hic]
    simp only [List.flatMap_nil, List.foldlM_nil, pure, Except.pure]
    have hfin : M.enter { M.start ic reg ign with st := .end } = .ok { M.start ic reg ign with st := .end } := by
      have hfa : M.flagArg { M.start ic reg ign with st := .end } = none := rfl
      cases ic with
      | none => simp [M.enter, M.completeFlag, M.flagArg, M.completeContext, M.ctx, M.start, bind, Except.bind]
      | some p =>
        have := hic p rfl
        simp [M.enter, M.completeFlag, M.flagArg, M.completeContext, M.ctx, M.start, this, bind, Except.bind]
    rw [hfin]
    cases ic <;> simp [M.start]
  | cons k r =>
    obtain ⟨⟨hname, hfind, hitems⟩, hlast, hrest⟩ := hok
    rw [start_enter ic reg ign (fun p hp => (hname.2 p hp).2.2)]
    simp only []
    -- the first name is read in the core context; from then on the machine is `Ready` and `chain_step` applies
    obtain ⟨m1, hrun1, hr1, hi1, hd1, hg1, hu1⟩ := first_switch ic reg ign k.tname k.ctx hname hfind
    have hitems' : ItemsOK m1.initial m1.registry false k.ctx k.items := by rw [hi1, hg1]; exact hitems
    have hb1 : Btw false m1 k.ctx := by simpa [Btw] using hr1
    obtain ⟨m2, hrun2, hr2, hfr2⟩ := items_step k.items hb1 hitems'
    have hinit2 : m2.initial = ic := by rw [hfr2.1, hi1]
    have hreg2 : m2.registry = reg := by rw [hfr2.2.2.1, hg1]
    have hd2 : m2.done = [] := by rw [hfr2.2.1, hd1]
    have e0 : (k :: r).flatMap Call.toks = [k.tname] ++ (k.items.flatMap Item.toks ++ r.flatMap Call.toks) := by
      simp [List.flatMap_cons, Call.toks]
    have e1 : runToks (M.start ic reg ign) ([k.tname] ++ (k.items.flatMap Item.toks ++ r.flatMap Call.toks)) =
        runToks m1 (k.items.flatMap Item.toks ++ r.flatMap Call.toks) := by
      rw [runToks_append, hrun1]; rfl
    have e2 : runToks m1 (k.items.flatMap Item.toks ++ r.flatMap Call.toks) = runToks m2 (r.flatMap Call.toks) := by
      rw [runToks_append, hrun2]; rfl
    have key : ∃ m3 c3 pend, runToks (M.start ic reg ign) ((k :: r).flatMap Call.toks) = .ok m3 ∧ Btw pend m3 c3 ∧
        m3.initial = ic ∧ c3.missingPositional = [] ∧ m3.done ++ [c3] = Call.result k :: r.map Call.result := by
      cases r with
      | nil =>
        refine ⟨m2, k.result, endsBare false k.items, ?_, hr2, hinit2, hrest _ rfl, ?_⟩
        · rw [e0, e1, e2]; rfl
        · rw [hd2]; simp [Call.result]
      | cons k2 r2 =>
        have hnb : endsBare false k.items = false := hlast (by simp)
        rw [hnb] at hr2
        have hr2' : Ready m2 (k.items.foldl Item.apply k.ctx) := by simpa [Btw] using hr2
        obtain ⟨m3, c3, pend, hrun3, hr3, hi3, hg3, hu3, hm3, hd3⟩ := chain_step ic reg (k2 :: r2) hr2' hinit2 hreg2 hrest
        refine ⟨m3, c3, pend, ?_, hr3, hi3, hm3, ?_⟩
        · rw [e0, e1, e2]; exact hrun3
        · rw [hd3, hd2]; simp [Call.result]
    obtain ⟨m3, c3, pend, hfold, hb3, hi3, hm3, hdone⟩ := key
    have hfold' : List.foldlM (fun m t => procTok (t.length + 2) m t) (M.start ic reg ign) ((k :: r).flatMap Call.toks) = .ok m3 := hfold
    rw [hfold']
    simp only []
    obtain ⟨m4, hfin, hcur4, hni4, hunp4, hi4, hd4⟩ := finish_btw hb3 hm3
    rw [hfin]
    simp only [pure, Except.pure]
    rw [← hd4] at hdone
    rw [← hi4] at hi3
    cases ic <;> simp [hi3, hni4, hcur4, hunp4, hdone]

end Inv
