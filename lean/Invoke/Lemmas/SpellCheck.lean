import Invoke.Lemmas.SpellChain
/-! C01 — executable (Bool) versions of the side conditions `ItemsOK` / `ChainOK` and their soundness.
    Used (a) by the non-vacuity examples in `Props/C01.lean` (`by decide`), and (b) by the driver `drv_spell`
    to report, for every generated case, whether it lies inside the hypotheses of the proved theorem. -/
open Inv Inv.M
namespace Inv

deriving instance DecidableEq for ArgSpec
deriving instance DecidableEq for Arg
deriving instance DecidableEq for Ctx

def unsplitB (fl : Tok) : Bool := !hasEq fl && (isLongFlag fl || decide (fl.length ≤ 2))
def flagTokShape : Tok → Bool
  | '-' :: '-' :: _ => true
  | ['-', _] => true
  | _ => false
def flagTokB (fl : Tok) : Bool := !hasEq fl && flagTokShape fl
def namedB (reg : List Ctx) (t : Tok) : Bool :=
  (reg.find? (fun c => c.name = some t || c.aliases.contains t)).isSome

def notCoreFlagB (ic : Option Ctx) (v : Tok) : Bool :=
  match ic with | none => true | some c0 => (assoc? v c0.flags).isNone

def optValueOKb (ic : Option Ctx) (reg : List Ctx) (c : Ctx) (a : Arg) (v : Tok) : Bool :=
  !a.spec.optional ||
    ((!isFlag v || ((assoc? (beforeEq v) c.flags).isNone && (assoc? (v.take 2) c.flags).isNone &&
        notCoreFlagB ic (beforeEq v) && notCoreFlagB ic (v.take 2))) &&
      notCoreFlagB ic v && c.missingPositional.isEmpty && a.raw.isNone && !namedB reg v)

def valFlagOKb (ic : Option Ctx) (reg : List Ctx) (c : Ctx) (fl : Tok) (i : Nat) (v : Tok) : Bool :=
  match c.args[i]? with
  | none => false
  | some a =>
    decide (assoc? fl c.flags = some i) && a.takesValue && (decide (a.spec.kind = .list) || a.raw.isNone) &&
    (assoc? v c.flags).isNone && (assoc? v c.inverse).isNone && (a.give v).isSome && optValueOKb ic reg c a v

def isIntVal : PVal → Bool | .i _ => true | _ => false

def toggleOKb (c : Ctx) (fl : Tok) (i : Nat) : Bool :=
  match c.args[i]? with
  | none => false
  | some a =>
    decide (assoc? fl c.flags = some i) &&
    ((!a.spec.incrementable && decide (a.spec.kind = .bool)) || (a.spec.incrementable && isIntVal a.val))

def togglesOKb : Ctx → List (Char × Nat) → Bool
  | _, [] => true
  | c, p :: r => decide (p.1 ≠ '=') && toggleOKb c ['-', p.1] p.2 && togglesOKb (c.updArg p.2 Arg.seen) r

def inverseOKb (c : Ctx) (nofl : Tok) (i : Nat) : Bool :=
  (assoc? nofl c.flags).isNone &&
  match assoc? nofl c.inverse, c.args[i]? with
  | some fl, some a => decide (assoc? fl c.flags = some i) && decide (a.spec.kind = .bool) && !a.spec.incrementable
  | _, _ => false

def posOKb (ic : Option Ctx) (c : Ctx) (v : Tok) (j : Nat) : Bool :=
  (!isFlag v || unsplitB v) && (assoc? v c.flags).isNone && (assoc? v c.inverse).isNone && notCoreFlagB ic v &&
  decide (c.firstMissing = some j) &&
  match c.args[j]? with
  | some a => a.takesValue && (a.give v).isSome
  | none => false

def optBareOKb (c : Ctx) (fl : Tok) (i : Nat) : Bool :=
  match c.args[i]? with
  | none => false
  | some a =>
    decide (assoc? fl c.flags = some i) && a.takesValue && a.spec.optional && a.raw.isNone &&
    decide (a.spec.kind ≠ .list) && c.missingPositional.isEmpty

def Item.okb (ic : Option Ctx) (reg : List Ctx) (c : Ctx) : Item → Bool
  | .spaced fl v i => unsplitB fl && valFlagOKb ic reg c fl i v
  | .eq fl v i => flagTokB fl && valFlagOKb ic reg c fl i v
  | .glued x y w i => decide (x ≠ '-') && decide (y ≠ '=') && valFlagOKb ic reg c ['-', x] i (y :: w)
  | .toggle fl i => unsplitB fl && toggleOKb c fl i
  | .inverse nofl i => unsplitB nofl && inverseOKb c nofl i
  | .block x i rest => decide (x ≠ '-') && !rest.isEmpty && togglesOKb c ((x, i) :: rest)
  | .pos v j => posOKb ic c v j
  | .optBare fl i => unsplitB fl && optBareOKb c fl i

def followsBareB (reg : List Ctx) (it : Item) : Bool :=
  match it.head with
  | some hd => !namedB reg hd
  | none => false

def itemsOKb (ic : Option Ctx) (reg : List Ctx) : Bool → Ctx → List Item → Bool
  | _, _, [] => true
  | pend, c, it :: r => it.okb ic reg c && (!pend || followsBareB reg it) && itemsOKb ic reg it.isBare (it.apply c) r

def nameOKb (prev : Option Ctx) (t : Tok) : Bool :=
  !isFlag t &&
  match prev with
  | none => true
  | some p => (assoc? t p.flags).isNone && (assoc? t p.inverse).isNone && p.missingPositional.isEmpty

def callOKb (ic : Option Ctx) (reg : List Ctx) (prev : Option Ctx) (k : Call) : Bool :=
  nameOKb prev k.tname &&
  decide (reg.find? (fun c => c.name = some k.tname || c.aliases.contains k.tname) = some k.ctx) &&
  itemsOKb ic reg false k.ctx k.items

def chainOKb (ic : Option Ctx) (reg : List Ctx) : Option Ctx → List Call → Bool
  | prev, [] => match prev with | none => true | some p => p.missingPositional.isEmpty
  | prev, k :: r => callOKb ic reg prev k && (r.isEmpty || !endsBare false k.items) && chainOKb ic reg (some k.result) r

def noSentinelB (toks : List Tok) : Bool := toks.all fun t => decide (t ≠ ['-', '-'])

/-! soundness -/

theorem unsplitB_sound {fl : Tok} (h : unsplitB fl = true) : Unsplit fl := by
  simp [unsplitB] at h
  exact ⟨h.1, h.2⟩

theorem flagTokB_sound {fl : Tok} (h : flagTokB fl = true) : FlagTok fl := by
  simp [flagTokB] at h
  refine ⟨h.1, ?_⟩
  have h2 := h.2
  unfold flagTokShape at h2
  split at h2
  · exact Or.inl ⟨_, rfl⟩
  · exact Or.inr ⟨_, rfl⟩
  · cases h2

theorem namedB_false {reg : List Ctx} {t : Tok} (h : namedB reg t = false) :
    reg.find? (fun c => c.name = some t || c.aliases.contains t) = none := by
  simpa [namedB] using h

theorem notCoreFlagB_sound {ic v} (h : notCoreFlagB ic v = true) : NotCoreFlag ic v := by
  intro c0 hc0
  subst hc0
  simpa [notCoreFlagB] using h

theorem optValueOKb_sound {ic reg c a v} (h : optValueOKb ic reg c a v = true) : OptValueOK ic reg c a v := by
  unfold optValueOKb at h
  by_cases ho : a.spec.optional = true
  · right
    simp only [ho, Bool.not_true, Bool.false_or, Bool.and_eq_true, Bool.or_eq_true, Bool.not_eq_true',
      Option.isNone_iff_eq_none, List.isEmpty_iff] at h
    obtain ⟨⟨⟨⟨h1, hc⟩, h2⟩, h3⟩, h4⟩ := h
    refine ⟨?_, notCoreFlagB_sound hc, h2, h3, namedB_false h4⟩
    rcases h1 with h1 | ⟨⟨⟨ha, hb⟩, hcb⟩, hct⟩
    · exact Or.inl h1
    · exact Or.inr ⟨ha, hb, notCoreFlagB_sound hcb, notCoreFlagB_sound hct⟩
  · left; simpa using ho

theorem valFlagOKb_sound {ic reg c fl i v} (h : valFlagOKb ic reg c fl i v = true) : ∃ a a', ValFlagOK ic reg c fl i v a a' := by
  unfold valFlagOKb at h
  cases hai : c.args[i]? with
  | none => simp [hai] at h
  | some a =>
    simp only [hai, Bool.and_eq_true, decide_eq_true_eq, Bool.or_eq_true, Option.isNone_iff_eq_none] at h
    obtain ⟨⟨⟨⟨⟨⟨h1, h2⟩, h3⟩, h4⟩, h5⟩, h6⟩, h7⟩ := h
    obtain ⟨a', ha'⟩ := Option.isSome_iff_exists.mp h6
    exact ⟨a, a', ⟨h1, hai, h2, h3, h4, h5, ha', optValueOKb_sound h7⟩⟩

theorem toggleOKb_sound {c fl i} (h : toggleOKb c fl i = true) : ToggleOK c fl i := by
  unfold toggleOKb at h
  cases hai : c.args[i]? with
  | none => simp [hai] at h
  | some a =>
    simp only [hai, Bool.and_eq_true, decide_eq_true_eq, Bool.or_eq_true, Bool.not_eq_true'] at h
    obtain ⟨h1, h2⟩ := h
    refine ⟨a, h1, hai, ?_⟩
    rcases h2 with ⟨h2, h3⟩ | ⟨h2, h3⟩
    · exact Or.inl ⟨h2, h3⟩
    · right
      refine ⟨h2, ?_⟩
      cases hv : a.val <;> simp [hv, isIntVal] at h3
      exact ⟨_, rfl⟩

theorem togglesOKb_sound : ∀ {c : Ctx} {ps : List (Char × Nat)}, togglesOKb c ps = true → TogglesOK c ps
  | _, [], _ => trivial
  | c, p :: r, h => by
    simp only [togglesOKb, Bool.and_eq_true, decide_eq_true_eq] at h
    exact ⟨h.1.1, toggleOKb_sound h.1.2, togglesOKb_sound h.2⟩

theorem Item.okb_sound {ic reg c} : ∀ (it : Item), it.okb ic reg c = true → it.ok ic reg c
  | .spaced fl v i, h => by
    simp only [Item.okb, Bool.and_eq_true] at h
    exact ⟨unsplitB_sound h.1, valFlagOKb_sound h.2⟩
  | .eq fl v i, h => by
    simp only [Item.okb, Bool.and_eq_true] at h
    exact ⟨flagTokB_sound h.1, valFlagOKb_sound h.2⟩
  | .glued x y w i, h => by
    simp only [Item.okb, Bool.and_eq_true, decide_eq_true_eq] at h
    exact ⟨h.1.1, h.1.2, valFlagOKb_sound h.2⟩
  | .toggle fl i, h => by
    simp only [Item.okb, Bool.and_eq_true] at h
    exact ⟨unsplitB_sound h.1, toggleOKb_sound h.2⟩
  | .inverse nofl i, h => by
    simp only [Item.okb, Bool.and_eq_true] at h
    refine ⟨unsplitB_sound h.1, ?_⟩
    have h2 := h.2
    unfold inverseOKb at h2
    simp only [Bool.and_eq_true, Option.isNone_iff_eq_none] at h2
    obtain ⟨hnf, hm⟩ := h2
    cases hinv : assoc? nofl c.inverse with
    | none => simp [hinv] at hm
    | some fl =>
      cases hai : c.args[i]? with
      | none => simp [hinv, hai] at hm
      | some a =>
        simp [hinv, hai] at hm
        exact ⟨fl, a, hnf, rfl, hm.1.1, rfl, hm.1.2, hm.2⟩
  | .block x i rest, h => by
    simp only [Item.okb, Bool.and_eq_true, decide_eq_true_eq, Bool.not_eq_true', List.isEmpty_eq_false_iff] at h
    exact ⟨h.1.1, h.1.2, togglesOKb_sound h.2⟩
  | .pos v j, h => by
    simp only [Item.okb, posOKb, Bool.and_eq_true, Bool.or_eq_true, decide_eq_true_eq, Bool.not_eq_true',
      Option.isNone_iff_eq_none] at h
    obtain ⟨⟨⟨⟨⟨h1, h2⟩, h3⟩, h4⟩, h5⟩, h6⟩ := h
    have h1 : isFlag v = false ∨ Unsplit v := h1.imp id unsplitB_sound
    cases haj : c.args[j]? with
    | none => simp [haj] at h6
    | some a =>
      simp [haj] at h6
      obtain ⟨a', ha'⟩ := Option.isSome_iff_exists.mp h6.2
      exact ⟨h1, h2, h3, notCoreFlagB_sound h4, h5, a, a', haj, h6.1, ha'⟩
  | .optBare fl i, h => by
    simp only [Item.okb, Bool.and_eq_true] at h
    refine ⟨unsplitB_sound h.1, ?_⟩
    have h2 := h.2
    unfold optBareOKb at h2
    cases hai : c.args[i]? with
    | none => simp [hai] at h2
    | some a =>
      simp only [hai, Bool.and_eq_true, decide_eq_true_eq, Option.isNone_iff_eq_none, List.isEmpty_iff] at h2
      obtain ⟨⟨⟨⟨⟨h1, h2⟩, h3⟩, h4⟩, h5⟩, h6⟩ := h2
      exact ⟨a, h1, rfl, h2, h3, h4, h5, h6⟩

theorem followsBareB_sound {reg it} (h : followsBareB reg it = true) : FollowsBare reg it := by
  unfold followsBareB at h
  cases hh : it.head with
  | none => simp [hh] at h
  | some hd =>
    simp [hh] at h
    exact ⟨hd, hh, namedB_false h⟩

theorem itemsOKb_sound {ic reg} : ∀ {pend : Bool} {c : Ctx} (items : List Item),
    itemsOKb ic reg pend c items = true → ItemsOK ic reg pend c items
  | _, _, [], _ => trivial
  | pend, c, it :: r, h => by
    simp only [itemsOKb, Bool.and_eq_true, Bool.or_eq_true, Bool.not_eq_true'] at h
    refine ⟨Item.okb_sound it h.1.1, ?_, itemsOKb_sound r h.2⟩
    intro hp
    rcases h.1.2 with h2 | h2
    · rw [hp] at h2; cases h2
    · exact followsBareB_sound h2

theorem nameOKb_sound {prev t} (h : nameOKb prev t = true) : NameOK prev t := by
  simp only [nameOKb, Bool.and_eq_true, Bool.not_eq_true'] at h
  refine ⟨h.1, ?_⟩
  intro p hp
  subst hp
  have := h.2
  simp only [Bool.and_eq_true, Option.isNone_iff_eq_none, List.isEmpty_iff] at this
  exact ⟨this.1.1, this.1.2, this.2⟩

theorem chainOKb_sound {ic reg} : ∀ {prev : Option Ctx} (calls : List Call),
    chainOKb ic reg prev calls = true → ChainOK ic reg prev calls
  | prev, [], h => by
    intro p hp
    subst hp
    simpa [chainOKb] using h
  | prev, k :: r, h => by
    simp only [chainOKb, callOKb, Bool.and_eq_true, Bool.or_eq_true, decide_eq_true_eq, Bool.not_eq_true'] at h
    obtain ⟨⟨⟨⟨h1, h2⟩, h3⟩, h4⟩, h5⟩ := h
    refine ⟨⟨nameOKb_sound h1, h2, itemsOKb_sound _ h3⟩, ?_, chainOKb_sound r h5⟩
    intro hne
    rcases h4 with h4 | h4
    · simp at h4; exact absurd h4 hne
    · exact h4

theorem noSentinelB_sound {toks : List Tok} (h : noSentinelB toks = true) : ∀ t ∈ toks, t ≠ ['-', '-'] := by
  simpa [noSentinelB] using h

end Inv
