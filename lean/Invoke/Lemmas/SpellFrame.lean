import Invoke.Lemmas.SpellCheck
/-! C01 — what a call's items do NOT touch: parameters that are not mentioned keep their registry state
    (hence their declared default), and the flag tables / name of the context are unchanged. -/
open Inv Inv.M
namespace Inv

/-- the argument indices an item mentions -/
def Item.indices : Item → List Nat
  | .spaced _ _ i => [i]
  | .eq _ _ i => [i]
  | .glued _ _ _ i => [i]
  | .toggle _ i => [i]
  | .inverse _ i => [i]
  | .block _ i rest => i :: rest.map Prod.snd
  | .pos _ j => [j]
  | .optBare _ i => [i]

theorem updArg_args_ne (c : Ctx) (i : Nat) (f : Arg → Arg) (j : Nat) (h : j ≠ i) :
    (c.updArg i f).args[j]? = c.args[j]? := by
  unfold Ctx.updArg
  split
  · simp [Ctx.setArg, List.getElem?_set_ne (Ne.symm h)]
  · rfl

theorem updArg_name (c : Ctx) (i : Nat) (f : Arg → Arg) : (c.updArg i f).name = c.name := by
  unfold Ctx.updArg; split <;> rfl

theorem applyToggles_args_ne (ps : List (Char × Nat)) (c : Ctx) (j : Nat) (h : j ∉ ps.map Prod.snd) :
    (applyToggles c ps).args[j]? = c.args[j]? := by
  induction ps generalizing c with
  | nil => rfl
  | cons p r ih =>
    simp only [List.map_cons, List.mem_cons, not_or] at h
    have : applyToggles c (p :: r) = applyToggles (c.updArg p.2 Arg.seen) r := rfl
    rw [this, ih _ h.2, updArg_args_ne _ _ _ _ h.1]

theorem applyToggles_name (ps : List (Char × Nat)) (c : Ctx) : (applyToggles c ps).name = c.name := by
  induction ps generalizing c with
  | nil => rfl
  | cons p r ih =>
    have : applyToggles c (p :: r) = applyToggles (c.updArg p.2 Arg.seen) r := rfl
    rw [this, ih, updArg_name]

theorem apply_args_ne (it : Item) (c : Ctx) (j : Nat) (h : j ∉ it.indices) : (it.apply c).args[j]? = c.args[j]? := by
  cases it with
  | block x i rest =>
    simp only [Item.indices, List.mem_cons, not_or] at h
    simp only [Item.apply]
    rw [applyToggles_args_ne _ _ _ h.2, updArg_args_ne _ _ _ _ h.1]
  | _ =>
    simp only [Item.indices, List.mem_singleton] at h
    exact updArg_args_ne _ _ _ _ h

theorem apply_name (it : Item) (c : Ctx) : (it.apply c).name = c.name := by
  cases it with
  | block x i rest => simp only [Item.apply]; rw [applyToggles_name, updArg_name]
  | _ => exact updArg_name _ _ _

theorem foldl_apply_args_ne (items : List Item) (c : Ctx) (j : Nat) (h : ∀ it ∈ items, j ∉ it.indices) :
    (items.foldl Item.apply c).args[j]? = c.args[j]? := by
  induction items generalizing c with
  | nil => rfl
  | cons it r ih =>
    simp only [List.foldl_cons]
    rw [ih _ (fun it' h' => h it' (by simp [h'])), apply_args_ne it c j (h it (by simp))]

theorem foldl_apply_name (items : List Item) (c : Ctx) : (items.foldl Item.apply c).name = c.name := by
  induction items generalizing c with
  | nil => rfl
  | cons it r ih => simp only [List.foldl_cons]; rw [ih, apply_name]

/-- a freshly built non-list argument shows its declared default -/
theorem init_value_nonlist (sp : ArgSpec) (h : sp.kind ≠ .list) : (Arg.init sp).value = sp.default := by
  unfold Arg.init Arg.value
  by_cases hi : sp.incrementable = true
  · simp [hi]
  · simp [hi, h]

end Inv
