import Invoke.Lemmas.SpellOpt
/-! C01 — spelling items (the documented forms of `concepts/invoking-tasks.rst`), their side conditions
    (`Item.ok`, evaluated against the context AS IT EVOLVES), their intended effect (`Item.apply`) and the
    composition theorem `items_step`: any admissible item sequence, in any order, is parsed to exactly its
    combined effect. -/
open Inv Inv.M
namespace Inv

def Ctx.updArg (c : Ctx) (i : Nat) (f : Arg → Arg) : Ctx :=
  match c.args[i]? with | some a => c.setArg i (f a) | none => c

/-- intended effect of giving `v` to a value parameter (identity when inadmissible; `Item.ok` excludes that) -/
def Arg.given (v : Tok) (a : Arg) : Arg := (a.give v).getD a

/-- the documented spelling items -/
inductive Item
  | spaced (fl v : Tok) (i : Nat)                           -- `--name v` / `-n v`
  | eq (fl v : Tok) (i : Nat)                               -- `--name=v` / `-n=v`
  | glued (x y : Char) (w : Tok) (i : Nat)                  -- `-nVALUE`, VALUE = y :: w
  | toggle (fl : Tok) (i : Nat)                             -- `--flag` / `-f`: bool ↦ True, counter ↦ +1
  | inverse (nofl : Tok) (i : Nat)                          -- `--no-flag`: bool ↦ False
  | block (x : Char) (i : Nat) (rest : List (Char × Nat))   -- `-xyz…` = `-x -y -z …` (bools / counters)
  | pos (v : Tok) (j : Nat)                                 -- positional token
  | optBare (fl : Tok) (i : Nat)                            -- optional-value flag given bare: ↦ True

def Item.toks : Item → List Tok
  | .spaced fl v _ => [fl, v]
  | .eq fl v _ => [fl ++ '=' :: v]
  | .glued x y w _ => ['-' :: x :: y :: w]
  | .toggle fl _ => [fl]
  | .inverse nofl _ => [nofl]
  | .block x _ rest => ['-' :: x :: rest.map Prod.fst]
  | .pos v _ => [v]
  | .optBare fl _ => [fl]

/-- the first piece the machine handles for a flag-led item (none for a positional token) -/
def Item.head : Item → Option Tok
  | .spaced fl _ _ => some fl
  | .eq fl _ _ => some fl
  | .glued x _ _ _ => some ['-', x]
  | .toggle fl _ => some fl
  | .inverse nofl _ => some nofl
  | .block x _ _ => some ['-', x]
  | .pos _ _ => none
  | .optBare fl _ => some fl

def Item.isBare : Item → Bool
  | .optBare _ _ => true
  | _ => false

def applyToggles (c : Ctx) (ps : List (Char × Nat)) : Ctx := ps.foldl (fun c p => c.updArg p.2 Arg.seen) c

def Item.apply (c : Ctx) : Item → Ctx
  | .spaced _ v i => c.updArg i (Arg.given v)
  | .eq _ v i => c.updArg i (Arg.given v)
  | .glued _ y w i => c.updArg i (Arg.given (y :: w))
  | .toggle _ i => c.updArg i Arg.seen
  | .inverse _ i => c.updArg i Arg.unseen
  | .block _ i rest => applyToggles (c.updArg i Arg.seen) rest
  | .pos v j => c.updArg j (Arg.given v)
  | .optBare _ i => c.updArg i Arg.seen

/-- `fl` is a non-value flag (boolean or counter) of `c` for argument `i` -/
def ToggleOK (c : Ctx) (fl : Tok) (i : Nat) : Prop :=
  ∃ a, assoc? fl c.flags = some i ∧ c.args[i]? = some a ∧
    ((a.spec.incrementable = false ∧ a.spec.kind = .bool) ∨ (a.spec.incrementable = true ∧ ∃ k, a.val = .i k))

def TogglesOK : Ctx → List (Char × Nat) → Prop
  | _, [] => True
  | c, p :: r => p.1 ≠ '=' ∧ ToggleOK c ['-', p.1] p.2 ∧ TogglesOK (c.updArg p.2 Arg.seen) r

/-- side conditions of one item in context `c` (core context `ic`, task registry `reg`) -/
def Item.ok (ic : Option Ctx) (reg : List Ctx) (c : Ctx) : Item → Prop
  | .spaced fl v i => Unsplit fl ∧ ∃ a a', ValFlagOK ic reg c fl i v a a'
  | .eq fl v i => FlagTok fl ∧ ∃ a a', ValFlagOK ic reg c fl i v a a'
  | .glued x y w i => x ≠ '-' ∧ y ≠ '=' ∧ ∃ a a', ValFlagOK ic reg c ['-', x] i (y :: w) a a'
  | .toggle fl i => Unsplit fl ∧ ToggleOK c fl i
  | .inverse nofl i => Unsplit nofl ∧ ∃ fl a, assoc? nofl c.flags = none ∧ assoc? nofl c.inverse = some fl ∧
      assoc? fl c.flags = some i ∧ c.args[i]? = some a ∧ a.spec.kind = .bool ∧ a.spec.incrementable = false
  | .block x i rest => x ≠ '-' ∧ rest ≠ [] ∧ TogglesOK c ((x, i) :: rest)
  | .pos v j => (isFlag v = false ∨ Unsplit v) ∧ assoc? v c.flags = none ∧ assoc? v c.inverse = none ∧ NotCoreFlag ic v ∧
      c.firstMissing = some j ∧ ∃ a a', c.args[j]? = some a ∧ a.takesValue = true ∧ a.give v = some a'
  | .optBare fl i => Unsplit fl ∧ ∃ a, assoc? fl c.flags = some i ∧ c.args[i]? = some a ∧ a.takesValue = true ∧
      a.spec.optional = true ∧ a.raw = none ∧ a.spec.kind ≠ .list ∧ c.missingPositional = []

theorem updArg_of {c : Ctx} {i : Nat} {a : Arg} (h : c.args[i]? = some a) (f : Arg → Arg) :
    c.updArg i f = c.setArg i (f a) := by simp [Ctx.updArg, h]

theorem given_of {a a' : Arg} {v : Tok} (h : a.give v = some a') : Arg.given v a = a' := by simp [Arg.given, h]

theorem hasEq_chars {cs : List Char} (h : ∀ ch ∈ cs, ch ≠ '=') : hasEq cs = false := by
  induction cs with
  | nil => rfl
  | cons x xs ih =>
    have hx : x ≠ '=' := h x (by simp)
    simp [hasEq, hx, ih (fun ch hch => h ch (by simp [hch]))]

theorem toggles_noeq : ∀ {c : Ctx} {ps : List (Char × Nat)}, TogglesOK c ps → ∀ ch ∈ ps.map Prod.fst, ch ≠ '='
  | _, [], _, ch, hch => by simp at hch
  | c, p :: r, h, ch, hch => by
    obtain ⟨h1, _, h3⟩ := h
    simp only [List.map_cons, List.mem_cons] at hch
    rcases hch with rfl | hch
    · exact h1
    · exact toggles_noeq h3 ch hch

/-- the inserted pieces `-y -z …` of a combined short block, each processed with the remaining fuel -/
theorem toggles_fold (n : Nat) : ∀ (ps : List (Char × Nat)) {m : M} {c : Ctx}, Ready m c → TogglesOK c ps →
    ∃ m', (ps.map fun p => ['-', p.1]).foldlM (fun m t => procTok (n + 1) m t) m = .ok m' ∧
      Ready m' (applyToggles c ps) ∧ SameFrame m m'
  | [], m, c, h, _ => ⟨m, rfl, h, SameFrame.refl m⟩
  | p :: r, m, c, h, hok => by
    obtain ⟨hne, ⟨a, hfl, hai, hk⟩, hr⟩ := hok
    have hun : Unsplit ['-', p.1] := ⟨by simp [hasEq, hne], Or.inr (by simp)⟩
    obtain ⟨m1, h1, hr1, hf1⟩ := tok_toggle h ['-', p.1] p.2 a n hun hfl hai hk
    rw [← updArg_of hai] at hr1
    obtain ⟨m2, h2, hr2, hf2⟩ := toggles_fold n r hr1 hr
    refine ⟨m2, ?_, hr2, hf1.trans hf2⟩
    simp only [List.map_cons, List.foldlM_cons, h1, bind, Except.bind]
    exact h2

theorem presplit_block_form {m c} (h : Ready m c) (x : Char) (i : Nat) (rest : List (Char × Nat))
    (hx : x ≠ '-') (hne : rest ≠ []) (hok : TogglesOK c ((x, i) :: rest)) :
    presplit m ('-' :: x :: rest.map Prod.fst) = .ok (['-', x], (rest.map Prod.fst).map fun ch => ['-', ch]) := by
  have hnoeq := toggles_noeq hok
  obtain ⟨hxe, ⟨a, hfl, hai, hk⟩, hr⟩ := hok
  have htv : a.takesValue = false := by
    rcases hk with ⟨_, hk⟩ | ⟨hk, _⟩ <;> simp [Arg.takesValue, hk]
  have heq : hasEq ('-' :: x :: rest.map Prod.fst) = false := by
    have : hasEq (x :: rest.map Prod.fst) = false := hasEq_chars (by simpa using hnoeq)
    simpa [hasEq] using this
  have hgf : gluedFlag m ['-', x] = some a := by simp [gluedFlag, h.st, ctx_of_ready h, hfl, hai]
  have hlen : rest.length > 0 := by
    cases rest with
    | nil => exact absurd rfl hne
    | cons _ _ => simp
  unfold presplit
  simp [isFlag, h.unp, heq, isLongFlag, hx, splitShort, hgf, htv]

/-- COMBINED SHORT BLOCK `-xyz…` -/
theorem step_block {m c} (h : Ready m c) (x : Char) (i : Nat) (rest : List (Char × Nat))
    (hx : x ≠ '-') (hne : rest ≠ []) (hok : TogglesOK c ((x, i) :: rest)) :
    ∃ m', runToks m ['-' :: x :: rest.map Prod.fst] = .ok m' ∧
      Ready m' (applyToggles (c.updArg i Arg.seen) rest) ∧ SameFrame m m' := by
  have hps := presplit_block_form h x i rest hx hne hok
  obtain ⟨hxe, ⟨a, hfl, hai, hk⟩, hr⟩ := hok
  have hrb : rollback m ('-' :: x :: rest.map Prod.fst) (['-', x], (rest.map Prod.fst).map fun ch => ['-', ch]) =
      (['-', x], (rest.map Prod.fst).map fun ch => ['-', ch]) := by simp [rollback, h.nw]
  obtain ⟨m1, hh, hr1, hf1⟩ := handle_toggle h ['-', x] i a hfl hai hk
  rw [← updArg_of hai] at hr1
  obtain ⟨m2, h2, hr2, hf2⟩ := toggles_fold (rest.length + 2) rest hr1 hr
  refine ⟨m2, ?_, hr2, hf1.trans hf2⟩
  apply runToks_single
  have hl : ('-' :: x :: rest.map Prod.fst).length + 2 = (rest.length + 2 + 1) + 1 := by simp
  rw [hl]
  unfold procTok
  simp only [hps, hrb, hh]
  have e : ((rest.map Prod.fst).map fun ch => ['-', ch]) = rest.map fun p => ['-', p.1] := by simp [List.map_map]
  rw [e]
  exact h2

/-- BARE OPTIONAL-VALUE FLAG: Ready ↦ POpt (tied off later) -/
theorem step_optbare {m c} (h : Ready m c) (fl : Tok) (i : Nat) (a : Arg)
    (hun : Unsplit fl) (hfl : assoc? fl c.flags = some i) (hai : c.args[i]? = some a) (htv : a.takesValue = true)
    (hopt : a.spec.optional = true) (hraw : a.raw = none) (hnl : a.spec.kind ≠ .list) (hmiss : c.missingPositional = []) :
    ∃ m', runToks m [fl] = .ok m' ∧ POpt m' c i a ∧ SameFrame m m' := by
  refine ⟨{ m with flag := some (.cur, i), flagGotValue := false }, ?_, ?_, ⟨rfl, rfl, rfl, rfl⟩⟩
  · apply runToks_single
    apply procTok_one _ (presplit_unsplit m fl hun)
    unfold M.handle
    simp [h.st, ctx_of_ready h, hfl, switchToFlag_ready h fl i a hfl hai htv]
  · exact ⟨h.st, h.notInit, h.cur, h.unp, rfl, hai, htv, hopt, hraw, hnl, hmiss⟩

/-- state between two items: `pend = true` iff the previous item was a bare optional-value flag (whose intended
    effect is already part of `c`, while the machine ties it off only at the next flag / the end) -/
def Btw (pend : Bool) (m : M) (c : Ctx) : Prop :=
  if pend then ∃ c0 i a, POpt m c0 i a ∧ c = c0.setArg i a.seen else Ready m c

theorem item_step_ready {m c} (h : Ready m c) (it : Item) (hok : it.ok m.initial m.registry c) :
    ∃ m', runToks m it.toks = .ok m' ∧ Btw it.isBare m' (it.apply c) ∧ SameFrame m m' := by
  cases it with
  | spaced fl v i =>
    obtain ⟨hun, a, a', ok⟩ := hok
    simpa [Btw, Item.isBare, Item.apply, updArg_of ok.hai, given_of ok.give, Item.toks] using step_spaced h fl v i a a' hun ok
  | eq fl v i =>
    obtain ⟨hft, a, a', ok⟩ := hok
    simpa [Btw, Item.isBare, Item.apply, updArg_of ok.hai, given_of ok.give, Item.toks] using step_eq h fl v i a a' hft ok
  | glued x y w i =>
    obtain ⟨hx, hy, a, a', ok⟩ := hok
    simpa [Btw, Item.isBare, Item.apply, updArg_of ok.hai, given_of ok.give, Item.toks] using step_glued h x y w i a a' hx hy ok
  | toggle fl i =>
    obtain ⟨hun, a, hfl, hai, hk⟩ := hok
    obtain ⟨m', hp, hr, hf⟩ := tok_toggle h fl i a (fl.length + 1) hun hfl hai hk
    exact ⟨m', runToks_single hp, by simpa [Btw, Item.isBare, Item.apply, updArg_of hai] using hr, hf⟩
  | inverse nofl i =>
    obtain ⟨hun, fl, a, hnf, hinv, hfl, hai, hk, hinc⟩ := hok
    obtain ⟨m', hp, hr, hf⟩ := tok_inverse h nofl fl i a (nofl.length + 1) hun hnf hinv hfl hai hk hinc
    exact ⟨m', runToks_single hp, by simpa [Btw, Item.isBare, Item.apply, updArg_of hai] using hr, hf⟩
  | block x i rest =>
    obtain ⟨hx, hne, hok⟩ := hok
    simpa [Btw, Item.isBare, Item.apply, Item.toks] using step_block h x i rest hx hne hok
  | pos v j =>
    obtain ⟨hnf, hv1, hv2, hv3, hfm, a, a', haj, htv, hg⟩ := hok
    obtain ⟨m', hp, hr, hf⟩ := tok_positional h v j a a' (v.length + 1) hnf hv1 hv2 hv3 hfm haj htv hg
    exact ⟨m', runToks_single hp, by simpa [Btw, Item.isBare, Item.apply, updArg_of haj, given_of hg] using hr, hf⟩
  | optBare fl i =>
    obtain ⟨hun, a, hfl, hai, htv, hopt, hraw, hnl, hmiss⟩ := hok
    obtain ⟨m', hrun, hp, hf⟩ := step_optbare h fl i a hun hfl hai htv hopt hraw hnl hmiss
    refine ⟨m', hrun, ?_, hf⟩
    simp only [Btw, Item.isBare, if_true]
    exact ⟨c, i, a, hp, by simp [Item.apply, updArg_of hai]⟩

/-- for a flag-led item, what the pre-splitting of its first token yields from a ready state -/
theorem item_head_presplit {m c} (h : Ready m c) (it : Item) (hok : it.ok m.initial m.registry c)
    (hd : Tok) (hhd : it.head = some hd) :
    ∃ t more p, it.toks = t :: more ∧ presplit m t = .ok p ∧ p.1 = hd ∧
      ((assoc? hd c.flags).isSome = true ∨ (p = (t, []) ∧ (assoc? t c.inverse).isSome = true)) := by
  cases it with
  | spaced fl v i =>
    obtain ⟨hun, a, a', ok⟩ := hok
    injection hhd with hhd; subst hhd
    exact ⟨fl, [v], (fl, []), rfl, presplit_unsplit m fl hun, rfl, Or.inl (by simp [ok.hfl])⟩
  | eq fl v i =>
    obtain ⟨hft, a, a', ok⟩ := hok
    injection hhd with hhd; subst hhd
    exact ⟨_, [], (fl, [v]), rfl, presplit_eq_form h hft v, rfl, Or.inl (by simp [ok.hfl])⟩
  | glued x y w i =>
    obtain ⟨hx, hy, a, a', ok⟩ := hok
    injection hhd with hhd; subst hhd
    exact ⟨_, [], (['-', x], [y :: w]), rfl, presplit_glued_form h x y w i a hx hy ok.hfl ok.hai ok.tv, rfl,
      Or.inl (by simp [ok.hfl])⟩
  | toggle fl i =>
    obtain ⟨hun, a, hfl, hai, hk⟩ := hok
    injection hhd with hhd; subst hhd
    exact ⟨fl, [], (fl, []), rfl, presplit_unsplit m fl hun, rfl, Or.inl (by simp [hfl])⟩
  | inverse nofl i =>
    obtain ⟨hun, fl, a, hnf, hinv, hfl, hai, hk, hinc⟩ := hok
    injection hhd with hhd; subst hhd
    exact ⟨nofl, [], (nofl, []), rfl, presplit_unsplit m nofl hun, rfl, Or.inr ⟨rfl, by simp [hinv]⟩⟩
  | block x i rest =>
    obtain ⟨hx, hne, hok⟩ := hok
    injection hhd with hhd; subst hhd
    have hfl : (assoc? ['-', x] c.flags).isSome = true := by
      obtain ⟨_, ⟨a, hfl, _, _⟩, _⟩ := hok
      simp [hfl]
    exact ⟨_, [], _, rfl, presplit_block_form h x i rest hx hne hok, rfl, Or.inl hfl⟩
  | pos v j => cases hhd
  | optBare fl i =>
    obtain ⟨hun, a, hfl, hai, htv, hopt, hraw, hnl, hmiss⟩ := hok
    injection hhd with hhd; subst hhd
    exact ⟨fl, [], (fl, []), rfl, presplit_unsplit m fl hun, rfl, Or.inl (by simp [hfl])⟩

/-- documented rule: a bare optional-value flag is followed by another FLAG of the same task (not by a positional
    value, and not by a token that names a task) -/
def FollowsBare (reg : List Ctx) (it : Item) : Prop :=
  ∃ hd, it.head = some hd ∧ reg.find? (fun c => c.name = some hd || c.aliases.contains hd) = none

theorem item_step {pend : Bool} {m c} (h : Btw pend m c) (it : Item) (hok : it.ok m.initial m.registry c)
    (hfb : pend = true → FollowsBare m.registry it) :
    ∃ m', runToks m it.toks = .ok m' ∧ Btw it.isBare m' (it.apply c) ∧ SameFrame m m' := by
  cases pend with
  | false => exact item_step_ready (by simpa [Btw] using h) it hok
  | true =>
    simp only [Btw, if_true] at h
    obtain ⟨c0, i, a, hp, rfl⟩ := h
    obtain ⟨hd, hhd, hnt⟩ := hfb rfl
    have hr := popt_ready hp
    have hok' : it.ok (m.completed c0 i a).initial (m.completed c0 i a).registry (c0.setArg i a.seen) := hok
    obtain ⟨t, more, p, htoks, hps, hp1, hfirst⟩ := item_head_presplit hr it hok' hd hhd
    have hnt' : m.lookupCtx p.1 = none := by rw [hp1]; exact hnt
    have hfirst' : (assoc? p.1 c0.flags).isSome = true ∨ (p = (t, []) ∧ (assoc? t c0.inverse).isSome = true) := by
      rw [hp1]; exact hfirst
    have heq := popt_procTok hp (t.length + 1) t p hps hnt' hfirst'
    obtain ⟨m', hrun, hb, hf⟩ := item_step_ready hr it hok'
    refine ⟨m', ?_, hb, (popt_frame hp).trans hf⟩
    rw [htoks] at hrun ⊢
    simp only [runToks, List.foldlM_cons] at hrun ⊢
    rw [heq]; exact hrun

/-- side conditions are checked against the context as it evolves; `pend` says whether the previous item was a bare
    optional-value flag -/
def ItemsOK (ic : Option Ctx) (reg : List Ctx) : Bool → Ctx → List Item → Prop
  | _, _, [] => True
  | pend, c, it :: r => it.ok ic reg c ∧ (pend = true → FollowsBare reg it) ∧ ItemsOK ic reg it.isBare (it.apply c) r

/-- does the item list end with a bare optional-value flag (still pending)? -/
def endsBare : Bool → List Item → Bool
  | pend, [] => pend
  | _, it :: r => endsBare it.isBare r

/-- COMPOSITION: any admissible sequence of items, in any order, is parsed to exactly its combined effect -/
theorem items_step (items : List Item) {pend : Bool} {m c} (h : Btw pend m c)
    (hok : ItemsOK m.initial m.registry pend c items) :
    ∃ m', runToks m (items.flatMap Item.toks) = .ok m' ∧
      Btw (endsBare pend items) m' (items.foldl Item.apply c) ∧ SameFrame m m' := by
  induction items generalizing pend m c with
  | nil => exact ⟨m, rfl, h, SameFrame.refl m⟩
  | cons it r ih =>
    obtain ⟨hit, hfb, hr⟩ := hok
    obtain ⟨m1, hrun1, hready1, hf1⟩ := item_step h it hit hfb
    have hr' : ItemsOK m1.initial m1.registry it.isBare (it.apply c) r := by rw [hf1.1, hf1.2.2.1]; exact hr
    obtain ⟨m2, hrun2, hready2, hf2⟩ := ih hready1 hr'
    refine ⟨m2, ?_, by simpa [endsBare] using hready2, hf1.trans hf2⟩
    simp only [List.flatMap_cons, runToks_append, hrun1, bind, Except.bind]
    exact hrun2

end Inv
