import Invoke.Lemmas.ParserChain
/-! C01 — optional-value flags given BARE (`--log` meaning `log=True`).

  After the bare flag the machine is waiting (`POpt`); the flag is only tied off (value `True`) when the next
  flag of the same task arrives or at the end of the command line.  `popt_procTok` shows that a following
  flag-led token is processed exactly as from the tied-off (`Ready`) machine `m.completed …`. -/
open Inv Inv.M
namespace Inv

/-- an optional-value flag `i` has been given without a value (so far) -/
structure POpt (m : M) (c : Ctx) (i : Nat) (a : Arg) : Prop where
  st : m.st = .context
  notInit : m.curIsInitial = false
  cur : m.cur = some c
  unp : m.unparsed = []
  flag : m.flag = some (.cur, i)
  hai : c.args[i]? = some a
  tv : a.takesValue = true
  opt : a.spec.optional = true
  raw : a.raw = none
  nolist : a.spec.kind ≠ .list
  miss : c.missingPositional = []

/-- the machine after the pending optional flag has been tied off with `True` -/
def M.completed (m : M) (c : Ctx) (i : Nat) (a : Arg) : M := { m with cur := some (c.setArg i a.seen) }

theorem popt_facts {m c i a} (h : POpt m c i a) :
    m.ctx = some c ∧ m.flagArg = some a ∧ m.waiting = true ∧ a.spec.incrementable = false := by
  have hc : m.ctx = some c := by simp [M.ctx, h.notInit, h.cur]
  have hf : m.flagArg = some a := by simp [M.flagArg, h.flag, hc, h.hai]
  have hinc : a.spec.incrementable = false := by
    have := h.tv; cases hi : a.spec.incrementable <;> simp [Arg.takesValue, hi] at this ⊢
  refine ⟨hc, hf, ?_, hinc⟩
  simp [M.waiting, hf, h.tv, h.raw]

theorem popt_completeFlag {m c i a} (h : POpt m c i a) : m.completeFlag = .ok (m.completed c i a) := by
  obtain ⟨hc, hf, _, hinc⟩ := popt_facts h
  have hset : a.setValue (.b true) (cast := false) = .ok a.seen := by
    have hl : ¬ a.spec.kind = .list := h.nolist
    simp [Arg.setValue, hinc, hl, Arg.seen]
  unfold M.completeFlag
  simp [hf, h.opt, h.raw, hset, bind, Except.bind]
  simp [M.updFlagArg, h.flag, M.ctx, M.setCtx, h.notInit, h.cur, M.completed, Ctx.setArg]

theorem popt_ready {m c i a} (h : POpt m c i a) : Ready (m.completed c i a) (c.setArg i a.seen) := by
  obtain ⟨hc, hf, _, hinc⟩ := popt_facts h
  have hi : i < c.args.length := by
    have := h.hai; rw [List.getElem?_eq_some_iff] at this; exact this.1
  have hfa2 : M.flagArg (m.completed c i a) = some a.seen := by
    simp [M.flagArg, M.ctx, M.completed, h.flag, h.notInit, Ctx.setArg, hi]
  have hseen : a.seen = { a with raw := some (.b true), val := .b true } := by simp [Arg.seen, hinc]
  refine ⟨h.st, h.notInit, rfl, h.unp, ?_, ?_, ?_⟩
  · unfold M.waiting; rw [hfa2]
    have hl : ¬ a.spec.kind = .list := h.nolist
    simp [hseen, Arg.takesValue, hl]
  · intro b hb; rw [hfa2] at hb; cases hb; simp [hseen]
  · intro k hk; simp [M.completed, h.flag] at hk

theorem popt_frame {m c i a} (_h : POpt m c i a) : SameFrame m (m.completed c i a) := ⟨rfl, rfl, rfl, rfl⟩

/-- while the optional flag is pending, another flag (not a task name) is not ambiguous -/
theorem popt_checkAmbiguity {m c i a} (h : POpt m c i a) (tok : Tok) (hnt : m.lookupCtx tok = none) :
    m.checkAmbiguity tok = .ok () := by
  obtain ⟨hc, hf, _, _⟩ := popt_facts h
  unfold M.checkAmbiguity
  simp [hf, h.opt, h.raw, hc, h.miss, hnt]

theorem popt_switchToFlag {m c i a} (h : POpt m c i a) (tok : Tok) (inv : Bool) (hnt : m.lookupCtx tok = none) :
    m.switchToFlag tok inv = (m.completed c i a).switchToFlag tok inv := by
  have hr := popt_ready h
  unfold M.switchToFlag
  simp only [popt_checkAmbiguity h tok hnt, popt_completeFlag h, checkAmbiguity_ready hr, completeFlag_ready hr,
    bind, Except.bind]

theorem popt_handle {m c i a} (h : POpt m c i a) (tok : Tok) (hnt : m.lookupCtx tok = none)
    (hfl : (assoc? tok c.flags).isSome = true ∨ (assoc? tok c.inverse).isSome = true) :
    m.handle tok = (m.completed c i a).handle tok := by
  obtain ⟨hc, _, _, _⟩ := popt_facts h
  have hc' : (m.completed c i a).ctx = some (c.setArg i a.seen) := by simp [M.ctx, M.completed, h.notInit]
  have hst' : (m.completed c i a).st = .context := h.st
  unfold M.handle
  simp only [h.st, hst', hc, hc']
  have e1 : (c.setArg i a.seen).flags = c.flags := rfl
  have e2 : (c.setArg i a.seen).inverse = c.inverse := rfl
  rw [e1, e2]
  by_cases hf : (assoc? tok c.flags).isSome = true
  · simp [hf, popt_switchToFlag h tok false hnt]
  · have hi : (assoc? tok c.inverse).isSome = true := by
      rcases hfl with hfl | hfl
      · exact absurd hfl hf
      · exact hfl
    simp [hf, hi, popt_switchToFlag h tok true hnt]

theorem seen_takesValue (a : Arg) : a.seen.takesValue = a.takesValue := by
  unfold Arg.seen
  split
  · split <;> rfl
  · rfl

/-- looking a flag up in the tied-off context finds an argument with the same `takesValue` -/
theorem setArg_lookup_rel (c : Ctx) (i : Nat) (a : Arg) (hai : c.args[i]? = some a) (tok : Tok) :
    ((assoc? tok c.flags).bind (c.args[·]?) = none ∧
      (assoc? tok (c.setArg i a.seen).flags).bind ((c.setArg i a.seen).args[·]?) = none) ∨
    ∃ b b', (assoc? tok c.flags).bind (c.args[·]?) = some b ∧
      (assoc? tok (c.setArg i a.seen).flags).bind ((c.setArg i a.seen).args[·]?) = some b' ∧
      b'.takesValue = b.takesValue := by
  have e1 : (c.setArg i a.seen).flags = c.flags := rfl
  rw [e1]
  cases hk : assoc? tok c.flags with
  | none => left; simp
  | some k =>
    simp only [Option.bind_some]
    by_cases hki : k = i
    · subst hki
      obtain ⟨hi, _⟩ := List.getElem?_eq_some_iff.mp hai
      right
      refine ⟨a, a.seen, hai, ?_, seen_takesValue a⟩
      simp [Ctx.setArg, hi]
    · have hne : (c.setArg i a.seen).args[k]? = c.args[k]? := by
        simp [Ctx.setArg, List.getElem?_set_ne (Ne.symm hki)]
      rw [hne]
      cases hb : c.args[k]? with
      | none => left; exact ⟨rfl, rfl⟩
      | some b => right; exact ⟨b, b, rfl, rfl, rfl⟩

theorem popt_presplit {m c i a} (h : POpt m c i a) (t : Tok) :
    presplit (m.completed c i a) t = presplit m t := by
  obtain ⟨hc, _, _, _⟩ := popt_facts h
  have hc' : (m.completed c i a).ctx = some (c.setArg i a.seen) := by simp [M.ctx, M.completed, h.notInit]
  have hst' : (m.completed c i a).st = m.st := rfl
  have hunp : (m.completed c i a).unparsed = m.unparsed := rfl
  have hini : (m.completed c i a).initial = m.initial := rfl
  have hci : (m.completed c i a).curIsInitial = m.curIsInitial := rfl
  have hne : ¬ (St.context = St.unknown) := by decide
  have hgl : isGlued (m.completed c i a) t = isGlued m t := by
    unfold isGlued gluedFlag
    simp only [hst', h.st, hc, hc', hini, hci, h.notInit]
    rw [if_neg hne, if_neg hne]
    rcases setArg_lookup_rel c i a h.hai (t.take 2) with ⟨h1, h2⟩ | ⟨b, b', h1, h2, h3⟩
    · rw [h1, h2]
    · rw [h1, h2]; simp only [h3]
  have hss : splitShort (m.completed c i a) t = splitShort m t := by
    unfold splitShort gluedFlag
    simp only [hst', h.st, hc, hc', hini, hci, h.notInit]
    rw [if_neg hne, if_neg hne]
    rcases setArg_lookup_rel c i a h.hai (t.take 2) with ⟨h1, h2⟩ | ⟨b, b', h1, h2, h3⟩
    · rw [h1, h2]
    · rw [h1, h2]; simp only [h3]
  unfold presplit
  rw [hunp, hgl, hss]

/-- a flag-led token after a bare optional-value flag is processed as from the tied-off machine -/
theorem popt_procTok {m c i a} (h : POpt m c i a) (n : Nat) (t : Tok) (p : Tok × List Tok)
    (hp : presplit (m.completed c i a) t = .ok p)
    (hnt : m.lookupCtx p.1 = none)
    (hfirst : (assoc? p.1 c.flags).isSome = true ∨ (p = (t, []) ∧ (assoc? t c.inverse).isSome = true)) :
    procTok (n + 1) m t = procTok (n + 1) (m.completed c i a) t := by
  obtain ⟨hc, hf, hw, _⟩ := popt_facts h
  have hr := popt_ready h
  have hp0 : presplit m t = .ok p := by rw [← popt_presplit h t]; exact hp
  have hrb' : rollback (m.completed c i a) t p = p := by simp [rollback, hr.nw]
  have hrb : rollback m t p = p := by
    rcases hfirst with hfl | ⟨rfl, _⟩
    · simp [rollback, hw, keepSplit, hf, h.opt, hc, hfl]
    · unfold rollback; split <;> rfl
  have hh : m.handle p.1 = (m.completed c i a).handle p.1 := by
    apply popt_handle h p.1 hnt
    rcases hfirst with hfl | ⟨rfl, hi⟩
    · exact Or.inl hfl
    · exact Or.inr hi
  conv => lhs; unfold procTok
  conv => rhs; unfold procTok
  simp only [hp0, hp, hrb, hrb', hh]

end Inv
