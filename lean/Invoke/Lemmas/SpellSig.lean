import Invoke.Props.C09
import Invoke.Lemmas.SpellFrame
/-! C01 ∘ C09 — static facts about a context built from a task SIGNATURE (`mkCtx`, `Model/TaskSig.lean`) that the
    spelling theorem needs: where the flags point, what the flag tokens look like, which slots are positional,
    what an untouched argument shows. -/
open Inv Inv.M
namespace Inv

theorem alnum_ne_eq {ch : Char} (h : ch.isAlphanum = true) : ch ≠ '=' := by
  intro e; subst e; revert h; decide

theorem assoc_none_of_not_mem {β} : ∀ {l : List (Tok × β)} {k : Tok}, k ∉ l.map Prod.fst → assoc? k l = none
  | [], _, _ => rfl
  | (k', v) :: r, k, h => by
    simp only [List.map_cons, List.mem_cons, not_or] at h
    unfold assoc?
    simp only [h.1, if_false]
    exact assoc_none_of_not_mem h.2

theorem assoc_some_mem {β} : ∀ {l : List (Tok × β)} {k : Tok} {v : β}, assoc? k l = some v → k ∈ l.map Prod.fst
  | [], _, _, h => by simp [assoc?] at h
  | (k', v') :: r, k, v, h => by
    unfold assoc? at h
    by_cases hk : k = k'
    · simp [hk]
    · simp only [hk, if_false] at h
      simp only [List.map_cons, List.mem_cons]
      exact Or.inr (assoc_some_mem h)

theorem isFlag_toFlag (n : Tok) : isFlag (toFlag n) = true := by
  unfold toFlag
  dsimp only
  split <;> rfl

/-! ## positional slots -/

/-- indices (from `i` on) of the positional arguments of a list -/
def posIdx : Nat → List ArgSpec → List Nat
  | _, [] => []
  | i, sp :: r => if sp.positional then i :: posIdx (i + 1) r else posIdx (i + 1) r

theorem pushAll_positional : ∀ (sps : List ArgSpec) (c : Ctx),
    (c.pushAll sps).positional = c.positional ++ posIdx c.args.length sps
  | [], c => by simp [Ctx.pushAll, posIdx]
  | sp :: r, c => by
    have e : c.pushAll (sp :: r) = (c.push sp).pushAll r := rfl
    rw [e, pushAll_positional r (c.push sp)]
    by_cases h : sp.positional = true
    · simp [Ctx.push, posIdx, h, List.append_assoc]
    · simp [Ctx.push, posIdx, h]

theorem pushAll_name : ∀ (sps : List ArgSpec) (c : Ctx),
    (c.pushAll sps).name = c.name ∧ (c.pushAll sps).aliases = c.aliases
  | [], c => ⟨rfl, rfl⟩
  | sp :: r, c => by
    have e : c.pushAll (sp :: r) = (c.push sp).pushAll r := rfl
    rw [e]
    exact pushAll_name r (c.push sp)

theorem mem_posIdx : ∀ {sps : List ArgSpec} {i j : Nat}, j ∈ posIdx i sps →
    ∃ k a, j = i + k ∧ sps[k]? = some a ∧ a.positional = true
  | [], _, _, h => by simp [posIdx] at h
  | sp :: r, i, j, h => by
    unfold posIdx at h
    by_cases hp : sp.positional = true
    · simp only [hp, if_true, List.mem_cons] at h
      rcases h with rfl | h
      · exact ⟨0, sp, rfl, rfl, hp⟩
      · obtain ⟨k, a, e, hk, ha⟩ := mem_posIdx h
        exact ⟨k + 1, a, by omega, by simpa using hk, ha⟩
    · simp only [hp, if_false] at h
      obtain ⟨k, a, e, hk, ha⟩ := mem_posIdx h
      exact ⟨k + 1, a, by omega, by simpa using hk, ha⟩

/-! ## the context of a signature -/

/-- a task as declared: name, decorator options, parameters (after the context parameter) -/
structure TaskDecl where
  name : Tok
  opts : TaskOpts
  params : List Param

def TaskDecl.args (d : TaskDecl) : List ArgSpec := argList d.opts d.params
def TaskDecl.ctx? (d : TaskDecl) : Except Err Ctx := mkCtx d.name d.opts d.params

/-- the hypotheses C09 needs about the identifiers -/
structure TaskDecl.Good (d : TaskDecl) : Prop where
  ident : IdentSig d.params
  noBlank : NoBlankName d.params

/-- every flag token of the task: long, short and `--no-` forms -/
def TaskDecl.flagToks (d : TaskDecl) : List Tok :=
  d.args.flatMap ArgSpec.flagNames ++ (d.args.filter ArgSpec.hasInverse).map ArgSpec.inverseName

theorem mkCtx_shape {d : TaskDecl} {c : Ctx} (h : d.ctx? = .ok c) :
    c = (Ctx.empty (some d.name) []).pushAll d.args := by
  have := (mkCtx_ok_iff.1 h).2.2
  unfold Ctx.ofSpecsChecked at this
  exact (foldChecked_ok_iff.1 this).2

theorem mkCtx_name {d : TaskDecl} {c : Ctx} (h : d.ctx? = .ok c) : c.name = some d.name ∧ c.aliases = [] := by
  rw [mkCtx_shape h]
  exact pushAll_name _ _

theorem mkCtx_positional {d : TaskDecl} {c : Ctx} (h : d.ctx? = .ok c) : c.positional = posIdx 0 d.args := by
  rw [mkCtx_shape h, pushAll_positional]
  simp [Ctx.empty]

theorem mkCtx_args {d : TaskDecl} {c : Ctx} (h : d.ctx? = .ok c) : c.args = d.args.map Arg.init :=
  context_holds_the_arguments h

theorem mkCtx_arg {d : TaskDecl} {c : Ctx} (h : d.ctx? = .ok c) {j : Nat} {a : ArgSpec} (hj : d.args[j]? = some a) :
    c.args[j]? = some (Arg.init a) := by
  rw [mkCtx_args h, List.getElem?_map, hj]; rfl

theorem mkCtx_flag {d : TaskDecl} {c : Ctx} (hg : d.Good) (h : d.ctx? = .ok c) {j : Nat} {a : ArgSpec}
    (hj : d.args[j]? = some a) {n : Tok} (hn : n ∈ a.names) : assoc? (toFlag n) c.flags = some j :=
  (flag_reaches_its_argument hg.ident.nonEmpty h hj hn).1

theorem mkCtx_keys {d : TaskDecl} {c : Ctx} (h : d.ctx? = .ok c) :
    c.flags.map Prod.fst ++ c.inverse.map Prod.fst = d.flagToks := by
  have ht := context_tables h
  have h1 : c.flags.map Prod.fst = d.args.flatMap ArgSpec.flagNames := ht.1
  rw [h1, ht.2]
  simp [TaskDecl.flagToks, TaskDecl.args, List.map_map, ArgSpec.inverseName, Function.comp_def]

/-- a token that is not one of the task's flag tokens is neither a flag nor an inverse flag of its context -/
theorem mkCtx_not_flag {d : TaskDecl} {c : Ctx} (h : d.ctx? = .ok c) {v : Tok} (hv : v ∉ d.flagToks) :
    assoc? v c.flags = none ∧ assoc? v c.inverse = none := by
  rw [← mkCtx_keys h] at hv
  simp only [List.mem_append, not_or] at hv
  exact ⟨assoc_none_of_not_mem hv.1, assoc_none_of_not_mem hv.2⟩

theorem flagToks_are_flags {d : TaskDecl} {t : Tok} (ht : t ∈ d.flagToks) : isFlag t = true := by
  unfold TaskDecl.flagToks at ht
  rcases List.mem_append.1 ht with ht | ht
  · rcases List.mem_flatMap.1 ht with ⟨a, _, ha⟩
    rcases List.mem_map.1 ha with ⟨n, _, rfl⟩
    exact isFlag_toFlag n
  · rcases List.mem_map.1 ht with ⟨a, _, rfl⟩
    exact isFlag_toFlag _

/-- a token that does not look like a flag is no flag of a signature-built context -/
theorem mkCtx_nonflag {d : TaskDecl} {c : Ctx} (h : d.ctx? = .ok c) {v : Tok} (hv : isFlag v = false) :
    assoc? v c.flags = none ∧ assoc? v c.inverse = none := by
  apply mkCtx_not_flag h
  intro hm
  rw [flagToks_are_flags hm] at hv
  cases hv

/-! ## the flag tokens of one argument -/

def ArgSpec.longFlag (a : ArgSpec) : Tok := toFlag (a.names.headD [])

/-- the one-character flag of an argument: its own name if that is a single character, else the auto short flag -/
def ArgSpec.shortChar (a : ArgSpec) : Option Char :=
  match a.names with
  | [ch] :: _ => some ch
  | _ :: [ch] :: _ => some ch
  | _ => none

theorem hasEq_false_of {l : Tok} (h : ∀ ch ∈ l, ch ≠ '=') : hasEq l = false := by
  induction l with
  | nil => rfl
  | cons x xs ih =>
    have hx : x ≠ '=' := h x (by simp)
    simp [hasEq, hx, ih (fun ch hch => h ch (by simp [hch]))]

theorem longFlag_spec {d : TaskDecl} (hg : d.Good) {a : ArgSpec} (ha : a ∈ d.args) :
    FlagTok a.longFlag ∧ a.names.headD [] ∈ a.names := by
  obtain ⟨main, rest, hn, _, hne, _, hch, _, _, hfl⟩ := long_flag_wellformed (o := d.opts) hg.ident hg.noBlank a ha
  have hhead : a.names.headD [] = main := by rw [hn]; rfl
  refine ⟨?_, by rw [hhead, hn]; simp⟩
  unfold ArgSpec.longFlag
  rw [hhead, hfl]
  have hnoeq : ∀ ch ∈ main, ch ≠ '=' := by
    intro ch hm
    rcases hch ch hm with rfl | hal
    · decide
    · exact alnum_ne_eq hal
  by_cases hl : main.length = 1
  · simp only [hl, if_true]
    match main, hl with
    | [x], _ =>
      refine ⟨?_, Or.inr ⟨x, rfl⟩⟩
      have := hnoeq x (by simp)
      simp [hasEq, this]
  · simp only [hl, if_false]
    refine ⟨?_, Or.inl ⟨main, rfl⟩⟩
    have := hasEq_false_of hnoeq
    simp [hasEq, this]

theorem shortChar_spec {d : TaskDecl} (hg : d.Good) {a : ArgSpec} (ha : a ∈ d.args) {ch : Char}
    (hs : a.shortChar = some ch) : [ch] ∈ a.names ∧ toFlag [ch] = ['-', ch] ∧ ch.isAlphanum = true := by
  obtain ⟨main, rest, hn, _, hne, _, hch, hhd, _, _⟩ := long_flag_wellformed (o := d.opts) hg.ident hg.noBlank a ha
  have halnum : ∀ {x : Char}, x.isAlphanum = true → toFlag [x] = ['-', x] := by
    intro x hx
    rw [toFlag_of_no_underscore (by
      intro hmem
      have : '_' = x := by simpa using hmem
      exact alnum_ne_underscore hx this.symm)]
    simp
  unfold ArgSpec.shortChar at hs
  rw [hn] at hs
  split at hs
  · rename_i x tl heq
    cases hs
    have hm : main = [ch] := by
      have := (List.cons.inj heq).1; exact this
    have hal : ch.isAlphanum = true := hhd ch (by rw [hm]; rfl)
    exact ⟨by rw [hn, hm]; simp, halnum hal, hal⟩
  · rename_i m x tl hne' heq
    cases hs
    have hr : rest = [ch] :: tl := (List.cons.inj heq).2
    obtain ⟨_, ch', e, hal, _, _, _⟩ := short_is_alnum d.opts d.params a ha main [ch] tl (by rw [hn, hr])
    have : ch = ch' := by simpa using e
    subst this
    exact ⟨by rw [hn, hr]; simp, halnum hal, hal⟩
  · cases hs

theorem short_flagTok {ch : Char} (h : ch.isAlphanum = true) : FlagTok ['-', ch] ∧ ch ≠ '-' ∧ ch ≠ '=' := by
  have h1 := alnum_ne_eq h
  have h2 := alnum_ne_dash h
  exact ⟨⟨by simp [hasEq, h1], Or.inr ⟨ch, rfl⟩⟩, h2, h1⟩

/-! ## parameter slots -/

/-- slot (index and argument) of the parameter with python name `pn` -/
def slotFrom : Nat → List ArgSpec → Tok → Option (Nat × ArgSpec)
  | _, [], _ => none
  | i, a :: r, pn => if a.pyName = pn then some (i, a) else slotFrom (i + 1) r pn

def TaskDecl.slot (d : TaskDecl) (pn : Tok) : Option (Nat × ArgSpec) := slotFrom 0 d.args pn

theorem slotFrom_spec : ∀ {l : List ArgSpec} {i j : Nat} {a : ArgSpec} {pn : Tok},
    slotFrom i l pn = some (j, a) → ∃ k, j = i + k ∧ l[k]? = some a ∧ a.pyName = pn
  | [], _, _, _, _, h => by simp [slotFrom] at h
  | b :: r, i, j, a, pn, h => by
    unfold slotFrom at h
    by_cases hb : b.pyName = pn
    · simp only [hb, if_true, Option.some.injEq, Prod.mk.injEq] at h
      obtain ⟨rfl, rfl⟩ := h
      exact ⟨0, rfl, rfl, hb⟩
    · simp only [hb, if_false] at h
      obtain ⟨k, e, hk, hp⟩ := slotFrom_spec h
      exact ⟨k + 1, by omega, by simpa using hk, hp⟩

theorem slot_spec {d : TaskDecl} {pn : Tok} {i : Nat} {a : ArgSpec} (h : d.slot pn = some (i, a)) :
    d.args[i]? = some a ∧ a.pyName = pn ∧ a ∈ d.args := by
  obtain ⟨k, e, hk, hp⟩ := slotFrom_spec h
  have : i = k := by omega
  subst this
  exact ⟨hk, hp, List.mem_of_getElem? hk⟩

end Inv
