import Invoke.Lemmas.SpellSigItems
/-! C01 ∘ C09 — item sequences and chains of calls at the signature level: the decidable conditions
    `sitemsOKb` / `sigChainOKb` (about parameters, defaults and decorator options only) imply the context-level
    side conditions `ItemsOK` / `ChainOK` of the spelling theorem for the contexts `mkCtx` builds. -/
open Inv Inv.M
namespace Inv

def elabItems (d : TaskDecl) : List SItem → Option (List Item)
  | [] => some []
  | s :: r =>
    match s.elab d, elabItems d r with
    | some e, some es => some (e :: es)
    | _, _ => none

/-- the slots a signature-level item mentions -/
def SItem.slots (d : TaskDecl) (s : SItem) : List Nat :=
  match s.elab d with
  | some e => e.indices
  | none => []

/-- side conditions of a sequence of mentions; `pend` = the previous item was a bare optional-value flag,
    `done` = slots mentioned so far -/
def sitemsOKb (ic : Option Ctx) (names : List Tok) (d : TaskDecl) : Bool → List Nat → List SItem → Bool
  | _, _, [] => true
  | pend, done, s :: r =>
    s.okb ic names d done && (!pend || !s.isPos) && sitemsOKb ic names d s.isBare (s.slots d ++ done) r

def doneAfter (d : TaskDecl) : List Nat → List SItem → List Nat
  | done, [] => done
  | done, s :: r => doneAfter d (s.slots d ++ done) r

def endsBareS : Bool → List SItem → Bool
  | p, [] => p
  | _, s :: r => endsBareS s.isBare r

theorem elab_isBare {d : TaskDecl} {s : SItem} {e : Item} (h : s.elab d = some e) : e.isBare = s.isBare := by
  cases s <;> simp only [SItem.elab, Option.map_eq_some_iff, Option.bind_eq_some_iff] at h
  all_goals first
    | (obtain ⟨_, _, rfl⟩ := h; rfl)
    | (obtain ⟨_, _, _, _, rfl⟩ := h; rfl)
    | (obtain ⟨_, _, _, _, _, _, rfl⟩ := h; rfl)

theorem elab_head {d : TaskDecl} {s : SItem} {e : Item} (h : s.elab d = some e) (hp : s.isPos = false) :
    ∃ hd, e.head = some hd ∧ isFlag hd = true := by
  cases s <;> simp only [SItem.elab, Option.map_eq_some_iff, Option.bind_eq_some_iff] at h
  case pos => simp [SItem.isPos] at hp
  all_goals first
    | (obtain ⟨_, _, rfl⟩ := h; exact ⟨_, rfl, isFlag_toFlag _⟩)
    | (obtain ⟨_, _, _, _, rfl⟩ := h; exact ⟨_, rfl, rfl⟩)
    | (obtain ⟨_, _, _, _, _, _, rfl⟩ := h; exact ⟨_, rfl, rfl⟩)

theorem sitems_sound {ic : Option Ctx} {reg : List Ctx} {names : List Tok} {d : TaskDecl} {c0 : Ctx}
    (hg : d.Good) (hc0 : d.ctx? = .ok c0)
    (hnames : ∀ v, names.contains v = false → reg.find? (fun c => c.name = some v || c.aliases.contains v) = none)
    (hflagnames : ∀ hd, isFlag hd = true → reg.find? (fun c => c.name = some hd || c.aliases.contains hd) = none) :
    ∀ (ss : List SItem) {pend : Bool} {c : Ctx} {done : List Nat}, Tracks c0 c done →
      sitemsOKb ic names d pend done ss = true →
      ∃ items, elabItems d ss = some items ∧ ItemsOK ic reg pend c items ∧
        Tracks c0 (items.foldl Item.apply c) (doneAfter d done ss) ∧ endsBare pend items = endsBareS pend ss
  | [], pend, c, done, t, _ => ⟨[], rfl, trivial, t, rfl⟩
  | s :: r, pend, c, done, t, h => by
    simp only [sitemsOKb, Bool.and_eq_true, Bool.or_eq_true, Bool.not_eq_true'] at h
    obtain ⟨⟨hs, hp⟩, hr⟩ := h
    obtain ⟨e, he, hok⟩ := sitem_sound hg hc0 t hnames s hs
    have hslots : s.slots d = e.indices := by simp [SItem.slots, he]
    have t1 := tracks_apply t e hok
    rw [← hslots] at t1
    have hb := elab_isBare he
    rw [← hb] at hr
    obtain ⟨items, hi, hoks, t2, hend⟩ := sitems_sound hg hc0 hnames hflagnames r t1 hr
    refine ⟨e :: items, by simp [elabItems, he, hi], ⟨hok, ?_, hoks⟩, t2, ?_⟩
    · intro hpend
      rcases hp with hp | hp
      · rw [hpend] at hp; cases hp
      · obtain ⟨hd, hhd, hfl⟩ := elab_head he hp
        exact ⟨hd, hhd, hflagnames hd hfl⟩
    · simp only [endsBare, endsBareS]; rw [hb] at hend ⊢; exact hend

/-! ## chains -/

/-- one call at the signature level: the task's name and the mentions of its parameters -/
structure SCall where
  tname : Tok
  items : List SItem

def findDecl (decls : List TaskDecl) (t : Tok) : Option TaskDecl := decls.find? (fun d => d.name = t)

def elabCall (decls : List TaskDecl) (k : SCall) : Option Call :=
  match findDecl decls k.tname with
  | some d =>
    match d.ctx?, elabItems d k.items with
    | .ok c, some its => some { tname := k.tname, ctx := c, items := its }
    | _, _ => none
  | none => none

def elabChain (decls : List TaskDecl) : List SCall → Option (List Call)
  | [] => some []
  | k :: r =>
    match elabCall decls k, elabChain decls r with
    | some c, some cs => some (c :: cs)
    | _, _ => none

/-- the command line of a chain -/
def renderChain (decls : List TaskDecl) (ch : List SCall) : List Tok :=
  match elabChain decls ch with
  | some calls => calls.flatMap Call.toks
  | none => []

def scallOKb (ic : Option Ctx) (names : List Tok) (decls : List TaskDecl) (k : SCall) : Bool :=
  match findDecl decls k.tname with
  | some d => sitemsOKb ic names d false [] k.items && (d.pending (doneAfter d [] k.items)).isEmpty
  | none => false

def schainOKb (ic : Option Ctx) (names : List Tok) (decls : List TaskDecl) : List SCall → Bool
  | [] => true
  | k :: r => scallOKb ic names decls k && (r.isEmpty || !endsBareS false k.items) && schainOKb ic names decls r

/-- SIGNATURE-LEVEL side conditions of a whole chain (the core context only has to accept the first task name) -/
def sigChainOKb (ic : Option Ctx) (decls : List TaskDecl) (ch : List SCall) : Bool :=
  (match ch with
   | [] => (match ic with | none => true | some p => p.missingPositional.isEmpty)
   | k :: _ => nameOKb ic k.tname) &&
  schainOKb ic (decls.map TaskDecl.name) decls ch

/-- the registry is the list of contexts `mkCtx` builds from the declarations, in order -/
inductive Built : List TaskDecl → List Ctx → Prop
  | nil : Built [] []
  | cons {d : TaskDecl} {c : Ctx} {ds : List TaskDecl} {cs : List Ctx} : d.ctx? = .ok c → Built ds cs → Built (d :: ds) (c :: cs)

/-- the task declarations and the registry of contexts built from them -/
structure SigWorld (decls : List TaskDecl) (reg : List Ctx) : Prop where
  built : Built decls reg
  good : ∀ d ∈ decls, d.Good
  plain : ∀ d ∈ decls, isFlag d.name = false

theorem world_find : ∀ {decls : List TaskDecl} {reg : List Ctx}, Built decls reg →
    ∀ {t : Tok} {d : TaskDecl}, findDecl decls t = some d →
      ∃ c, d.ctx? = .ok c ∧ reg.find? (fun c => c.name = some t || c.aliases.contains t) = some c ∧ d ∈ decls ∧ d.name = t
  | _, _, .nil, _, _, h => by simp [findDecl] at h
  | d0 :: ds, c0 :: cs, .cons h0 hr, t, d, h => by
    obtain ⟨hn, ha⟩ := mkCtx_name h0
    unfold findDecl at h
    by_cases hd : d0.name = t
    · simp only [List.find?_cons, hd, decide_true] at h
      cases h
      exact ⟨c0, h0, by simp [List.find?_cons, hn, hd], by simp, hd⟩
    · simp only [List.find?_cons, hd, decide_false] at h
      obtain ⟨c, h1, h2, h3, h4⟩ := world_find hr (t := t) (d := d) h
      refine ⟨c, h1, ?_, by simp [h3], h4⟩
      have : (decide (c0.name = some t) || c0.aliases.contains t) = false := by
        simp [hn, ha, hd]
      simp only [List.find?_cons, this]
      exact h2

theorem world_notname : ∀ {decls : List TaskDecl} {reg : List Ctx}, Built decls reg →
    ∀ {v : Tok}, (decls.map TaskDecl.name).contains v = false →
      reg.find? (fun c => c.name = some v || c.aliases.contains v) = none
  | _, _, .nil, _, _ => rfl
  | d0 :: ds, c0 :: cs, .cons h0 hr, v, h => by
    obtain ⟨hn, ha⟩ := mkCtx_name h0
    simp only [List.map_cons, List.contains_cons, Bool.or_eq_false_iff, beq_eq_false_iff_ne, ne_eq] at h
    have hne : d0.name ≠ v := fun e => h.1 e.symm
    have : (decide (c0.name = some v) || c0.aliases.contains v) = false := by simp [hn, ha, hne]
    simp only [List.find?_cons, this]
    exact world_notname hr h.2

theorem world_flagname {decls : List TaskDecl} {reg : List Ctx} (w : SigWorld decls reg) {hd : Tok}
    (h : isFlag hd = true) : reg.find? (fun c => c.name = some hd || c.aliases.contains hd) = none := by
  apply world_notname w.built
  rw [Bool.eq_false_iff]
  intro hc
  have : hd ∈ decls.map TaskDecl.name := by simpa using hc
  obtain ⟨d, hdm, rfl⟩ := List.mem_map.1 this
  rw [w.plain d hdm] at h
  cases h

theorem mkCtx_initCtx {d : TaskDecl} {c0 : Ctx} (h : d.ctx? = .ok c0) : InitCtx c0 := by
  intro j a ha
  rw [mkCtx_args h, List.getElem?_map] at ha
  cases hj : d.args[j]? with
  | none => simp [hj] at ha
  | some sp => simp [hj] at ha; exact ⟨sp, ha.symm⟩

/-- what the chain conditions need to know about the context the next name token is read in -/
def PrevOK (prev : Option Ctx) : List SCall → Prop
  | [] => ∀ p, prev = some p → p.missingPositional = []
  | k :: _ => NameOK prev k.tname

theorem schain_sound {ic : Option Ctx} {decls : List TaskDecl} {reg : List Ctx} (w : SigWorld decls reg) :
    ∀ (ch : List SCall) (prev : Option Ctx), schainOKb ic (decls.map TaskDecl.name) decls ch = true → PrevOK prev ch →
      ∃ calls, elabChain decls ch = some calls ∧ ChainOK ic reg prev calls
  | [], prev, _, hprev => ⟨[], rfl, hprev⟩
  | k :: r, prev, h, hprev => by
    simp only [schainOKb, Bool.and_eq_true, Bool.or_eq_true, Bool.not_eq_true'] at h
    obtain ⟨⟨hk, hlast⟩, hr⟩ := h
    unfold scallOKb at hk
    cases hf : findDecl decls k.tname with
    | none => simp [hf] at hk
    | some d =>
      simp only [hf, Bool.and_eq_true, List.isEmpty_iff] at hk
      obtain ⟨hitems, hpend⟩ := hk
      obtain ⟨c0, hc0, hfind, hdm, hdn⟩ := world_find w.built hf
      have hg := w.good d hdm
      obtain ⟨items, hel, hoks, t, hend⟩ := sitems_sound (ic := ic) hg hc0 (fun v hv => world_notname w.built hv)
        (fun hd hfl => world_flagname w hfl) k.items (tracks_refl (mkCtx_initCtx hc0)) hitems
      have hres_missing : (items.foldl Item.apply c0).missingPositional = [] := by
        rw [(tracks_pending hc0 t).1]; exact hpend
      -- the context the next name token is read in
      have hprev' : PrevOK (some (items.foldl Item.apply c0)) r := by
        cases r with
        | nil => intro p hp; cases hp; exact hres_missing
        | cons k2 r2 =>
          simp only [schainOKb, Bool.and_eq_true] at hr
          have hk2 := hr.1.1
          unfold scallOKb at hk2
          cases hf2 : findDecl decls k2.tname with
          | none => simp [hf2] at hk2
          | some d2 =>
            obtain ⟨_, _, _, hd2m, hd2n⟩ := world_find w.built hf2
            have hnf : isFlag k2.tname = false := by rw [← hd2n]; exact w.plain d2 hd2m
            refine ⟨hnf, ?_⟩
            intro p hp; cases hp
            have := mkCtx_nonflag hc0 hnf
            exact ⟨by rw [t.flags]; exact this.1, by rw [t.inverse]; exact this.2, hres_missing⟩
      obtain ⟨calls, hcalls, hchain⟩ := schain_sound w r _ hr hprev'
      refine ⟨{ tname := k.tname, ctx := c0, items := items } :: calls, ?_, ⟨hprev, hfind, hoks⟩, ?_, hchain⟩
      · simp [elabChain, elabCall, hf, hc0, hel, hcalls]
      · intro hne
        rcases hlast with hl | hl
        · simp at hl
          subst hl
          simp [elabChain] at hcalls
          exact absurd hcalls hne
        · show endsBare false items = false
          rw [hend]; exact hl

/-- COMPOSITION (parser level): for task signatures whose contexts `mkCtx` builds, every chain of calls whose items
    are mentions of the signatures' parameters and satisfy the signature-level conditions parses to the core
    context followed by exactly one context per call, each the call's items applied to the signature's context. -/
theorem parse_from_signatures (ic : Option Ctx) (decls : List TaskDecl) (reg : List Ctx) (ign : Bool) (ch : List SCall)
    (w : SigWorld decls reg) (hok : sigChainOKb ic decls ch = true)
    (hbody : noSentinelB (renderChain decls ch) = true) :
    ∃ calls, elabChain decls ch = some calls ∧
      parseArgv ic reg ign (renderChain decls ch) =
        .ok { contexts := ic.toList ++ calls.map Call.result, unparsed := [], remainder := [] } := by
  simp only [sigChainOKb, Bool.and_eq_true] at hok
  have hprev : PrevOK ic ch := by
    cases ch with
    | nil =>
      intro p hp; subst hp
      simpa using hok.1
    | cons k r => exact nameOKb_sound hok.1
  obtain ⟨calls, hcalls, hchain⟩ := schain_sound w ch ic hok.2 hprev
  refine ⟨calls, hcalls, ?_⟩
  have hrender : renderChain decls ch = calls.flatMap Call.toks := by simp [renderChain, hcalls]
  rw [hrender] at hbody ⊢
  exact parse_chain_core ic reg ign calls hchain (noSentinelB_sound hbody)

end Inv
