import Invoke.Lemmas.SpellSig
import Invoke.Lemmas.SpellTrack
/-! C01 ∘ C09 — spelling items phrased in terms of the PARAMETERS of a task signature (`SItem`), their elaboration
    into the parser-level items of `SpellItems.lean` (`SItem.elab`: the long flag is derived from the parameter
    name, the short flag is the one `arg_opts` assigned, the slot is the parameter's place in `get_arguments()`),
    signature-level side conditions (`SItem.okb`, decidable, no parser context involved) and the derivation
    `sitems_sound`: they imply the context-level side conditions `ItemsOK` of the spelling theorem. -/
open Inv Inv.M
namespace Inv

/-- a mention of the parameter with python name `pn` in one documented form -/
inductive SItem
  | longSpaced (pn v : Tok)                     -- `--my-param v`
  | longEq (pn v : Tok)                         -- `--my-param=v`
  | shortSpaced (pn v : Tok)                    -- `-m v`
  | shortEq (pn v : Tok)                        -- `-m=v`
  | shortGlued (pn : Tok) (y : Char) (w : Tok)  -- `-mVALUE`, VALUE = y :: w
  | flagLong (pn : Tok)                         -- `--flag`   (boolean ↦ True, counter ↦ +1)
  | flagShort (pn : Tok)                        -- `-f`
  | noFlag (pn : Tok)                           -- `--no-flag` (default-True boolean ↦ False)
  | block (pn : Tok) (pns : List Tok)           -- `-fgh…` combined short flags of booleans / counters
  | pos (pn v : Tok)                            -- positional token for a parameter without default
  | bareLong (pn : Tok)                         -- optional-value parameter given bare, `--log` ↦ True
  | bareShort (pn : Tok)

def elabRest (d : TaskDecl) : List Tok → Option (List (Char × Nat))
  | [] => some []
  | pn :: r =>
    match d.slot pn with
    | some (i, a) =>
      match a.shortChar with
      | some ch => (elabRest d r).map ((ch, i) :: ·)
      | none => none
    | none => none

/-- the parser-level item a signature-level item stands for -/
def SItem.elab (d : TaskDecl) : SItem → Option Item
  | .longSpaced pn v => (d.slot pn).map fun s => .spaced s.2.longFlag v s.1
  | .longEq pn v => (d.slot pn).map fun s => .eq s.2.longFlag v s.1
  | .shortSpaced pn v => (d.slot pn).bind fun s => s.2.shortChar.map fun ch => .spaced ['-', ch] v s.1
  | .shortEq pn v => (d.slot pn).bind fun s => s.2.shortChar.map fun ch => .eq ['-', ch] v s.1
  | .shortGlued pn y w => (d.slot pn).bind fun s => s.2.shortChar.map fun ch => .glued ch y w s.1
  | .flagLong pn => (d.slot pn).map fun s => .toggle s.2.longFlag s.1
  | .flagShort pn => (d.slot pn).bind fun s => s.2.shortChar.map fun ch => .toggle ['-', ch] s.1
  | .noFlag pn => (d.slot pn).map fun s => .inverse s.2.inverseName s.1
  | .block pn pns => (d.slot pn).bind fun s => s.2.shortChar.bind fun ch =>
      (elabRest d pns).map fun rest => .block ch s.1 rest
  | .pos pn v => (d.slot pn).map fun s => .pos v s.1
  | .bareLong pn => (d.slot pn).map fun s => .optBare s.2.longFlag s.1
  | .bareShort pn => (d.slot pn).bind fun s => s.2.shortChar.map fun ch => .optBare ['-', ch] s.1

def SItem.isPos : SItem → Bool | .pos _ _ => true | _ => false
def SItem.isBare : SItem → Bool | .bareLong _ => true | .bareShort _ => true | _ => false

/-! ## signature-level side conditions -/

/-- the parameter takes a value on the command line (not a boolean, not a counter) -/
def ArgSpec.takesVal (a : ArgSpec) : Bool := !(a.kind = .bool) && !a.incrementable
/-- `v` is admissible for the parameter's type (the type its declared default gives it) -/
def castable (a : ArgSpec) (v : Tok) : Bool :=
  match a.kind with
  | .str => true
  | .list => true
  | .int => (pyInt? v).isSome
  | .bool => false
/-- boolean, or counter with an integer default -/
def ArgSpec.toggles (a : ArgSpec) : Bool :=
  (!a.incrementable && decide (a.kind = .bool)) || (a.incrementable && isIntVal a.default)

/-- the parameter in slot `j` shows no value when nothing is given (it is then a *missing* positional) -/
def TaskDecl.startsMissing (d : TaskDecl) (j : Nat) : Bool :=
  match d.args[j]? with
  | some a => decide ((Arg.init a).value = .none)
  | none => false
def TaskDecl.pendingPred (d : TaskDecl) (done : List Nat) (j : Nat) : Bool := !done.contains j && d.startsMissing j
/-- positional slots still without a value after the slots in `done` were mentioned -/
def TaskDecl.pending (d : TaskDecl) (done : List Nat) : List Nat := (posIdx 0 d.args).filter (d.pendingPred done)
def TaskDecl.firstPending (d : TaskDecl) (done : List Nat) : Option Nat := (posIdx 0 d.args).find? (d.pendingPred done)

/-- a value `v` for the value-taking parameter in slot `i`; `names` = all task names -/
def valueOKb (ic : Option Ctx) (names : List Tok) (d : TaskDecl) (done : List Nat) (i : Nat) (a : ArgSpec) (v : Tok) : Bool :=
  a.takesVal && (decide (a.kind = .list) || !done.contains i) && !d.flagToks.contains v && castable a v &&
  (!a.optional ||
    ((!isFlag v || (!d.flagToks.contains (beforeEq v) && !d.flagToks.contains (v.take 2) &&
        notCoreFlagB ic (beforeEq v) && notCoreFlagB ic (v.take 2))) &&
      notCoreFlagB ic v &&
      (d.pending done).isEmpty && !done.contains i && decide (a.kind ≠ .list) && !names.contains v))

def bareOKb (d : TaskDecl) (done : List Nat) (i : Nat) (a : ArgSpec) : Bool :=
  a.takesVal && a.optional && !done.contains i && decide (a.kind ≠ .list) && (d.pending done).isEmpty

def toggleSlotB (d : TaskDecl) (q : Tok) : Bool :=
  match d.slot q with
  | some (_, a) => a.shortChar.isSome && a.toggles
  | none => false

def SItem.okb (ic : Option Ctx) (names : List Tok) (d : TaskDecl) (done : List Nat) : SItem → Bool
  | .longSpaced pn v => match d.slot pn with | some (i, a) => valueOKb ic names d done i a v | none => false
  | .longEq pn v => match d.slot pn with | some (i, a) => valueOKb ic names d done i a v | none => false
  | .shortSpaced pn v => match d.slot pn with
      | some (i, a) => a.shortChar.isSome && valueOKb ic names d done i a v | none => false
  | .shortEq pn v => match d.slot pn with
      | some (i, a) => a.shortChar.isSome && valueOKb ic names d done i a v | none => false
  | .shortGlued pn y w => match d.slot pn with
      | some (i, a) => a.shortChar.isSome && decide (y ≠ '=') && valueOKb ic names d done i a (y :: w) | none => false
  | .flagLong pn => match d.slot pn with | some (_, a) => a.toggles | none => false
  | .flagShort pn => toggleSlotB d pn
  | .noFlag pn => match d.slot pn with | some (_, a) => a.hasInverse && !a.incrementable | none => false
  | .block pn pns => !pns.isEmpty && toggleSlotB d pn && pns.all (toggleSlotB d)
  | .pos pn v => match d.slot pn with
      | some (i, a) => decide (d.firstPending done = some i) && (!isFlag v || unsplitB v) && !d.flagToks.contains v &&
          notCoreFlagB ic v && a.takesVal && castable a v
      | none => false
  | .bareLong pn => match d.slot pn with | some (i, a) => bareOKb d done i a | none => false
  | .bareShort pn => match d.slot pn with | some (i, a) => a.shortChar.isSome && bareOKb d done i a | none => false

/-! ## from the signature to the evolving context -/

section
variable {d : TaskDecl} {c0 c : Ctx} {done : List Nat}

theorem c0_isMissing (hc0 : d.ctx? = .ok c0) (j : Nat) : c0.isMissing j = d.startsMissing j := by
  unfold Ctx.isMissing TaskDecl.startsMissing
  rw [mkCtx_args hc0, List.getElem?_map]
  cases d.args[j]? <;> simp

theorem tracks_pending (hc0 : d.ctx? = .ok c0) (t : Tracks c0 c done) :
    c.missingPositional = d.pending done ∧ c.firstMissing = d.firstPending done := by
  have hp : (fun j => !done.contains j && c0.isMissing j) = d.pendingPred done := by
    funext j; unfold TaskDecl.pendingPred; rw [c0_isMissing hc0]
  rw [tracks_missingPositional t, tracks_firstMissing t, mkCtx_positional hc0, hp]
  exact ⟨rfl, rfl⟩

theorem init_raw_none {a : ArgSpec} (hk : a.kind ≠ .list) (hi : a.incrementable = false) : (Arg.init a).raw = none := by
  simp [Arg.init, hi, hk]

theorem init_counter_val {a : ArgSpec} (hi : a.incrementable = true) (hd : isIntVal a.default = true) :
    ∃ n, (Arg.init a).val = .i n := by
  cases hv : a.default with
  | i n => exact ⟨n, by simp [Arg.init, hi, hv]⟩
  | none => simp [hv, isIntVal] at hd
  | s _ => simp [hv, isIntVal] at hd
  | b _ => simp [hv, isIntVal] at hd
  | l _ => simp [hv, isIntVal] at hd

/-- the argument in a parameter's slot, in the evolving context -/
theorem slot_arg (hc0 : d.ctx? = .ok c0) (t : Tracks c0 c done) {i : Nat} {a : ArgSpec} (hi : d.args[i]? = some a) :
    ∃ ac, c.args[i]? = some ac ∧ ArgInv (Arg.init a) ac ∧ (i ∉ done → ac = Arg.init a) := by
  have h0 : c0.args[i]? = some (Arg.init a) := mkCtx_arg hc0 hi
  have hlt : i < c.args.length := by
    rw [t.len]; exact (List.getElem?_eq_some_iff.mp h0).1
  obtain ⟨ac, hac⟩ : ∃ ac, c.args[i]? = some ac := ⟨c.args[i], List.getElem?_eq_getElem hlt⟩
  obtain ⟨a0, ha0, hinv⟩ := t.inv i ac hac
  rw [h0] at ha0; cases ha0
  refine ⟨ac, hac, hinv, ?_⟩
  intro hnd
  have := t.untouched i hnd
  rw [hac, h0] at this
  exact Option.some.inj this

theorem flag_in_c (hg : d.Good) (hc0 : d.ctx? = .ok c0) (t : Tracks c0 c done) {i : Nat} {a : ArgSpec}
    (hi : d.args[i]? = some a) {n : Tok} (hn : n ∈ a.names) : assoc? (toFlag n) c.flags = some i := by
  rw [t.flags]; exact mkCtx_flag hg hc0 hi hn

theorem not_flag_in_c (hc0 : d.ctx? = .ok c0) (t : Tracks c0 c done) {v : Tok} (hv : d.flagToks.contains v = false) :
    assoc? v c.flags = none ∧ assoc? v c.inverse = none := by
  rw [t.flags, t.inverse]
  exact mkCtx_not_flag hc0 (by simpa using hv)

theorem give_of_castable {a : ArgSpec} {ac : Arg} (hinv : ArgInv (Arg.init a) ac) (htv : a.takesVal = true) {v : Tok}
    (hc : castable a v = true) : ∃ a', ac.give v = some a' := by
  have hs : ac.spec = a := hinv.spec
  simp only [ArgSpec.takesVal, Bool.and_eq_true, Bool.not_eq_true', decide_eq_false_iff_not] at htv
  unfold Arg.give
  rw [hs]
  unfold castable at hc
  cases hk : a.kind with
  | str => simp [castTok]
  | int =>
    rw [hk] at hc
    obtain ⟨n, hn⟩ := Option.isSome_iff_exists.mp hc
    simp [castTok, hn]
  | bool => rw [hk] at hc; cases hc
  | list =>
    obtain ⟨xs, hx⟩ := hinv.lst hk htv.2
    simp [hx]

theorem takesValue_of (a : ArgSpec) {ac : Arg} (hs : ac.spec = a) : ac.takesValue = a.takesVal := by
  simp [Arg.takesValue, ArgSpec.takesVal, hs]

/-- a value flag of parameter slot `i`, spelled with any of the parameter's names -/
theorem value_flag_ok {ic : Option Ctx} {reg : List Ctx} {names : List Tok} (hg : d.Good) (hc0 : d.ctx? = .ok c0)
    (t : Tracks c0 c done)
    (hnames : ∀ v, names.contains v = false → reg.find? (fun c => c.name = some v || c.aliases.contains v) = none)
    {i : Nat} {a : ArgSpec} (hi : d.args[i]? = some a) {n : Tok} (hn : n ∈ a.names) {v : Tok}
    (h : valueOKb ic names d done i a v = true) : ∃ ac a', ValFlagOK ic reg c (toFlag n) i v ac a' := by
  simp only [valueOKb, Bool.and_eq_true, Bool.or_eq_true, decide_eq_true_eq, Bool.not_eq_true'] at h
  obtain ⟨⟨⟨⟨htv, hfresh⟩, hnf⟩, hcast⟩, hopt⟩ := h
  obtain ⟨ac, hac, hinv, hund⟩ := slot_arg hc0 t hi
  obtain ⟨a', ha'⟩ := give_of_castable hinv htv hcast
  have hs : ac.spec = a := hinv.spec
  have htv' := htv
  simp only [ArgSpec.takesVal, Bool.and_eq_true, Bool.not_eq_true', decide_eq_false_iff_not] at htv'
  have hv12 := not_flag_in_c hc0 t hnf
  refine ⟨ac, a', ⟨flag_in_c hg hc0 t hi hn, hac, by rw [takesValue_of a hs]; exact htv, ?_, hv12.1, hv12.2, ha', ?_⟩⟩
  · rcases hfresh with hl | hnd
    · left; rw [hs]; exact hl
    · by_cases hl : a.kind = .list
      · left; rw [hs]; exact hl
      · right
        rw [hund (by simpa using hnd)]
        exact init_raw_none hl htv'.2
  · rcases hopt with ho | ho
    · left; rw [hs]; exact ho
    · right
      obtain ⟨⟨⟨⟨⟨hfl, hcv⟩, hpend⟩, hnd⟩, hnl⟩, hnm⟩ := ho
      refine ⟨?_, notCoreFlagB_sound hcv, ?_, ?_, hnames v hnm⟩
      · rcases hfl with hfl | ⟨⟨⟨hf1, hf2⟩, hf3⟩, hf4⟩
        · exact Or.inl hfl
        · exact Or.inr ⟨(not_flag_in_c hc0 t hf1).1, (not_flag_in_c hc0 t hf2).1, notCoreFlagB_sound hf3,
            notCoreFlagB_sound hf4⟩
      · rw [(tracks_pending hc0 t).1]; simpa using hpend
      · rw [hund (by simpa using hnd)]
        exact init_raw_none hnl htv'.2

theorem toggle_ok (hg : d.Good) (hc0 : d.ctx? = .ok c0) (t : Tracks c0 c done) {i : Nat} {a : ArgSpec}
    (hi : d.args[i]? = some a) {n : Tok} (hn : n ∈ a.names) (h : a.toggles = true) : ToggleOK c (toFlag n) i := by
  obtain ⟨ac, hac, hinv, _⟩ := slot_arg hc0 t hi
  have hs : ac.spec = a := hinv.spec
  refine ⟨ac, flag_in_c hg hc0 t hi hn, hac, ?_⟩
  simp only [ArgSpec.toggles, Bool.or_eq_true, Bool.and_eq_true, Bool.not_eq_true', decide_eq_true_eq] at h
  rcases h with ⟨h1, h2⟩ | ⟨h1, h2⟩
  · left; rw [hs]; exact ⟨h1, h2⟩
  · right
    rw [hs]
    exact ⟨h1, hinv.cnt h1 (init_counter_val h1 h2)⟩

theorem bare_ok (hg : d.Good) (hc0 : d.ctx? = .ok c0) (t : Tracks c0 c done) {i : Nat} {a : ArgSpec}
    (hi : d.args[i]? = some a) {n : Tok} (hn : n ∈ a.names) (h : bareOKb d done i a = true) :
    ∃ ac, assoc? (toFlag n) c.flags = some i ∧ c.args[i]? = some ac ∧ ac.takesValue = true ∧
      ac.spec.optional = true ∧ ac.raw = none ∧ ac.spec.kind ≠ .list ∧ c.missingPositional = [] := by
  simp only [bareOKb, Bool.and_eq_true, decide_eq_true_eq, Bool.not_eq_true'] at h
  obtain ⟨⟨⟨⟨htv, hopt⟩, hnd⟩, hnl⟩, hpend⟩ := h
  obtain ⟨ac, hac, hinv, hund⟩ := slot_arg hc0 t hi
  have hs : ac.spec = a := hinv.spec
  have htv' := htv
  simp only [ArgSpec.takesVal, Bool.and_eq_true, Bool.not_eq_true', decide_eq_false_iff_not] at htv'
  refine ⟨ac, flag_in_c hg hc0 t hi hn, hac, by rw [takesValue_of a hs]; exact htv, by rw [hs]; exact hopt, ?_,
    by rw [hs]; exact hnl, ?_⟩
  · rw [hund (by simpa using hnd)]; exact init_raw_none hnl htv'.2
  · rw [(tracks_pending hc0 t).1]; simpa using hpend

theorem inverseName_unsplit {a : ArgSpec} (hg : d.Good) (ha : a ∈ d.args) : Unsplit a.inverseName := by
  obtain ⟨main, rest, hn, _, hne, hnu, hch, _, _, _⟩ := long_flag_wellformed (o := d.opts) hg.ident hg.noBlank a ha
  have hhead : a.names.headD [] = main := by rw [hn]; rfl
  unfold ArgSpec.inverseName
  rw [hhead]
  have hnu' : '_' ∉ "no-".toList ++ main := by
    intro hm
    rcases List.mem_append.1 hm with h | h
    · revert h; decide
    · exact hnu h
  rw [toFlag_of_no_underscore hnu']
  have hlen : ("no-".toList ++ main).length ≠ 1 := by simp
  simp only [hlen, if_false]
  refine ⟨?_, Or.inl rfl⟩
  have : ∀ ch ∈ "no-".toList ++ main, ch ≠ '=' := by
    intro ch hm
    rcases List.mem_append.1 hm with h | h
    · intro e; subst e; revert h; decide
    · rcases hch ch h with rfl | hal
      · decide
      · exact alnum_ne_eq hal
  apply hasEq_false_of
  intro ch hm
  simp only [List.mem_cons] at hm
  rcases hm with rfl | rfl | hm
  · decide
  · decide
  · exact this ch hm

theorem inverse_ok (hg : d.Good) (hc0 : d.ctx? = .ok c0) (t : Tracks c0 c done) {i : Nat} {a : ArgSpec}
    (hi : d.args[i]? = some a) (h : a.hasInverse = true) (hinc : a.incrementable = false) :
    ∃ fl ac, assoc? a.inverseName c.flags = none ∧ assoc? a.inverseName c.inverse = some fl ∧
      assoc? fl c.flags = some i ∧ c.args[i]? = some ac ∧ ac.spec.kind = .bool ∧ ac.spec.incrementable = false := by
  obtain ⟨ac, hac, hinv, _⟩ := slot_arg hc0 t hi
  have hs : ac.spec = a := hinv.spec
  have ha : a ∈ d.args := List.mem_of_getElem? hi
  have hnd := flags_distinct hg.ident.nonEmpty hc0
  have ht := context_tables hc0
  have hmem : (a.inverseName, toFlag (a.names.headD [])) ∈ c0.inverse := by
    rw [ht.2]
    exact List.mem_map.2 ⟨a, List.mem_filter.2 ⟨ha, h⟩, rfl⟩
  have hkey : a.inverseName ∈ c0.inverseNames := List.mem_map.2 ⟨_, hmem, rfl⟩
  have hk : a.kind = .bool := by
    simp only [ArgSpec.hasInverse, Bool.and_eq_true, decide_eq_true_eq] at h; exact h.1
  refine ⟨toFlag (a.names.headD []), ac, ?_, ?_, ?_, hac, by rw [hs]; exact hk, by rw [hs]; exact hinc⟩
  · rw [t.flags]
    apply assoc_none_of_not_mem
    intro hm
    exact (List.nodup_append.1 hnd).2.2 _ hm _ hkey rfl
  · rw [t.inverse]
    exact assoc_of_mem_nodup hmem (List.nodup_append.1 hnd).2.1
  · exact flag_in_c hg hc0 t hi (longFlag_spec hg ha).2

end

/-! ## soundness of one item -/

theorem elabRest_toggles {d : TaskDecl} {c0 : Ctx} (hg : d.Good) (hc0 : d.ctx? = .ok c0) :
    ∀ (pns : List Tok) {c : Ctx} {done : List Nat}, Tracks c0 c done → pns.all (toggleSlotB d) = true →
      ∃ rest, elabRest d pns = some rest ∧ TogglesOK c rest ∧ (pns = [] ↔ rest = [])
  | [], c, done, _, _ => ⟨[], rfl, trivial, by simp⟩
  | q :: r, c, done, t, h => by
    simp only [List.all_cons, Bool.and_eq_true] at h
    obtain ⟨hq, hr⟩ := h
    unfold toggleSlotB at hq
    cases hs : d.slot q with
    | none => simp [hs] at hq
    | some s =>
      obtain ⟨i, a⟩ := s
      simp only [hs, Bool.and_eq_true] at hq
      obtain ⟨ch, hch⟩ := Option.isSome_iff_exists.mp hq.1
      obtain ⟨hi, _, ha⟩ := slot_spec hs
      obtain ⟨hmem, hfl, hal⟩ := shortChar_spec hg ha hch
      have htog : ToggleOK c ['-', ch] i := by
        have := toggle_ok hg hc0 t hi hmem hq.2
        rwa [hfl] at this
      obtain ⟨ac, _, hac, hk⟩ := htog
      have t1 := tracks_updArg t Arg.seen hac (seen_fok_toggle hk)
      obtain ⟨rest, hrest, hok, _⟩ := elabRest_toggles hg hc0 r t1 hr
      refine ⟨(ch, i) :: rest, ?_, ⟨alnum_ne_eq hal, ⟨ac, by assumption, hac, hk⟩, hok⟩, by simp⟩
      simp [elabRest, hs, hch, hrest]

theorem sitem_sound {ic : Option Ctx} {reg : List Ctx} {names : List Tok} {d : TaskDecl} {c0 c : Ctx} {done : List Nat}
    (hg : d.Good) (hc0 : d.ctx? = .ok c0) (t : Tracks c0 c done)
    (hnames : ∀ v, names.contains v = false → reg.find? (fun c => c.name = some v || c.aliases.contains v) = none)
    (s : SItem) (h : s.okb ic names d done = true) : ∃ e, s.elab d = some e ∧ e.ok ic reg c := by
  cases s with
  | longSpaced pn v =>
    simp only [SItem.okb] at h
    cases hs : d.slot pn with
    | none => simp [hs] at h
    | some s =>
      obtain ⟨i, a⟩ := s
      simp only [hs] at h
      obtain ⟨hi, _, ha⟩ := slot_spec hs
      obtain ⟨hft, hmem⟩ := longFlag_spec hg ha
      exact ⟨.spaced a.longFlag v i, by simp [SItem.elab, hs], hft.unsplit, value_flag_ok hg hc0 t hnames hi hmem h⟩
  | longEq pn v =>
    simp only [SItem.okb] at h
    cases hs : d.slot pn with
    | none => simp [hs] at h
    | some s =>
      obtain ⟨i, a⟩ := s
      simp only [hs] at h
      obtain ⟨hi, _, ha⟩ := slot_spec hs
      obtain ⟨hft, hmem⟩ := longFlag_spec hg ha
      exact ⟨.eq a.longFlag v i, by simp [SItem.elab, hs], hft, value_flag_ok hg hc0 t hnames hi hmem h⟩
  | shortSpaced pn v =>
    simp only [SItem.okb] at h
    cases hs : d.slot pn with
    | none => simp [hs] at h
    | some s =>
      obtain ⟨i, a⟩ := s
      simp only [hs, Bool.and_eq_true] at h
      obtain ⟨ch, hch⟩ := Option.isSome_iff_exists.mp h.1
      obtain ⟨hi, _, ha⟩ := slot_spec hs
      obtain ⟨hmem, hfl, hal⟩ := shortChar_spec hg ha hch
      have := value_flag_ok hg hc0 t hnames hi hmem h.2
      rw [hfl] at this
      exact ⟨.spaced ['-', ch] v i, by simp [SItem.elab, hs, hch], (short_flagTok hal).1.unsplit, this⟩
  | shortEq pn v =>
    simp only [SItem.okb] at h
    cases hs : d.slot pn with
    | none => simp [hs] at h
    | some s =>
      obtain ⟨i, a⟩ := s
      simp only [hs, Bool.and_eq_true] at h
      obtain ⟨ch, hch⟩ := Option.isSome_iff_exists.mp h.1
      obtain ⟨hi, _, ha⟩ := slot_spec hs
      obtain ⟨hmem, hfl, hal⟩ := shortChar_spec hg ha hch
      have := value_flag_ok hg hc0 t hnames hi hmem h.2
      rw [hfl] at this
      exact ⟨.eq ['-', ch] v i, by simp [SItem.elab, hs, hch], (short_flagTok hal).1, this⟩
  | shortGlued pn y w =>
    simp only [SItem.okb] at h
    cases hs : d.slot pn with
    | none => simp [hs] at h
    | some s =>
      obtain ⟨i, a⟩ := s
      simp only [hs, Bool.and_eq_true, decide_eq_true_eq] at h
      obtain ⟨ch, hch⟩ := Option.isSome_iff_exists.mp h.1.1
      obtain ⟨hi, _, ha⟩ := slot_spec hs
      obtain ⟨hmem, hfl, hal⟩ := shortChar_spec hg ha hch
      have := value_flag_ok hg hc0 t hnames hi hmem h.2
      rw [hfl] at this
      exact ⟨.glued ch y w i, by simp [SItem.elab, hs, hch], (short_flagTok hal).2.1, h.1.2, this⟩
  | flagLong pn =>
    simp only [SItem.okb] at h
    cases hs : d.slot pn with
    | none => simp [hs] at h
    | some s =>
      obtain ⟨i, a⟩ := s
      simp only [hs] at h
      obtain ⟨hi, _, ha⟩ := slot_spec hs
      obtain ⟨hft, hmem⟩ := longFlag_spec hg ha
      exact ⟨.toggle a.longFlag i, by simp [SItem.elab, hs], hft.unsplit, toggle_ok hg hc0 t hi hmem h⟩
  | flagShort pn =>
    simp only [SItem.okb, toggleSlotB] at h
    cases hs : d.slot pn with
    | none => simp [hs] at h
    | some s =>
      obtain ⟨i, a⟩ := s
      simp only [hs, Bool.and_eq_true] at h
      obtain ⟨ch, hch⟩ := Option.isSome_iff_exists.mp h.1
      obtain ⟨hi, _, ha⟩ := slot_spec hs
      obtain ⟨hmem, hfl, hal⟩ := shortChar_spec hg ha hch
      have := toggle_ok hg hc0 t hi hmem h.2
      rw [hfl] at this
      exact ⟨.toggle ['-', ch] i, by simp [SItem.elab, hs, hch], (short_flagTok hal).1.unsplit, this⟩
  | noFlag pn =>
    simp only [SItem.okb] at h
    cases hs : d.slot pn with
    | none => simp [hs] at h
    | some s =>
      obtain ⟨i, a⟩ := s
      simp only [hs, Bool.and_eq_true, Bool.not_eq_true'] at h
      obtain ⟨hi, _, ha⟩ := slot_spec hs
      obtain ⟨fl, ac, h1, h2, h3, h4, h5, h6⟩ := inverse_ok hg hc0 t hi h.1 h.2
      exact ⟨.inverse a.inverseName i, by simp [SItem.elab, hs], inverseName_unsplit hg ha, fl, ac, h1, h2, h3, h4, h5, h6⟩
  | block pn pns =>
    simp only [SItem.okb, Bool.and_eq_true, Bool.not_eq_true', List.isEmpty_eq_false_iff] at h
    obtain ⟨⟨hne, h1⟩, hrest⟩ := h
    have hall : (pn :: pns).all (toggleSlotB d) = true := by simp [h1, hrest]
    obtain ⟨all, hall', hok, _⟩ := elabRest_toggles hg hc0 (pn :: pns) t hall
    unfold toggleSlotB at h1
    cases hs : d.slot pn with
    | none => simp [hs] at h1
    | some s =>
      obtain ⟨i, a⟩ := s
      simp only [hs, Bool.and_eq_true] at h1
      obtain ⟨ch, hch⟩ := Option.isSome_iff_exists.mp h1.1
      obtain ⟨_, _, ha⟩ := slot_spec hs
      obtain ⟨_, _, hal⟩ := shortChar_spec hg ha hch
      simp only [elabRest, hs, hch] at hall'
      cases hr : elabRest d pns with
      | none => simp [hr] at hall'
      | some rest =>
        simp only [hr, Option.map_some, Option.some.injEq] at hall'
        subst hall'
        have hrne : rest ≠ [] := by
          intro e; subst e
          cases pns with
          | nil => exact hne rfl
          | cons q r =>
            simp only [elabRest] at hr
            cases hq : d.slot q with
            | none => simp [hq] at hr
            | some sq =>
              obtain ⟨iq, aq⟩ := sq
              simp only [hq] at hr
              cases hcq : aq.shortChar with
              | none => simp [hcq] at hr
              | some cq =>
                simp only [hcq] at hr
                cases hrr : elabRest d r <;> simp [hrr] at hr
        exact ⟨.block ch i rest, by simp [SItem.elab, hs, hch, hr], (short_flagTok hal).2.1, hrne, hok⟩
  | pos pn v =>
    simp only [SItem.okb] at h
    cases hs : d.slot pn with
    | none => simp [hs] at h
    | some s =>
      obtain ⟨i, a⟩ := s
      simp only [hs, Bool.and_eq_true, Bool.or_eq_true, decide_eq_true_eq, Bool.not_eq_true'] at h
      obtain ⟨⟨⟨⟨⟨hfp, hfl⟩, hnf⟩, hcore⟩, htv⟩, hcast⟩ := h
      obtain ⟨hi, _, ha⟩ := slot_spec hs
      obtain ⟨ac, hac, hinv, _⟩ := slot_arg hc0 t hi
      obtain ⟨a', ha'⟩ := give_of_castable hinv htv hcast
      have hv12 := not_flag_in_c hc0 t hnf
      refine ⟨.pos v i, by simp [SItem.elab, hs], hfl.imp id unsplitB_sound, hv12.1, hv12.2, notCoreFlagB_sound hcore, ?_,
        ac, a', hac, by rw [takesValue_of a hinv.spec]; exact htv, ha'⟩
      rw [(tracks_pending hc0 t).2]; exact hfp
  | bareLong pn =>
    simp only [SItem.okb] at h
    cases hs : d.slot pn with
    | none => simp [hs] at h
    | some s =>
      obtain ⟨i, a⟩ := s
      simp only [hs] at h
      obtain ⟨hi, _, ha⟩ := slot_spec hs
      obtain ⟨hft, hmem⟩ := longFlag_spec hg ha
      obtain ⟨ac, h1, h2, h3, h4, h5, h6, h7⟩ := bare_ok hg hc0 t hi hmem h
      exact ⟨.optBare a.longFlag i, by simp [SItem.elab, hs], hft.unsplit, ac, h1, h2, h3, h4, h5, h6, h7⟩
  | bareShort pn =>
    simp only [SItem.okb] at h
    cases hs : d.slot pn with
    | none => simp [hs] at h
    | some s =>
      obtain ⟨i, a⟩ := s
      simp only [hs, Bool.and_eq_true] at h
      obtain ⟨ch, hch⟩ := Option.isSome_iff_exists.mp h.1
      obtain ⟨hi, _, ha⟩ := slot_spec hs
      obtain ⟨hmem, hfl, hal⟩ := shortChar_spec hg ha hch
      obtain ⟨ac, h1, h2, h3, h4, h5, h6, h7⟩ := bare_ok hg hc0 t hi hmem h.2
      rw [hfl] at h1
      exact ⟨.optBare ['-', ch] i, by simp [SItem.elab, hs, hch], (short_flagTok hal).1.unsplit, ac, h1, h2, h3, h4, h5, h6, h7⟩

end Inv
