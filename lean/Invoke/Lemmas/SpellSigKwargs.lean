import Invoke.Lemmas.SpellSigChain
/-! C01 ∘ C09 — what the task RECEIVES: the keyword arguments (`Ctx.asKwargs`) of a call's result context, computed
    parameter by parameter from the parameter's declared start value and ITS OWN mentions only (`intendedValue`),
    typed by the parameter's declared default (`intendedStep`). -/
open Inv Inv.M
namespace Inv

/-- what one mention does to its parameter: give a value, switch on (bare flag), switch off (`--no-`) -/
inductive Eff
  | val (v : Tok) | on | off
  deriving DecidableEq, Repr

def Arg.eff (a : Arg) : Eff → Arg
  | .val v => Arg.given v a
  | .on => a.seen
  | .off => a.unseen

def effIf (i j : Nat) (e : Eff) : List Eff := if i = j then [e] else []

/-- the effects of one parser-level item on slot `j`, in order -/
def Item.effsAt (j : Nat) : Item → List Eff
  | .spaced _ v i => effIf i j (.val v)
  | .eq _ v i => effIf i j (.val v)
  | .glued _ y w i => effIf i j (.val (y :: w))
  | .toggle _ i => effIf i j .on
  | .inverse _ i => effIf i j .off
  | .block _ i rest => effIf i j .on ++ rest.flatMap (fun p => effIf p.2 j .on)
  | .pos v i => effIf i j (.val v)
  | .optBare _ i => effIf i j .on

theorem updArg_get (c : Ctx) (i : Nat) (f : Arg → Arg) (j : Nat) :
    (c.updArg i f).args[j]? = if i = j then (c.args[j]?).map f else c.args[j]? := by
  by_cases h : i = j
  · subst h
    simp only [if_true]
    unfold Ctx.updArg
    cases hi : c.args[i]? with
    | none => simp [hi]
    | some a =>
      have hlt : i < c.args.length := (List.getElem?_eq_some_iff.mp hi).1
      simp [Ctx.setArg, hlt]
  · simp only [h, if_false]
    exact updArg_args_ne c i f j (Ne.symm h)

theorem effIf_run (i j : Nat) (e : Eff) (o : Option Arg) :
    (if i = j then o.map (fun a => a.eff e) else o) = o.map (fun a => (effIf i j e).foldl Arg.eff a) := by
  unfold effIf
  by_cases h : i = j
  · simp [h]
  · simp [h]

theorem applyToggles_get (ps : List (Char × Nat)) (c : Ctx) (j : Nat) :
    (applyToggles c ps).args[j]? =
      (c.args[j]?).map (fun a => (ps.flatMap (fun p => effIf p.2 j .on)).foldl Arg.eff a) := by
  induction ps generalizing c with
  | nil => simp [applyToggles]
  | cons p r ih =>
    have e : applyToggles c (p :: r) = applyToggles (c.updArg p.2 Arg.seen) r := rfl
    rw [e, ih, updArg_get]
    have := effIf_run p.2 j .on (c.args[j]?)
    simp only [Arg.eff] at this
    rw [this]
    cases c.args[j]? <;> simp [List.foldl_append]

theorem apply_get (it : Item) (c : Ctx) (j : Nat) :
    (it.apply c).args[j]? = (c.args[j]?).map (fun a => (it.effsAt j).foldl Arg.eff a) := by
  cases it with
  | block x i rest =>
    simp only [Item.apply, Item.effsAt]
    rw [applyToggles_get, updArg_get]
    have := effIf_run i j .on (c.args[j]?)
    simp only [Arg.eff] at this
    rw [this]
    cases c.args[j]? <;> simp [List.foldl_append]
  | spaced fl v i => simp only [Item.apply, Item.effsAt]; rw [updArg_get]; exact effIf_run i j (.val v) _
  | eq fl v i => simp only [Item.apply, Item.effsAt]; rw [updArg_get]; exact effIf_run i j (.val v) _
  | glued x y w i => simp only [Item.apply, Item.effsAt]; rw [updArg_get]; exact effIf_run i j (.val (y :: w)) _
  | toggle fl i => simp only [Item.apply, Item.effsAt]; rw [updArg_get]; exact effIf_run i j .on _
  | inverse fl i => simp only [Item.apply, Item.effsAt]; rw [updArg_get]; exact effIf_run i j .off _
  | pos v i => simp only [Item.apply, Item.effsAt]; rw [updArg_get]; exact effIf_run i j (.val v) _
  | optBare fl i => simp only [Item.apply, Item.effsAt]; rw [updArg_get]; exact effIf_run i j .on _

theorem foldl_apply_get (items : List Item) (c : Ctx) (j : Nat) :
    (items.foldl Item.apply c).args[j]? =
      (c.args[j]?).map (fun a => (items.flatMap (Item.effsAt j)).foldl Arg.eff a) := by
  induction items generalizing c with
  | nil => simp
  | cons it r ih =>
    simp only [List.foldl_cons, List.flatMap_cons, List.foldl_append]
    rw [ih, apply_get]
    cases c.args[j]? <;> simp

/-! ## the intended value of one parameter -/

/-- INTENDED effect of one mention on the value a parameter shows, typed by the parameter's argument spec (whose
    kind and default come from the declared default, `kind_from_default`): a list parameter appends, an `int`
    parameter stores the integer, a `str` parameter the string; a bare flag increments a counter / sets `True`;
    `--no-` sets `False`. -/
def intendedStep (a : ArgSpec) (cur : PVal) : Eff → PVal
  | .val v =>
    if a.kind = .list then (match cur with | .l xs => .l (xs ++ [v]) | _ => cur)
    else (match castTok a.kind v with | some pv => pv | none => cur)
  | .on => if a.incrementable then (match cur with | .i n => .i (n + 1) | _ => cur) else .b true
  | .off => .b false

/-- the value the task receives for a parameter: its declared start value, then its own mentions in order -/
def intendedValue (a : ArgSpec) (effs : List Eff) : PVal := effs.foldl (intendedStep a) (Arg.init a).value

/-- the argument object and the value-level account agree -/
structure ValRel (a : ArgSpec) (ac : Arg) (cur : PVal) : Prop where
  spec : ac.spec = a
  value : ac.value = cur
  val : (a.kind = .list ∨ a.incrementable = true) → ac.val = cur

theorem valRel_init (a : ArgSpec) : ValRel a (Arg.init a) (Arg.init a).value := by
  refine ⟨rfl, rfl, ?_⟩
  intro h
  unfold Arg.value
  by_cases hi : a.incrementable = true
  · by_cases hd : a.default = .none <;> simp [Arg.init, hi, hd]
  · rcases h with h | h
    · simp [Arg.init, hi, h]
    · exact absurd h hi

theorem castTok_ne_none {k : Kind} {v : Tok} {pv : PVal} (h : castTok k v = some pv) : pv ≠ .none := by
  cases k <;> simp [castTok] at h
  · subst h; simp
  · obtain ⟨n, _, rfl⟩ := h; simp

theorem valRel_step {a : ArgSpec} {ac : Arg} {cur : PVal} (r : ValRel a ac cur) (e : Eff) :
    ValRel a (ac.eff e) (intendedStep a cur e) := by
  obtain ⟨hs, hv, hval⟩ := r
  cases e with
  | val v =>
    by_cases hl : a.kind = .list
    · have hvc := hval (Or.inl hl)
      have hl' : ac.spec.kind = .list := by rw [hs]; exact hl
      cases hcur : cur with
      | l xs =>
        have hvx : ac.val = .l xs := by rw [hvc, hcur]
        have e1 : ac.eff (.val v) = { ac with raw := some (.s v), val := .l (xs ++ [v]) } := by
          simp [Arg.eff, Arg.given, Arg.give, hl', hvx]
        have e2 : intendedStep a (.l xs) (.val v) = .l (xs ++ [v]) := by simp [intendedStep, hl]
        rw [e1, e2]
        exact ⟨hs, by simp [Arg.value], fun _ => rfl⟩
      | none =>
        have hvx : ac.val = .none := by rw [hvc, hcur]
        have e1 : ac.eff (.val v) = ac := by simp [Arg.eff, Arg.given, Arg.give, hl', hvx]
        have e2 : intendedStep a .none (.val v) = .none := by simp [intendedStep, hl]
        rw [e1, e2, ← hcur]; exact ⟨hs, hv, hval⟩
      | s x =>
        have hvx : ac.val = .s x := by rw [hvc, hcur]
        have e1 : ac.eff (.val v) = ac := by simp [Arg.eff, Arg.given, Arg.give, hl', hvx]
        have e2 : intendedStep a (.s x) (.val v) = .s x := by simp [intendedStep, hl]
        rw [e1, e2, ← hcur]; exact ⟨hs, hv, hval⟩
      | i x =>
        have hvx : ac.val = .i x := by rw [hvc, hcur]
        have e1 : ac.eff (.val v) = ac := by simp [Arg.eff, Arg.given, Arg.give, hl', hvx]
        have e2 : intendedStep a (.i x) (.val v) = .i x := by simp [intendedStep, hl]
        rw [e1, e2, ← hcur]; exact ⟨hs, hv, hval⟩
      | b x =>
        have hvx : ac.val = .b x := by rw [hvc, hcur]
        have e1 : ac.eff (.val v) = ac := by simp [Arg.eff, Arg.given, Arg.give, hl', hvx]
        have e2 : intendedStep a (.b x) (.val v) = .b x := by simp [intendedStep, hl]
        rw [e1, e2, ← hcur]; exact ⟨hs, hv, hval⟩
    · have hl' : ¬ ac.spec.kind = .list := by rw [hs]; exact hl
      cases hc : castTok a.kind v with
      | none =>
        have e1 : ac.eff (.val v) = ac := by simp [Arg.eff, Arg.given, Arg.give, hl', hl, hs, hc]
        have e2 : intendedStep a cur (.val v) = cur := by simp [intendedStep, hl, hc]
        rw [e1, e2]; exact ⟨hs, hv, hval⟩
      | some pv =>
        have hne := castTok_ne_none hc
        have e1 : ac.eff (.val v) = { ac with raw := some (.s v), val := pv } := by
          simp [Arg.eff, Arg.given, Arg.give, hl', hl, hs, hc]
        have e2 : intendedStep a cur (.val v) = pv := by simp [intendedStep, hl, hc]
        rw [e1, e2]
        exact ⟨hs, by simp [Arg.value, hne], fun _ => rfl⟩
  | on =>
    by_cases hi : a.incrementable = true
    · have hvc := hval (Or.inr hi)
      have hi' : ac.spec.incrementable = true := by rw [hs]; exact hi
      cases hcur : cur with
      | i n =>
        have hvx : ac.val = .i n := by rw [hvc, hcur]
        have e1 : ac.eff .on = { ac with raw := some (.b true), val := .i (n + 1) } := by
          simp [Arg.eff, Arg.seen, hi', hvx]
        have e2 : intendedStep a (.i n) .on = .i (n + 1) := by simp [intendedStep, hi]
        rw [e1, e2]
        exact ⟨hs, by simp [Arg.value], fun _ => rfl⟩
      | none =>
        have hvx : ac.val = .none := by rw [hvc, hcur]
        have e1 : ac.eff .on = ac := by simp [Arg.eff, Arg.seen, hi', hvx]
        have e2 : intendedStep a .none .on = .none := by simp [intendedStep, hi]
        rw [e1, e2, ← hcur]; exact ⟨hs, hv, hval⟩
      | s x =>
        have hvx : ac.val = .s x := by rw [hvc, hcur]
        have e1 : ac.eff .on = ac := by simp [Arg.eff, Arg.seen, hi', hvx]
        have e2 : intendedStep a (.s x) .on = .s x := by simp [intendedStep, hi]
        rw [e1, e2, ← hcur]; exact ⟨hs, hv, hval⟩
      | l x =>
        have hvx : ac.val = .l x := by rw [hvc, hcur]
        have e1 : ac.eff .on = ac := by simp [Arg.eff, Arg.seen, hi', hvx]
        have e2 : intendedStep a (.l x) .on = .l x := by simp [intendedStep, hi]
        rw [e1, e2, ← hcur]; exact ⟨hs, hv, hval⟩
      | b x =>
        have hvx : ac.val = .b x := by rw [hvc, hcur]
        have e1 : ac.eff .on = ac := by simp [Arg.eff, Arg.seen, hi', hvx]
        have e2 : intendedStep a (.b x) .on = .b x := by simp [intendedStep, hi]
        rw [e1, e2, ← hcur]; exact ⟨hs, hv, hval⟩
    · have hi' : ¬ ac.spec.incrementable = true := by rw [hs]; exact hi
      have e1 : ac.eff .on = { ac with raw := some (.b true), val := .b true } := by
        simp [Arg.eff, Arg.seen, hi']
      have e2 : intendedStep a cur .on = .b true := by simp [intendedStep, hi]
      rw [e1, e2]
      exact ⟨hs, by simp [Arg.value], fun _ => rfl⟩
  | off =>
    have e2 : intendedStep a cur .off = .b false := rfl
    rw [e2]
    exact ⟨hs, by simp [Arg.eff, Arg.unseen, Arg.value], fun _ => rfl⟩

theorem valRel_fold {a : ArgSpec} : ∀ (effs : List Eff) {ac : Arg} {cur : PVal}, ValRel a ac cur →
    ValRel a (effs.foldl Arg.eff ac) (effs.foldl (intendedStep a) cur)
  | [], _, _, r => r
  | e :: es, _, _, r => valRel_fold es (valRel_step r e)

/-- the keyword arguments of a call's result, slot by slot -/
theorem result_kwargs_slot {d : TaskDecl} {c0 : Ctx} (hc0 : d.ctx? = .ok c0) (items : List Item) {j : Nat} {a : ArgSpec}
    (hj : d.args[j]? = some a) :
    (items.foldl Item.apply c0).asKwargs[j]? = some (a.pyName, intendedValue a (items.flatMap (Item.effsAt j))) := by
  unfold Ctx.asKwargs
  rw [List.getElem?_map, foldl_apply_get, mkCtx_arg hc0 hj]
  have r := valRel_fold (items.flatMap (Item.effsAt j)) (valRel_init a)
  simp only [Option.map_some, Option.some.injEq, Prod.mk.injEq]
  exact ⟨by rw [r.spec], r.value⟩

theorem result_kwargs_length {d : TaskDecl} {c0 : Ctx} (hc0 : d.ctx? = .ok c0) (items : List Item) :
    (items.foldl Item.apply c0).asKwargs.length = d.args.length := by
  have h0 : c0.args.length = d.args.length := by rw [mkCtx_args hc0]; simp
  have : ∀ (its : List Item) (c : Ctx), (its.foldl Item.apply c).args.length = c.args.length := by
    intro its
    induction its with
    | nil => intro c; rfl
    | cons it r ih =>
      intro c
      simp only [List.foldl_cons]
      rw [ih]
      -- one item keeps the number of arguments
      have hlen : ∀ (c : Ctx) (i : Nat) (f : Arg → Arg), (c.updArg i f).args.length = c.args.length := by
        intro c i f; unfold Ctx.updArg; split <;> simp [Ctx.setArg]
      cases it with
      | block x i rest =>
        simp only [Item.apply]
        have : ∀ (ps : List (Char × Nat)) (c : Ctx), (applyToggles c ps).args.length = c.args.length := by
          intro ps
          induction ps with
          | nil => intro c; rfl
          | cons p r ih2 =>
            intro c
            have e : applyToggles c (p :: r) = applyToggles (c.updArg p.2 Arg.seen) r := rfl
            rw [e, ih2, hlen]
        rw [this, hlen]
      | _ => exact hlen _ _ _
  unfold Ctx.asKwargs
  rw [List.length_map, this, h0]

/-! ## mentions by parameter name -/

def mentionIf (q pn : Tok) (e : Eff) : List Eff := if q = pn then [e] else []

/-- the mentions of parameter `pn` in one signature-level item -/
def SItem.mentions (pn : Tok) : SItem → List Eff
  | .longSpaced q v => mentionIf q pn (.val v)
  | .longEq q v => mentionIf q pn (.val v)
  | .shortSpaced q v => mentionIf q pn (.val v)
  | .shortEq q v => mentionIf q pn (.val v)
  | .shortGlued q y w => mentionIf q pn (.val (y :: w))
  | .flagLong q => mentionIf q pn .on
  | .flagShort q => mentionIf q pn .on
  | .noFlag q => mentionIf q pn .off
  | .block q qs => mentionIf q pn .on ++ qs.flatMap (fun x => mentionIf x pn .on)
  | .pos q v => mentionIf q pn (.val v)
  | .bareLong q => mentionIf q pn .on
  | .bareShort q => mentionIf q pn .on

theorem slot_same {d : TaskDecl} {q pn : Tok} {i j : Nat} {b a : ArgSpec} (hq : d.slot q = some (i, b))
    (hp : d.slot pn = some (j, a)) : i = j ↔ q = pn := by
  obtain ⟨hi, hbq, _⟩ := slot_spec hq
  obtain ⟨hj, hap, _⟩ := slot_spec hp
  constructor
  · intro e
    subst e
    rw [hi] at hj
    cases hj
    rw [← hbq, ← hap]
  · intro e
    subst e
    rw [hq] at hp
    cases hp; rfl

theorem effIf_mention {d : TaskDecl} {q pn : Tok} {i j : Nat} {b a : ArgSpec} (hq : d.slot q = some (i, b))
    (hp : d.slot pn = some (j, a)) (e : Eff) : effIf i j e = mentionIf q pn e := by
  unfold effIf mentionIf
  by_cases h : i = j
  · simp [h, (slot_same hq hp).1 h]
  · have : q ≠ pn := fun e' => h ((slot_same hq hp).2 e')
    simp [h, this]

theorem elabRest_mentions {d : TaskDecl} {pn : Tok} {j : Nat} {a : ArgSpec} (hp : d.slot pn = some (j, a)) :
    ∀ (qs : List Tok) {rest : List (Char × Nat)}, elabRest d qs = some rest →
      rest.flatMap (fun p => effIf p.2 j .on) = qs.flatMap (fun x => mentionIf x pn .on)
  | [], rest, h => by simp [elabRest] at h; subst h; rfl
  | q :: r, rest, h => by
    simp only [elabRest] at h
    cases hq : d.slot q with
    | none => simp [hq] at h
    | some s =>
      obtain ⟨i, b⟩ := s
      simp only [hq] at h
      cases hc : b.shortChar with
      | none => simp [hc] at h
      | some ch =>
        simp only [hc] at h
        cases hr : elabRest d r with
        | none => simp [hr] at h
        | some rest' =>
          simp only [hr, Option.map_some, Option.some.injEq] at h
          subst h
          simp only [List.flatMap_cons]
          rw [elabRest_mentions hp r hr, effIf_mention hq hp]

/-- the effects of an elaborated item on a parameter's slot are the mentions of that parameter -/
theorem elab_effs {d : TaskDecl} {s : SItem} {e : Item} (h : s.elab d = some e) {pn : Tok} {j : Nat} {a : ArgSpec}
    (hp : d.slot pn = some (j, a)) : e.effsAt j = s.mentions pn := by
  cases s with
  | block q qs =>
    simp only [SItem.elab, Option.bind_eq_some_iff, Option.map_eq_some_iff] at h
    obtain ⟨sq, hq, ch, _, rest, hrest, rfl⟩ := h
    obtain ⟨i, b⟩ := sq
    simp only [Item.effsAt, SItem.mentions]
    rw [elabRest_mentions hp qs hrest, effIf_mention hq hp]
  | longSpaced q v =>
    simp only [SItem.elab, Option.map_eq_some_iff] at h
    obtain ⟨⟨i, b⟩, hq, rfl⟩ := h
    exact effIf_mention hq hp _
  | longEq q v =>
    simp only [SItem.elab, Option.map_eq_some_iff] at h
    obtain ⟨⟨i, b⟩, hq, rfl⟩ := h
    exact effIf_mention hq hp _
  | flagLong q =>
    simp only [SItem.elab, Option.map_eq_some_iff] at h
    obtain ⟨⟨i, b⟩, hq, rfl⟩ := h
    exact effIf_mention hq hp _
  | noFlag q =>
    simp only [SItem.elab, Option.map_eq_some_iff] at h
    obtain ⟨⟨i, b⟩, hq, rfl⟩ := h
    exact effIf_mention hq hp _
  | pos q v =>
    simp only [SItem.elab, Option.map_eq_some_iff] at h
    obtain ⟨⟨i, b⟩, hq, rfl⟩ := h
    exact effIf_mention hq hp _
  | bareLong q =>
    simp only [SItem.elab, Option.map_eq_some_iff] at h
    obtain ⟨⟨i, b⟩, hq, rfl⟩ := h
    exact effIf_mention hq hp _
  | shortSpaced q v =>
    simp only [SItem.elab, Option.bind_eq_some_iff, Option.map_eq_some_iff] at h
    obtain ⟨⟨i, b⟩, hq, ch, _, rfl⟩ := h
    exact effIf_mention hq hp _
  | shortEq q v =>
    simp only [SItem.elab, Option.bind_eq_some_iff, Option.map_eq_some_iff] at h
    obtain ⟨⟨i, b⟩, hq, ch, _, rfl⟩ := h
    exact effIf_mention hq hp _
  | shortGlued q y w =>
    simp only [SItem.elab, Option.bind_eq_some_iff, Option.map_eq_some_iff] at h
    obtain ⟨⟨i, b⟩, hq, ch, _, rfl⟩ := h
    exact effIf_mention hq hp _
  | flagShort q =>
    simp only [SItem.elab, Option.bind_eq_some_iff, Option.map_eq_some_iff] at h
    obtain ⟨⟨i, b⟩, hq, ch, _, rfl⟩ := h
    exact effIf_mention hq hp _
  | bareShort q =>
    simp only [SItem.elab, Option.bind_eq_some_iff, Option.map_eq_some_iff] at h
    obtain ⟨⟨i, b⟩, hq, ch, _, rfl⟩ := h
    exact effIf_mention hq hp _

theorem elabItems_effs {d : TaskDecl} {pn : Tok} {j : Nat} {a : ArgSpec} (hp : d.slot pn = some (j, a)) :
    ∀ (ss : List SItem) {items : List Item}, elabItems d ss = some items →
      items.flatMap (Item.effsAt j) = ss.flatMap (SItem.mentions pn)
  | [], items, h => by simp [elabItems] at h; subst h; rfl
  | s :: r, items, h => by
    simp only [elabItems] at h
    cases he : s.elab d with
    | none => simp [he] at h
    | some e =>
      cases hr : elabItems d r with
      | none => simp [he, hr] at h
      | some es =>
        simp only [he, hr, Option.some.injEq] at h
        subst h
        simp only [List.flatMap_cons]
        rw [elab_effs he hp, elabItems_effs hp r hr]

/-- every parameter has a slot -/
theorem slot_exists {d : TaskDecl} {p : Param} (hp : p ∈ d.params) : ∃ j a, d.slot p.name = some (j, a) := by
  have hperm := one_arg_per_param d.opts d.params
  have hm : p.name ∈ (argList d.opts d.params).map ArgSpec.pyName :=
    hperm.symm.subset (List.mem_map.2 ⟨p, hp, rfl⟩)
  have : ∀ (l : List ArgSpec) (i : Nat), p.name ∈ l.map ArgSpec.pyName → ∃ j a, slotFrom i l p.name = some (j, a) := by
    intro l
    induction l with
    | nil => intro i h; simp at h
    | cons b r ih =>
      intro i h
      unfold slotFrom
      by_cases hb : b.pyName = p.name
      · exact ⟨i, b, by simp [hb]⟩
      · simp only [hb, if_false]
        simp only [List.map_cons, List.mem_cons] at h
        rcases h with h | h
        · exact absurd h.symm hb
        · exact ih (i + 1) h
  exact this _ 0 hm

/-! ## what the typed values are, kind by kind -/

theorem intended_unmentioned (a : ArgSpec) : intendedValue a [] = (Arg.init a).value := rfl

theorem intended_str (a : ArgSpec) (hk : a.kind = .str) (v : Tok) : intendedValue a [.val v] = .s v := by
  simp [intendedValue, intendedStep, hk, castTok]

theorem intended_int (a : ArgSpec) (hk : a.kind = .int) (v : Tok) (n : Int) (hn : pyInt? v = some n) :
    intendedValue a [.val v] = .i n := by
  simp [intendedValue, intendedStep, hk, castTok, hn]

theorem intended_list_fold (a : ArgSpec) (hk : a.kind = .list) : ∀ (vs xs : List Tok),
    (vs.map Eff.val).foldl (intendedStep a) (.l xs) = .l (xs ++ vs)
  | [], xs => by simp
  | v :: r, xs => by
    simp only [List.map_cons, List.foldl_cons, intendedStep, hk, if_true]
    rw [intended_list_fold a hk r]; simp

theorem intended_list (a : ArgSpec) (hk : a.kind = .list) (hi : a.incrementable = false) (vs : List Tok) :
    intendedValue a (vs.map Eff.val) = .l vs := by
  have : (Arg.init a).value = .l [] := by simp [Arg.init, Arg.value, hk, hi]
  unfold intendedValue
  rw [this, intended_list_fold a hk]; simp

theorem intended_flag (a : ArgSpec) (hi : a.incrementable = false) : intendedValue a [.on] = .b true := by
  simp [intendedValue, intendedStep, hi]

theorem intended_noflag (a : ArgSpec) : intendedValue a [.off] = .b false := by
  simp [intendedValue, intendedStep]

theorem intended_counter_fold (a : ArgSpec) (hi : a.incrementable = true) : ∀ (m : Nat) (n : Int),
    (List.replicate m Eff.on).foldl (intendedStep a) (.i n) = .i (n + m)
  | 0, n => by simp
  | m + 1, n => by
    simp only [List.replicate_succ, List.foldl_cons, intendedStep, hi, if_true]
    rw [intended_counter_fold a hi m]
    congr 1
    omega

theorem intended_counter (a : ArgSpec) (hi : a.incrementable = true) (n : Int) (hd : a.default = .i n) (m : Nat) :
    intendedValue a (List.replicate m Eff.on) = .i (n + m) := by
  have : (Arg.init a).value = .i n := by simp [Arg.init, Arg.value, hi, hd]
  unfold intendedValue
  rw [this, intended_counter_fold a hi]

/-! ## from the chain to its calls -/

theorem elabChain_get {decls : List TaskDecl} : ∀ {ch : List SCall} {calls : List Call}, elabChain decls ch = some calls →
    calls.length = ch.length ∧
    ∀ (n : Nat) (k : SCall), ch[n]? = some k → ∃ c, calls[n]? = some c ∧ elabCall decls k = some c
  | [], calls, h => by
    simp [elabChain] at h; subst h
    exact ⟨rfl, fun n k hk => by simp at hk⟩
  | k0 :: r, calls, h => by
    simp only [elabChain] at h
    cases hc : elabCall decls k0 with
    | none => simp [hc] at h
    | some c0 =>
      cases hr : elabChain decls r with
      | none => simp [hc, hr] at h
      | some cs =>
        simp only [hc, hr, Option.some.injEq] at h
        subst h
        obtain ⟨hl, hget⟩ := elabChain_get hr
        refine ⟨by simp [hl], ?_⟩
        intro n k hk
        cases n with
        | zero =>
          simp only [List.getElem?_cons_zero, Option.some.injEq] at hk
          subst hk
          exact ⟨c0, rfl, hc⟩
        | succ m =>
          simp only [List.getElem?_cons_succ] at hk ⊢
          exact hget m k hk

theorem elabCall_spec {decls : List TaskDecl} {k : SCall} {c : Call} {d : TaskDecl} (h : elabCall decls k = some c)
    (hf : findDecl decls k.tname = some d) :
    ∃ c0 its, d.ctx? = .ok c0 ∧ elabItems d k.items = some its ∧ c = { tname := k.tname, ctx := c0, items := its } := by
  unfold elabCall at h
  rw [hf] at h
  simp only at h
  cases hc : d.ctx? with
  | error e => simp [hc] at h
  | ok c0 =>
    cases hi : elabItems d k.items with
    | none => simp [hc, hi] at h
    | some its =>
      simp only [hc, hi, Option.some.injEq] at h
      exact ⟨c0, its, rfl, rfl, h.symm⟩

/-- an unmentioned parameter with a declared default shows that default (`[]` for a list-type parameter): C09 -/
theorem unmentioned_carries_default {d : TaskDecl} {a : ArgSpec} (ha : a ∈ d.args) :
    ∃ p ∈ d.params, a.pyName = p.name ∧ (p.default ≠ .empty → CarriesDefault p a (intendedValue a [])) := by
  rcases mem_argList ha with ⟨p, hp, t, rfl⟩
  refine ⟨p, hp, argOpts_pyName _ _ _ _, ?_⟩
  intro hne
  show CarriesDefault p _ (Arg.init _).value
  simp only [CarriesDefault, init_value, argOpts_kind, argOpts_default, argOpts_incrementable]
  exact carries_table _ _ _ _ hne

end Inv
