import Invoke.Lemmas.SpellFrame
/-! C01 — tracking a context through a sequence of items: `Tracks c0 c done` says that `c` is the registry context
    `c0` after items that mentioned exactly the argument slots in `done`.  It makes the side conditions that
    `ItemsOK` evaluates "against the context as it evolves" computable from the ORIGINAL context plus the set of
    slots mentioned so far (who is still missing, who is fresh, lists stay lists, counters stay counters). -/
open Inv Inv.M
namespace Inv

/-- how an argument relates to its registry original after some items -/
structure ArgInv (a0 a : Arg) : Prop where
  spec : a.spec = a0.spec
  lst : a0.spec.kind = .list → a0.spec.incrementable = false → ∃ xs, a.val = .l xs
  cnt : a0.spec.incrementable = true → (∃ n, a0.val = .i n) → ∃ n, a.val = .i n

structure Tracks (c0 c : Ctx) (done : List Nat) : Prop where
  flags : c.flags = c0.flags
  inverse : c.inverse = c0.inverse
  positional : c.positional = c0.positional
  len : c.args.length = c0.args.length
  untouched : ∀ j : Nat, j ∉ done → c.args[j]? = c0.args[j]?
  touched : ∀ j : Nat, j ∈ done → ∀ a, c.args[j]? = some a → a.val ≠ .none
  inv : ∀ (j : Nat) (a : Arg), c.args[j]? = some a → ∃ a0, c0.args[j]? = some a0 ∧ ArgInv a0 a

/-- every argument of the context is as freshly declared -/
def InitCtx (c0 : Ctx) : Prop := ∀ (j : Nat) (a : Arg), c0.args[j]? = some a → ∃ sp, a = Arg.init sp

theorem tracks_refl {c0 : Ctx} (h : InitCtx c0) : Tracks c0 c0 [] := by
  refine ⟨rfl, rfl, rfl, rfl, fun _ _ => rfl, fun j hj => absurd hj (by simp), ?_⟩
  intro j a ha
  obtain ⟨sp, rfl⟩ := h j a ha
  refine ⟨_, ha, rfl, ?_, fun _ h => h⟩
  intro hk hi
  have hk' : sp.kind = .list := hk
  have hi' : sp.incrementable = false := hi
  exact ⟨[], by simp [Arg.init, hk', hi']⟩

theorem tracks_congr {c0 c : Ctx} {d1 d2 : List Nat} (h : ∀ j, j ∈ d1 ↔ j ∈ d2) (t : Tracks c0 c d1) :
    Tracks c0 c d2 :=
  ⟨t.flags, t.inverse, t.positional, t.len, fun j hj => t.untouched j (fun h1 => hj ((h j).1 h1)),
   fun j hj => t.touched j ((h j).2 hj), t.inv⟩

/-- what an effect on one argument must guarantee -/
structure FOK (a b : Arg) : Prop where
  spec : b.spec = a.spec
  val : b.val ≠ .none
  lst : a.spec.kind = .list → a.spec.incrementable = false → (∃ xs, a.val = .l xs) → ∃ xs, b.val = .l xs
  cnt : a.spec.incrementable = true → (∃ n, a.val = .i n) → ∃ n, b.val = .i n

theorem tracks_setArg {c0 c : Ctx} {done : List Nat} (t : Tracks c0 c done) {i : Nat} {a b : Arg}
    (hai : c.args[i]? = some a) (hf : FOK a b) : Tracks c0 (c.setArg i b) (i :: done) := by
  obtain ⟨hi, _⟩ := List.getElem?_eq_some_iff.mp hai
  have hget : ∀ j, (c.setArg i b).args[j]? = if j = i then some b else c.args[j]? := by
    intro j
    by_cases hj : j = i
    · subst hj; simp [Ctx.setArg, hi]
    · simp [Ctx.setArg, hj, List.getElem?_set_ne (Ne.symm hj)]
  refine ⟨t.flags, t.inverse, t.positional, by simp [Ctx.setArg, t.len], ?_, ?_, ?_⟩
  · intro j hj
    simp only [List.mem_cons, not_or] at hj
    rw [hget, if_neg hj.1]
    exact t.untouched j hj.2
  · intro j hj x hx
    rw [hget] at hx
    by_cases hji : j = i
    · rw [if_pos hji] at hx; cases hx; exact hf.val
    · rw [if_neg hji] at hx
      rcases List.mem_cons.1 hj with h | h
      · exact absurd h hji
      · exact t.touched j h x hx
  · intro j x hx
    rw [hget] at hx
    by_cases hji : j = i
    · rw [if_pos hji] at hx; cases hx
      subst hji
      obtain ⟨a0, h0, hinv⟩ := t.inv j a hai
      refine ⟨a0, h0, hf.spec.trans hinv.spec, ?_, ?_⟩
      · intro hk hinc
        exact hf.lst (by rw [hinv.spec]; exact hk) (by rw [hinv.spec]; exact hinc) (hinv.lst hk hinc)
      · intro hinc hn
        exact hf.cnt (by rw [hinv.spec]; exact hinc) (hinv.cnt hinc hn)
    · rw [if_neg hji] at hx
      exact t.inv j x hx

theorem tracks_updArg {c0 c : Ctx} {done : List Nat} (t : Tracks c0 c done) {i : Nat} {a : Arg} (f : Arg → Arg)
    (hai : c.args[i]? = some a) (hf : FOK a (f a)) : Tracks c0 (c.updArg i f) (i :: done) := by
  rw [updArg_of hai]; exact tracks_setArg t hai hf

theorem give_fok {a a' : Arg} {v : Tok} (htv : a.takesValue = true) (h : a.give v = some a') : FOK a a' := by
  obtain ⟨_, h2, h3⟩ := give_settled h
  have hinc : a.spec.incrementable = false := by
    cases hi : a.spec.incrementable <;> simp [Arg.takesValue, hi] at htv ⊢
  refine ⟨h3, h2, ?_, ?_⟩
  · intro hk _ _
    unfold Arg.give at h
    simp only [hk, if_true] at h
    cases hv : a.val <;> simp [hv] at h
    subst h
    exact ⟨_, rfl⟩
  · intro hi; rw [hinc] at hi; cases hi

theorem seen_fok_toggle {a : Arg}
    (hk : (a.spec.incrementable = false ∧ a.spec.kind = .bool) ∨ (a.spec.incrementable = true ∧ ∃ k, a.val = .i k)) :
    FOK a a.seen := by
  rcases hk with ⟨hinc, hk⟩ | ⟨hinc, k, hv⟩
  · refine ⟨by simp [Arg.seen, hinc], by simp [Arg.seen, hinc], ?_, ?_⟩
    · intro hl; rw [hk] at hl; cases hl
    · intro hi; rw [hinc] at hi; cases hi
  · refine ⟨by simp [Arg.seen, hinc, hv], by simp [Arg.seen, hinc, hv], ?_, ?_⟩
    · intro _ hi; rw [hinc] at hi; cases hi
    · intro _ _; exact ⟨k + 1, by simp [Arg.seen, hinc, hv]⟩

theorem seen_fok_bare {a : Arg} (htv : a.takesValue = true) (hnl : a.spec.kind ≠ .list) : FOK a a.seen := by
  have hinc : a.spec.incrementable = false := by
    cases hi : a.spec.incrementable <;> simp [Arg.takesValue, hi] at htv ⊢
  refine ⟨by simp [Arg.seen, hinc], by simp [Arg.seen, hinc], ?_, ?_⟩
  · intro hl; exact absurd hl hnl
  · intro hi; rw [hinc] at hi; cases hi

theorem unseen_fok {a : Arg} (hk : a.spec.kind = .bool) (hinc : a.spec.incrementable = false) : FOK a a.unseen := by
  refine ⟨rfl, by simp [Arg.unseen], ?_, ?_⟩
  · intro hl; rw [hk] at hl; cases hl
  · intro hi; rw [hinc] at hi; cases hi

theorem tracks_toggles {c0 : Ctx} : ∀ (ps : List (Char × Nat)) {c : Ctx} {done : List Nat}, Tracks c0 c done →
    TogglesOK c ps → Tracks c0 (applyToggles c ps) ((ps.map Prod.snd).reverse ++ done)
  | [], c, done, t, _ => by simpa [applyToggles] using t
  | p :: r, c, done, t, h => by
    obtain ⟨_, ⟨a, _, hai, hk⟩, hr⟩ := h
    have t1 := tracks_updArg t Arg.seen hai (seen_fok_toggle hk)
    have t2 := tracks_toggles r t1 hr
    have e : applyToggles c (p :: r) = applyToggles (c.updArg p.2 Arg.seen) r := rfl
    rw [e]
    refine tracks_congr ?_ t2
    intro j
    simp only [List.map_cons, List.reverse_cons, List.mem_append, List.mem_reverse, List.mem_cons,
      List.mem_singleton, List.mem_map, List.not_mem_nil, or_false]
    grind

/-- an admissible item keeps the tracking invariant and adds exactly the slots it mentions -/
theorem tracks_apply {ic : Option Ctx} {reg : List Ctx} {c0 c : Ctx} {done : List Nat} (t : Tracks c0 c done)
    (it : Item) (hok : it.ok ic reg c) : Tracks c0 (it.apply c) (it.indices ++ done) := by
  cases it with
  | spaced fl v i =>
    obtain ⟨_, a, a', ok⟩ := hok
    have := tracks_updArg t (Arg.given v) ok.hai (by rw [given_of ok.give]; exact give_fok ok.tv ok.give)
    simpa [Item.apply, Item.indices] using this
  | eq fl v i =>
    obtain ⟨_, a, a', ok⟩ := hok
    have := tracks_updArg t (Arg.given v) ok.hai (by rw [given_of ok.give]; exact give_fok ok.tv ok.give)
    simpa [Item.apply, Item.indices] using this
  | glued x y w i =>
    obtain ⟨_, _, a, a', ok⟩ := hok
    have := tracks_updArg t (Arg.given (y :: w)) ok.hai (by rw [given_of ok.give]; exact give_fok ok.tv ok.give)
    simpa [Item.apply, Item.indices] using this
  | toggle fl i =>
    obtain ⟨_, a, _, hai, hk⟩ := hok
    have := tracks_updArg t Arg.seen hai (seen_fok_toggle hk)
    simpa [Item.apply, Item.indices] using this
  | inverse nofl i =>
    obtain ⟨_, fl, a, _, _, _, hai, hk, hinc⟩ := hok
    have := tracks_updArg t Arg.unseen hai (unseen_fok hk hinc)
    simpa [Item.apply, Item.indices] using this
  | block x i rest =>
    obtain ⟨_, _, hts⟩ := hok
    obtain ⟨_, ⟨a, _, hai, hk⟩, hr⟩ := hts
    have t1 := tracks_updArg t Arg.seen hai (seen_fok_toggle hk)
    have t2 := tracks_toggles rest t1 hr
    simp only [Item.apply, Item.indices]
    refine tracks_congr ?_ t2
    intro j
    simp only [List.mem_append, List.mem_reverse, List.mem_cons, List.mem_map, List.cons_append]
    grind
  | pos v j =>
    obtain ⟨_, _, _, _, _, a, a', haj, htv, hg⟩ := hok
    have := tracks_updArg t (Arg.given v) haj (by rw [given_of hg]; exact give_fok htv hg)
    simpa [Item.apply, Item.indices] using this
  | optBare fl i =>
    obtain ⟨_, a, _, hai, htv, _, _, hnl, _⟩ := hok
    have := tracks_updArg t Arg.seen hai (seen_fok_bare htv hnl)
    simpa [Item.apply, Item.indices] using this

/-- who is still missing: the slots of the original context that were missing and have not been mentioned -/
theorem tracks_isMissing {c0 c : Ctx} {done : List Nat} (t : Tracks c0 c done) (j : Nat) :
    c.isMissing j = (!done.contains j && c0.isMissing j) := by
  by_cases hj : j ∈ done
  · have hc : done.contains j = true := by simpa using hj
    simp only [hc, Bool.not_true, Bool.false_and]
    unfold Ctx.isMissing
    cases hx : c.args[j]? with
    | none => rfl
    | some a =>
      have hv := t.touched j hj a hx
      simp [Arg.value, hv]
  · have hc : done.contains j = false := by simpa using hj
    simp only [hc, Bool.not_false, Bool.true_and]
    unfold Ctx.isMissing
    rw [t.untouched j hj]

theorem tracks_firstMissing {c0 c : Ctx} {done : List Nat} (t : Tracks c0 c done) :
    c.firstMissing = c0.positional.find? (fun j => !done.contains j && c0.isMissing j) := by
  unfold Ctx.firstMissing
  rw [t.positional]
  congr 1
  funext j
  exact tracks_isMissing t j

theorem tracks_missingPositional {c0 c : Ctx} {done : List Nat} (t : Tracks c0 c done) :
    c.missingPositional = c0.positional.filter (fun j => !done.contains j && c0.isMissing j) := by
  unfold Ctx.missingPositional
  rw [t.positional]
  congr 1
  funext j
  exact tracks_isMissing t j

end Inv
