import Invoke.Model.TaskSig
/-! Helper lemmas for C09 (`Props/C09.lean`): names and flags, the `get_arguments` loop, the reorder. -/
namespace Inv

/-! ## characters and names -/

theorem alnum_ne_underscore {ch : Char} (h : ch.isAlphanum = true) : ch ≠ '_' := by
  intro e; subst e; revert h; decide

theorem alnum_ne_dash {ch : Char} (h : ch.isAlphanum = true) : ch ≠ '-' := by
  intro e; subst e; revert h; decide

/-- the replacement step of `translate_underscores` never yields an underscore -/
theorem dashChar_ne (c : Char) : (if c = '_' then '-' else c) ≠ '_' := by
  by_cases h : c = '_'
  · simp [h]
  · simp [h]

theorem translate_no_underscore (n : Tok) : '_' ∉ translateUnderscores n := by
  unfold translateUnderscores
  intro h
  rcases List.mem_map.1 h with ⟨c, _, hc⟩
  exact dashChar_ne c hc

theorem contains_false_not_mem {n : Tok} (h : n.contains '_' = false) : '_' ∉ n := by
  intro hm
  have : n.contains '_' = true := List.contains_iff_mem.2 hm
  rw [h] at this; cases this

theorem dashedName_no_underscore (n : Tok) : '_' ∉ dashedName n := by
  unfold dashedName hasUnderscore
  by_cases h : n.contains '_' = true
  · simp only [h, if_true]; exact translate_no_underscore n
  · have h' : n.contains '_' = false := by simpa using h
    simp only [h', Bool.false_eq_true, if_false]; exact contains_false_not_mem h'

/-- stripping: the characters that survive `translate_underscores` -/
def stripUnderscores (n : Tok) : Tok := ((n.dropWhile (· = '_')).reverse.dropWhile (· = '_')).reverse

theorem translate_eq_map (n : Tok) :
    translateUnderscores n = (stripUnderscores n).map (fun c => if c = '_' then '-' else c) := rfl

theorem dropWhile_eq_nil_all {p : Char → Bool} : ∀ {l : List Char}, l.dropWhile p = [] → ∀ a ∈ l, p a = true
  | [], _, a, ha => by cases ha
  | c :: r, h, a, ha => by
    by_cases hp : p c = true
    · simp only [List.dropWhile_cons, hp, if_true] at h
      rcases List.mem_cons.1 ha with rfl | ha
      · exact hp
      · exact dropWhile_eq_nil_all h a ha
    · simp [hp] at h

theorem dropWhile_head_not {p : Char → Bool} : ∀ {l : List Char} {c : Char} {r : List Char},
    l.dropWhile p = c :: r → p c = false
  | [], _, _, h => by cases h
  | x :: xs, c, r, h => by
    by_cases hp : p x = true
    · simp only [List.dropWhile_cons, hp, if_true] at h
      exact dropWhile_head_not h
    · simp only [List.dropWhile_cons, hp] at h
      have hx : x = c := by simpa using (List.cons.inj (by simpa using h)).1
      subst hx; simpa using hp

/-- a name that is not made of underscores only keeps at least one character -/
theorem strip_ne_nil {n : Tok} (h : allUnderscores n = false) : stripUnderscores n ≠ [] := by
  intro hs
  unfold stripUnderscores at hs
  have h1 : ((n.dropWhile (· = '_')).reverse.dropWhile (· = '_')) = [] := by
    simpa using hs
  have h2 := dropWhile_eq_nil_all h1
  -- the first stripping leaves [] or something starting with a non-underscore
  cases hd : n.dropWhile (· = '_') with
  | nil =>
    have h3 := dropWhile_eq_nil_all hd
    have : allUnderscores n = true := by
      unfold allUnderscores isUnderscore
      exact List.all_eq_true.2 (fun a ha => by simpa using h3 a ha)
    rw [h] at this; cases this
  | cons c r =>
    have hc := dropWhile_head_not hd
    have : (decide (c = '_')) = true := by
      have := h2 c (by rw [hd]; simp)
      simpa using this
    rw [this] at hc; cases hc

theorem translate_ne_nil {n : Tok} (h : allUnderscores n = false) : translateUnderscores n ≠ [] := by
  rw [translate_eq_map]
  intro hm
  exact strip_ne_nil h (List.map_eq_nil_iff.1 hm)

theorem allUnderscores_of_no_char {n : Tok} (h : allUnderscores n = false) : n ≠ [] := by
  intro e; subst e; simp [allUnderscores] at h

theorem dashedName_ne_nil {n : Tok} (h : allUnderscores n = false) : dashedName n ≠ [] := by
  unfold dashedName
  by_cases hu : hasUnderscore n = true
  · simp only [hu, if_true]; exact translate_ne_nil h
  · simp only [hu]; exact allUnderscores_of_no_char h

/-- characters of the stripped name come from the name -/
theorem strip_subset (n : Tok) : ∀ c ∈ stripUnderscores n, c ∈ n := by
  intro c hc
  unfold stripUnderscores at hc
  have h1 : c ∈ (n.dropWhile (· = '_')).reverse.dropWhile (· = '_') := List.mem_reverse.1 hc
  have h2 : c ∈ (n.dropWhile (· = '_')).reverse := (List.dropWhile_suffix _).subset h1
  have h3 : c ∈ n.dropWhile (· = '_') := List.mem_reverse.1 h2
  exact (List.dropWhile_suffix _).subset h3

/-- every character of the CLI name is a dash or an alphanumeric character of the identifier -/
theorem translate_chars {n : Tok} (hid : ∀ c ∈ n, isIdentChar c = true) :
    ∀ c ∈ translateUnderscores n, c = '-' ∨ c.isAlphanum = true := by
  intro c hc
  rw [translate_eq_map] at hc
  rcases List.mem_map.1 hc with ⟨d, hd, rfl⟩
  by_cases hu : d = '_'
  · simp [hu]
  · right
    simp only [hu, if_false]
    have := hid d (strip_subset n d hd)
    unfold isIdentChar at this
    simpa [hu] using this

theorem pyIdent_chars {n : Tok} (h : pyIdent n = true) : ∀ c ∈ n, isIdentChar c = true := by
  cases n with
  | nil => simp [pyIdent] at h
  | cons ch r =>
    simp only [pyIdent, Bool.and_eq_true] at h
    intro c hc
    rcases List.mem_cons.1 hc with rfl | hc
    · have := h.1; unfold isIdentStart at this; unfold isIdentChar
      rcases (by simpa using this : c.isAlpha = true ∨ c = '_') with h1 | h1
      · simp [Char.isAlphanum, h1]
      · simp [h1]
    · exact List.all_eq_true.1 h.2 c hc

theorem dashedName_chars {n : Tok} (h : pyIdent n = true) :
    ∀ c ∈ dashedName n, c = '-' ∨ c.isAlphanum = true := by
  unfold dashedName
  by_cases hu : hasUnderscore n = true
  · simp only [hu, if_true]; exact translate_chars (pyIdent_chars h)
  · simp only [hu]
    intro c hc
    have := pyIdent_chars h c hc
    unfold isIdentChar at this
    rcases (by simpa using this : c.isAlphanum = true ∨ c = '_') with h1 | h1
    · exact Or.inr h1
    · subst h1
      exact absurd (List.contains_iff_mem.2 hc) (by simpa [hasUnderscore] using hu)

/-! ## `to_flag` on names without underscores -/

theorem dropWhile_id_of_not_mem : ∀ {l : List Char}, '_' ∉ l → l.dropWhile (· = '_') = l
  | [], _ => rfl
  | c :: r, h => by
    have : c ≠ '_' := fun e => h (by simp [e])
    simp [this]

theorem translate_id {n : Tok} (h : '_' ∉ n) : translateUnderscores n = n := by
  rw [translate_eq_map]
  unfold stripUnderscores
  rw [dropWhile_id_of_not_mem h]
  rw [dropWhile_id_of_not_mem (by simpa using h)]
  rw [List.reverse_reverse]
  have : ∀ l : List Char, '_' ∉ l → l.map (fun c => if c = '_' then '-' else c) = l := by
    intro l
    induction l with
    | nil => intro _; rfl
    | cons c r ih =>
      intro hl
      have hc : c ≠ '_' := fun e => hl (by simp [e])
      have hr : '_' ∉ r := fun e => hl (List.mem_cons_of_mem _ e)
      simp [hc, ih hr]
  exact this n h

theorem toFlag_of_no_underscore {n : Tok} (h : '_' ∉ n) :
    toFlag n = if n.length = 1 then '-' :: n else '-' :: '-' :: n := by
  unfold toFlag
  simp only [translate_id h]

/-- a CLI name: no underscore, not empty -/
def NormalName (n : Tok) : Prop := '_' ∉ n ∧ n ≠ []

theorem toFlag_inj {a b : Tok} (ha : NormalName a) (hb : NormalName b) (h : toFlag a = toFlag b) : a = b := by
  rw [toFlag_of_no_underscore ha.1, toFlag_of_no_underscore hb.1] at h
  by_cases la : a.length = 1 <;> by_cases lb : b.length = 1
  · simp only [la, lb, if_true] at h; exact (List.cons.inj h).2
  · simp only [la, lb, if_true, if_false] at h
    have h2 := (List.cons.inj h).2
    -- a = '-' :: b with |a| = 1 forces b = []
    rw [h2] at la
    have : b = [] := by
      cases b with
      | nil => rfl
      | cons x xs => simp at la
    exact absurd this hb.2
  · simp only [la, lb, if_true, if_false] at h
    have h2 := (List.cons.inj h).2
    rw [← h2] at lb
    have : a = [] := by
      cases a with
      | nil => rfl
      | cons x xs => simp at lb
    exact absurd this ha.2
  · simp only [la, lb, if_false] at h
    exact (List.cons.inj (List.cons.inj h).2).2

theorem toFlag_normal_shape {n : Tok} (h : NormalName n) :
    (n.length = 1 ∧ toFlag n = '-' :: n) ∨ (2 ≤ n.length ∧ toFlag n = '-' :: '-' :: n) := by
  rw [toFlag_of_no_underscore h.1]
  by_cases l : n.length = 1
  · left; simp [l]
  · right
    refine ⟨?_, by simp [l]⟩
    have : n.length ≠ 0 := fun e => h.2 (List.length_eq_zero_iff.1 e)
    omega

/-! ## auto short flags -/

theorem pickShort_spec {auto : Bool} {name : Tok} {taken : List Tok} {s : Tok}
    (h : s ∈ pickShort auto name taken) :
    pickShort auto name taken = [s] ∧
    ∃ ch, s = [ch] ∧ ch ∈ name ∧ ch.isAlphanum = true ∧ [ch] ≠ name ∧ [ch] ∉ taken := by
  unfold pickShort at h ⊢
  cases auto with
  | false => simp at h
  | true =>
    simp only [if_true] at h ⊢
    cases hf : name.find? (shortCandidate name taken) with
    | none => rw [hf] at h; simp at h
    | some ch =>
      rw [hf] at h
      have hs : s = [ch] := by simpa using h
      subst hs
      refine ⟨rfl, ch, rfl, List.mem_of_find?_eq_some hf, ?_⟩
      have hp := List.find?_some hf
      unfold shortCandidate at hp
      simp only [Bool.and_eq_true, Bool.not_eq_true', Bool.or_eq_false_iff, decide_eq_false_iff_not] at hp
      refine ⟨hp.1, hp.2.1, ?_⟩
      intro hm
      have := List.contains_iff_mem.2 hm
      rw [hp.2.2] at this; cases this

theorem pickShort_length (auto : Bool) (name : Tok) (taken : List Tok) : (pickShort auto name taken).length ≤ 1 := by
  unfold pickShort
  cases auto with
  | false => simp
  | true =>
    simp only [if_true]
    cases name.find? (shortCandidate name taken) <;> simp

theorem pickShort_off (name : Tok) (taken : List Tok) : pickShort false name taken = [] := rfl

/-! ## `arg_opts`, pointwise -/

theorem argOpts_names (o : TaskOpts) (pos : List Tok) (p : Param) (t : List Tok) :
    (argOpts o pos p t).names = dashedName p.name :: pickShort o.autoShort (dashedName p.name) t := rfl

theorem argOpts_pyName (o : TaskOpts) (pos : List Tok) (p : Param) (t : List Tok) :
    (argOpts o pos p t).pyName = p.name := by
  unfold ArgSpec.pyName argOpts
  by_cases h : hasUnderscore p.name = true
  · simp [h]
  · have h' : hasUnderscore p.name = false := by simpa using h
    simp only [h', Bool.false_eq_true, if_false, Option.getD_none, List.headD_cons]
    unfold dashedName
    simp [h']

theorem argOpts_positional (o : TaskOpts) (pos : List Tok) (p : Param) (t : List Tok) :
    (argOpts o pos p t).positional = pos.contains p.name := rfl

theorem argOpts_attrName (o : TaskOpts) (pos : List Tok) (p : Param) (t : List Tok) :
    (argOpts o pos p t).attrName = if hasUnderscore p.name then some p.name else none := rfl

theorem argOpts_kind_default (o : TaskOpts) (pos : List Tok) (p : Param) (t : List Tok) :
    ((argOpts o pos p t).kind, (argOpts o pos p t).default) =
      kindDefault (o.optional.contains p.name) (o.iterable.contains p.name) p.default := rfl

theorem argOpts_kind (o : TaskOpts) (pos : List Tok) (p : Param) (t : List Tok) :
    (argOpts o pos p t).kind = (kindDefault (o.optional.contains p.name) (o.iterable.contains p.name) p.default).1 := rfl
theorem argOpts_default (o : TaskOpts) (pos : List Tok) (p : Param) (t : List Tok) :
    (argOpts o pos p t).default = (kindDefault (o.optional.contains p.name) (o.iterable.contains p.name) p.default).2 := rfl
theorem argOpts_incrementable (o : TaskOpts) (pos : List Tok) (p : Param) (t : List Tok) :
    (argOpts o pos p t).incrementable = o.incrementable.contains p.name := rfl

/-! ## the `get_arguments` loop -/

theorem buildArgs_map_pyName (o : TaskOpts) (pos : List Tok) :
    ∀ (ps : List Param) (t : List Tok), (buildArgs o pos ps t).map ArgSpec.pyName = ps.map Param.name
  | [], _ => rfl
  | p :: ps, t => by
    simp only [buildArgs, List.map_cons, argOpts_pyName, buildArgs_map_pyName o pos ps]

theorem mem_buildArgs {o : TaskOpts} {pos : List Tok} {a : ArgSpec} :
    ∀ {ps : List Param} {t : List Tok}, a ∈ buildArgs o pos ps t → ∃ p ∈ ps, ∃ t', a = argOpts o pos p t'
  | [], _, h => by cases h
  | p :: ps, t, h => by
    simp only [buildArgs, List.mem_cons] at h
    rcases h with rfl | h
    · exact ⟨p, by simp, t, rfl⟩
    · rcases mem_buildArgs h with ⟨q, hq, t', e⟩
      exact ⟨q, List.mem_cons_of_mem _ hq, t', e⟩

theorem buildArgs_has {o : TaskOpts} {pos : List Tok} {p : Param} :
    ∀ {ps : List Param} (t : List Tok), p ∈ ps → ∃ t', argOpts o pos p t' ∈ buildArgs o pos ps t
  | [], _, h => by cases h
  | q :: ps, t, h => by
    rcases List.mem_cons.1 h with rfl | h
    · exact ⟨t, by simp [buildArgs]⟩
    · rcases buildArgs_has (t ++ (argOpts o pos q t).names) h with ⟨t', ht⟩
      exact ⟨t', by simp only [buildArgs]; exact List.mem_cons_of_mem _ ht⟩

/-! ## the reorder -/

theorem extractArg_perm {pn : Tok} : ∀ {l : List ArgSpec} {a : ArgSpec} {r : List ArgSpec},
    extractArg pn l = some (a, r) → l.Perm (a :: r)
  | [], _, _, h => by cases h
  | x :: xs, a, r, h => by
    unfold extractArg at h
    by_cases hx : x.pyName = pn
    · simp only [hx, if_true] at h
      cases h; exact List.Perm.refl _
    · simp only [hx, if_false] at h
      cases he : extractArg pn xs with
      | none => rw [he] at h; cases h
      | some v =>
        rcases v with ⟨y, r'⟩
        rw [he] at h
        simp only [Option.some.injEq, Prod.mk.injEq] at h
        obtain ⟨rfl, rfl⟩ := h
        exact ((extractArg_perm he).cons x).trans (List.Perm.swap y x r')

theorem moveFront_perm (l : List ArgSpec) (pn : Tok) : (moveFront l pn).Perm l := by
  unfold moveFront
  cases he : extractArg pn l with
  | none => exact List.Perm.refl _
  | some v =>
    rcases v with ⟨a, r⟩
    exact (extractArg_perm he).symm

theorem reorder_perm : ∀ (pos : List Tok) (l : List ArgSpec), (reorder pos l).Perm l
  | [], _ => List.Perm.refl _
  | pn :: ps, l => (moveFront_perm _ pn).trans (reorder_perm ps l)

theorem argList_perm (o : TaskOpts) (ps : List Param) :
    (argList o ps).Perm (buildArgs o (positionalNames o ps) ps (takenInit ps)) :=
  reorder_perm _ _

theorem mem_argList {o : TaskOpts} {ps : List Param} {a : ArgSpec} (h : a ∈ argList o ps) :
    ∃ p ∈ ps, ∃ t, a = argOpts o (positionalNames o ps) p t :=
  mem_buildArgs ((argList_perm o ps).mem_iff.1 h)

theorem argList_has {o : TaskOpts} {ps : List Param} {p : Param} (h : p ∈ ps) :
    ∃ t, argOpts o (positionalNames o ps) p t ∈ argList o ps := by
  rcases buildArgs_has (o := o) (pos := positionalNames o ps) (takenInit ps) h with ⟨t, ht⟩
  exact ⟨t, (argList_perm o ps).mem_iff.2 ht⟩

/-! ## all names of the argument list are pairwise different (when the dashed names are) -/

/-- the names `ParserContext.add_arg` registers for one argument: names plus `attr_name` -/
def ArgSpec.allNames (sp : ArgSpec) : List Tok :=
  sp.names ++ (match sp.attrName with | some n => [n] | none => [])

theorem mem_allNames_argOpts {o : TaskOpts} {pos : List Tok} {p : Param} {t : List Tok} {x : Tok} :
    x ∈ (argOpts o pos p t).allNames ↔
      x = dashedName p.name ∨ x ∈ pickShort o.autoShort (dashedName p.name) t ∨
        (hasUnderscore p.name = true ∧ x = p.name) := by
  unfold ArgSpec.allNames
  rw [argOpts_names, argOpts_attrName]
  by_cases hu : hasUnderscore p.name = true
  · simp [hu]
  · simp [hu]

def isShortName (x : Tok) : Prop := ∃ ch, x = [ch] ∧ ch.isAlphanum = true

theorem mem_allNames_buildArgs {o : TaskOpts} {pos : List Tok} {x : Tok} :
    ∀ {ps : List Param} {t : List Tok}, x ∈ (buildArgs o pos ps t).flatMap ArgSpec.allNames →
      x ∈ ps.map (fun p => dashedName p.name) ∨ (x ∈ ps.map Param.name ∧ hasUnderscore x = true) ∨
        (x ∉ t ∧ isShortName x)
  | [], _, h => by simp [buildArgs] at h
  | p :: ps, t, h => by
    simp only [buildArgs, List.flatMap_cons, List.mem_append] at h
    rcases h with h | h
    · rcases mem_allNames_argOpts.1 h with h | h | h
      · left; simp [h]
      · right; right
        rcases (pickShort_spec h).2 with ⟨ch, e, _, ha, _, hn⟩
        exact ⟨e ▸ hn, ch, e, ha⟩
      · right; left
        exact ⟨by simp [h.2], h.2 ▸ h.1⟩
    · rcases mem_allNames_buildArgs h with h | h | h
      · left; simp only [List.map_cons, List.mem_cons]; exact Or.inr h
      · right; left; exact ⟨by simp only [List.map_cons, List.mem_cons]; exact Or.inr h.1, h.2⟩
      · right; right
        exact ⟨fun hx => h.1 (List.mem_append_left _ hx), h.2⟩

theorem hasUnderscore_mem {x : Tok} (h : hasUnderscore x = true) : '_' ∈ x :=
  List.contains_iff_mem.1 h

theorem short_not_underscore {x : Tok} (h : isShortName x) : hasUnderscore x = false := by
  rcases h with ⟨ch, rfl, ha⟩
  have := alnum_ne_underscore ha
  simp only [hasUnderscore, List.contains_cons, List.contains_nil, Bool.or_false, beq_eq_false_iff_ne, ne_eq]
  exact fun e => this e.symm

theorem buildArgs_allNames_nodup {o : TaskOpts} {pos : List Tok} :
    ∀ {ps : List Param} {t : List Tok},
      (ps.map (fun p => dashedName p.name)).Nodup → (ps.map Param.name).Nodup →
      (∀ p ∈ ps, p.name ∈ t ∧ dashedName p.name ∈ t) →
      ((buildArgs o pos ps t).flatMap ArgSpec.allNames).Nodup
  | [], _, _, _, _ => by simp [buildArgs]
  | p :: ps, t, hd, hn, ht => by
    simp only [List.map_cons, List.nodup_cons] at hd hn
    have htp := ht p (by simp)
    simp only [buildArgs, List.flatMap_cons]
    refine List.nodup_append.2 ⟨?_, ?_, ?_⟩
    · -- the names of the first argument
      unfold ArgSpec.allNames
      rw [argOpts_names, argOpts_attrName]
      have hshort : ∀ s ∈ pickShort o.autoShort (dashedName p.name) t, s ∉ t := by
        intro s hs
        rcases (pickShort_spec hs).2 with ⟨ch, e, _, _, _, hn'⟩
        exact e ▸ hn'
      have hps : (pickShort o.autoShort (dashedName p.name) t).Nodup := by
        have := pickShort_length o.autoShort (dashedName p.name) t
        match hh : pickShort o.autoShort (dashedName p.name) t, this with
        | [], _ => simp
        | [s], _ => simp
        | _ :: _ :: _, hl => simp at hl
      by_cases hu : hasUnderscore p.name = true
      · simp only [hu, if_true, List.cons_append]
        refine List.nodup_cons.2 ⟨?_, List.nodup_append.2 ⟨hps, by simp, ?_⟩⟩
        · intro hm
          rcases List.mem_append.1 hm with hm | hm
          · exact hshort _ hm htp.2
          · have : dashedName p.name = p.name := by simpa using hm
            have hm' : '_' ∈ dashedName p.name := by rw [this]; exact hasUnderscore_mem hu
            exact dashedName_no_underscore p.name hm' 
        · intro a ha b hb e
          have : b = p.name := by simpa using hb
          subst this; subst e
          exact hshort _ ha htp.1
      · have hu' : hasUnderscore p.name = false := by simpa using hu
        simp only [hu', Bool.false_eq_true, if_false, List.append_nil]
        refine List.nodup_cons.2 ⟨fun hm => hshort _ hm htp.2, hps⟩
    · refine buildArgs_allNames_nodup hd.2 hn.2 ?_
      intro q hq
      have := ht q (List.mem_cons_of_mem _ hq)
      exact ⟨List.mem_append_left _ this.1, List.mem_append_left _ this.2⟩
    · intro a ha b hb e
      subst e
      have hb' := mem_allNames_buildArgs hb
      rcases mem_allNames_argOpts.1 ha with h | h | h
      · -- a = dashed p
        rcases hb' with h' | h' | h'
        · exact hd.1 (h ▸ h')
        · exact dashedName_no_underscore p.name (h ▸ hasUnderscore_mem h'.2)
        · exact h'.1 (List.mem_append_left _ (h ▸ htp.2))
      · -- a = the short flag
        have hs : a ∉ t := by
          rcases (pickShort_spec h).2 with ⟨ch, e, _, _, _, hn'⟩
          exact e ▸ hn'
        rcases hb' with h' | h' | h'
        · rcases List.mem_map.1 h' with ⟨q, hq, e⟩
          exact hs (e ▸ (ht q (List.mem_cons_of_mem _ hq)).2)
        · rcases List.mem_map.1 h'.1 with ⟨q, hq, e⟩
          exact hs (e ▸ (ht q (List.mem_cons_of_mem _ hq)).1)
        · exact h'.1 (List.mem_append_right _ (by rw [argOpts_names]; exact List.mem_cons_of_mem _ h))
      · -- a = attr name
        rcases hb' with h' | h' | h'
        · rcases List.mem_map.1 h' with ⟨q, _, e⟩
          exact dashedName_no_underscore q.name (by rw [e, h.2]; exact hasUnderscore_mem h.1)
        · exact hn.1 (h.2 ▸ h'.1)
        · exact h'.1 (List.mem_append_left _ (h.2 ▸ htp.1))

theorem takenInit_has (ps : List Param) : ∀ p ∈ ps, p.name ∈ takenInit ps ∧ dashedName p.name ∈ takenInit ps := by
  intro p hp
  unfold takenInit
  refine ⟨List.mem_append_left _ (List.mem_map.2 ⟨p, hp, rfl⟩), ?_⟩
  unfold dashedName
  by_cases hu : hasUnderscore p.name = true
  · simp only [hu, if_true]; exact List.mem_append_right _ (List.mem_map.2 ⟨p, hp, rfl⟩)
  · simp only [hu]; exact List.mem_append_left _ (List.mem_map.2 ⟨p, hp, rfl⟩)

theorem nodup_of_map_nodup {α β} (f : α → β) : ∀ {l : List α}, (l.map f).Nodup → l.Nodup
  | [], _ => List.nodup_nil
  | a :: l, h => by
    simp only [List.map_cons, List.nodup_cons] at h
    exact List.nodup_cons.2 ⟨fun hm => h.1 (List.mem_map.2 ⟨a, hm, rfl⟩), nodup_of_map_nodup f h.2⟩

theorem names_nodup_of_dashed {ps : List Param} (h : (ps.map (fun p => dashedName p.name)).Nodup) :
    (ps.map Param.name).Nodup := by
  have : ps.map (fun p => dashedName p.name) = (ps.map Param.name).map dashedName := by simp
  rw [this] at h
  exact nodup_of_map_nodup dashedName h

/-- all names (names and attr names) of the argument list are pairwise different -/
theorem argList_allNames_nodup {o : TaskOpts} {ps : List Param}
    (hd : (ps.map (fun p => dashedName p.name)).Nodup) :
    ((argList o ps).flatMap ArgSpec.allNames).Nodup :=
  ((argList_perm o ps).flatMap_right _).nodup_iff.2
    (buildArgs_allNames_nodup hd (names_nodup_of_dashed hd) (takenInit_has ps))

/-! ## the positionals come first, in the order given -/

theorem extractArg_names {pn : Tok} : ∀ {L : List ArgSpec}, pn ∈ L.map ArgSpec.pyName →
    ∃ a r, extractArg pn L = some (a, r) ∧ a.pyName = pn ∧ r.map ArgSpec.pyName = (L.map ArgSpec.pyName).erase pn
  | [], h => by cases h
  | x :: xs, h => by
    unfold extractArg
    by_cases hx : x.pyName = pn
    · exact ⟨x, xs, by simp [hx], hx, by simp [hx]⟩
    · have hm : pn ∈ xs.map ArgSpec.pyName := by
        rcases List.mem_cons.1 h with h | h
        · exact absurd h.symm hx
        · exact h
      rcases extractArg_names hm with ⟨a, r, he, ha, hr⟩
      refine ⟨a, x :: r, by simp [hx, he], ha, ?_⟩
      have : (x.pyName == pn) = false := by simpa using hx
      simp only [List.map_cons, hr, List.erase_cons, this]
      rfl

theorem moveFront_names {L : List ArgSpec} {pn : Tok} (h : pn ∈ L.map ArgSpec.pyName) :
    (moveFront L pn).map ArgSpec.pyName = pn :: (L.map ArgSpec.pyName).erase pn := by
  rcases extractArg_names h with ⟨a, r, he, ha, hr⟩
  unfold moveFront
  rw [he]
  simp [ha, hr]

theorem reorder_names : ∀ (pos : List Tok) (L : List ArgSpec), pos.Nodup →
    (∀ x ∈ pos, x ∈ L.map ArgSpec.pyName) → (L.map ArgSpec.pyName).Nodup →
    (reorder pos L).map ArgSpec.pyName = pos ++ (L.map ArgSpec.pyName).filter (fun x => !pos.contains x)
  | [], L, _, _, _ => by
    simp only [reorder, List.nil_append]
    exact (List.filter_eq_self.2 (fun a _ => by simp)).symm
  | pn :: ps, L, hnd, hsub, hN => by
    have hnd' := List.nodup_cons.1 hnd
    have ih := reorder_names ps L hnd'.2 (fun x hx => hsub x (List.mem_cons_of_mem _ hx)) hN
    have hpn : pn ∈ L.map ArgSpec.pyName := hsub pn (by simp)
    have hin : pn ∈ (reorder ps L).map ArgSpec.pyName := by
      rw [ih]
      refine List.mem_append_right _ (List.mem_filter.2 ⟨hpn, ?_⟩)
      simpa using hnd'.1
    simp only [reorder]
    rw [moveFront_names hin, ih]
    have hfN : ((L.map ArgSpec.pyName).filter (fun x => !ps.contains x)).Nodup :=
      List.Nodup.sublist List.filter_sublist hN
    rw [List.erase_append_right _ hnd'.1, List.Nodup.erase_eq_filter hfN, List.filter_filter]
    simp only [List.cons_append, List.cons.injEq, true_and, List.append_cancel_left_eq]
    apply List.filter_congr
    intro x _
    by_cases hx : x = pn
    · subst hx; simp
    · have : (x == pn) = false := by simpa using hx
      simp [this, bne, hx]

theorem filter_map_comm {α β} (f : α → β) (q : α → Bool) (r : β → Bool) :
    ∀ (A : List α), (∀ a ∈ A, q a = r (f a)) → (A.filter q).map f = (A.map f).filter r
  | [], _ => rfl
  | a :: A, h => by
    have ha := h a (by simp)
    have ih := filter_map_comm f q r A (fun x hx => h x (List.mem_cons_of_mem _ hx))
    by_cases hq : q a = true
    · simp [hq, ← ha, ih]
    · have hq' : q a = false := by simpa using hq
      simp [hq', ← ha, ih]

/-- the arguments flagged positional, by python name, are exactly the positional names in the order given -/
theorem argList_positional_names {o : TaskOpts} {ps : List Param}
    (hn : (ps.map Param.name).Nodup) (hpn : (positionalNames o ps).Nodup)
    (hsub : ∀ x ∈ positionalNames o ps, x ∈ ps.map Param.name) :
    ((argList o ps).filter (·.positional)).map ArgSpec.pyName = positionalNames o ps := by
  have hL : (buildArgs o (positionalNames o ps) ps (takenInit ps)).map ArgSpec.pyName = ps.map Param.name :=
    buildArgs_map_pyName _ _ _ _
  have hq : ∀ a ∈ argList o ps, a.positional = (positionalNames o ps).contains a.pyName := by
    intro a ha
    rcases mem_argList ha with ⟨p, _, t, rfl⟩
    rw [argOpts_positional, argOpts_pyName]
  rw [filter_map_comm ArgSpec.pyName _ (fun x => (positionalNames o ps).contains x) _ hq]
  unfold argList
  rw [reorder_names _ _ hpn (by rw [hL]; exact hsub) (by rw [hL]; exact hn), List.filter_append, hL]
  have h1 : (positionalNames o ps).filter (fun x => (positionalNames o ps).contains x) = positionalNames o ps :=
    List.filter_eq_self.2 (fun a ha => List.contains_iff_mem.2 ha)
  have h2 : ((ps.map Param.name).filter (fun x => !(positionalNames o ps).contains x)).filter
      (fun x => (positionalNames o ps).contains x) = [] := by
    rw [List.filter_filter]
    exact List.filter_eq_nil_iff.2 (fun a _ => by simp)
  rw [h1, h2, List.append_nil]

theorem implicit_positional_nodup_sub {ps : List Param} (hn : (ps.map Param.name).Nodup) :
    ((ps.filter Param.noDefault).map Param.name).Nodup ∧
    ∀ x ∈ (ps.filter Param.noDefault).map Param.name, x ∈ ps.map Param.name := by
  refine ⟨List.Nodup.sublist (List.Sublist.map _ List.filter_sublist) hn, ?_⟩
  intro x hx
  exact (List.Sublist.map _ List.filter_sublist).subset hx

/-! ## `ParserContext.add_arg`: what one successful step does -/

/-- names already registered in a context (`name in self.args`: names, nicknames, attr names) -/
def Ctx.taken (c : Ctx) : List Tok := c.args.flatMap (fun a => a.spec.allNames)

/-- the context after registering one more argument -/
def Ctx.push (c : Ctx) (sp : ArgSpec) : Ctx :=
  { c with args := c.args ++ [Arg.init sp]
           flags := c.flags ++ sp.names.map (fun n => (toFlag n, c.args.length))
           inverse := if sp.hasInverse then c.inverse ++ [(sp.inverseName, toFlag (sp.names.headD []))] else c.inverse
           positional := if sp.positional then c.positional ++ [c.args.length] else c.positional }

theorem addArg_cons {c : Ctx} {sp : ArgSpec} {main : Tok} {nick : List Tok} (h : sp.names = main :: nick) :
    c.addArg sp = if sp.names.any (c.taken.contains ·) then .error (.other "ValueError" "duplicate-arg")
                  else .ok (c.push sp) := by
  unfold Ctx.addArg Ctx.push ArgSpec.hasInverse ArgSpec.inverseName
  simp only [h, List.headD_cons, List.map_cons, List.append_assoc, List.cons_append, List.nil_append]
  rfl

theorem addArg_nil {c : Ctx} {sp : ArgSpec} (h : sp.names = []) :
    c.addArg sp = .error (.other "TypeError" "no-names") := by
  unfold Ctx.addArg
  simp only [h]
  rfl

/-- the conditions under which `add_arg` accepts an argument -/
structure StepOK (c : Ctx) (sp : ArgSpec) : Prop where
  nonempty : sp.names ≠ []
  fresh : ∀ n ∈ sp.names, n ∉ c.taken
  noClash : c.inverseClash sp = false
  noExists : c.inverseExists sp = false

theorem any_contains_false {l t : List Tok} : l.any (t.contains ·) = false ↔ ∀ n ∈ l, n ∉ t := by
  constructor
  · intro h n hn hm
    have := List.any_eq_false.1 h n hn
    exact this (List.contains_iff_mem.2 hm)
  · intro h
    apply List.any_eq_false.2
    intro n hn hc
    exact h n hn (List.contains_iff_mem.1 hc)

theorem addArgChecked_ok_iff {c c' : Ctx} {sp : ArgSpec} :
    c.addArgChecked sp = .ok c' ↔ StepOK c sp ∧ c' = c.push sp := by
  unfold Ctx.addArgChecked
  constructor
  · intro h
    cases hn : sp.names with
    | nil =>
      rw [addArg_nil hn] at h
      cases h
    | cons main nick =>
      rw [addArg_cons hn] at h
      cases ha : sp.names.any (c.taken.contains ·) with
      | true => rw [ha] at h; cases h
      | false =>
        rw [ha] at h
        simp only [Bool.false_eq_true, if_false] at h
        cases h1 : c.inverseClash sp with
        | true => rw [h1] at h; cases h
        | false =>
          rw [h1] at h
          simp only [Bool.false_eq_true, if_false] at h
          cases h2 : c.inverseExists sp with
          | true => rw [h2] at h; cases h
          | false =>
            rw [h2] at h
            simp only [Bool.false_eq_true, if_false, Except.ok.injEq] at h
            exact ⟨⟨by rw [hn]; simp, any_contains_false.1 ha, h1, h2⟩, h.symm⟩
  · rintro ⟨⟨hne, hf, h1, h2⟩, rfl⟩
    have ha : sp.names.any (c.taken.contains ·) = false := any_contains_false.2 hf
    cases hn : sp.names with
    | nil => exact absurd hn hne
    | cons main nick =>
      rw [addArg_cons hn, ha]
      simp [h1, h2]

theorem addArgChecked_error {c : Ctx} {sp : ArgSpec} {e : Err} (hne : sp.names ≠ [])
    (h : c.addArgChecked sp = .error e) : ∃ site, e = .other "ValueError" site := by
  unfold Ctx.addArgChecked at h
  cases hn : sp.names with
  | nil => exact absurd hn hne
  | cons main nick =>
    rw [addArg_cons hn] at h
    cases ha : sp.names.any (c.taken.contains ·) with
    | true =>
      rw [ha] at h
      simp only [if_true, Except.error.injEq] at h; exact ⟨_, h.symm⟩
    | false =>
      rw [ha] at h
      simp only [Bool.false_eq_true, if_false] at h
      cases h1 : c.inverseClash sp with
      | true => rw [h1] at h; simp only [if_true, Except.error.injEq] at h; exact ⟨_, h.symm⟩
      | false =>
        rw [h1] at h
        simp only [Bool.false_eq_true, if_false] at h
        cases h2 : c.inverseExists sp with
        | true => rw [h2] at h; simp only [if_true, Except.error.injEq] at h; exact ⟨_, h.symm⟩
        | false => rw [h2] at h; simp at h

/-- all steps of the constructor loop are accepted -/
def StepsOK : Ctx → List ArgSpec → Prop
  | _, [] => True
  | c, sp :: r => StepOK c sp ∧ StepsOK (c.push sp) r

def Ctx.pushAll (c : Ctx) (sps : List ArgSpec) : Ctx := sps.foldl Ctx.push c

theorem foldChecked_ok_iff : ∀ {sps : List ArgSpec} {c c' : Ctx},
    foldChecked c sps = .ok c' ↔ StepsOK c sps ∧ c' = c.pushAll sps
  | [], c, c' => by simp [foldChecked, StepsOK, Ctx.pushAll, eq_comm]
  | sp :: r, c, c' => by
    unfold foldChecked
    cases h : c.addArgChecked sp with
    | error e =>
      simp only [StepsOK, false_iff, reduceCtorEq]
      rintro ⟨⟨hs, _⟩, _⟩
      have := addArgChecked_ok_iff.2 ⟨hs, rfl⟩
      rw [h] at this; cases this
    | ok c1 =>
      have h1 := addArgChecked_ok_iff.1 h
      simp only
      rw [foldChecked_ok_iff (sps := r)]
      simp only [StepsOK, Ctx.pushAll, List.foldl_cons]
      rw [h1.2]
      exact ⟨fun hh => ⟨⟨h1.1, hh.1⟩, hh.2⟩, fun hh => ⟨hh.1.2, hh.2⟩⟩

theorem foldChecked_error : ∀ {sps : List ArgSpec} {c : Ctx} {e : Err}, (∀ sp ∈ sps, sp.names ≠ []) →
    foldChecked c sps = .error e → ∃ site, e = .other "ValueError" site
  | [], _, _, _, h => by simp [foldChecked] at h
  | sp :: r, c, e, hne, h => by
    unfold foldChecked at h
    cases h1 : c.addArgChecked sp with
    | error e1 =>
      rw [h1] at h
      simp only [Except.error.injEq] at h
      exact h ▸ addArgChecked_error (hne sp (by simp)) h1
    | ok c1 =>
      rw [h1] at h
      exact foldChecked_error (fun x hx => hne x (List.mem_cons_of_mem _ hx)) h

/-! ## the tables of the context that results -/

def Ctx.WFpos (c : Ctx) : Prop := ∀ i ∈ c.positional, i < c.args.length

theorem push_args (c : Ctx) (sp : ArgSpec) : (c.push sp).args = c.args ++ [Arg.init sp] := rfl
theorem push_taken (c : Ctx) (sp : ArgSpec) : (c.push sp).taken = c.taken ++ sp.allNames := by
  simp [Ctx.taken, Ctx.push, Arg.init]
theorem push_flagNames (c : Ctx) (sp : ArgSpec) : (c.push sp).flagNames = c.flagNames ++ sp.flagNames := by
  simp [Ctx.flagNames, Ctx.push, ArgSpec.flagNames, Function.comp_def]
theorem push_inverseNames (c : Ctx) (sp : ArgSpec) :
    (c.push sp).inverseNames = c.inverseNames ++ (if sp.hasInverse then [sp.inverseName] else []) := by
  unfold Ctx.inverseNames Ctx.push
  by_cases h : sp.hasInverse = true
  · simp [h]
  · simp [h]
theorem push_inverse (c : Ctx) (sp : ArgSpec) :
    (c.push sp).inverse = c.inverse ++ (if sp.hasInverse then [(sp.inverseName, toFlag (sp.names.headD []))] else []) := by
  unfold Ctx.push
  by_cases h : sp.hasInverse = true
  · simp [h]
  · simp [h]

theorem push_WFpos {c : Ctx} (sp : ArgSpec) (h : c.WFpos) : (c.push sp).WFpos := by
  intro i hi
  simp only [Ctx.push] at hi ⊢
  simp only [List.length_append, List.length_cons, List.length_nil]
  by_cases hp : sp.positional = true
  · simp only [hp, if_true, List.mem_append, List.mem_singleton] at hi
    rcases hi with hi | hi
    · have := h i hi; omega
    · omega
  · simp only [hp] at hi
    have := h i hi; omega

theorem push_positionalNames {c : Ctx} (sp : ArgSpec) (h : c.WFpos) :
    (c.push sp).positionalNames = c.positionalNames ++ (if sp.positional then [sp.pyName] else []) := by
  have hold : ∀ l : List Nat, (∀ i ∈ l, i < c.args.length) →
      l.filterMap (fun i => ((c.args ++ [Arg.init sp])[i]?).map (fun a => a.spec.pyName)) =
      l.filterMap (fun i => (c.args[i]?).map (fun a => a.spec.pyName)) := by
    intro l hl
    induction l with
    | nil => rfl
    | cons i l ih =>
      have hi := hl i (by simp)
      have := ih (fun j hj => hl j (List.mem_cons_of_mem _ hj))
      simp only [List.filterMap_cons, this, List.getElem?_append_left hi]
  unfold Ctx.positionalNames
  simp only [Ctx.push]
  by_cases hp : sp.positional = true
  · simp only [hp, if_true, List.filterMap_append, hold c.positional h]
    simp [Arg.init]
  · have hp' : sp.positional = false := by simpa using hp
    simp only [hp', Bool.false_eq_true, if_false, List.append_nil]
    exact hold c.positional h

theorem pushAll_facts : ∀ (sps : List ArgSpec) (c : Ctx),
    (c.pushAll sps).args = c.args ++ sps.map Arg.init ∧
    (c.pushAll sps).taken = c.taken ++ sps.flatMap ArgSpec.allNames ∧
    (c.pushAll sps).flagNames = c.flagNames ++ sps.flatMap ArgSpec.flagNames ∧
    (c.pushAll sps).inverse = c.inverse ++
      (sps.filter ArgSpec.hasInverse).map (fun sp => (sp.inverseName, toFlag (sp.names.headD []))) ∧
    (c.WFpos → (c.pushAll sps).WFpos ∧
      (c.pushAll sps).positionalNames = c.positionalNames ++ (sps.filter (·.positional)).map ArgSpec.pyName)
  | [], c => by simp [Ctx.pushAll]
  | sp :: r, c => by
    have ih := pushAll_facts r (c.push sp)
    have e : c.pushAll (sp :: r) = (c.push sp).pushAll r := rfl
    rw [e]
    refine ⟨?_, ?_, ?_, ?_, ?_⟩
    · rw [ih.1, push_args]; simp
    · rw [ih.2.1, push_taken]; simp
    · rw [ih.2.2.1, push_flagNames]; simp
    · rw [ih.2.2.2.1, push_inverse]
      by_cases h : sp.hasInverse = true
      · simp [h]
      · simp [h]
    · intro hw
      have := ih.2.2.2.2 (push_WFpos sp hw)
      refine ⟨this.1, ?_⟩
      rw [this.2, push_positionalNames sp hw]
      by_cases h : sp.positional = true
      · simp [h]
      · simp [h]

theorem empty_facts (nm : Option Tok) (al : List Tok) :
    (Ctx.empty nm al).args = [] ∧ (Ctx.empty nm al).taken = [] ∧ (Ctx.empty nm al).flagNames = [] ∧
    (Ctx.empty nm al).inverse = [] ∧ (Ctx.empty nm al).WFpos ∧ (Ctx.empty nm al).positionalNames = [] := by
  refine ⟨rfl, rfl, rfl, rfl, ?_, rfl⟩
  intro i hi; cases hi

/-- everything the built context holds, in terms of the argument list -/
theorem ofSpecsChecked_tables {nm : Option Tok} {al : List Tok} {sps : List ArgSpec} {c : Ctx}
    (h : Ctx.ofSpecsChecked nm al sps = .ok c) :
    c.args = sps.map Arg.init ∧
    c.flagNames = sps.flatMap ArgSpec.flagNames ∧
    c.inverse = (sps.filter ArgSpec.hasInverse).map (fun sp => (sp.inverseName, toFlag (sp.names.headD []))) ∧
    c.positionalNames = (sps.filter (·.positional)).map ArgSpec.pyName := by
  unfold Ctx.ofSpecsChecked at h
  have hc := (foldChecked_ok_iff.1 h).2
  have f := pushAll_facts sps (Ctx.empty nm al)
  have e := empty_facts nm al
  rw [← hc] at f
  refine ⟨by rw [f.1, e.1]; simp, by rw [f.2.2.1, e.2.2.1]; simp, by rw [f.2.2.2.1, e.2.2.2.1]; simp, ?_⟩
  rw [(f.2.2.2.2 e.2.2.2.2.1).2, e.2.2.2.2.2]; simp

/-! ## from the argument list to an accepted context, and back -/

theorem pushAll_inverseNames (sps : List ArgSpec) (c : Ctx) :
    (c.pushAll sps).inverseNames = c.inverseNames ++ (sps.filter ArgSpec.hasInverse).map ArgSpec.inverseName := by
  unfold Ctx.inverseNames
  rw [(pushAll_facts sps c).2.2.2.1]
  simp [Function.comp_def]

theorem inverseClash_false {c : Ctx} {sp : ArgSpec} :
    c.inverseClash sp = false ↔ ∀ f ∈ sp.flagNames, f ∉ c.inverseNames := by
  unfold Ctx.inverseClash
  exact any_contains_false

theorem inverseExists_false {c : Ctx} {sp : ArgSpec} :
    c.inverseExists sp = false ↔ (sp.hasInverse = true → sp.inverseName ∉ c.flagNames ++ sp.flagNames) := by
  unfold Ctx.inverseExists
  cases hi : sp.hasInverse with
  | false => simp
  | true =>
    simp only [Bool.true_and, forall_const]
    constructor
    · intro h hm
      rw [List.contains_iff_mem.2 hm] at h; cases h
    · intro h
      cases hc : (c.flagNames ++ sp.flagNames).contains sp.inverseName with
      | false => rfl
      | true => exact absurd (List.contains_iff_mem.1 hc) h

theorem names_sub_allNames (sp : ArgSpec) : ∀ n ∈ sp.names, n ∈ sp.allNames := by
  intro n hn; unfold ArgSpec.allNames; exact List.mem_append_left _ hn

/-- sufficient: all names different, no `--no-` form equal to a flag -/
theorem stepsOK_of_global : ∀ {sps : List ArgSpec} {c : Ctx},
    (c.taken ++ sps.flatMap ArgSpec.allNames).Nodup → (∀ sp ∈ sps, sp.names ≠ []) →
    (∀ sp ∈ sps, ∀ f ∈ sp.flagNames, f ∉ c.inverseNames) →
    (∀ sp' ∈ sps, sp'.hasInverse = true → sp'.inverseName ∉ c.flagNames) →
    (∀ sp ∈ sps, ∀ sp' ∈ sps, sp'.hasInverse = true → sp'.inverseName ∉ sp.flagNames) →
    StepsOK c sps
  | [], _, _, _, _, _, _ => trivial
  | sp :: r, c, hnd, hne, h3, h4, h5 => by
    have hsp : sp ∈ sp :: r := by simp
    have hdis := (List.nodup_append.1 hnd).2.2
    refine ⟨⟨hne sp hsp, ?_, inverseClash_false.2 (h3 sp hsp), inverseExists_false.2 ?_⟩, ?_⟩
    · intro n hn hm
      exact hdis n hm n (by
        simp only [List.flatMap_cons, List.mem_append]
        exact Or.inl (names_sub_allNames sp n hn)) rfl
    · intro hi hm
      rcases List.mem_append.1 hm with hm | hm
      · exact h4 sp hsp hi hm
      · exact h5 sp hsp sp hsp hi hm
    · apply stepsOK_of_global
      · rw [push_taken]
        simpa [List.append_assoc] using hnd
      · exact fun x hx => hne x (List.mem_cons_of_mem _ hx)
      · intro sp2 h2 f hf hm
        rw [push_inverseNames] at hm
        rcases List.mem_append.1 hm with hm | hm
        · exact h3 sp2 (List.mem_cons_of_mem _ h2) f hf hm
        · by_cases hi : sp.hasInverse = true
          · simp only [hi, if_true, List.mem_singleton] at hm
            exact h5 sp2 (List.mem_cons_of_mem _ h2) sp hsp hi (hm ▸ hf)
          · simp [hi] at hm
      · intro sp' h' hi hm
        rw [push_flagNames] at hm
        rcases List.mem_append.1 hm with hm | hm
        · exact h4 sp' (List.mem_cons_of_mem _ h') hi hm
        · exact h5 sp hsp sp' (List.mem_cons_of_mem _ h') hi hm
      · exact fun a ha b hb => h5 a (List.mem_cons_of_mem _ ha) b (List.mem_cons_of_mem _ hb)

/-- names from which flags are made: no duplicates inside one argument, all of them CLI names -/
def NormalSpec (sp : ArgSpec) : Prop := sp.names.Nodup ∧ ∀ n ∈ sp.names, NormalName n

theorem no_prefix_normal' {n : Tok} (h : '_' ∉ n) : NormalName ("no-".toList ++ n) := by
  refine ⟨?_, by simp⟩
  intro hm
  rcases List.mem_append.1 hm with hm | hm
  · revert hm; decide
  · exact h hm

theorem no_prefix_normal {n : Tok} (h : NormalName n) : NormalName ("no-".toList ++ n) := no_prefix_normal' h.1

theorem nodup_map_toFlag : ∀ {l : List Tok}, l.Nodup → (∀ n ∈ l, NormalName n) → (l.map toFlag).Nodup
  | [], _, _ => by simp
  | a :: l, hnd, hn => by
    have hnd' := List.nodup_cons.1 hnd
    simp only [List.map_cons]
    refine List.nodup_cons.2 ⟨?_, nodup_map_toFlag hnd'.2 (fun n h => hn n (List.mem_cons_of_mem _ h))⟩
    intro hm
    rcases List.mem_map.1 hm with ⟨b, hb, e⟩
    have := toFlag_inj (hn b (List.mem_cons_of_mem _ hb)) (hn a (by simp)) e
    exact hnd'.1 (this ▸ hb)

/-- flag tables of a context: nothing twice, every flag made from a registered CLI name -/
structure FlagInv (c : Ctx) : Prop where
  nodup : (c.flagNames ++ c.inverseNames).Nodup
  flagsFrom : ∀ f ∈ c.flagNames, ∃ n ∈ c.taken, NormalName n ∧ f = toFlag n
  invFrom : ∀ f ∈ c.inverseNames, ∃ n ∈ c.taken, NormalName n ∧ f = toFlag ("no-".toList ++ n)

theorem headD_mem {l : List Tok} (h : l ≠ []) : l.headD [] ∈ l := by
  cases l with
  | nil => exact absurd rfl h
  | cons a r => simp

theorem push_flagInv {c : Ctx} {sp : ArgSpec} (hJ : FlagInv c) (hs : StepOK c sp) (hn : NormalSpec sp) :
    FlagInv (c.push sp) := by
  have hmain : sp.names.headD [] ∈ sp.names := headD_mem hs.nonempty
  have hA := List.nodup_append.1 hJ.nodup
  have hclash := inverseClash_false.1 hs.noClash
  have hex := inverseExists_false.1 hs.noExists
  have hAN : ∀ a ∈ c.flagNames, ∀ b ∈ sp.flagNames, a ≠ b := by
    intro a ha b hb e
    subst e
    rcases hJ.flagsFrom a ha with ⟨n, hnt, hnn, e1⟩
    rcases List.mem_map.1 hb with ⟨m, hm, e2⟩
    have : n = m := toFlag_inj hnn (hn.2 m hm) (e1.symm.trans e2.symm)
    exact hs.fresh m hm (this ▸ hnt)
  have hXI : sp.hasInverse = true → sp.inverseName ∉ c.inverseNames := by
    intro _ hm
    rcases hJ.invFrom _ hm with ⟨n, hnt, hnn, e⟩
    unfold ArgSpec.inverseName at e
    have h1 := toFlag_inj (no_prefix_normal (hn.2 _ hmain)) (no_prefix_normal hnn) e
    have : sp.names.headD [] = n := List.append_cancel_left h1
    exact hs.fresh _ hmain (this ▸ hnt)
  refine ⟨?_, ?_, ?_⟩
  · rw [push_flagNames, push_inverseNames]
    refine List.nodup_append.2 ⟨List.nodup_append.2 ⟨hA.1, nodup_map_toFlag hn.1 hn.2, hAN⟩, ?_, ?_⟩
    · by_cases hi : sp.hasInverse = true
      · simp only [hi, if_true]
        refine List.nodup_append.2 ⟨hA.2.1, by simp, ?_⟩
        intro a ha b hb e
        have : b = sp.inverseName := by simpa using hb
        exact hXI hi (this ▸ e ▸ ha)
      · have hi' : sp.hasInverse = false := by simpa using hi
        simp only [hi', Bool.false_eq_true, if_false, List.append_nil]; exact hA.2.1
    · intro a ha b hb e
      subst e
      rcases List.mem_append.1 hb with hb | hb
      · rcases List.mem_append.1 ha with ha | ha
        · exact hA.2.2 a ha a hb rfl
        · exact hclash a ha hb
      · by_cases hi : sp.hasInverse = true
        · simp only [hi, if_true, List.mem_singleton] at hb
          exact hex hi (hb ▸ ha)
        · simp [hi] at hb
  · intro f hf
    rw [push_flagNames] at hf
    rw [push_taken]
    rcases List.mem_append.1 hf with hf | hf
    · rcases hJ.flagsFrom f hf with ⟨n, h1, h2, h3⟩
      exact ⟨n, List.mem_append_left _ h1, h2, h3⟩
    · rcases List.mem_map.1 hf with ⟨m, hm, e⟩
      exact ⟨m, List.mem_append_right _ (names_sub_allNames sp m hm), hn.2 m hm, e.symm⟩
  · intro f hf
    rw [push_inverseNames] at hf
    rw [push_taken]
    rcases List.mem_append.1 hf with hf | hf
    · rcases hJ.invFrom f hf with ⟨n, h1, h2, h3⟩
      exact ⟨n, List.mem_append_left _ h1, h2, h3⟩
    · by_cases hi : sp.hasInverse = true
      · simp only [hi, if_true, List.mem_singleton] at hf
        exact ⟨_, List.mem_append_right _ (names_sub_allNames sp _ hmain), hn.2 _ hmain, hf⟩
      · simp [hi] at hf

theorem pushAll_flagInv : ∀ {sps : List ArgSpec} {c : Ctx}, StepsOK c sps → (∀ sp ∈ sps, NormalSpec sp) →
    FlagInv c → FlagInv (c.pushAll sps)
  | [], _, _, _, hJ => hJ
  | sp :: r, c, hs, hn, hJ =>
    pushAll_flagInv (sps := r) hs.2 (fun x hx => hn x (List.mem_cons_of_mem _ hx))
      (push_flagInv hJ hs.1 (hn sp (by simp)))

theorem empty_flagInv (nm : Option Tok) (al : List Tok) : FlagInv (Ctx.empty nm al) :=
  ⟨by simp [Ctx.flagNames, Ctx.inverseNames, Ctx.empty],
   fun f hf => by simp [Ctx.flagNames, Ctx.empty] at hf,
   fun f hf => by simp [Ctx.inverseNames, Ctx.empty] at hf⟩

/-- the headline fact about `add_arg`: whenever the constructor loop accepts arguments whose names are
    CLI names, all flags and inverse flags of the context are pairwise different -/
theorem ofSpecsChecked_flags_nodup {nm : Option Tok} {al : List Tok} {sps : List ArgSpec} {c : Ctx}
    (hn : ∀ sp ∈ sps, NormalSpec sp) (h : Ctx.ofSpecsChecked nm al sps = .ok c) :
    (c.flagNames ++ c.inverseNames).Nodup := by
  unfold Ctx.ofSpecsChecked at h
  have h' := foldChecked_ok_iff.1 h
  rw [h'.2]
  exact (pushAll_flagInv h'.1 hn (empty_flagInv nm al)).nodup

theorem ofSpecsChecked_ok_of_global {nm : Option Tok} {al : List Tok} {sps : List ArgSpec}
    (hnd : (sps.flatMap ArgSpec.allNames).Nodup) (hne : ∀ sp ∈ sps, sp.names ≠ [])
    (h5 : ∀ sp ∈ sps, ∀ sp' ∈ sps, sp'.hasInverse = true → sp'.inverseName ∉ sp.flagNames) :
    ∃ c, Ctx.ofSpecsChecked nm al sps = .ok c := by
  refine ⟨_, foldChecked_ok_iff.2 ⟨stepsOK_of_global ?_ hne ?_ ?_ h5, rfl⟩⟩
  · simpa [Ctx.taken, Ctx.empty] using hnd
  · intro _ _ f _ hm; simp [Ctx.inverseNames, Ctx.empty] at hm
  · intro _ _ _ hm; simp [Ctx.flagNames, Ctx.empty] at hm

/-- the checked constructor agrees with the shared parser model's `Ctx.ofSpecs` whenever it succeeds -/
theorem foldChecked_eq_foldlM : ∀ {sps : List ArgSpec} {c c' : Ctx}, foldChecked c sps = .ok c' →
    sps.foldlM Ctx.addArg c = .ok c'
  | [], c, c', h => by
    simp only [foldChecked, Except.ok.injEq] at h
    subst h; rfl
  | sp :: r, c, c', h => by
    unfold foldChecked at h
    cases h1 : c.addArgChecked sp with
    | error e => rw [h1] at h; cases h
    | ok c1 =>
      rw [h1] at h
      have h2 := addArgChecked_ok_iff.1 h1
      have h3 : c.addArg sp = .ok c1 := by
        rcases List.exists_cons_of_ne_nil h2.1.nonempty with ⟨m, nk, hn⟩
        rw [addArg_cons hn, any_contains_false.2 h2.1.fresh, h2.2]
        rfl
      simp only [List.foldlM_cons, h3]
      exact foldChecked_eq_foldlM h

/-! ## facts about single arguments used by the property theorems -/

theorem dashedName_eq_translate (n : Tok) : dashedName n = translateUnderscores n := by
  unfold dashedName
  by_cases hu : hasUnderscore n = true
  · simp [hu]
  · have hu' : hasUnderscore n = false := by simpa using hu
    simp only [hu', Bool.false_eq_true, if_false]
    exact (translate_id (contains_false_not_mem hu')).symm

theorem dashedName_normal {n : Tok} (h : dashedName n ≠ []) : NormalName (dashedName n) :=
  ⟨dashedName_no_underscore n, h⟩

/-- the refusal test of `arg_opts` is exactly "the CLI name is empty" for a non-empty parameter name -/
theorem blankName_true_iff (p : Param) :
    blankName p = true ↔ (hasUnderscore p.name = true ∧ dashedName p.name = []) := by
  unfold blankName dashedName
  cases hu : hasUnderscore p.name <;> simp [List.isEmpty_iff]

theorem blank_false_of_ne_nil {p : Param} (h : dashedName p.name ≠ []) : blankName p = false := by
  cases hb : blankName p with
  | false => rfl
  | true => exact absurd ((blankName_true_iff p).1 hb).2 h

theorem ne_nil_of_blank_false {p : Param} (hne : p.name ≠ []) (h : blankName p = false) : dashedName p.name ≠ [] := by
  intro hd
  by_cases hu : hasUnderscore p.name = true
  · have := (blankName_true_iff p).2 ⟨hu, hd⟩
    rw [h] at this; cases this
  · have hu' : hasUnderscore p.name = false := by simpa using hu
    unfold dashedName at hd
    simp only [hu', Bool.false_eq_true, if_false] at hd
    exact hne hd

theorem short_normal {x : Tok} (h : isShortName x) : NormalName x := by
  rcases h with ⟨ch, rfl, ha⟩
  refine ⟨?_, by simp⟩
  intro hm
  have : '_' = ch := by simpa using hm
  exact alnum_ne_underscore ha this.symm

theorem argOpts_normalSpec {o : TaskOpts} {pos : List Tok} {p : Param} {t : List Tok}
    (h : dashedName p.name ≠ []) : NormalSpec (argOpts o pos p t) := by
  rw [NormalSpec, argOpts_names]
  have hl := pickShort_length o.autoShort (dashedName p.name) t
  match hh : pickShort o.autoShort (dashedName p.name) t, hl with
  | [], _ =>
    exact ⟨by simp, fun n hn => by
      have : n = dashedName p.name := by simpa using hn
      exact this ▸ dashedName_normal h⟩
  | [s], _ =>
    have hs : s ∈ pickShort o.autoShort (dashedName p.name) t := by rw [hh]; simp
    rcases (pickShort_spec hs).2 with ⟨ch, e, _, ha, hne, _⟩
    refine ⟨?_, ?_⟩
    · simp only [List.nodup_cons, List.mem_singleton, List.not_mem_nil, not_false_eq_true, List.nodup_nil,
        and_true]
      intro e'
      exact hne (e ▸ e'.symm)
    · intro n hn
      rcases List.mem_cons.1 hn with rfl | hn
      · exact dashedName_normal h
      · have : n = s := by simpa using hn
        exact this ▸ short_normal ⟨ch, e, ha⟩
  | _ :: _ :: _, hl => simp at hl

theorem kindDefault_hasInverse (isOpt isIter : Bool) (d : PyDefault) :
    ((kindDefault isOpt isIter d).1 = Kind.bool ∧ (kindDefault isOpt isIter d).2 = PVal.b true) ↔
      (d = .bool true ∧ isOpt = false) := by
  cases d with
  | empty => cases isIter <;> simp [kindDefault, baseKind, iterDefault, PyDefault.toPVal]
  | none => cases isIter <;> simp [kindDefault, baseKind, iterDefault]
  | str s => simp [kindDefault]
  | int i => simp [kindDefault]
  | list xs => simp [kindDefault]
  | bool b => cases isOpt <;> cases isIter <;> cases b <;> simp [kindDefault, baseKind]

theorem argOpts_hasInverse {o : TaskOpts} {pos : List Tok} {p : Param} {t : List Tok} :
    (argOpts o pos p t).hasInverse = true ↔ (p.default = .bool true ∧ o.optional.contains p.name = false) := by
  have := kindDefault_hasInverse (o.optional.contains p.name) (o.iterable.contains p.name) p.default
  unfold ArgSpec.hasInverse
  simp only [Bool.and_eq_true, decide_eq_true_eq]
  exact this

theorem argOpts_inverseName (o : TaskOpts) (pos : List Tok) (p : Param) (t : List Tok) :
    (argOpts o pos p t).inverseName = toFlag ("no-".toList ++ dashedName p.name) := rfl

theorem argOpts_flagNames (o : TaskOpts) (pos : List Tok) (p : Param) (t : List Tok) :
    (argOpts o pos p t).flagNames =
      toFlag (dashedName p.name) :: (pickShort o.autoShort (dashedName p.name) t).map toFlag := rfl

/-- the value an argument holds before anything is parsed -/
theorem init_value (sp : ArgSpec) :
    (Arg.init sp).value =
      if sp.incrementable then sp.default else if sp.kind = .list then .l [] else sp.default := by
  unfold Arg.value Arg.init
  by_cases hi : sp.incrementable = true
  · simp only [hi, if_true]
    by_cases hd : sp.default = .none <;> simp [hd]
  · simp only [hi]
    by_cases hk : sp.kind = .list <;> simp [hk]

/-- value of an untouched argument against the function's own default, for every combination of options -/
theorem carries_table (op it inc : Bool) (d : PyDefault) (hne : d ≠ .empty) :
    ((kindDefault op it d).1 ≠ Kind.list →
      (if inc = true then (kindDefault op it d).2
       else if (kindDefault op it d).1 = Kind.list then PVal.l [] else (kindDefault op it d).2) = d.toPVal) ∧
    ((kindDefault op it d).1 = Kind.list →
      (if inc = true then (kindDefault op it d).2
       else if (kindDefault op it d).1 = Kind.list then PVal.l [] else (kindDefault op it d).2) = PVal.l [] ∨
      ((if inc = true then (kindDefault op it d).2
        else if (kindDefault op it d).1 = Kind.list then PVal.l [] else (kindDefault op it d).2) = d.toPVal ∧
        d ≠ PyDefault.none)) := by
  cases d <;> cases op <;> cases it <;> cases inc <;>
    simp [kindDefault, baseKind, iterDefault, PyDefault.toPVal] at hne ⊢

/-- the main flags of the parameters sit, in order, inside the flag list of the argument loop -/
theorem mains_sublist (o : TaskOpts) (pos : List Tok) : ∀ (ps : List Param) (t : List Tok),
    (ps.map (fun p => toFlag (dashedName p.name))).Sublist ((buildArgs o pos ps t).flatMap ArgSpec.flagNames)
  | [], _ => by simp [buildArgs]
  | p :: ps, t => by
    simp only [buildArgs, List.map_cons, List.flatMap_cons, argOpts_flagNames, List.cons_append]
    exact List.Sublist.cons_cons _ ((mains_sublist o pos ps _).trans (List.sublist_append_right _ _))

theorem argList_flags_nodup_dashed {o : TaskOpts} {ps : List Param}
    (h : ((argList o ps).flatMap ArgSpec.flagNames).Nodup) : (ps.map (fun p => dashedName p.name)).Nodup := by
  have h1 := ((argList_perm o ps).flatMap_right ArgSpec.flagNames).nodup_iff.1 h
  have h2 := List.Nodup.sublist (mains_sublist o (positionalNames o ps) ps (takenInit ps)) h1
  have : ps.map (fun p => toFlag (dashedName p.name)) = (ps.map (fun p => dashedName p.name)).map toFlag := by simp
  rw [this] at h2
  exact nodup_of_map_nodup toFlag h2

theorem mkCtx_ok_iff {nm : Tok} {o : TaskOpts} {ps : List Param} {c : Ctx} :
    mkCtx nm o ps = .ok c ↔ ps.any blankName = false ∧ helpOK o ps = true ∧
      Ctx.ofSpecsChecked (some nm) [] (argList o ps) = .ok c := by
  unfold mkCtx getArguments
  cases hb : ps.any blankName <;> cases h : helpOK o ps <;> simp

/-! ## the flag table maps every flag to the index of its own argument -/

/-- flag table entries of a list of arguments registered from index `i` on -/
def flagTable : Nat → List ArgSpec → List (Tok × Nat)
  | _, [] => []
  | i, sp :: r => sp.names.map (fun n => (toFlag n, i)) ++ flagTable (i + 1) r

theorem pushAll_flags : ∀ (sps : List ArgSpec) (c : Ctx),
    (c.pushAll sps).flags = c.flags ++ flagTable c.args.length sps
  | [], c => by simp [Ctx.pushAll, flagTable]
  | sp :: r, c => by
    have e : c.pushAll (sp :: r) = (c.push sp).pushAll r := rfl
    rw [e, pushAll_flags r (c.push sp)]
    simp [Ctx.push, flagTable, List.append_assoc]

theorem mem_flagTable : ∀ {sps : List ArgSpec} {i j : Nat} {a : ArgSpec} {n : Tok},
    sps[j]? = some a → n ∈ a.names → (toFlag n, i + j) ∈ flagTable i sps
  | [], _, _, _, _, h, _ => by simp at h
  | sp :: r, i, 0, a, n, h, hn => by
    simp only [List.getElem?_cons_zero, Option.some.injEq] at h
    subst h
    simp only [flagTable, Nat.add_zero, List.mem_append]
    exact Or.inl (List.mem_map.2 ⟨n, hn, rfl⟩)
  | sp :: r, i, j + 1, a, n, h, hn => by
    simp only [List.getElem?_cons_succ] at h
    simp only [flagTable, List.mem_append]
    right
    have := mem_flagTable (i := i + 1) h hn
    rwa [Nat.add_assoc, Nat.add_comm 1 j] at this

theorem assoc_of_mem_nodup {β} : ∀ {l : List (Tok × β)} {k : Tok} {v : β},
    (k, v) ∈ l → (l.map Prod.fst).Nodup → assoc? k l = some v
  | [], _, _, h, _ => by cases h
  | (k', v') :: r, k, v, h, hnd => by
    simp only [List.map_cons, List.nodup_cons] at hnd
    unfold assoc?
    rcases List.mem_cons.1 h with h | h
    · cases h; simp
    · have hk : k ≠ k' := by
        intro e
        exact hnd.1 (List.mem_map.2 ⟨(k, v), h, e⟩)
      simp only [hk, if_false]
      exact assoc_of_mem_nodup h hnd.2

/-- in a successfully built context every name of the `j`-th argument spells a flag that the flag table maps
    to `j`, and slot `j` of the context holds that argument -/
theorem ofSpecsChecked_flag_reaches {nm : Option Tok} {al : List Tok} {sps : List ArgSpec} {c : Ctx}
    (hn : ∀ sp ∈ sps, NormalSpec sp) (h : Ctx.ofSpecsChecked nm al sps = .ok c)
    {j : Nat} {a : ArgSpec} (hj : sps[j]? = some a) {n : Tok} (hmem : n ∈ a.names) :
    assoc? (toFlag n) c.flags = some j ∧ c.args[j]? = some (Arg.init a) := by
  have hnd := ofSpecsChecked_flags_nodup hn h
  have ht := ofSpecsChecked_tables h
  unfold Ctx.ofSpecsChecked at h
  have hc := (foldChecked_ok_iff.1 h).2
  have hf : c.flags = flagTable 0 sps := by
    rw [hc, pushAll_flags]; simp [Ctx.empty]
  refine ⟨assoc_of_mem_nodup ?_ (List.nodup_append.1 hnd).1, ?_⟩
  · rw [hf]
    have := mem_flagTable (i := 0) hj hmem
    simpa using this
  · rw [ht.1, List.getElem?_map, hj]; rfl

/-! ## the CLI name starts and ends with an alphanumeric character -/

theorem strip_prefix (n : Tok) : stripUnderscores n <+: n.dropWhile (· = '_') := by
  unfold stripUnderscores
  have h := List.dropWhile_suffix (l := (n.dropWhile (· = '_')).reverse) (· = '_')
  have h2 := List.reverse_prefix.2 h
  rwa [List.reverse_reverse] at h2

theorem strip_head_not_underscore {n : Tok} {c : Char} {r : Tok} (h : stripUnderscores n = c :: r) : c ≠ '_' := by
  rcases strip_prefix n with ⟨t, ht⟩
  rw [h] at ht
  have := dropWhile_head_not (p := (· = '_')) (l := n) (c := c) (r := r ++ t) (by rw [← ht]; rfl)
  simpa using this

theorem strip_last_not_underscore {n : Tok} {c : Char} (h : (stripUnderscores n).getLast? = some c) : c ≠ '_' := by
  unfold stripUnderscores at h
  rw [List.getLast?_reverse] at h
  cases hd : ((n.dropWhile (· = '_')).reverse.dropWhile (· = '_')) with
  | nil => rw [hd] at h; simp at h
  | cons x xs =>
    rw [hd] at h
    simp only [List.head?_cons, Option.some.injEq] at h
    subst h
    have := dropWhile_head_not hd
    simpa using this

theorem translate_ends_alnum {n : Tok} (hid : ∀ c ∈ n, isIdentChar c = true) :
    (∀ c, (translateUnderscores n).head? = some c → c.isAlphanum = true) ∧
    (∀ c, (translateUnderscores n).getLast? = some c → c.isAlphanum = true) := by
  rw [translate_eq_map]
  have key : ∀ d, d ∈ stripUnderscores n → d ≠ '_' → (if d = '_' then '-' else d).isAlphanum = true := by
    intro d hd hne
    simp only [hne, if_false]
    have := hid d (strip_subset n d hd)
    unfold isIdentChar at this
    simpa [hne] using this
  constructor
  · intro c hc
    cases hs : stripUnderscores n with
    | nil => rw [hs] at hc; simp at hc
    | cons d r =>
      rw [hs] at hc
      simp only [List.map_cons, List.head?_cons, Option.some.injEq] at hc
      subst hc
      exact key d (by rw [hs]; simp) (strip_head_not_underscore hs)
  · intro c hc
    rw [List.getLast?_map] at hc
    cases hl : (stripUnderscores n).getLast? with
    | none => rw [hl] at hc; simp at hc
    | some d =>
      rw [hl] at hc
      simp only [Option.map_some, Option.some.injEq] at hc
      subst hc
      exact key d (List.mem_of_getLast? hl) (strip_last_not_underscore hl)

theorem dashedName_ends_alnum {n : Tok} (h : pyIdent n = true) :
    (∀ c, (dashedName n).head? = some c → c.isAlphanum = true) ∧
    (∀ c, (dashedName n).getLast? = some c → c.isAlphanum = true) := by
  rw [dashedName_eq_translate]
  exact translate_ends_alnum (pyIdent_chars h)

/-! ## the tables of a context do not depend on the name it is bound under -/

/-- two contexts hold the same arguments and the same flag / inverse / positional tables -/
def SameTables (c c' : Ctx) : Prop :=
  c.args = c'.args ∧ c.flags = c'.flags ∧ c.inverse = c'.inverse ∧ c.positional = c'.positional

theorem push_sameTables {c c' : Ctx} (sp : ArgSpec) (h : SameTables c c') : SameTables (c.push sp) (c'.push sp) := by
  rcases h with ⟨h1, h2, h3, h4⟩
  simp only [SameTables, Ctx.push, h1, h2, h3, h4, and_self]

theorem stepOK_sameTables {c c' : Ctx} {sp : ArgSpec} (h : SameTables c c') : StepOK c sp ↔ StepOK c' sp := by
  rcases h with ⟨h1, h2, h3, _⟩
  have ht : c.taken = c'.taken := by simp [Ctx.taken, h1]
  have hc : c.inverseClash sp = c'.inverseClash sp := by simp [Ctx.inverseClash, Ctx.inverseNames, h3]
  have he : c.inverseExists sp = c'.inverseExists sp := by simp [Ctx.inverseExists, Ctx.flagNames, h2]
  constructor
  · rintro ⟨a, b, d, e⟩; exact ⟨a, ht ▸ b, hc ▸ d, he ▸ e⟩
  · rintro ⟨a, b, d, e⟩; exact ⟨a, ht ▸ b, hc ▸ d, he ▸ e⟩

theorem stepsOK_sameTables : ∀ {sps : List ArgSpec} {c c' : Ctx}, SameTables c c' →
    (StepsOK c sps ↔ StepsOK c' sps) ∧ SameTables (c.pushAll sps) (c'.pushAll sps)
  | [], _, _, h => ⟨Iff.rfl, h⟩
  | sp :: r, c, c', h => by
    have ih := stepsOK_sameTables (sps := r) (push_sameTables sp h)
    refine ⟨?_, ih.2⟩
    simp only [StepsOK]
    rw [stepOK_sameTables h, ih.1]

theorem ofSpecsChecked_name_irrelevant {nm nm' : Option Tok} {al al' : List Tok} {sps : List ArgSpec} {c : Ctx}
    (h : Ctx.ofSpecsChecked nm al sps = .ok c) :
    ∃ c', Ctx.ofSpecsChecked nm' al' sps = .ok c' ∧ SameTables c c' := by
  unfold Ctx.ofSpecsChecked at h ⊢
  have h0 : SameTables (Ctx.empty nm al) (Ctx.empty nm' al') := ⟨rfl, rfl, rfl, rfl⟩
  have hs := stepsOK_sameTables (sps := sps) h0
  have h' := foldChecked_ok_iff.1 h
  exact ⟨_, foldChecked_ok_iff.2 ⟨hs.1.1 h'.1, rfl⟩, h'.2 ▸ hs.2⟩
end Inv
