import Invoke.Model.Terminal
/-! Helper lemmas about the `character_buffered` bracket (C08). -/
namespace Inv

theorem characterBuffered_after (sc : TtyAttrs → TtyAttrs) (body : TtyAttrs → TtyAttrs × Bool) (t : TtyEnv)
    (hframe : ∀ a, (body a).1 = a) : (characterBuffered sc body t).after = t.attrs := by
  unfold characterBuffered; split
  · rfl
  · exact hframe _

theorem session_all_restored (sc : TtyAttrs → TtyAttrs) (isTty fg : Bool) (a : TtyAttrs)
    (steps : List ((TtyAttrs → TtyAttrs) × Bool)) :
    (session sc isTty fg a steps).2 = steps.map (fun _ => true) ∧
    (session sc isTty fg a steps).1 = steps.foldl (fun x s => s.1 x) a := by
  induction steps generalizing a with
  | nil => exact ⟨rfl, rfl⟩
  | cons s rest ih =>
    obtain ⟨edit, raises⟩ := s
    have hafter : (characterBuffered sc (fun x => (x, raises)) { isTty := isTty, foreground := fg, attrs := edit a }).after = edit a :=
      characterBuffered_after sc _ _ (fun _ => rfl)
    simp only [session, hafter, List.map_cons, List.foldl_cons]
    obtain ⟨i1, i2⟩ := ih (edit a)
    exact ⟨by rw [i1]; simp, i2⟩

end Inv
