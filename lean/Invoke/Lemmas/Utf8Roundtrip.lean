import Invoke.Model.Encode
/-! UTF-8: decoding the encoding of valid code points gives those code points back (the `U8` machine of
    `Model/Decode.lean` against `u8bytes` of `Model/Encode.lean`). -/
namespace Inv

/-- a Unicode scalar value: below 0x110000 and not a surrogate -/
def ValidCp (c : Nat) : Prop := c < 0x110000 ∧ ¬ (0xD800 ≤ c ∧ c ≤ 0xDFFF)

theorem utf8_run_cons (s : U8) (b : Byte) (bs : List Byte) :
    utf8.run s (b :: bs) = ((utf8.run (u8feed s b).1 bs).1, (u8feed s b).2 ++ (utf8.run (u8feed s b).1 bs).2) := rfl

theorem u8feed_idle (b : Byte) : u8feed {} b = u8start b := by simp [u8feed]

/-- lead bytes, as finite tables -/
theorem start1 : ∀ k, k < 0x80 → u8start k = ({}, [Char.ofNat k]) := by decide
theorem start2 : ∀ k, k < 30 → u8start (0xC2 + k) = ({ need := 1, acc := 2 + k }, []) := by decide
theorem start3 : ∀ k, k < 16 →
    u8start (0xE0 + k) = ({ need := 2, lo := if k = 0 then 0xA0 else 0x80, hi := if k = 13 then 0x9F else 0xBF, acc := k }, []) := by
  decide
theorem start4 : ∀ k, k < 5 →
    u8start (0xF0 + k) = ({ need := 3, lo := if k = 0 then 0x90 else 0x80, hi := if k = 4 then 0x8F else 0xBF, acc := k }, []) := by
  decide

/-- an accepted continuation byte -/
theorem u8feed_cont (n lo hi acc b : Nat) (h1 : lo ≤ b) (h2 : b ≤ hi) :
    u8feed { need := n + 1, lo := lo, hi := hi, acc := acc } b =
      if n = 0 then ({}, [Char.ofNat (acc * 64 + b % 64)]) else ({ need := n, acc := acc * 64 + b % 64 }, []) := by
  simp [u8feed, h1, h2]

theorem u8_run_one (c : Nat) (h : ValidCp c) (rest : List Byte) :
    utf8.run {} (u8bytes c ++ rest) = ((utf8.run {} rest).1, Char.ofNat c :: (utf8.run {} rest).2) := by
  obtain ⟨h1, h2⟩ := h
  unfold u8bytes
  by_cases a : c < 0x80
  · simp only [a, if_true, List.cons_append, List.nil_append]
    rw [utf8_run_cons, u8feed_idle, start1 c a]
    rfl
  · by_cases b : c < 0x800
    · simp only [a, b, if_true, if_false, List.cons_append, List.nil_append]
      have e : 0xC0 + c / 64 = 0xC2 + (c / 64 - 2) := by omega
      have k2 : c / 64 - 2 < 30 := by omega
      rw [utf8_run_cons, u8feed_idle, e, start2 (c / 64 - 2) k2, utf8_run_cons]
      show _ = _
      rw [show ({ need := 1, acc := 2 + (c / 64 - 2) } : U8) = { need := 0 + 1, lo := 0x80, hi := 0xBF, acc := 2 + (c / 64 - 2) } from rfl,
        u8feed_cont 0 0x80 0xBF (2 + (c / 64 - 2)) (0x80 + c % 64) (by omega) (by omega)]
      have v : (2 + (c / 64 - 2)) * 64 + (0x80 + c % 64) % 64 = c := by omega
      simp only [if_true, List.nil_append, List.cons_append]
      rw [v]
    · by_cases d : c < 0x10000
      · simp only [a, b, d, if_true, if_false, List.cons_append, List.nil_append]
        have q1 : c / 64 / 64 = c / 4096 := Nat.div_div_eq_div_mul c 64 64
        have k3 : c / 4096 < 16 := by omega
        rw [utf8_run_cons, u8feed_idle, start3 (c / 4096) k3, utf8_run_cons]
        show _ = _
        rw [show ({ need := 2, lo := if c / 4096 = 0 then 0xA0 else 0x80, hi := if c / 4096 = 13 then 0x9F else 0xBF, acc := c / 4096 } : U8)
              = { need := 1 + 1, lo := if c / 4096 = 0 then 0xA0 else 0x80, hi := if c / 4096 = 13 then 0x9F else 0xBF, acc := c / 4096 } from rfl,
          u8feed_cont 1 (if c / 4096 = 0 then 0xA0 else 0x80) (if c / 4096 = 13 then 0x9F else 0xBF) (c / 4096) (0x80 + c / 64 % 64)
            (by split <;> omega) (by split <;> omega)]
        simp only [Nat.one_ne_zero, if_false, List.nil_append]
        rw [utf8_run_cons]
        rw [show ({ need := 1, acc := c / 4096 * 64 + (0x80 + c / 64 % 64) % 64 } : U8)
              = { need := 0 + 1, lo := 0x80, hi := 0xBF, acc := c / 4096 * 64 + (0x80 + c / 64 % 64) % 64 } from rfl,
          u8feed_cont 0 0x80 0xBF (c / 4096 * 64 + (0x80 + c / 64 % 64) % 64) (0x80 + c % 64) (by omega) (by omega)]
        have v : (c / 4096 * 64 + (0x80 + c / 64 % 64) % 64) * 64 + (0x80 + c % 64) % 64 = c := by omega
        simp only [if_true, List.nil_append, List.cons_append]
        rw [v]
      · simp only [a, b, d, if_true, if_false, List.cons_append, List.nil_append]
        have q1 : c / 64 / 64 = c / 4096 := Nat.div_div_eq_div_mul c 64 64
        have q2 : c / 4096 / 64 = c / 262144 := Nat.div_div_eq_div_mul c 4096 64
        have k4 : c / 262144 < 5 := by omega
        rw [utf8_run_cons, u8feed_idle, start4 (c / 262144) k4, utf8_run_cons]
        show _ = _
        rw [show ({ need := 3, lo := if c / 262144 = 0 then 0x90 else 0x80, hi := if c / 262144 = 4 then 0x8F else 0xBF, acc := c / 262144 } : U8)
              = { need := 2 + 1, lo := if c / 262144 = 0 then 0x90 else 0x80, hi := if c / 262144 = 4 then 0x8F else 0xBF, acc := c / 262144 } from rfl,
          u8feed_cont 2 (if c / 262144 = 0 then 0x90 else 0x80) (if c / 262144 = 4 then 0x8F else 0xBF) (c / 262144) (0x80 + c / 4096 % 64)
            (by split <;> omega) (by split <;> omega)]
        simp only [show (2 : Nat) ≠ 0 by decide, if_false, List.nil_append]
        rw [utf8_run_cons]
        rw [show ({ need := 2, acc := c / 262144 * 64 + (0x80 + c / 4096 % 64) % 64 } : U8)
              = { need := 1 + 1, lo := 0x80, hi := 0xBF, acc := c / 262144 * 64 + (0x80 + c / 4096 % 64) % 64 } from rfl,
          u8feed_cont 1 0x80 0xBF (c / 262144 * 64 + (0x80 + c / 4096 % 64) % 64) (0x80 + c / 64 % 64) (by omega) (by omega)]
        simp only [Nat.one_ne_zero, if_false, List.nil_append]
        rw [utf8_run_cons]
        rw [show ({ need := 1, acc := (c / 262144 * 64 + (0x80 + c / 4096 % 64) % 64) * 64 + (0x80 + c / 64 % 64) % 64 } : U8)
              = { need := 0 + 1, lo := 0x80, hi := 0xBF, acc := (c / 262144 * 64 + (0x80 + c / 4096 % 64) % 64) * 64 + (0x80 + c / 64 % 64) % 64 } from rfl,
          u8feed_cont 0 0x80 0xBF ((c / 262144 * 64 + (0x80 + c / 4096 % 64) % 64) * 64 + (0x80 + c / 64 % 64) % 64) (0x80 + c % 64)
            (by omega) (by omega)]
        have v : ((c / 262144 * 64 + (0x80 + c / 4096 % 64) % 64) * 64 + (0x80 + c / 64 % 64) % 64) * 64 + (0x80 + c % 64) % 64 = c := by omega
        simp only [if_true, List.nil_append, List.cons_append]
        rw [v]

theorem utf8_run_encoded (cs : List Nat) (h : ∀ c ∈ cs, ValidCp c) :
    utf8.run {} (cs.flatMap u8bytes) = ({}, cs.map Char.ofNat) := by
  induction cs with
  | nil => rfl
  | cons c cs ih =>
    rw [List.flatMap_cons, u8_run_one c (h c (List.mem_cons_self ..)), ih (fun x hx => h x (List.mem_cons_of_mem _ hx))]
    rfl

/-- decoding the UTF-8 encoding of scalar values gives them back -/
theorem utf8_decode_encode (cs : List Nat) (h : ∀ c ∈ cs, ValidCp c) :
    utf8.decodeWhole (cs.flatMap u8bytes) = cs.map Char.ofNat := by
  unfold Decoder.decodeWhole
  show (utf8.run {} (cs.flatMap u8bytes)).2 ++ u8flush (utf8.run {} (cs.flatMap u8bytes)).1 = _
  rw [utf8_run_encoded cs h]
  simp [u8flush]

theorem utf8enc_whole (cs : List Nat) : utf8enc.encodeWhole cs = cs.flatMap u8bytes := by
  unfold Encoder.encodeWhole
  have : ∀ s : utf8enc.σ, (utf8enc.run s cs).2 = cs.flatMap u8bytes := by
    induction cs with
    | nil => intro _; rfl
    | cons c cs ih =>
      intro s
      show (utf8enc.feed s c).2 ++ (utf8enc.run (utf8enc.feed s c).1 cs).2 = _
      rw [ih, List.flatMap_cons]
      rfl
  exact this _

theorem toNat_ofNat_valid (c : Nat) (h : ValidCp c) : (Char.ofNat c).toNat = c := by
  have hv : c.isValidChar := by
    unfold Nat.isValidChar
    obtain ⟨h1, h2⟩ := h
    omega
  simp [Char.ofNat, hv, Char.ofNatAux, Char.toNat]

end Inv
