import Invoke.Model.Val
/-! Lemmas about nested settings (`Model/Val.lean`): association-list lookups, the total merge
    `mergeT`, its relation to the raising `mergeKVs` (= `invoke.config.merge_dicts`) under type
    consistency, and preservation of well-formedness / type consistency.  Core Lean only. -/
namespace Inv

/-! ### lookup / insert / keys -/

@[simp] theorem lookup_nil (k : Key) : lookup k [] = none := rfl

@[simp] theorem lookup_insert_self (k : Key) (v : Val) (m : KVs) : lookup k (insert k v m) = some v := by
  induction m with
  | nil => simp [insert, lookup]
  | cons hd tl ih => obtain ⟨k', v'⟩ := hd; by_cases h : k = k' <;> simp [insert, lookup, h, ih]

theorem lookup_insert_ne {k k' : Key} (h : k ≠ k') (v : Val) (m : KVs) :
    lookup k (insert k' v m) = lookup k m := by
  induction m with
  | nil => simp [insert, lookup, h]
  | cons hd tl ih =>
    obtain ⟨k2, v2⟩ := hd
    by_cases h2 : k' = k2
    · subst h2; simp [insert, lookup, h]
    · by_cases h3 : k = k2 <;> simp [insert, lookup, h2, h3, ih]

theorem lookup_insert (k k' : Key) (v : Val) (m : KVs) :
    lookup k (insert k' v m) = if k = k' then some v else lookup k m := by
  by_cases h : k = k'
  · subst h; simp
  · simp [h, lookup_insert_ne h]

theorem keys_cons (k : Key) (v : Val) (m : KVs) : keys ((k, v) :: m) = k :: keys m := rfl

@[simp] theorem keys_nil : keys ([] : KVs) = [] := rfl

theorem lookup_none_of_not_mem (k : Key) (m : KVs) (h : k ∉ keys m) : lookup k m = none := by
  induction m with
  | nil => rfl
  | cons hd tl ih =>
    obtain ⟨k2, v2⟩ := hd
    simp only [keys, List.map_cons, List.mem_cons, not_or] at h
    simp only [lookup, h.1, if_false]
    exact ih h.2

theorem mem_keys_of_lookup {k : Key} {m : KVs} {v : Val} (h : lookup k m = some v) : k ∈ keys m := by
  induction m with
  | nil => simp [lookup] at h
  | cons hd tl ih =>
    obtain ⟨k2, v2⟩ := hd
    by_cases hk : k = k2
    · subst hk; simp [keys_cons]
    · simp only [lookup, hk, if_false] at h
      rw [keys_cons]; exact List.mem_cons_of_mem _ (ih h)

theorem lookup_isSome_iff_mem_keys (k : Key) (m : KVs) : (lookup k m).isSome ↔ k ∈ keys m := by
  constructor
  · intro h
    cases hl : lookup k m with
    | none => simp [hl] at h
    | some v => exact mem_keys_of_lookup hl
  · intro h
    cases hl : lookup k m with
    | none =>
      exfalso
      induction m with
      | nil => simp at h
      | cons hd tl ih =>
        obtain ⟨k2, v2⟩ := hd
        by_cases hk : k = k2
        · simp [lookup, hk] at hl
        · simp only [lookup, hk, if_false] at hl
          rw [keys_cons] at h
          rcases List.mem_cons.mp h with h | h
          · exact hk h
          · exact ih h hl
    | some v => rfl

theorem keys_insert (k : Key) (v : Val) (m : KVs) :
    keys (insert k v m) = if k ∈ keys m then keys m else keys m ++ [k] := by
  induction m with
  | nil => simp [insert, keys]
  | cons hd tl ih =>
    obtain ⟨k', v'⟩ := hd
    by_cases hk : k = k'
    · subst hk; simp [insert, keys_cons]
    · simp only [insert, hk, if_false, keys_cons, ih, List.mem_cons, false_or]
      by_cases hm : k ∈ keys tl <;> simp [hm]

theorem keys_insert_nodup (k : Key) (v : Val) (m : KVs) (h : (keys m).Nodup) :
    (keys (insert k v m)).Nodup := by
  rw [keys_insert]
  by_cases hm : k ∈ keys m
  · simp [hm, h]
  · simp only [hm, if_false]
    exact List.nodup_append.mpr
      ⟨h, by simp, by intro a ha b hb; simp at hb; subst hb; intro e; subst e; exact hm ha⟩

theorem mem_keys_insert (k k' : Key) (v : Val) (m : KVs) :
    k ∈ keys (insert k' v m) ↔ k = k' ∨ k ∈ keys m := by
  rw [keys_insert]
  by_cases hm : k' ∈ keys m
  · simp only [hm, if_true]
    constructor
    · exact Or.inr
    · rintro (h | h)
      · subst h; exact hm
      · exact h
  · simp only [hm, if_false, List.mem_append, List.mem_singleton]
    constructor
    · rintro (h | h)
      · exact Or.inr h
      · exact Or.inl h
    · rintro (h | h)
      · exact Or.inr h
      · exact Or.inl h

/-! ### erase -/

theorem lookup_erase_self (k : Key) (m : KVs) (h : (keys m).Nodup) : lookup k (erase k m) = none := by
  induction m with
  | nil => rfl
  | cons hd tl ih =>
    obtain ⟨k', v'⟩ := hd
    simp only [keys, List.map_cons, List.nodup_cons] at h
    by_cases hk : k = k'
    · subst hk; simp only [erase, if_true]; exact lookup_none_of_not_mem k tl h.1
    · simp [erase, lookup, hk, ih h.2]

theorem lookup_erase_ne {k k' : Key} (h : k ≠ k') (m : KVs) : lookup k (erase k' m) = lookup k m := by
  induction m with
  | nil => rfl
  | cons hd tl ih =>
    obtain ⟨k2, v2⟩ := hd
    by_cases h2 : k' = k2
    · subst h2; simp [erase, lookup, h]
    · by_cases h3 : k = k2 <;> simp [erase, lookup, h2, h3, ih]

theorem mem_keys_erase {k k' : Key} {m : KVs} (h : k' ∈ keys (erase k m)) : k' ∈ keys m := by
  induction m with
  | nil => exact h
  | cons hd tl ih =>
    obtain ⟨k2, v2⟩ := hd
    by_cases h2 : k = k2
    · simp only [erase, h2, if_true] at h; rw [keys_cons]; exact List.mem_cons_of_mem _ h
    · simp only [erase, h2, if_false, keys_cons, List.mem_cons] at h ⊢
      rcases h with h | h
      · exact Or.inl h
      · exact Or.inr (ih h)

theorem keys_erase_nodup (k : Key) (m : KVs) (h : (keys m).Nodup) : (keys (erase k m)).Nodup := by
  induction m with
  | nil => simp [erase, keys]
  | cons hd tl ih =>
    obtain ⟨k', v'⟩ := hd
    rw [keys_cons, List.nodup_cons] at h
    by_cases hk : k = k'
    · simp only [erase, hk, if_true]; exact h.2
    · simp only [erase, hk, if_false, keys_cons, List.nodup_cons]
      exact ⟨fun hmem => h.1 (mem_keys_erase hmem), ih h.2⟩

/-! ### the total merge, one level -/

@[simp] theorem mergeT_nil (base : KVs) : mergeT base [] = base := by unfold mergeT; rfl

/-- one-level characterisation of the merge, for updates without duplicate keys -/
theorem lookup_mergeT (k : Key) (base upd : KVs) (hnd : (keys upd).Nodup) :
    lookup k (mergeT base upd) =
      match lookup k upd with
      | none => lookup k base
      | some (.dict u) => (match lookup k base with
          | some (.dict b) => some (.dict (mergeT b u))
          | _ => some (.dict (mergeT [] u)))
      | some (.leaf x) => some (.leaf x) := by
  induction upd generalizing base with
  | nil => simp [lookup]
  | cons hd tl ih =>
    obtain ⟨k', v'⟩ := hd
    simp only [keys, List.map_cons, List.nodup_cons] at hnd
    obtain ⟨hnotin, hnd'⟩ := hnd
    have htl := ih (hnd := hnd')
    conv => lhs; unfold mergeT
    simp only []
    rw [htl]
    by_cases hk : k = k'
    · subst hk
      have hnone : lookup k tl = none := lookup_none_of_not_mem k tl hnotin
      simp only [hnone, lookup, if_true, lookup_insert_self]
      cases v' with
      | leaf x => cases hb : lookup k base with
        | none => rfl
        | some bv => cases bv <;> rfl
      | dict u =>
        cases hb : lookup k base with
        | none => rfl
        | some bv => cases bv <;> rfl
    · simp only [lookup, hk, if_false, lookup_insert_ne hk]

/-- the keys of a merge: everything in the base, plus everything in the update -/
theorem mem_keys_mergeT (k : Key) (base upd : KVs) :
    k ∈ keys (mergeT base upd) ↔ k ∈ keys base ∨ k ∈ keys upd := by
  induction upd generalizing base with
  | nil => simp
  | cons hd tl ih =>
    obtain ⟨k', v'⟩ := hd
    conv => lhs; unfold mergeT
    simp only []
    rw [ih, mem_keys_insert, keys_cons, List.mem_cons]
    constructor
    · rintro ((h | h) | h)
      · exact Or.inr (Or.inl h)
      · exact Or.inl h
      · exact Or.inr (Or.inr h)
    · rintro (h | h | h)
      · exact Or.inl (Or.inr h)
      · exact Or.inl (Or.inl h)
      · exact Or.inr h

theorem keys_mergeT_nodup (base upd : KVs) (h : (keys base).Nodup) : (keys (mergeT base upd)).Nodup := by
  induction upd generalizing base with
  | nil => simpa using h
  | cons hd tl ih =>
    obtain ⟨k', v'⟩ := hd
    conv => arg 1; arg 1; unfold mergeT
    simp only []
    exact ih _ (keys_insert_nodup _ _ _ h)

/-! ### well-formedness and type consistency -/

theorem wf_nil : WF [] := .mk (by simp) (by simp)

theorem WF.nodup {m : KVs} (h : WF m) : (keys m).Nodup := by cases h; assumption

theorem WF.sub {m : KVs} (h : WF m) {k : Key} {d : KVs} (hl : lookup k m = some (.dict d)) : WF d := by
  cases h with | mk _ hs => exact hs k d hl

theorem compat_nil (b : KVs) : Compat [] b := .mk (by simp) (by simp) (by simp)

theorem compat_nil_right (a : KVs) : Compat a [] := .mk (by simp) (by simp) (by simp)

theorem Compat.dd {a b : KVs} (h : Compat a b) {k : Key} {x y : KVs}
    (ha : lookup k a = some (.dict x)) (hb : lookup k b = some (.dict y)) : Compat x y := by
  cases h with | mk h1 _ _ => exact h1 k x y ha hb

theorem Compat.dl {a b : KVs} (h : Compat a b) {k : Key} {x : KVs} {y : Leaf}
    (ha : lookup k a = some (.dict x)) (hb : lookup k b = some (.leaf y)) : False := by
  cases h with | mk _ h2 _ => exact h2 k x y ha hb

theorem Compat.ld {a b : KVs} (h : Compat a b) {k : Key} {x : Leaf} {y : KVs}
    (ha : lookup k a = some (.leaf x)) (hb : lookup k b = some (.dict y)) : False := by
  cases h with | mk _ _ h3 => exact h3 k x y ha hb

theorem Compat.symm {a b : KVs} (h : Compat a b) : Compat b a := by
  induction h with
  | mk _ h2 h3 ih =>
    exact .mk (fun k x y hx hy => ih k y x hy hx) (fun k x y hx hy => h3 k y x hy hx)
      (fun k x y hx hy => h2 k y x hy hx)

/-- the merge of two well-formed dicts is well-formed -/
theorem wf_mergeT {base upd : KVs} (hb : WF base) (hu : WF upd) : WF (mergeT base upd) := by
  induction hu generalizing base with
  | @mk upd hnd _ ih =>
    refine .mk (keys_mergeT_nodup _ _ hb.nodup) ?_
    intro k d hl
    rw [lookup_mergeT k base upd hnd] at hl
    cases hu' : lookup k upd with
    | none => rw [hu'] at hl; exact hb.sub hl
    | some uv =>
      rw [hu'] at hl
      cases uv with
      | leaf x => simp at hl
      | dict u =>
        cases hbk : lookup k base with
        | none =>
          rw [hbk] at hl; simp only [Option.some.injEq, Val.dict.injEq] at hl
          subst hl; exact ih k u hu' wf_nil
        | some bv =>
          rw [hbk] at hl
          cases bv with
          | leaf y =>
            simp only [Option.some.injEq, Val.dict.injEq] at hl
            subst hl; exact ih k u hu' wf_nil
          | dict b =>
            simp only [Option.some.injEq, Val.dict.injEq] at hl
            subst hl; exact ih k u hu' (hb.sub hbk)

/-- type consistency with a third level is preserved by merging -/
theorem compat_mergeT_left {a b c : KVs} (hwb : WF b) (hbc : Compat b c) (hac : Compat a c) :
    Compat (mergeT a b) c := by
  induction hbc generalizing a with
  | @mk b c hdd hdl hld ih =>
    have hnd := hwb.nodup
    refine .mk ?_ ?_ ?_
    · intro k x y hx hy
      rw [lookup_mergeT k a b hnd] at hx
      cases hu : lookup k b with
      | none => rw [hu] at hx; exact hac.dd hx hy
      | some uv =>
        rw [hu] at hx
        cases uv with
        | leaf l => simp at hx
        | dict u =>
          cases ha : lookup k a with
          | none =>
            rw [ha] at hx; simp only [Option.some.injEq, Val.dict.injEq] at hx
            subst hx; exact ih k u y hu hy (hwb.sub hu) (compat_nil y)
          | some av =>
            rw [ha] at hx
            cases av with
            | leaf l =>
              simp only [Option.some.injEq, Val.dict.injEq] at hx
              subst hx; exact ih k u y hu hy (hwb.sub hu) (compat_nil y)
            | dict a' =>
              simp only [Option.some.injEq, Val.dict.injEq] at hx
              subst hx; exact ih k u y hu hy (hwb.sub hu) (hac.dd ha hy)
    · intro k x y hx hy
      rw [lookup_mergeT k a b hnd] at hx
      cases hu : lookup k b with
      | none => rw [hu] at hx; exact hac.dl hx hy
      | some uv =>
        rw [hu] at hx
        cases uv with
        | leaf l => simp at hx
        | dict u => exact hdl k u y hu hy
    · intro k x y hx hy
      rw [lookup_mergeT k a b hnd] at hx
      cases hu : lookup k b with
      | none => rw [hu] at hx; exact hac.ld hx hy
      | some uv =>
        rw [hu] at hx
        cases uv with
        | leaf l => exact hld k l y hu hy
        | dict u =>
          cases ha : lookup k a with
          | none => rw [ha] at hx; simp at hx
          | some av => rw [ha] at hx; cases av <;> simp at hx

/-! ### the raising merge (`merge_dicts`) equals the total merge off the dict/leaf clash -/

theorem lookup_of_mem_nodup {m : KVs} (hnd : (keys m).Nodup) {k : Key} {v : Val} (h : (k, v) ∈ m) :
    lookup k m = some v := by
  induction m with
  | nil => simp at h
  | cons hd tl ih =>
    obtain ⟨k2, v2⟩ := hd
    rw [keys_cons, List.nodup_cons] at hnd
    rcases List.mem_cons.mp h with h1 | h2
    · cases h1; simp [lookup]
    · have hk : k ≠ k2 := by
        intro e; subst e
        exact hnd.1 (List.mem_map.mpr ⟨(k, v), h2, rfl⟩)
      simp only [lookup, hk, if_false]
      exact ih hnd.2 h2

/-- list-level step of `mergeKVs_eq_mergeT`: the nested calls are assumed correct (`hsub`) -/
theorem mergeKVs_eq_mergeT_aux (upd : KVs) (hnd : (keys upd).Nodup)
    (hsub : ∀ k u, (k, Val.dict u) ∈ upd → ∀ b, Compat b u → mergeKVs b u = .ok (mergeT b u))
    (base : KVs)
    (hdd : ∀ k b u, (k, Val.dict u) ∈ upd → lookup k base = some (.dict b) → Compat b u)
    (hdl : ∀ k b x, (k, Val.leaf x) ∈ upd → lookup k base = some (.dict b) → False)
    (hld : ∀ k y u, (k, Val.dict u) ∈ upd → lookup k base = some (.leaf y) → False) :
    mergeKVs base upd = .ok (mergeT base upd) := by
  induction upd generalizing base with
  | nil => unfold mergeKVs; simp
  | cons hd tl ih =>
    obtain ⟨k, v⟩ := hd
    rw [keys_cons, List.nodup_cons] at hnd
    obtain ⟨hnotin, hnd'⟩ := hnd
    have hne : ∀ k2 v2, (k2, v2) ∈ tl → k2 ≠ k := by
      intro k2 v2 hm e; subst e
      exact hnotin (List.mem_map.mpr ⟨(k2, v2), hm, rfl⟩)
    have step : ∀ w : Val, mergeKVs (insert k w base) tl = .ok (mergeT (insert k w base) tl) := by
      intro w
      apply ih hnd' (fun k2 u hm => hsub k2 u (List.mem_cons_of_mem _ hm))
      · intro k2 b u hm hl
        rw [lookup_insert_ne (hne k2 _ hm)] at hl
        exact hdd k2 b u (List.mem_cons_of_mem _ hm) hl
      · intro k2 b x hm hl
        rw [lookup_insert_ne (hne k2 _ hm)] at hl
        exact hdl k2 b x (List.mem_cons_of_mem _ hm) hl
      · intro k2 y u hm hl
        rw [lookup_insert_ne (hne k2 _ hm)] at hl
        exact hld k2 y u (List.mem_cons_of_mem _ hm) hl
    conv => lhs; unfold mergeKVs
    conv => rhs; unfold mergeT
    simp only []
    cases v with
    | leaf x =>
      cases hb : lookup k base with
      | none => simp only []; exact step _
      | some bv =>
        cases bv with
        | leaf y => simp only []; exact step _
        | dict b => exact absurd (hdl k b x (List.mem_cons_self ..) hb) id
    | dict u =>
      cases hb : lookup k base with
      | none =>
        simp only [hsub k u (List.mem_cons_self ..) [] (compat_nil u), Except.map]
        exact step _
      | some bv =>
        cases bv with
        | leaf y => exact absurd (hld k y u (List.mem_cons_self ..) hb) id
        | dict b =>
          simp only [hsub k u (List.mem_cons_self ..) b (hdd k b u (List.mem_cons_self ..) hb), Except.map]
          exact step _

theorem mergeKVs_eq_mergeT {base upd : KVs} (hw : WF upd) (hc : Compat base upd) :
    mergeKVs base upd = .ok (mergeT base upd) := by
  induction hw generalizing base with
  | @mk upd hnd _ ih =>
    apply mergeKVs_eq_mergeT_aux upd hnd
    · intro k u hm b hcb
      exact ih k u (lookup_of_mem_nodup hnd hm) hcb
    · intro k b u hm hl
      exact hc.dd hl (lookup_of_mem_nodup hnd hm)
    · intro k b x hm hl
      exact hc.dl hl (lookup_of_mem_nodup hnd hm)
    · intro k y u hm hl
      exact hc.ld hl (lookup_of_mem_nodup hnd hm)

/-- `copy_dict` of a well-formed dict succeeds -/
theorem copyDict_eq {d : KVs} (hw : WF d) : copyDict d = .ok (mergeT [] d) :=
  mergeKVs_eq_mergeT hw (compat_nil d)

/-! ### paths -/

@[simp] theorem getLeaf_nil_dict (p : List Key) : getLeaf p [] = none := by
  cases p with
  | nil => rfl
  | cons k rest => cases rest <;> simp [getLeaf]

/-- C03 core: at every path the update level wins, otherwise the base shows through -/
theorem getLeaf_mergeT (p : List Key) (base upd : KVs) (hw : WF upd) (hc : Compat base upd) :
    getLeaf p (mergeT base upd) =
      match getLeaf p upd with | some x => some x | none => getLeaf p base := by
  induction p generalizing base upd with
  | nil => simp [getLeaf]
  | cons k rest ih =>
    obtain ⟨hnd, hsub⟩ := hw
    obtain ⟨hdd, hdl, hld⟩ := hc
    have hL := lookup_mergeT k base upd hnd
    cases rest with
    | nil =>
      simp only [getLeaf, hL]
      cases hu : lookup k upd with
      | none => simp
      | some uv =>
        cases uv with
        | leaf x => simp
        | dict u =>
          cases hb : lookup k base with
          | none => simp
          | some bv =>
            cases bv with
            | leaf y => exact absurd (hld k y u hb hu) id
            | dict b => simp
    | cons k2 rest2 =>
      simp only [getLeaf, hL]
      cases hu : lookup k upd with
      | none => simp
      | some uv =>
        cases uv with
        | leaf x =>
          cases hb : lookup k base with
          | none => simp
          | some bv =>
            cases bv with
            | leaf y => simp
            | dict b => exact absurd (hdl k b x hb hu) id
        | dict u =>
          cases hb : lookup k base with
          | none =>
            simp only []
            rw [ih [] u (hsub k u hu) (compat_nil u)]
            cases getLeaf (k2 :: rest2) u <;> simp
          | some bv =>
            cases bv with
            | leaf y => exact absurd (hld k y u hb hu) id
            | dict b =>
              simp only []
              exact ih b u (hsub k u hu) (hdd k b u hb hu)

@[simp] theorem isSec_nil (m : KVs) : isSec [] m = true := rfl

theorem isSec_cons_nil_dict (k : Key) (rest : List Key) : isSec (k :: rest) [] = false := by
  simp [isSec, getSec]

/-- section analogue of `getLeaf_mergeT`: a path is a section of the merge iff it is a section of
    the update or of the base -/
theorem isSec_mergeT (p : List Key) (base upd : KVs) (hw : WF upd) (hc : Compat base upd) :
    isSec p (mergeT base upd) = (isSec p upd || isSec p base) := by
  induction p generalizing base upd with
  | nil => simp
  | cons k rest ih =>
    obtain ⟨hnd, hsub⟩ := hw
    have hL := lookup_mergeT k base upd hnd
    simp only [isSec, getSec, hL]
    cases hu : lookup k upd with
    | none => simp
    | some uv =>
      cases uv with
      | leaf x =>
        cases hb : lookup k base with
        | none => simp
        | some bv =>
          cases bv with
          | leaf y => simp
          | dict b => exact absurd (hc.dl hb hu) id
      | dict u =>
        cases hb : lookup k base with
        | none =>
          have := ih [] u (hsub k u hu) (compat_nil u)
          simp only [isSec] at this
          simp only [this]
          cases rest with
          | nil => simp [getSec]
          | cons k2 r2 => simp [getSec]
        | some bv =>
          cases bv with
          | leaf y => exact absurd (hc.ld hb hu) id
          | dict b =>
            have := ih b u (hsub k u hu) (hc.dd hb hu)
            simp only [isSec] at this
            simpa using this

/-! ### executable checkers for `WF` / `Compat` (used for non-vacuity examples and by the drivers) -/

theorem mem_of_lookup {k : Key} {m : KVs} {v : Val} (h : lookup k m = some v) : (k, v) ∈ m := by
  induction m with
  | nil => simp at h
  | cons hd tl ih =>
    obtain ⟨k2, v2⟩ := hd
    by_cases hk : k = k2
    · subst hk; simp only [lookup, if_true, Option.some.injEq] at h; subst h; exact List.mem_cons_self ..
    · simp only [lookup, hk, if_false] at h; exact List.mem_cons_of_mem _ (ih h)

theorem wfB_nodup {m : KVs} (h : wfB m = true) : (keys m).Nodup := by
  induction m with
  | nil => simp
  | cons hd tl ih =>
    obtain ⟨k, v⟩ := hd
    unfold wfB at h
    simp only [Bool.and_eq_true, Bool.not_eq_true', hasKey] at h
    rw [keys_cons, List.nodup_cons]
    refine ⟨?_, ih h.2⟩
    intro hm
    have := (lookup_isSome_iff_mem_keys k tl).mpr hm
    rw [h.1.1] at this
    exact Bool.noConfusion this

theorem wfB_mem {m : KVs} (h : wfB m = true) {k : Key} {d : KVs} (hm : (k, Val.dict d) ∈ m) :
    wfB d = true := by
  induction m with
  | nil => simp at hm
  | cons hd tl ih =>
    obtain ⟨k2, v2⟩ := hd
    unfold wfB at h
    simp only [Bool.and_eq_true] at h
    rcases List.mem_cons.mp hm with h1 | h2
    · cases h1; have := h.1.2; simpa [wfVal] using this
    · exact ih h.2 h2

theorem wfB_sound (m : KVs) (h : wfB m = true) : WF m := by
  induction m using WellFounded.induction (r := fun x y : KVs => sizeOf x < sizeOf y)
      (hwf := (measure sizeOf).wf) with
  | _ m ih =>
    refine .mk (wfB_nodup h) ?_
    intro k d hl
    have hm := mem_of_lookup hl
    refine ih d ?_ (wfB_mem h hm)
    have := List.sizeOf_lt_of_mem hm
    simp only [Prod.mk.sizeOf_spec, Val.dict.sizeOf_spec] at this
    omega

theorem compatB_mem_dd {a b : KVs} (h : compatB a b = true) {k : Key} {x y : KVs}
    (hm : (k, Val.dict x) ∈ a) (hb : lookup k b = some (.dict y)) : compatB x y = true := by
  induction a with
  | nil => simp at hm
  | cons hd tl ih =>
    obtain ⟨k2, v2⟩ := hd
    unfold compatB at h
    simp only [Bool.and_eq_true] at h
    rcases List.mem_cons.mp hm with h1 | h2
    · cases h1
      have := h.1
      rw [hb] at this
      simpa [compatVal] using this
    · exact ih h.2 h2

theorem compatB_mem_dl {a b : KVs} (h : compatB a b = true) {k : Key} {x : KVs} {y : Leaf}
    (hm : (k, Val.dict x) ∈ a) (hb : lookup k b = some (.leaf y)) : False := by
  induction a with
  | nil => simp at hm
  | cons hd tl ih =>
    obtain ⟨k2, v2⟩ := hd
    unfold compatB at h
    simp only [Bool.and_eq_true] at h
    rcases List.mem_cons.mp hm with h1 | h2
    · cases h1
      have := h.1
      rw [hb] at this
      simp [compatVal] at this
    · exact ih h.2 h2

theorem compatB_mem_ld {a b : KVs} (h : compatB a b = true) {k : Key} {x : Leaf} {y : KVs}
    (hm : (k, Val.leaf x) ∈ a) (hb : lookup k b = some (.dict y)) : False := by
  induction a with
  | nil => simp at hm
  | cons hd tl ih =>
    obtain ⟨k2, v2⟩ := hd
    unfold compatB at h
    simp only [Bool.and_eq_true] at h
    rcases List.mem_cons.mp hm with h1 | h2
    · cases h1
      have := h.1
      rw [hb] at this
      simp [compatVal] at this
    · exact ih h.2 h2

theorem compatB_sound (a b : KVs) (h : compatB a b = true) : Compat a b := by
  induction a using WellFounded.induction (r := fun x y : KVs => sizeOf x < sizeOf y)
      (hwf := (measure sizeOf).wf) generalizing b with
  | _ a ih =>
    refine .mk ?_ ?_ ?_
    · intro k x y hx hy
      have hm := mem_of_lookup hx
      refine ih x ?_ y (compatB_mem_dd h hm hy)
      have := List.sizeOf_lt_of_mem hm
      simp only [Prod.mk.sizeOf_spec, Val.dict.sizeOf_spec] at this
      omega
    · intro k x y hx hy
      exact compatB_mem_dl h (mem_of_lookup hx) hy
    · intro k x y hx hy
      exact compatB_mem_ld h (mem_of_lookup hx) hy

end Inv
