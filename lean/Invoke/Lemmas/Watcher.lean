import Invoke.Model.Watcher
/-! Helper lemmas for C12 (kept apart from the property theorems). -/
namespace Inv

theorem matchAt_append {p : Pat} {a : List Char} (b : List Char) (h : matchAt p a = true) :
    matchAt p (a ++ b) = true := by
  induction p generalizing a with
  | nil => simp [matchAt]
  | cons q qs ih =>
    cases a with
    | nil => simp [matchAt] at h
    | cons c cs =>
      simp only [matchAt, Bool.and_eq_true, List.cons_append] at h ⊢
      exact ⟨h.1, ih h.2⟩

theorem matchAt_short {p : Pat} {a : List Char} (h : a.length < p.length) : matchAt p a = false := by
  induction p generalizing a with
  | nil => simp at h
  | cons q qs ih =>
    cases a with
    | nil => simp [matchAt]
    | cons c cs =>
      simp only [matchAt, List.length_cons] at h ⊢
      rw [ih (by omega)]; simp

/-- a complete window decides the same with or without more text behind it -/
theorem matchAt_complete {p : Pat} {a : List Char} (b : List Char) (h : p.length ≤ a.length) :
    matchAt p (a ++ b) = matchAt p a := by
  induction p generalizing a with
  | nil => simp [matchAt]
  | cons q qs ih =>
    cases a with
    | nil => simp at h
    | cons c cs =>
      simp only [matchAt, List.cons_append, List.length_cons] at h ⊢
      rw [ih (by omega)]

/-- skipping = dropping -/
theorem starts_skip (p : Pat) (k pos : Nat) (t : List Char) :
    starts p k pos t = starts p 0 (pos + k) (t.drop k) := by
  induction k generalizing pos t with
  | zero => simp
  | succ k ih =>
    cases t with
    | nil => simp [starts]
    | cons c cs =>
      simp only [starts, List.drop_succ_cons]
      rw [ih]; congr 1; omega

/-- shifting the position counter shifts the results -/
theorem starts_shift (p : Pat) (k pos d : Nat) (t : List Char) :
    starts p k (pos + d) t = (starts p k pos t).map (· + d) := by
  induction t generalizing k pos with
  | nil => simp [starts]
  | cons c cs ih =>
    cases k with
    | succ k => simp only [starts]; rw [show pos + d + 1 = (pos + 1) + d by omega, ih]
    | zero =>
      simp only [starts]
      split
      · simp only [List.map_cons]; rw [show pos + d + 1 = (pos + 1) + d by omega, ih]
      · rw [show pos + d + 1 = (pos + 1) + d by omega, ih]

/-- text too short for any window: no starts -/
theorem starts_short (p : Pat) (k pos : Nat) (t : List Char) (h : t.length < p.length) :
    starts p k pos t = [] := by
  induction t generalizing k pos with
  | nil => simp [starts]
  | cons c cs ih =>
    cases k with
    | succ k => simp only [starts]; exact ih _ _ (by simp at h; omega)
    | zero =>
      simp only [starts, matchAt_short h]
      exact ih _ _ (by simp at h; omega)


/-- every reported start is at or after the current position (plus the pending skip) -/
theorem starts_ge (p : Pat) (k pos : Nat) (t : List Char) : ∀ s ∈ starts p k pos t, pos + k ≤ s := by
  induction t generalizing k pos with
  | nil => simp [starts]
  | cons c cs ih =>
    cases k with
    | succ k => simp only [starts]; intro s hs; have := ih k (pos + 1) s hs; omega
    | zero =>
      simp only [starts]
      split
      · intro s hs
        simp only [List.mem_cons] at hs
        rcases hs with rfl | hs
        · omega
        · have := ih _ _ s hs; omega
      · intro s hs; have := ih _ _ s hs; omega

/-- MAIN LEMMA: scanning `a ++ b` = the matches already found in `a`, then a fresh scan resumed at the end of the last one -/
theorem starts_append (p : Pat) (hp : 0 < p.length) (k pos : Nat) (a b : List Char) (s : Nat)
    (hl : (starts p k pos a).getLast? = some s) :
    starts p k pos (a ++ b) =
      starts p k pos a ++ starts p 0 (s + p.length) ((a ++ b).drop (s + p.length - pos)) := by
  induction a generalizing k pos with
  | nil => simp [starts] at hl
  | cons c cs ih =>
    have hs_mem : s ∈ starts p k pos (c :: cs) := List.mem_of_getLast? hl
    have hs_ge := starts_ge p k pos (c :: cs) s hs_mem
    cases k with
    | succ k =>
      simp only [starts, List.cons_append] at hl ⊢
      rw [ih k (pos + 1) hl]
      have : s + p.length - pos = (s + p.length - (pos + 1)) + 1 := by omega
      rw [this, List.drop_succ_cons]
    | zero =>
      by_cases hm : matchAt p (c :: cs) = true
      · have hm' : matchAt p (c :: cs ++ b) = true := matchAt_append b hm
        simp only [List.cons_append] at hm'
        simp only [starts, hm, hm', if_true, List.cons_append] at hl ⊢
        cases hrest : starts p (p.length - 1) (pos + 1) cs with
        | nil =>
          simp only [hrest, List.getLast?_singleton, Option.some.injEq] at hl
          subst hl
          simp only [List.nil_append, List.cons.injEq, true_and]
          rw [starts_skip]
          have h1 : pos + 1 + (p.length - 1) = pos + p.length := by omega
          have h2 : pos + p.length - pos = (p.length - 1) + 1 := by omega
          rw [h1, h2, List.drop_succ_cons]
        | cons x xs =>
          rw [hrest] at hl
          have hl' : (x :: xs).getLast? = some s := by
            simpa [List.getLast?_cons_cons] using hl
          rw [← hrest] at hl'
          rw [ih _ _ hl', hrest]
          simp only [List.cons_append, List.cons.injEq, true_and]
          have hx : pos + 1 ≤ s := by
            have := starts_ge p (p.length - 1) (pos + 1) cs s (List.mem_of_getLast? hl'); omega
          have : s + p.length - pos = (s + p.length - (pos + 1)) + 1 := by omega
          rw [this, List.drop_succ_cons]
      · have hm0 : matchAt p (c :: cs) = false := by simpa using hm
        simp only [starts, hm0, Bool.false_eq_true, if_false] at hl
        by_cases hm' : matchAt p (c :: (cs ++ b)) = true
        · -- the window at this position was incomplete in `a`: then `a` has no later match at all
          exfalso
          have hshort : (c :: cs).length < p.length := by
            rcases Nat.lt_or_ge (c :: cs).length p.length with h | hge
            · exact h
            · have := matchAt_complete (p := p) (a := c :: cs) b hge
              simp only [List.cons_append] at this
              rw [this, hm0] at hm'; simp at hm'
          have := starts_short p 0 (pos + 1) cs (by simp at hshort; omega)
          rw [this] at hl; simp at hl
        · have hm0' : matchAt p (c :: (cs ++ b)) = false := by simpa using hm'
          simp only [starts, hm0, hm0', List.cons_append, Bool.false_eq_true, if_false]
          rw [ih 0 (pos + 1) hl]
          have hx : pos + 1 ≤ s := by
            have := starts_ge p 0 (pos + 1) cs s (List.mem_of_getLast? hl); omega
          have : s + p.length - pos = (s + p.length - (pos + 1)) + 1 := by omega
          rw [this, List.drop_succ_cons]


theorem submit_spec (p : Pat) (hp : 0 < p.length) (T c : List Char) :
    submit p (lastEnd p T) (T ++ c) =
      (lastEnd p (T ++ c), (findall p (T ++ c)).length - (findall p T).length) ∧
    (findall p T).length ≤ (findall p (T ++ c)).length := by
  unfold submit lastEnd findall
  cases hT : (starts p 0 0 T).getLast? with
  | none =>
    have hnil : starts p 0 0 T = [] := by simpa using hT
    simp only [List.drop_zero, hnil, List.length_nil, Nat.sub_zero, Nat.zero_le, and_true]
    cases h2 : (starts p 0 0 (T ++ c)).getLast? <;> simp_all
  | some s =>
    have happ := starts_append p hp 0 0 T c s hT
    simp only [Nat.sub_zero] at happ
    have hsh := starts_shift p 0 0 (s + p.length) (List.drop (s + p.length) (T ++ c))
    simp only [Nat.zero_add] at hsh
    rw [hsh] at happ
    simp only []
    generalize hN : starts p 0 0 (List.drop (s + p.length) (T ++ c)) = N at *
    have hne : starts p 0 0 T ≠ [] := by intro e; simp [e] at hT
    rw [happ]
    cases hlast : N.getLast? with
    | none =>
      have : N = [] := by simpa using hlast
      subst this
      simp [hT]
    | some s' =>
      have hNne : N ≠ [] := by intro e; simp [e] at hlast
      have : (starts p 0 0 T ++ List.map (fun x => x + (s + p.length)) N).getLast? = some (s' + (s + p.length)) := by
        rw [List.getLast?_append, List.getLast?_map, hlast]
        simp
      simp [this]; omega

theorem runFixed_eq (p : Pat) (hp : 0 < p.length) (T : List Char) (chunks : List (List Char)) :
    runChunks (submit p) (lastEnd p T) T chunks + (findall p T).length =
      (findall p (T ++ chunks.flatten)).length := by
  induction chunks generalizing T with
  | nil => simp [runChunks]
  | cons c cs ih =>
    obtain ⟨h1, h2⟩ := submit_spec p hp T c
    simp only [runChunks, h1, List.flatten_cons]
    have := ih (T ++ c)
    rw [List.append_assoc] at this
    omega



/-- occurrences that a read adds to the text seen so far, read by read (the reference for the
    per-read trace: a response belongs to the read that completes its occurrence) -/
def newPerRead (p : Pat) : List Char → List (List Char) → List Nat
  | _, [] => []
  | T, c :: cs => ((findall p (T ++ c)).length - (findall p T).length) :: newPerRead p (T ++ c) cs

theorem runTrace_eq (p : Pat) (hp : 0 < p.length) (T : List Char) (chunks : List (List Char)) :
    runChunksTrace (submit p) (lastEnd p T) T chunks = newPerRead p T chunks := by
  induction chunks generalizing T with
  | nil => simp [runChunksTrace, newPerRead]
  | cons c cs ih =>
    obtain ⟨h1, _⟩ := submit_spec p hp T c
    simp only [runChunksTrace, newPerRead, h1]
    rw [ih (T ++ c)]

theorem runTrace_sum (sub : Nat → List Char → Nat × Nat) (idx : Nat) (T : List Char) (chunks : List (List Char)) :
    (runChunksTrace sub idx T chunks).sum = runChunks sub idx T chunks := by
  induction chunks generalizing idx T with
  | nil => simp [runChunksTrace, runChunks]
  | cons c cs ih => simp only [runChunksTrace, runChunks, List.sum_cons, ih]

/-! ### FailingResponder -/

/-- a text without occurrences has no occurrence in any prefix -/
theorem findall_prefix_nil (p : Pat) (hp : 0 < p.length) (a b : List Char) (h : findall p (a ++ b) = []) :
    findall p a = [] := by
  unfold findall at *
  cases hl : (starts p 0 0 a).getLast? with
  | none => simpa using hl
  | some s =>
    have := starts_append p hp 0 0 a b s hl
    rw [this] at h
    have hne : starts p 0 0 a ≠ [] := by intro e; simp [e] at hl
    simp at h
    exact absurd h.1 hne

theorem submit_zero_of_nil (p : Pat) (stream : List Char) (h : findall p stream = []) : submit p 0 stream = (0, 0) := by
  simp [submit, h]

theorem submit_zero_of_ne (p : Pat) (stream : List Char) (h : findall p stream ≠ []) : (submit p 0 stream).2 ≠ 0 := by
  simp only [submit, List.drop_zero]
  cases hl : (findall p stream).getLast? with
  | none => exact absurd (by simpa using hl) h
  | some s => simp; exact h

/-- no sentinel anywhere in the output ⇒ no read ever raises -/
theorem frun_never_raises (p sent : Pat) (hs : 0 < sent.length) (s : FState) (T : List Char) (chunks : List (List Char))
    (hf : s.fidx = 0) (h : findall sent (T ++ chunks.flatten) = []) :
    none ∉ frun p sent s T chunks := by
  induction chunks generalizing s T with
  | nil => simp [frun]
  | cons c cs ih =>
    have hc : findall sent (T ++ c) = [] := by
      apply findall_prefix_nil sent hs (T ++ c) cs.flatten
      simpa [List.append_assoc] using h
    have hsub : submit sent s.fidx (T ++ c) = (0, 0) := by rw [hf]; exact submit_zero_of_nil sent _ hc
    simp only [frun, fsubmit, hsub]
    simp only [bne_self_eq_false, Bool.and_false, Bool.false_eq_true, if_false]
    simp only [List.mem_cons, reduceCtorEq, false_or]
    apply ih
    · rfl
    · simpa [List.append_assoc] using h

/-- the sentinel arriving in a later read - after at least one completed read, which is when the
    code considers the responder to have "tried" - raises exactly at that read -/
theorem frun_raises_at (p sent : Pat) (hs : 0 < sent.length) (pre : List (List Char)) (c : List Char)
    (rest : List (List Char)) (s : FState) (T : List Char) (hf : s.fidx = 0)
    (ht : s.tried = true ∨ pre ≠ [])
    (h1 : findall sent (T ++ pre.flatten) = [])
    (h2 : findall sent (T ++ pre.flatten ++ c) ≠ []) :
    ∃ outs : List Nat, outs.length = pre.length ∧
      frun p sent s T (pre ++ c :: rest) = outs.map some ++ [none] := by
  induction pre generalizing s T with
  | nil =>
    have htr : s.tried = true := by rcases ht with h | h; exact h; exact absurd rfl h
    refine ⟨[], rfl, ?_⟩
    have hne : (submit sent s.fidx (T ++ c)).2 ≠ 0 := by
      rw [hf]; apply submit_zero_of_ne; simpa using h2
    simp only [List.nil_append, frun, fsubmit, htr, Bool.true_and]
    have : ((submit sent s.fidx (T ++ c)).2 != 0) = true := by simpa using hne
    simp [this]
  | cons x xs ih =>
    have hx : findall sent (T ++ x) = [] := by
      apply findall_prefix_nil sent hs (T ++ x) xs.flatten
      simpa [List.append_assoc] using h1
    have hsub : submit sent s.fidx (T ++ x) = (0, 0) := by rw [hf]; exact submit_zero_of_nil sent _ hx
    obtain ⟨outs, hl, he⟩ := ih { idx := (submit p s.idx (T ++ x)).1, fidx := 0, tried := true } (T ++ x) rfl (Or.inl rfl)
      (by simpa [List.append_assoc] using h1) (by simpa [List.append_assoc] using h2)
    refine ⟨(submit p s.idx (T ++ x)).2 :: outs, by simp [hl], ?_⟩
    simp only [List.cons_append, frun, fsubmit, hsub]
    simp only [bne_self_eq_false, Bool.and_false, Bool.false_eq_true, if_false]
    rw [he]; simp

end Inv
