import Invoke.Model.Val
/-! `invoke.collection.Collection` — namespace trees: lookup (`task_with_config`, `__getitem__`,
    `configuration`), flattening (`task_names`, `to_contexts`), `_default_task_name`, `transform`,
    `_transform_lexicon`/`from_module` re-import, and the three task listings
    (`Program._make_pairs` flat / nested, `Collection.serialized`).

    Dotted names are handled as *component lists* (`"a.b.c"` ↦ `[a, b, c]`, `splitOnDot`/`joinDot`);
    `transform` itself is the character-wise function of the code (incl. its "not next to a dot"
    test), so applying it to a component is exactly what the code does to that stretch of the dotted
    string.  Settings are `KVs` (`Model/Val.lean`), merged with `mergeKVs` = `merge_dicts`.
    A tree is serialised from the REAL object by the harness, so `tasks` / `aliases` / `colls` are
    the `Lexicon`s as they are (real keys in insertion order; alias ↦ real key). -/
namespace Inv

abbrev CName := List Char

/-- Python exception classes escaping `task_with_config` -/
inductive LErr | key | value | ambiguous
  deriving Repr, DecidableEq

inductive Coll where
  | mk (name : Option CName) (autoDash : Bool)
       (tasks : List (CName × Nat))          -- Lexicon real keys ↦ task identity
       (aliases : List (CName × CName))      -- Lexicon aliases: alias ↦ real key
       (colls : List (CName × Coll))         -- sub-collections by binding name
       (default : Option CName)
       (cfg : KVs)

namespace Coll

def name : Coll → Option CName | mk n _ _ _ _ _ _ => n
def autoDash : Coll → Bool | mk _ a _ _ _ _ _ => a
def tasks : Coll → List (CName × Nat) | mk _ _ t _ _ _ _ => t
def aliases : Coll → List (CName × CName) | mk _ _ _ a _ _ _ => a
def colls : Coll → List (CName × Coll) | mk _ _ _ _ c _ _ => c
def default : Coll → Option CName | mk _ _ _ _ _ d _ => d
def cfg : Coll → KVs | mk _ _ _ _ _ _ c => c

def assoc {β : Type} (k : CName) : List (CName × β) → Option β
  | [] => none
  | (k', v) :: r => if k = k' then some v else assoc k r

def hasKey {β : Type} (k : CName) (l : List (CName × β)) : Bool := (assoc k l).isSome

/-! ### `Collection.transform` -/

/-- one character of `transform`: replaced unless blocked (index 0 or after a dot) or followed by a dot -/
def xfChar (fr to : Char) (blocked : Bool) (c n : Char) : Char :=
  if !blocked && c = fr && n ≠ '.' then to else c

/-- the loop of `transform`: `blocked` = "index 0 or the previous character is a dot"; the last
    character is never replaced, nor one followed by a dot -/
def xfAux (fr to : Char) : Bool → List Char → List Char
  | _, [] => []
  | _, [c] => [c]
  | blocked, c :: n :: rest => xfChar fr to blocked c n :: xfAux fr to (c = '.') (n :: rest)

/-- `Collection.transform` for `auto_dash_names = ad` -/
def transform (ad : Bool) (nm : CName) : CName :=
  if ad then xfAux '_' '-' true nm else xfAux '-' '_' true nm

/-! ### dotted names -/

/-- `str.split(".")` -/
def splitOnDot : List Char → List CName
  | [] => [[]]
  | c :: r =>
    if c = '.' then [] :: splitOnDot r
    else match splitOnDot r with
      | [] => [[c]]
      | h :: t => (c :: h) :: t

/-- `".".join` -/
def joinDot : List CName → CName
  | [] => []
  | [x] => x
  | x :: y :: r => x ++ '.' :: joinDot (y :: r)

def noDot (n : CName) : Bool := !n.contains '.'

/-- `not name` for a name given as components: `""` is `[]` or `[""]` -/
def isEmptyName (p : List CName) : Bool := p = [] || p = [[]]

/-! ### Lexicon -/

/-- `Lexicon.__getitem__`: aliases are consulted first and resolved recursively; `none` = KeyError
    (fuel = number of aliases + 1 suffices for every acyclic alias table) -/
def lexGet : Nat → List (CName × Nat) → List (CName × CName) → CName → Option Nat
  | 0, _, _, _ => none
  | fuel + 1, tasks, aliases, k =>
    match assoc k aliases with
    | some target => lexGet fuel tasks aliases target
    | none => assoc k tasks

def aliasPointsTo (key name : CName) (kv : CName × CName) : Bool := kv.2 = key && kv.1 ≠ name

/-- `AliasDict.aliases_of(name)` -/
def aliasesOf (aliases : List (CName × CName)) (name : CName) : List CName :=
  match assoc name aliases with
  | some key => key :: (aliases.filter (aliasPointsTo key name)).map (·.1)
  | none => (aliases.filter (aliasPointsTo name name)).map (·.1)

/-! ### lookup: `task_with_config` -/

/-- the `if not name:` branch: an empty name stands for the collection's default -/
def stepName (dflt : Option CName) (p : List CName) : Except LErr (List CName) :=
  if isEmptyName p then
    match dflt with
    | none => .error .value
    | some d => if d = [] then .error .value else .ok (splitOnDot d)
  else .ok p

/-- `merge_dicts(config, ours)`: the outer collection's settings are merged over the inner result -/
def mergeOuter (ours : KVs) : Except LErr (Nat × KVs) → Except LErr (Nat × KVs)
  | .error e => .error e
  | .ok (t, inner) =>
    match mergeKVs inner ours with
    | .ok m => .ok (t, m)
    | .error _ => .error .ambiguous

def lexResult (ours : KVs) : Option Nat → Except LErr (Nat × KVs)
  | some t => .ok (t, ours)
  | none => .error .key

mutual
/-- `Collection.task_with_config(name)`; `ours = self.configuration()` is the stored dict (copy) -/
def twc : Coll → List CName → Except LErr (Nat × KVs)
  | mk _ ad ts als cs dflt cfg, path =>
    match stepName dflt path with
    | .error e => .error e
    | .ok p =>
      match p.map (transform ad) with
      | [] => .error .key
      | [x] =>
        if hasKey x cs then mergeOuter cfg (twcKids cs x [[]])
        else lexResult cfg (lexGet (als.length + 1) ts als x)
      | x :: rest => mergeOuter cfg (twcKids cs x rest)
/-- `self.collections[coll].task_with_config(rest)` -/
def twcKids : List (CName × Coll) → CName → List CName → Except LErr (Nat × KVs)
  | [], _, _ => .error .key
  | (k, c) :: r, x, rest => if x = k then twc c rest else twcKids r x rest
end

/-- `coll[name]` / `name in coll` at the level of dotted strings -/
def getitem (c : Coll) (name : CName) : Except LErr (Nat × KVs) := c.twc (splitOnDot name)

/-! ### `_default_task_name`, `task_names`, `to_contexts` -/

mutual
/-- `Collection._default_task_name()` as components -/
def defaultTaskName : Coll → Option (List CName)
  | mk _ ad _ _ cs dflt _ =>
    match dflt with
    | none => none
    | some d =>
      if d = [] then none
      else match dtnKids cs d with
        | some inner => inner.map (fun i => transform ad d :: i.map (transform ad))
        | none => some [d]
def dtnKids : List (CName × Coll) → CName → Option (Option (List CName))
  | [], _ => none
  | (k, c) :: r, d => if d = k then some (defaultTaskName c) else dtnKids r d
end

/-- one `task_names` entry: primary name and its aliases (components) -/
abbrev Entry := List CName × List (List CName)

/-- is this sub-collection task the one the collection's name is a shortcut for? -/
def isShortcut (dflt : Option CName) (dtn : Option (List CName)) (tn : List CName) : Bool :=
  (match dflt with | some d => tn = [d] | none => false) || dtn = some tn

/-- `subtask_name(coll_name, x)` -/
def subName (ad : Bool) (cn : CName) (x : List CName) : List CName :=
  transform ad cn :: x.map (transform ad)

/-- how the parent rewrites one entry of a sub-collection -/
def prefixEntry (ad : Bool) (cn : CName) (dflt : Option CName) (dtn : Option (List CName)) (e : Entry) : Entry :=
  (subName ad cn e.1,
   e.2.map (subName ad cn) ++ (if isShortcut dflt dtn e.1 then [[cn]] else []))

def ownEntry (als : List (CName × CName)) (t : CName × Nat) : Entry :=
  ([t.1], (aliasesOf als t.1).map (fun a => [a]))

mutual
/-- `Collection.task_names` -/
def taskNames : Coll → List Entry
  | mk _ ad ts als cs _ _ => ts.map (ownEntry als) ++ taskNamesKids ad cs
def taskNamesKids (ad : Bool) : List (CName × Coll) → List Entry
  | [] => []
  | (cn, sc) :: r =>
    (taskNames sc).map (prefixEntry ad cn sc.default (defaultTaskName sc)) ++ taskNamesKids ad r
end

def entryNames (e : Entry) : List (List CName) := e.1 :: e.2

/-- keys + aliases of `Parser(contexts = coll.to_contexts())` -/
def acceptedNames (c : Coll) : List (List CName) := (taskNames c).flatMap entryNames

/-- `Parser.__init__` raises ValueError iff a name or alias is already registered (or empty) -/
def parserOk (c : Coll) : Bool := decide (acceptedNames c).Nodup && !(acceptedNames c).any isEmptyName

def entryHas (n : List CName) (e : Entry) : Bool := e.1 = n || e.2.contains n

/-- the task the CLI runs for token `n`: `collection[parser.contexts[n].name]` -/
def cliTask (c : Coll) (n : List CName) : Option (Except LErr (Nat × KVs)) :=
  match (taskNames c).find? (entryHas n) with
  | some e => some (c.twc e.1)
  | none => none

/-! ### listings -/

/-- a flat-format line: full dotted name and the names in the parenthesis.  `rad` is the
    `auto_dash_names` of the program's ROOT collection: every displayed name, alias and ancestor path
    component is (re-)normalised by `self.collection.transform`, i.e. shown as the CLI accepts it;
    `anc` holds the raw binding names of the ancestors -/
def flatTask (rad : Bool) (anc : List CName) (als : List (CName × CName)) (dflt : Option CName) (t : CName × Nat) : Entry :=
  ((anc ++ [t.1]).map (transform rad),
   (if dflt = some t.1 && !anc.isEmpty then [anc.map (transform rad)] else []) ++
     (aliasesOf als t.1).map (fun a => (anc ++ [a]).map (transform rad)))

mutual
/-- `Program._make_pairs` for `--list-format=flat` (no depth limit, no root): name, aliases -/
def flatPairs (rad : Bool) : Coll → List CName → List Entry
  | mk _ _ ts als cs dflt _, anc => ts.map (flatTask rad anc als dflt) ++ flatKids rad cs anc
def flatKids (rad : Bool) : List (CName × Coll) → List CName → List Entry
  | [], _ => []
  | (k, c) :: r, anc => flatPairs rad c (anc ++ [k]) ++ flatKids rad r anc
end

/-- a nested-format line -/
inductive NLine
  | task (anc : List CName) (name : CName) (star : Bool) (aliases : List CName)
  | coll (anc : List CName) (name : CName)
  deriving Repr, DecidableEq

def nestedTask (rad : Bool) (anc : List CName) (als : List (CName × CName)) (dflt : Option CName) (t : CName × Nat) : NLine :=
  .task (anc.map (transform rad)) (transform rad t.1) (dflt = some t.1) ((aliasesOf als t.1).map (transform rad))

mutual
/-- `Program._make_pairs` for `--list-format=nested` -/
def nestedPairs (rad : Bool) : Coll → List CName → List NLine
  | mk _ _ ts als cs dflt _, anc => ts.map (nestedTask rad anc als dflt) ++ nestedKids rad cs anc
def nestedKids (rad : Bool) : List (CName × Coll) → List CName → List NLine
  | [], _ => []
  | (k, c) :: r, anc =>
    NLine.coll (anc.map (transform rad)) (transform rad k) :: nestedPairs rad c (anc ++ [k]) ++ nestedKids rad r anc
end

/-- `--list` / `--list --list-format=nested` of a program whose namespace is `c` -/
def flatListing (c : Coll) : List Entry := flatPairs c.autoDash c []
def nestedListing (c : Coll) : List NLine := nestedPairs c.autoDash c []

/-- `Collection.serialized()` without the help strings -/
inductive JNode
  | mk (name : Option CName) (default : Option CName) (tasks : List (CName × List CName)) (colls : List JNode)

def jsonTask (als : List (CName × CName)) (t : CName × Nat) : CName × List CName := (t.1, aliasesOf als t.1)

mutual
def serialized : Coll → JNode
  | mk nm _ ts als cs dflt _ => .mk nm dflt (ts.map (jsonTask als)) (serializedKids cs)
def serializedKids : List (CName × Coll) → List JNode
  | [] => []
  | (_, c) :: r => serialized c :: serializedKids r
end

/-! ### `Collection.from_module` with an explicit `ns` -/

def xfTask (ad : Bool) (t : CName × Nat) : CName × Nat := (transform ad t.1, t.2)
def xfAlias (ad : Bool) (a : CName × CName) : CName × CName := (transform ad a.1, transform ad a.2)
def xfColl (ad : Bool) (c : CName × Coll) : CName × Coll := (transform ad c.1, c.2)

def pickName (given : Option CName) (own : Option CName) (modName : CName) : CName :=
  match given with
  | some n => if n = [] then (match own with | some o => if o = [] then modName else o | none => modName) else n
  | none => match own with | some o => if o = [] then modName else o | none => modName

/-- the copy `from_module` makes of a module's `ns` collection -/
def fromModule (obj : Coll) (given : Option CName) (modName : CName) (ad : Bool) (config : KVs) : Except LErr Coll :=
  match mergeKVs obj.cfg config with
  | .error _ => .error .ambiguous
  | .ok merged =>
    .ok (.mk (some (transform ad (pickName given obj.name modName))) ad
      (obj.tasks.map (xfTask ad)) (obj.aliases.map (xfAlias ad)) (obj.colls.map (xfColl ad))
      (match obj.default with | some d => if d = [] then none else some (transform ad d) | none => none)
      merged)

/-! ### well-formed trees (decidable) -/

def localNames (ts : List (CName × Nat)) (als : List (CName × CName)) (cs : List (CName × Coll)) : List CName :=
  ts.map (·.1) ++ als.map (·.1) ++ cs.map (·.1)

def goodName (ad : Bool) (k : CName) : Bool := k ≠ [] && noDot k && transform ad k = k

def aliasTargetOk (ts : List (CName × Nat)) (a : CName × CName) : Bool := hasKey a.2 ts

def defaultOk (ts : List (CName × Nat)) (cs : List (CName × Coll)) : Option CName → Bool
  | none => true
  | some d => hasKey d ts || hasKey d cs

/-- what `add_task` / `add_collection` / `from_module` guarantee locally, plus "no clashes":
    names non-empty, dot-free, normalised by the collection's own `transform`, pairwise distinct
    across tasks, aliases and sub-collections; aliases point at tasks; the default names a task
    or a sub-collection -/
def localWF (ad : Bool) (ts : List (CName × Nat)) (als : List (CName × CName)) (cs : List (CName × Coll))
    (dflt : Option CName) : Bool :=
  decide (localNames ts als cs).Nodup && (localNames ts als cs).all (goodName ad) &&
  als.all (aliasTargetOk ts) && defaultOk ts cs dflt

mutual
def wf : Coll → Bool
  | mk _ ad ts als cs dflt _ => localWF ad ts als cs dflt && wfKids cs
def wfKids : List (CName × Coll) → Bool
  | [] => true
  | (_, c) :: r => wf c && wfKids r
end

mutual
/-- all collections of the tree share one `auto_dash_names` setting -/
def uniformDash (ad : Bool) : Coll → Bool
  | mk _ a _ _ cs _ _ => a = ad && uniformDashKids ad cs
def uniformDashKids (ad : Bool) : List (CName × Coll) → Bool
  | [] => true
  | (_, c) :: r => uniformDash ad c && uniformDashKids ad r
end

end Coll

/-! ### object model for freshness (C17)

    `Collection.configuration` / `task_with_config` build their result with `copy_dict` and `merge_dicts`.
    To state that the mapping returned shares no dict OBJECT with a stored configuration, dicts are
    modelled with the address of the object they are; an allocation counter hands out fresh addresses.
    (Only used by the `configuration_fresh` theorems; the harness checks freshness on the real objects.) -/

/-- settings as Python OBJECTS: every dict carries the address of the dict object it is -/
inductive OVal where
  | leaf : Leaf → OVal
  | dict : Nat → List (Key × OVal) → OVal

abbrev OKVs := List (Key × OVal)

namespace OVal

def lookupO (k : Key) : OKVs → Option OVal
  | [] => none
  | (k', v) :: r => if k = k' then some v else lookupO k r

def insertO (k : Key) (v : OVal) : OKVs → OKVs
  | [] => [(k, v)]
  | (k', v') :: r => if k = k' then (k, v) :: r else (k', v') :: insertO k v r

mutual
/-- the value a dict object stands for -/
def erase : OVal → Val
  | .leaf l => .leaf l
  | .dict _ kvs => .dict (eraseL kvs)
def eraseL : OKVs → KVs
  | [] => []
  | (k, v) :: r => (k, erase v) :: eraseL r
end

mutual
/-- addresses of all dict objects reachable from a value -/
def addrs : OVal → List Nat
  | .leaf _ => []
  | .dict a kvs => a :: addrsL kvs
def addrsL : OKVs → List Nat
  | [] => []
  | (_, v) :: r => addrs v ++ addrsL r
end

mutual
/-- one key of `merge_dicts(base, updates)`: the new object for `base[k]`, and the allocation counter.
    An existing dict object of `base` is kept (mutated in place: same address); a dict coming from
    `updates` is never stored itself: it is re-created at a fresh address by `copy_dict`
    (= `merge_dicts({}, value)`); leaves are copied by value.  `none` = AmbiguousMergeError. -/
def mergeV (n : Nat) (old : Option OVal) : OVal → Option (OVal × Nat)
  | .leaf l =>
    match old with
    | some (.dict _ _) => none
    | _ => some (.leaf l, n)
  | .dict _ u =>
    match old with
    | some (.dict b bk) => (mergeL n bk u).map fun r => (.dict b r.1, r.2)
    | some (.leaf _) => none
    | none => (mergeL (n + 1) [] u).map fun r => (.dict n r.1, r.2)
/-- `merge_dicts(base, updates)` on objects -/
def mergeL (n : Nat) (base : OKVs) : OKVs → Option (OKVs × Nat)
  | [] => some (base, n)
  | (k, v) :: r =>
    match mergeV n (lookupO k base) v with
    | none => none
    | some w => mergeL w.2 (insertO k w.1 base) r
end

/-- `copy_dict(obj)` = `merge_dicts({}, obj)` -/
def copyO (n : Nat) (v : OVal) : Option (OVal × Nat) := mergeV n none v

/-- how `task_with_config` builds its result from the STORED configuration objects on the path
    (root first): the innermost `configuration()` is a `copy_dict` of the stored dict; going outwards
    `ours = copy_dict(stored)` and `merge_dicts(config, ours)` -/
def buildAlong (n : Nat) : List OVal → Option (OVal × Nat)
  | [] => none
  | [x] => copyO n x
  | outer :: y :: rest =>
    match buildAlong n (y :: rest) with
    | none => none
    | some r =>
      match copyO r.2 outer with
      | none => none
      | some ours => mergeV ours.2 (some r.1) ours.1

end OVal

end Inv
