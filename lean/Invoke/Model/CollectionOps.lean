import Invoke.Model.Collection
/-! Histories on ONE namespace tree (C17): the mutators `Collection.configure`, `Collection.add_task`,
    `Collection.add_collection` applied to a collection anywhere in the tree (addressed by the list of
    binding keys leading to it), interleaved with lookups through the root or through an intermediate
    collection.

    The state of the real objects is the tree; a lookup is a pure function of it (`twc`).  `runHist`
    is the trace semantics the harness replays on the real objects: same steps on both sides. -/
namespace Inv
namespace Coll

/-- the collection reached from `c` by following binding keys -/
def subAt : List CName → Coll → Option Coll
  | [], c => some c
  | k :: r, mk _ _ _ _ cs _ _ =>
    match assoc k cs with
    | some s => subAt r s
    | none => none

/-- rebind key `k` (which exists) to `new`, keeping its position -/
def setKid (k : CName) (new : Coll) : List (CName × Coll) → List (CName × Coll)
  | [] => []
  | (k', c) :: r => if k = k' then (k', new) :: r else (k', c) :: setKid k new r

/-- apply `f` to the collection at address `addr` (nothing happens when the address does not exist) -/
def updAt (f : Coll → Coll) : List CName → Coll → Coll
  | [], c => f c
  | k :: addr, mk nm ad ts als cs d cfg =>
    match assoc k cs with
    | some sub => mk nm ad ts als (setKid k (updAt f addr sub) cs) d cfg
    | none => mk nm ad ts als cs d cfg

/-- `dict.__setitem__`: an existing key keeps its position -/
def setD {β : Type} (k : CName) (v : β) : List (CName × β) → List (CName × β)
  | [] => [(k, v)]
  | (k', v') :: r => if k = k' then (k, v) :: r else (k', v') :: setD k v r

/-- `Collection.configure(options)`: `merge_dicts(self._configuration, options)`; a dict-vs-leaf clash
    raises `AmbiguousMergeError` (modelled as "no change"; the harness does not generate such calls) -/
def configureHere (opts : KVs) : Coll → Coll
  | mk nm ad ts als cs d cfg =>
    match mergeKVs cfg opts with
    | .ok m => mk nm ad ts als cs d m
    | .error _ => mk nm ad ts als cs d cfg

def aliasTo (ad : Bool) (name : CName) (acc : List (CName × CName)) (a : CName) : List (CName × CName) :=
  setD (transform ad a) name acc

/-- `Collection.add_task(task, name=key, aliases=…, default=dflt)`; `aliases` = the task's own aliases
    followed by the ones given to `add_task` -/
def addTaskHere (key : CName) (id : Nat) (aliases : List CName) (dflt : Bool) : Coll → Coll
  | mk nm ad ts als cs d cfg =>
    mk nm ad (setD (transform ad key) id ts) (aliases.foldl (aliasTo ad (transform ad key)) als) cs
      (if dflt then some (transform ad key) else d) cfg

/-- `Collection.add_collection(sub, name=key, default=dflt)` -/
def addCollHere (key : CName) (sub : Coll) (dflt : Bool) : Coll → Coll
  | mk nm ad ts als cs d cfg =>
    mk nm ad ts als (setD (transform ad key) sub cs) (if dflt then some (transform ad key) else d) cfg

/-- a mutation of one collection of the tree -/
inductive TreeOp where
  | configure (addr : List CName) (opts : KVs)
  | addTask (addr : List CName) (key : CName) (id : Nat) (aliases : List CName) (dflt : Bool)
  | addColl (addr : List CName) (key : CName) (sub : Coll) (dflt : Bool)

def TreeOp.here : TreeOp → Coll → Coll
  | .configure _ opts => configureHere opts
  | .addTask _ key id aliases dflt => addTaskHere key id aliases dflt
  | .addColl _ key sub dflt => addCollHere key sub dflt

def TreeOp.addr : TreeOp → List CName
  | .configure a _ => a
  | .addTask a _ _ _ _ => a
  | .addColl a _ _ _ => a

def TreeOp.apply (o : TreeOp) (c : Coll) : Coll := updAt o.here o.addr c

def applyOps (ops : List TreeOp) (c : Coll) : Coll := ops.foldl (fun t o => o.apply t) c

/-- one step of a history: a mutation, or a lookup of `name` through the collection at `addr` -/
inductive HStep where
  | op (o : TreeOp)
  | look (addr : List CName) (name : List CName)

/-- `sub.task_with_config(name)` for the collection `sub` at `addr` -/
def lookAt (c : Coll) (addr : List CName) (name : List CName) : Except LErr (Nat × KVs) :=
  match subAt addr c with
  | some s => s.twc name
  | none => .error .key

/-- the answers of the lookups of a history, in order -/
def runHist : Coll → List HStep → List (Except LErr (Nat × KVs))
  | _, [] => []
  | c, .op o :: r => runHist (o.apply c) r
  | c, .look addr name :: r => lookAt c addr name :: runHist c r

def stepOp : HStep → Option TreeOp
  | .op o => some o
  | .look _ _ => none

/-- the mutations of a history, lookups forgotten -/
def opsOf (steps : List HStep) : List TreeOp := steps.filterMap stepOp

end Coll
end Inv
