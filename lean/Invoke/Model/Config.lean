import Invoke.Model.Val
import Invoke.Generated.Clone
/-! `invoke.config.Config` / `DataProxy` bookkeeping, as the code is NOW (clone copies deletions,
    `obliterate` tolerates vanished keys, `excise` stops under a deleted ancestor, `setdefault(key)`,
    `update(mapping, **kw)`).

    A configuration is its ten data slots (eight lower levels, the modification journal and the
    deletion marks); what a reader sees is a FUNCTION of the slots (`Cfg.view`): the levels merged
    in order, then the deletion marks applied.  Every mutating operation of the real object ends
    with `merge()`, so the cache `_config` equals `view` whenever an operation starts from a proxy
    freshly navigated from the root (the only use modelled here).

    Total primitives (`obl`, `erasePath`, `setPath`, `markDel`) are the walks of `obliterate`,
    `excise`, `_modify`, `_remove`; the raising versions only add named guards in front. -/
namespace Inv

/-- what a key path denotes inside a tree: a leaf value, a section, or nothing -/
inductive Node | leaf (x : Leaf) | sec
  deriving DecidableEq, Repr

/-- node at a key path (the root is a section) -/
def node : List Key → KVs → Option Node
  | [], _ => some .sec
  | k :: rest, m => match lookup k m with
    | some (.leaf x) => (match rest with | [] => some (.leaf x) | _ => none)
    | some (.dict d) => node rest d
    | none => none

/-- node at a path relative to a value -/
def nodeV (p : List Key) : Val → Option Node
  | .leaf x => (match p with | [] => some (.leaf x) | _ => none)
  | .dict d => node p d

/-- `obliterate(base, deletions)`: a `.leaf _` in `d` means "deleted here", a `.dict` carries
    marks further down; keys that vanished from `base` are tolerated. -/
def obl (base : KVs) : KVs → KVs
  | [] => base
  | (k, v) :: rest =>
    let base' : KVs := match v, lookup k base with
      | .dict d, some (.dict b) => insert k (.dict (obl b d)) base
      | .dict _, _ => base
      | .leaf _, _ => erase k base
    obl base' rest

/-- `excise(dict_, keypath)`: remove the entry exactly at `p` if it can be reached through dicts -/
def erasePath (d : KVs) : List Key → KVs
  | [] => d
  | [k] => erase k d
  | k :: k2 :: rest => match lookup k d with
    | some (.dict d') => insert k (.dict (erasePath d' (k2 :: rest))) d
    | _ => d

/-- the `_modify` walk: `data[key] = value` at the end of the key path, creating dicts on the way -/
def setPath (m : KVs) : List Key → Val → KVs
  | [], _ => m
  | [k], v => insert k v m
  | k :: k2 :: rest, v => insert k (.dict (setPath (subDict k m) (k2 :: rest) v)) m

/-- the `_remove` walk: mark `p` as deleted; nothing happens below an already deleted ancestor -/
def markDel (d : KVs) : List Key → KVs
  | [] => d
  | [k] => insert k (.leaf .none) d
  | k :: k2 :: rest => match lookup k d with
    | some (.leaf _) => d
    | some (.dict s) => insert k (.dict (markDel s (k2 :: rest))) d
    | none => insert k (.dict (markDel [] (k2 :: rest))) d

/-- does the `_modify` walk run into a non-dict inside `modifications`? (Python: `TypeError`) -/
def leafOnWay : KVs → List Key → Bool
  | _, [] => false
  | _, [_] => false
  | m, k :: k2 :: rest => match lookup k m with
    | some (.leaf _) => true
    | some (.dict d) => leafOnWay d (k2 :: rest)
    | none => false

/-! ## The configuration object -/

inductive Slot
  | defaults | collection | system | user | project | env | runtime | overrides | modifications | deletions
  deriving DecidableEq, Repr

def Slot.name : Slot → String
  | .defaults => "defaults" | .collection => "collection" | .system => "system" | .user => "user"
  | .project => "project" | .env => "env" | .runtime => "runtime" | .overrides => "overrides"
  | .modifications => "modifications" | .deletions => "deletions"

def Slot.all : List Slot :=
  [.defaults, .collection, .system, .user, .project, .env, .runtime, .overrides, .modifications, .deletions]

/-- the file levels carry their `_found` flag implicitly: data is non-empty only when found -/
structure Cfg where
  defaults : KVs := []
  collection : KVs := []
  system : KVs := []
  user : KVs := []
  project : KVs := []
  env : KVs := []
  runtime : KVs := []
  overrides : KVs := []
  mods : KVs := []
  dels : KVs := []
  deriving Repr

def Cfg.get (c : Cfg) : Slot → KVs
  | .defaults => c.defaults | .collection => c.collection | .system => c.system | .user => c.user
  | .project => c.project | .env => c.env | .runtime => c.runtime | .overrides => c.overrides
  | .modifications => c.mods | .deletions => c.dels

def Cfg.set (c : Cfg) (s : Slot) (v : KVs) : Cfg :=
  match s with
  | .defaults => { c with defaults := v } | .collection => { c with collection := v }
  | .system => { c with system := v } | .user => { c with user := v }
  | .project => { c with project := v } | .env => { c with env := v }
  | .runtime => { c with runtime := v } | .overrides => { c with overrides := v }
  | .modifications => { c with mods := v } | .deletions => { c with dels := v }

/-- names of all data slots a faithful clone has to carry over -/
def Cfg.dataSlots : List String := Slot.all.map Slot.name

/-- the eight lower levels in `merge()` order (the order itself is tied to the source by C03) -/
def Cfg.lower (c : Cfg) : List KVs :=
  [c.defaults, c.collection, c.system, c.user, c.project, c.env, c.runtime, c.overrides]

/-- raising fold of `merge_dicts` over levels -/
def mergeLevels (acc : KVs) : List KVs → Except CErr KVs
  | [] => .ok acc
  | l :: ls => match mergeKVs acc l with
    | .error e => .error e
    | .ok a => mergeLevels a ls

/-- total fold (update wins on a clash) -/
def mergeLevelsT (acc : KVs) : List KVs → KVs
  | [] => acc
  | l :: ls => mergeLevelsT (mergeT acc l) ls

/-- merge of the eight lower levels ("the current merge of the levels") -/
def Cfg.baseT (c : Cfg) : KVs := mergeLevelsT [] c.lower

/-- what the configuration reads as (total version) -/
def viewT (base mods dels : KVs) : KVs := obl (mergeT base mods) dels
def Cfg.viewT (c : Cfg) : KVs := Inv.viewT c.baseT c.mods c.dels

/-- `Config.merge()`: may raise `AmbiguousMergeError` on a dict / non-dict clash -/
def Cfg.view (c : Cfg) : Except CErr KVs :=
  match mergeLevels [] (c.lower ++ [c.mods]) with
  | .error e => .error e
  | .ok m => .ok (obl m c.dels)

/-- `_modify(keypath, key, value)` with `p = keypath ++ [key]` -/
def Cfg.modify (c : Cfg) (p : List Key) (v : Val) : Except CErr Cfg :=
  if leafOnWay c.mods p then .error (.typ "modify")
  else
    let c' : Cfg := { c with dels := erasePath c.dels p, mods := setPath c.mods p v }
    match c'.view with
    | .error e => .error e
    | .ok _ => .ok c'

/-- `_remove(keypath, key)` with `p = keypath ++ [key]` -/
def Cfg.remove (c : Cfg) (p : List Key) : Except CErr Cfg :=
  let c' : Cfg := { c with dels := markDel c.dels p }
  match c'.view with
  | .error e => .error e
  | .ok _ => .ok c'

/-- replace one of the reloadable levels and re-merge (`load_defaults/overrides/collection`, file loads) -/
def Cfg.load (c : Cfg) (s : Slot) (data : KVs) : Except CErr Cfg :=
  let c' := c.set s data
  match c'.view with
  | .error e => .error e
  | .ok _ => .ok c'

/-- `load_*(data, merge=False)`: the level is replaced, nothing is re-merged - readers keep seeing the
    old cache until the next `merge()` (the driver shows the frozen view meanwhile); everything computed
    from the SLOTS, like `clone`, already uses the new level -/
def Cfg.loadUnmerged (c : Cfg) (s : Slot) (data : KVs) : Cfg := c.set s data

/-- `Config.merge()` on its own -/
def Cfg.remerge (c : Cfg) : Except CErr Cfg :=
  match c.view with
  | .error e => .error e
  | .ok _ => .ok c

/-! ## Shell environment (`load_shell_env`), for keys without underscores -/

def upperKey (k : Key) : Key := k.map Char.toUpper

def joinUnderscore : List Key → List Char
  | [] => []
  | [k] => k
  | k :: rest => k ++ '_' :: joinUnderscore rest

def envVarOf (p : List Key) : List Char := upperKey (joinUnderscore p)

/-- leaf paths of a tree in crawl order, with the current value -/
def leafVals (pre : List Key) : KVs → List (List Key × Leaf)
  | [] => []
  | (k, .leaf x) :: rest => (pre ++ [k], x) :: leafVals pre rest
  | (k, .dict d) :: rest => leafVals (pre ++ [k]) d ++ leafVals pre rest

def digitsToNat : List Char → Nat → Option Nat
  | [], acc => some acc
  | c :: cs, acc => if c.isDigit then digitsToNat cs (acc * 10 + (c.toNat - '0'.toNat)) else none

/-- `int(s)` for plain decimal spellings -/
def parseInt : List Char → Option Int
  | '-' :: (d :: ds) => (digitsToNat (d :: ds) 0).map (fun n => - (Int.ofNat n))
  | d :: ds => (digitsToNat (d :: ds) 0).map Int.ofNat
  | [] => none

/-- `Environment._cast(old, new)` -/
def envCast (old : Leaf) (new : List Char) : Except CErr Leaf :=
  match old with
  | .b _ => .ok (.b (!(new == ['0'] || new == [])))
  | .s _ => .ok (.s new)
  | .none => .ok (.s new)
  | .l _ => .error .uncastable
  | .i _ => (match parseInt new with | some n => .ok (.i n) | none => .error (.value "env-int"))
  | .obj _ => .error (.value "env-obj")

def lookupEnv (var : List Char) : List (List Char × List Char) → Option (List Char)
  | [] => none
  | (n, v) :: rest => if var = n then some v else lookupEnv var rest

/-- `Environment.load()` over the crawled leaf paths -/
def envLoad (environ : List (List Char × List Char)) (acc : KVs) : List (List Key × Leaf) → Except CErr KVs
  | [] => .ok acc
  | (p, old) :: rest =>
    match lookupEnv (envVarOf p) environ with
    | none => envLoad environ acc rest
    | some s => match envCast old s with
      | .error e => .error e
      | .ok x => envLoad environ (setPath acc p (.leaf x)) rest

/-- `load_shell_env()`: the env level is EMPTIED, the rest is merged, the merged view is crawled, the
    environment loaded against it, and everything merged again - so the new env level is a function of
    the other levels, the journal and the current environment only (nothing a previous load left).
    `environ` holds the variables that carry the configuration's prefix, prefix stripped. -/
def Cfg.loadShellEnv (c : Cfg) (environ : List (List Char × List Char)) : Except CErr Cfg :=
  match (c.set .env []).view with
  | .error e => .error e
  | .ok v => match envLoad environ [] (leafVals [] v) with
    | .error e => .error e
    | .ok e => c.load .env e

/-! ## clone -/

/-- the source slot copied into the clone if its name is in the clone's slot list -/
def cloneSlot (names : List String) (c : Cfg) (acc : Cfg) (s : Slot) : Except CErr Cfg :=
  if names.contains s.name then
    match copyDict (c.get s) with
    | .error e => .error e
    | .ok d => .ok (acc.set s d)
  else .ok acc

def cloneSlots (names : List String) (c : Cfg) (acc : Cfg) : List Slot → Except CErr Cfg
  | [] => .ok acc
  | s :: ss => match cloneSlot names c acc s with
    | .error e => .error e
    | .ok a => cloneSlots names c a ss

/-- `Config.clone(into=…)`: every slot named in `names` is copied (dict levels through
    `merge_dicts` onto the fresh object's empty slot); `intoDefaults` are the global defaults of the
    class cloned into: the copied defaults level is merged ON TOP of them, so the target class only
    contributes keys the original does not have (what `_clone_init_kwargs` does since the repair). -/
def Cfg.cloneWith (names : List String) (c : Cfg) (intoDefaults : KVs) : Except CErr Cfg :=
  match cloneSlots names c {} Slot.all with
  | .error e => .error e
  | .ok n => match mergeKVs intoDefaults n.defaults with
    | .error e => .error e
    | .ok d =>
      let n' := { n with defaults := d }
      match n'.view with
      | .error e => .error e
      | .ok _ => .ok n'

/-- the clone the code performs: slot list regenerated from the source on every run -/
def Cfg.clone (c : Cfg) (intoDefaults : KVs := []) : Except CErr Cfg :=
  Cfg.cloneWith Generated.cloneSlots c intoDefaults

/-! ## DataProxy operations through a proxy freshly navigated from the root -/

/-- one navigation step: key and whether attribute syntax is used -/
abbrev Step := Key × Bool

def navErr (attr : Bool) : CErr := if attr then .attr "nav" else .key "nav"

/-- follow the key path from the merged view; a missing key raises `KeyError` / `AttributeError` -/
def nav (cur : KVs) : List Step → Except CErr KVs
  | [] => .ok cur
  | (k, attr) :: rest => match lookup k cur with
    | none => .error (navErr attr)
    | some (.leaf _) => .error (.typ "nav-leaf")
    | some (.dict d) => nav d rest

inductive Op
  | getItem (k : Key) | getAttr (k : Key) | get (k : Key)
  | setItem (k : Key) (v : Val) | setAttr (k : Key) (v : Val)
  | delItem (k : Key) | delAttr (k : Key)
  | pop (k : Key) (dflt : Option Val) | popitem (chosen : Option Key) | clear
  | setdefault (k : Key) (dflt : Option Val)
  | update (pos : Option KVs) (kw : KVs)
  | contains (k : Key) | len | keys | items
  deriving Repr

inductive Out
  | none | val (v : Val) | bool (b : Bool) | nat (n : Nat) | keys (ks : List Key) | pair (k : Key) (v : Val)
  deriving Repr

/-- successive `self[key] = value` -/
def Cfg.modifyAll (c : Cfg) (pre : List Key) : KVs → Except CErr Cfg
  | [] => .ok c
  | (k, v) :: rest => match c.modify (pre ++ [k]) v with
    | .error e => .error e
    | .ok c' => Cfg.modifyAll c' pre rest

/-- successive `del self[key]` -/
def Cfg.removeAll (c : Cfg) (pre : List Key) : List Key → Except CErr Cfg
  | [] => .ok c
  | k :: rest => match c.remove (pre ++ [k]) with
    | .error e => .error e
    | .ok c' => Cfg.removeAll c' pre rest

def lastKey : KVs → Option Key
  | [] => none
  | [(k, _)] => some k
  | _ :: rest => lastKey rest

def withOut (o : Out) (r : Except CErr Cfg) : Except CErr (Cfg × Out) :=
  match r with | .error e => .error e | .ok c => .ok (c, o)

/-- one DataProxy operation at the proxy reached by `path` -/
def Cfg.apply (c : Cfg) (path : List Step) (op : Op) : Except CErr (Cfg × Out) :=
  match c.view with
  | .error e => .error e
  | .ok v =>
  match nav v path with
  | .error e => .error e
  | .ok sub =>
    let pre := path.map Prod.fst
    match op with
    | .getItem k => (match lookup k sub with | none => .error (.key "get") | some x => .ok (c, .val x))
    | .getAttr k => (match lookup k sub with | none => .error (.attr "get") | some x => .ok (c, .val x))
    | .get k => (match lookup k sub with | none => .ok (c, .none) | some x => .ok (c, .val x))
    | .setItem k x => withOut .none (c.modify (pre ++ [k]) x)
    | .setAttr k x => withOut .none (c.modify (pre ++ [k]) x)
    | .delItem k => (match lookup k sub with
        | none => .error (.key "del") | some _ => withOut .none (c.remove (pre ++ [k])))
    | .delAttr k => (match lookup k sub with
        | none => .error (.attr "del") | some _ => withOut .none (c.remove (pre ++ [k])))
    | .pop k dflt => (match lookup k sub, dflt with
        | some x, _ => withOut (.val x) (c.remove (pre ++ [k]))
        | none, some d => .ok (c, .val d)
        | none, none => .error (.key "pop"))
    | .popitem chosen =>
        (match (match chosen with | some k => some k | none => lastKey sub) with
         | none => .error (.key "popitem")
         | some k => (match lookup k sub with
            | none => .error (.key "popitem")
            | some x => withOut (.pair k x) (c.remove (pre ++ [k]))))
    | .clear => withOut .none (c.removeAll pre (keys sub))
    | .setdefault k dflt => (match lookup k sub with
        | some x => .ok (c, .val x)
        | none =>
          let d := match dflt with | some d => d | none => .leaf .none
          withOut (.val d) (c.modify (pre ++ [k]) d))
    | .update pos kw =>
        (match c.modifyAll pre (match pos with | some m => m | none => []) with
         | .error e => .error e
         | .ok c' => withOut .none (c'.modifyAll pre kw))
    | .contains k => .ok (c, .bool (lookup k sub).isSome)
    | .len => .ok (c, .nat sub.length)
    | .keys => .ok (c, .keys (keys sub))
    | .items => .ok (c, .val (.dict sub))

/-! ## The executor's per-task configuration step (`Executor.execute` loop body) -/

/-- `Collection.configuration(name)`: the settings along the namespace path, innermost first in the
    fold so that OUTER collections win.  `cfgs = [root, c₁, …, cₙ]`. -/
def nsConfig : List KVs → Except CErr KVs
  | [] => .ok []
  | outer :: inner => match nsConfig inner with
    | .error e => .error e
    | .ok acc => mergeKVs acc outer

/-- what `execute` hands to `load_collection`: `Collection.configuration(name)` where `name` is the name
    the task was called by or, for a call without a name (pre/post tasks, the default task), the first
    name under which the collection HOLDS the task object (`Executor._name_of`); `cfgs` are the settings
    along that name's namespace path.  Only a task object the collection does not hold at all
    (`unheld`) gets the ROOT collection's own settings. -/
def collectionLevel (unheld : Bool) (cfgs : List KVs) : Except CErr KVs :=
  if unheld then copyDict (cfgs.headD []) else nsConfig cfgs

/-- the behaviour before the repair of finding #23: EVERY call without a name got the root's settings -/
def collectionLevelPinned (calledAsNone : Bool) (cfgs : List KVs) : Except CErr KVs :=
  if calledAsNone then copyDict (cfgs.headD []) else nsConfig cfgs

/-- `config.load_collection(…); config.load_shell_env()` -/
def Cfg.taskStep (c : Cfg) (unheld : Bool) (cfgs : List KVs)
    (environ : List (List Char × List Char)) : Except CErr Cfg :=
  match collectionLevel unheld cfgs with
  | .error e => .error e
  | .ok lvl => match c.load .collection lvl with
    | .error e => .error e
    | .ok c' => c'.loadShellEnv environ

end Inv
