import Invoke.Model.Config
import Invoke.Model.ConfigHeap
/-! A CACHED model of `invoke.config.Config`: the pure state (`Cfg`: levels, modifications, deletion marks)
    plus the merged cache `_config` materialised as a graph of dict OBJECTS (`Heap`).  `merge()` rebuilds the
    whole cache with FRESH addresses - exactly where the real code does: at the end of `_modify`, of `_remove`
    (unless an ancestor is already marked deleted), of `load_*` with merging, of `load_shell_env`, in `clone`.
    A `DataProxy` is an address captured at navigation time + its key path; its operations read and mutate the
    captured object (`self._config[...]`) and report edits to the root by key path
    (`_track_modification_of` / `_track_removal_of`), as the real class does.  A handle kept across a re-merge
    therefore addresses an object that is no longer part of the cache: known finding `C06-stale-held-handle`. -/
namespace Inv.Cache
open Inv Inv.Heap

/-- fuel for materialising / reading trees (settings deeper than this are outside the model) -/
def FUEL : Nat := 12

/-! ### trees <-> object graphs -/

def matEntries (mv : Heap → KVs → Heap × Nat) : Heap → KVs → Heap × HDict
  | h, [] => (h, [])
  | h, (k, .leaf x) :: rest => let r := matEntries mv h rest; (r.1, (k, .leaf x) :: r.2)
  | h, (k, .dict t) :: rest =>
    let c := mv h t
    let r := matEntries mv c.1 rest
    (r.1, (k, .ref c.2) :: r.2)

/-- allocate fresh objects for a tree (children first); returns the heap and the address of the dict -/
def matDict : Nat → Heap → KVs → Heap × Nat
  | 0, h, _ => alloc h []
  | f + 1, h, t => let r := matEntries (matDict f) h t; alloc r.1 r.2

def readEntries (rd : Nat → KVs) : HDict → KVs
  | [] => []
  | (k, .leaf x) :: rest => (k, .leaf x) :: readEntries rd rest
  | (k, .ref a) :: rest => (k, .dict (rd a)) :: readEntries rd rest

/-- the tree an object denotes -/
def readObj : Nat → Heap → Nat → KVs
  | 0, _, _ => []
  | f + 1, h, a => readEntries (readObj f h) (cellAt h a)

/-- a value as stored into a dict object by `self._config[key] = value` -/
def matVal (h : Heap) : Val → Heap × HVal
  | .leaf x => (h, .leaf x)
  | .dict t => let r := matDict FUEL h t; (r.1, .ref r.2)

/-- a stored value read back -/
def readVal (h : Heap) : HVal → Val
  | .leaf x => .leaf x
  | .ref a => .dict (readObj FUEL h a)

/-! ### the configuration with its cache -/

structure CState where
  cfg : Cfg := {}
  heap : Heap := []
  root : Nat := 0
  deriving Repr

/-- `Config.merge()`: the cache is rebuilt from the levels as fresh objects -/
def rebuild (s : CState) : Except CErr CState :=
  match s.cfg.view with
  | .error e => .error e
  | .ok v => let r := matDict FUEL s.heap v; .ok { s with heap := r.1, root := r.2 }

def CState.new (c : Cfg) : Except CErr CState := rebuild { cfg := c }

/-- what the object reads as (the deep view through a proxy on it) -/
def CState.viewAt (s : CState) (a : Nat) : KVs := readObj FUEL s.heap a
def CState.view (s : CState) : KVs := s.viewAt s.root

/-- `DataProxy._get` along a key path: the ADDRESS of the section reached -/
def navH (h : Heap) (a : Nat) : List Step → Except CErr Nat
  | [] => .ok a
  | (k, attr) :: rest => match lookupH k (cellAt h a) with
    | none => .error (navErr attr)
    | some (.leaf _) => .error (.typ "nav-leaf")
    | some (.ref b) => navH h b rest

/-- `self._config[key] = value` on the captured object, then `root._modify(keypath, key, value)` -/
def setAt (s : CState) (a : Nat) (pre : List Key) (k : Key) (v : Val) : Except CErr CState :=
  let m := matVal s.heap v
  let h1 := setD m.1 a (insertH k m.2 (cellAt m.1 a))
  match s.cfg.modify (pre ++ [k]) v with
  | .error e => .error e
  | .ok c' => rebuild { s with cfg := c', heap := h1 }

/-- `del self._config[key]` on the captured object, then `root._remove(keypath, key)`; `_remove` returns
    without re-merging when an ancestor is already marked deleted -/
def delAt (s : CState) (a : Nat) (pre : List Key) (k : Key) : Except CErr CState :=
  let h1 := setD s.heap a (eraseH k (cellAt s.heap a))
  if leafOnWay s.cfg.dels (pre ++ [k]) then .ok { s with heap := h1 }
  else match s.cfg.remove (pre ++ [k]) with
    | .error e => .error e
    | .ok c' => rebuild { s with cfg := c', heap := h1 }

def keysH (d : HDict) : List Key := d.map Prod.fst

def lastKeyH : HDict → Option Key
  | [] => none
  | [(k, _)] => some k
  | _ :: rest => lastKeyH rest

def setAllAt (s : CState) (a : Nat) (pre : List Key) : KVs → Except CErr CState
  | [] => .ok s
  | (k, v) :: rest => match setAt s a pre k v with
    | .error e => .error e
    | .ok s' => setAllAt s' a pre rest

def delAllAt (s : CState) (a : Nat) (pre : List Key) : List Key → Except CErr CState
  | [] => .ok s
  | k :: rest => match delAt s a pre k with
    | .error e => .error e
    | .ok s' => delAllAt s' a pre rest

def withOutC (o : Out) (r : Except CErr CState) : Except CErr (CState × Out) :=
  match r with | .error e => .error e | .ok s => .ok (s, o)

/-- one `DataProxy` operation on the proxy whose data is the object at `a` and whose key path is `pre` -/
def applyAt (s : CState) (a : Nat) (pre : List Key) (op : Op) : Except CErr (CState × Out) :=
  let d := cellAt s.heap a
  match op with
  | .getItem k => (match lookupH k d with | none => .error (.key "get") | some x => .ok (s, .val (readVal s.heap x)))
  | .getAttr k => (match lookupH k d with | none => .error (.attr "get") | some x => .ok (s, .val (readVal s.heap x)))
  | .get k => (match lookupH k d with | none => .ok (s, .none) | some x => .ok (s, .val (readVal s.heap x)))
  | .setItem k x => withOutC .none (setAt s a pre k x)
  | .setAttr k x => withOutC .none (setAt s a pre k x)
  | .delItem k => (match lookupH k d with
      | none => .error (.key "del") | some _ => withOutC .none (delAt s a pre k))
  | .delAttr k => (match lookupH k d with
      | none => .error (.attr "del") | some _ => withOutC .none (delAt s a pre k))
  | .pop k dflt => (match lookupH k d, dflt with
      | some x, _ => withOutC (.val (readVal s.heap x)) (delAt s a pre k)
      | none, some dv => .ok (s, .val dv)
      | none, none => .error (.key "pop"))
  | .popitem chosen =>
      (match (match chosen with | some k => some k | none => lastKeyH d) with
       | none => .error (.key "popitem")
       | some k => (match lookupH k d with
          | none => .error (.key "popitem")
          | some x => withOutC (.pair k (readVal s.heap x)) (delAt s a pre k)))
  | .clear => withOutC .none (delAllAt s a pre (keysH d))
  | .setdefault k dflt => (match lookupH k d with
      | some x => .ok (s, .val (readVal s.heap x))
      | none =>
        let dv := match dflt with | some dv => dv | none => .leaf .none
        withOutC (.val dv) (setAt s a pre k dv))
  | .update pos kw =>
      (match setAllAt s a pre (match pos with | some m => m | none => []) with
       | .error e => .error e
       | .ok s' => withOutC .none (setAllAt s' a pre kw))
  | .contains k => .ok (s, .bool (lookupH k d).isSome)
  | .len => .ok (s, .nat d.length)
  | .keys => .ok (s, .keys (keysH d))
  | .items => .ok (s, .val (.dict (readObj FUEL s.heap a)))

/-- an operation through a proxy freshly navigated from the root -/
def applyRoot (s : CState) (path : List Step) (op : Op) : Except CErr (CState × Out) :=
  match navH s.heap s.root path with
  | .error e => .error e
  | .ok a => applyAt s a (path.map Prod.fst) op

/-- a held proxy: the object captured when it was obtained, and its key path -/
structure Handle where
  addr : Nat
  pre : List Key
  deriving Repr

/-- `h = cfg.a.b…` -/
def hold (s : CState) (path : List Step) : Except CErr Handle :=
  match navH s.heap s.root path with
  | .error e => .error e
  | .ok a => .ok ⟨a, path.map Prod.fst⟩

/-- an operation through a held proxy - whatever happened to the configuration since it was obtained -/
def applyHandle (s : CState) (hd : Handle) (op : Op) : Except CErr (CState × Out) :=
  applyAt s hd.addr hd.pre op

/-- reloads -/
def loadC (s : CState) (sl : Slot) (data : KVs) : Except CErr CState :=
  rebuild { s with cfg := s.cfg.set sl data }

def loadUnmergedC (s : CState) (sl : Slot) (data : KVs) : CState := { s with cfg := s.cfg.set sl data }

def shellEnvC (s : CState) (environ : List (List Char × List Char)) : Except CErr CState :=
  match s.cfg.loadShellEnv environ with
  | .error e => .error e
  | .ok c' => rebuild { s with cfg := c' }

def cloneC (s : CState) (into : KVs) : Except CErr CState :=
  match s.cfg.clone into with
  | .error e => .error e
  | .ok c' => CState.new c'

end Inv.Cache
