import Invoke.Model.Val
/-! A minimal HEAP model of the copy / merge / journal functions of `invoke.config` (C11).

    Dict objects live at `Nat` addresses; a dict value is a leaf (immutable: `copy.copy`'d scalars and
    lists) or a reference to another dict object.  Each cell carries a GHOST owner tag that no function
    reads: `src` for dict objects belonging to data handed to a configuration (levels, collection
    settings), `own` for objects the configuration allocated itself (cache, modifications, deletion
    marks, copies) and for values written through it.  Everything is built from two primitives,
    `alloc` (fresh address = current heap size) and `setD` (replace the dict stored at an address). -/
namespace Inv.Heap
open Inv

inductive Owner | src | own
  deriving DecidableEq, Repr

inductive HVal
  | leaf (l : Leaf)
  | ref (a : Nat)
  deriving DecidableEq, Repr

abbrev HDict := List (Key × HVal)

structure Cell where
  owner : Owner
  d : HDict
  deriving DecidableEq, Repr

abbrev Heap := List Cell

def cellAt (h : Heap) (a : Nat) : HDict := match h[a]? with | some c => c.d | none => []
def ownerAt (h : Heap) (a : Nat) : Owner := match h[a]? with | some c => c.owner | none => .own

/-- a fresh dict object owned by the configuration -/
def alloc (h : Heap) (d : HDict) : Heap × Nat := (h ++ [⟨.own, d⟩], h.length)

/-- replace the dict stored at `a` (in-place mutation of that object) -/
def setD (h : Heap) (a : Nat) (d : HDict) : Heap :=
  match h[a]? with
  | some c => h.set a { c with d := d }
  | none => h

def lookupH (k : Key) : HDict → Option HVal
  | [] => none
  | (k', v) :: r => if k = k' then some v else lookupH k r

def insertH (k : Key) (v : HVal) : HDict → HDict
  | [] => [(k, v)]
  | (k', v') :: r => if k = k' then (k, v) :: r else (k', v') :: insertH k v r

def eraseH (k : Key) : HDict → HDict
  | [] => []
  | (k', v') :: r => if k = k' then r else (k', v') :: eraseH k r

/-! ### `copy_dict` -/

def copyEntries (cp : Heap → Nat → Heap × Nat) (h : Heap) : HDict → Heap × HDict
  | [] => (h, [])
  | (k, .leaf x) :: rest => let r := copyEntries cp h rest; (r.1, (k, .leaf x) :: r.2)
  | (k, .ref b) :: rest =>
    let c := cp h b
    let r := copyEntries cp c.1 rest
    (r.1, (k, .ref c.2) :: r.2)

/-- `copy_dict(source)`: a fresh object graph (children first, then the dict itself) -/
def hcopy : Nat → Heap → Nat → Heap × Nat
  | 0, h, _ => alloc h []
  | f + 1, h, a => let r := copyEntries (hcopy f) h (cellAt h a); alloc r.1 r.2

/-! ### `merge_dicts(base, updates)` mutating `base` in place -/

/-- the heap after handling one update entry -/
def mergeOne (mg : Heap → Nat → Nat → Heap) (cp : Heap → Nat → Heap × Nat) (h : Heap) (b : Nat) (k : Key) (v : HVal) : Heap :=
  match v with
  | .leaf x => setD h b (insertH k (.leaf x) (cellAt h b))
  | .ref uc => match lookupH k (cellAt h b) with
    | some (.ref bc) => mg h bc uc
    | _ => let c := cp h uc; setD c.1 b (insertH k (.ref c.2) (cellAt c.1 b))

def mergeEntries (mg : Heap → Nat → Nat → Heap) (cp : Heap → Nat → Heap × Nat) (h : Heap) (b : Nat) : HDict → Heap
  | [] => h
  | (k, v) :: rest => mergeEntries mg cp (mergeOne mg cp h b k v) b rest

def hmerge : Nat → Heap → Nat → Nat → Heap
  | 0, h, _, _ => h
  | f + 1, h, b, u => mergeEntries (hmerge f) (hcopy f) h b (cellAt h u)

/-! ### `obliterate`, `excise`, the `_modify` / `_remove` walks -/

def oblOne (ob : Heap → Nat → Nat → Heap) (h : Heap) (b : Nat) (k : Key) (v : HVal) : Heap :=
  match v with
  | .leaf _ => setD h b (eraseH k (cellAt h b))
  | .ref dd => match lookupH k (cellAt h b) with
    | some (.ref bc) => ob h bc dd
    | _ => h

def oblEntries (ob : Heap → Nat → Nat → Heap) (h : Heap) (b : Nat) : HDict → Heap
  | [] => h
  | (k, v) :: rest => oblEntries ob (oblOne ob h b k v) b rest

def hobl : Nat → Heap → Nat → Nat → Heap
  | 0, h, _, _ => h
  | f + 1, h, b, d => oblEntries (hobl f) h b (cellAt h d)

def hexcise (h : Heap) (d : Nat) : List Key → Heap
  | [] => h
  | [k] => setD h d (eraseH k (cellAt h d))
  | k :: k2 :: rest => match lookupH k (cellAt h d) with
    | some (.ref dd) => hexcise h dd (k2 :: rest)
    | _ => h

/-- `data[subkey] = {}` on the way, `data[key] = value` at the end (the value is stored BY REFERENCE) -/
def hsetPath (h : Heap) (m : Nat) : List Key → HVal → Heap
  | [], _ => h
  | [k], v => setD h m (insertH k v (cellAt h m))
  | k :: k2 :: rest, v => match lookupH k (cellAt h m) with
    | some (.ref mm) => hsetPath h mm (k2 :: rest) v
    | _ =>
      let a := alloc h []
      hsetPath (setD a.1 m (insertH k (.ref a.2) (cellAt a.1 m))) a.2 (k2 :: rest) v

def hmarkDel (h : Heap) (d : Nat) : List Key → Heap
  | [] => h
  | [k] => setD h d (insertH k (.leaf .none) (cellAt h d))
  | k :: k2 :: rest => match lookupH k (cellAt h d) with
    | some (.leaf _) => h
    | some (.ref dd) => hmarkDel h dd (k2 :: rest)
    | none =>
      let a := alloc h []
      hmarkDel (setD a.1 d (insertH k (.ref a.2) (cellAt a.1 d))) a.2 (k2 :: rest)

/-! ### the configuration object on the heap -/

structure HCfg where
  levels : List Nat   -- addresses of the lower-level dicts, in merge order (caller-held data)
  mods : Nat
  dels : Nat
  cache : Nat
  deriving DecidableEq, Repr

def mergeLevelsH (f : Nat) (h : Heap) (cache : Nat) : List Nat → Heap
  | [] => h
  | l :: ls => mergeLevelsH f (hmerge f h cache l) cache ls

/-- `Config.merge()`: a fresh cache, every level and the modifications merged into it, deletions applied -/
def HCfg.merge (f : Nat) (h : Heap) (c : HCfg) : Heap × HCfg :=
  let a := alloc h []
  let h1 := mergeLevelsH f a.1 a.2 (c.levels ++ [c.mods])
  (hobl f h1 a.2 c.dels, { c with cache := a.2 })

/-- `Config._modify(keypath, key, value)` -/
def HCfg.modify (f : Nat) (h : Heap) (c : HCfg) (p : List Key) (v : HVal) : Heap × HCfg :=
  HCfg.merge f (hsetPath (hexcise h c.dels p) c.mods p v) c

/-- `Config._remove(keypath, key)` -/
def HCfg.remove (f : Nat) (h : Heap) (c : HCfg) (p : List Key) : Heap × HCfg :=
  HCfg.merge f (hmarkDel h c.dels p) c

end Inv.Heap
