/-! # Model for C15 (second half) — the command handed to the shell: `cd` / `prefix` stacks and `sudo`

Literal model of `Context.cwd`, `Context._prefix_commands`, the `cd` / `prefix` context managers
(push; body; `finally: pop`), and the command string built by `Context._sudo`.
Strings are `List Char`.  A block program is a `Prog` in continuation style (statement, then the rest),
with `raise e` / `catch` for exceptional exits of every kind `e` (incl. the non-`Exception` `BaseException`s).
A block held open by a suspended generator and left by `close()` is the same `cd`/`pfx` constructor: `close()` throws
`GeneratorExit` at the `yield` inside the block, the `finally` pops, and `close()` swallows the exception. -/
namespace Inv

abbrev Str := List Char

/-! ## strings -/

def joinWith (sep : Str) : List Str → Str
  | [] => []
  | [x] => x
  | x :: y :: rest => x ++ sep ++ joinWith sep (y :: rest)

/-- `path.replace(" ", "\\ ")` -/
def escapeSpaces : Str → Str
  | [] => []
  | c :: rest => if c = ' ' then '\\' :: ' ' :: escapeSpaces rest else c :: escapeSpaces rest

/-- `path.startswith("~") or path.startswith("/")` -/
def startsAbs : Str → Bool
  | c :: _ => c == '~' || c == '/'
  | [] => false

def startsSlash : Str → Bool
  | c :: _ => c == '/'
  | [] => false

def endsSlash : Str → Bool
  | [] => false
  | [c] => c == '/'
  | _ :: rest => endsSlash rest

/-- one step of `posixpath.join` -/
def join2 (path b : Str) : Str :=
  if startsSlash b then b
  else if path.isEmpty || endsSlash path then path ++ b
  else path ++ '/' :: b

def pathJoinFrom (path : Str) : List Str → Str
  | [] => path
  | b :: rest => pathJoinFrom (join2 path b) rest

/-- `os.path.join(*paths)` (paths non-empty) -/
def pathJoin : List Str → Str
  | [] => []
  | a :: rest => pathJoinFrom a rest

/-- the sub-list starting with the LAST path that begins with `~` or `/` (the whole list if there is none):
    `for i, path in reversed(list(enumerate(cwds))): if abs: break` then `cwds[i:]` -/
def fromLastAbs : List Str → List Str
  | [] => []
  | p :: rest => if rest.any startsAbs then fromLastAbs rest else p :: rest

/-- `Context.cwd` -/
def cwdOf (cwds : List Str) : Str :=
  if cwds.isEmpty then [] else pathJoin ((fromLastAbs cwds).map escapeSpaces)

structure Ctx where
  prefixes : List Str      -- command_prefixes
  cwds : List Str          -- command_cwds
  deriving DecidableEq, Repr

def Ctx.cwd (c : Ctx) : Str := cwdOf c.cwds

/-- the `cd …` element, present iff the current directory is non-empty -/
def cdPrefix (c : Ctx) : List Str := if c.cwd.isEmpty then [] else ["cd ".toList ++ c.cwd]

/-- `Context._prefix_commands` -/
def prefixCommands (c : Ctx) (command : Str) : Str :=
  joinWith " && ".toList (cdPrefix c ++ c.prefixes ++ [command])

/-! ## sudo -/

structure SudoCfg where
  prompt : Str
  user : Option Str          -- sudo.user
  password : Option Str      -- sudo.password
  deriving DecidableEq, Repr

/-- `kwargs.pop(name, config value)`: presence of the kwarg decides -/
def popKw (kwarg : Option (Option Str)) (configured : Option Str) : Option Str :=
  match kwarg with
  | some v => v
  | none => configured

def userFlags : Option Str → Str
  | none => []
  | some u => "-H -u ".toList ++ u ++ " ".toList

def envFlags (names : List Str) : Str :=
  if names.isEmpty then [] else "--preserve-env='".toList ++ joinWith ",".toList names ++ "' ".toList

/-- the command string `_sudo` hands to `runner.run` (`command` is already prefixed) -/
def sudoCommand (prompt : Str) (user : Option Str) (envNames : List Str) (command : Str) : Str :=
  "sudo -S -p '".toList ++ prompt ++ "' ".toList ++ envFlags envNames ++ userFlags user ++ command

/-- what the auto-responder writes: `"{}\n".format(password)` -/
def sudoResponse : Option Str → Str
  | none => "None\n".toList
  | some p => p ++ ['\n']

/-! ## block programs -/

/-- how a block is left exceptionally.  Python's `finally` runs for EVERY kind, including the `BaseException`s that
    are not `Exception`s: `KeyboardInterrupt`, `SystemExit`, and the `GeneratorExit` thrown into a generator that is
    closed while it is suspended inside the block; `failure` = the `Failure` raised by a failing command -/
inductive ExcKind | exception | keyboardInterrupt | systemExit | generatorExit | failure
  deriving DecidableEq, Repr

inductive Prog
  | done
  | run (cmd : Str) (k : Prog)
  | sudo (cmd : Str) (userKw : Option (Option Str)) (envNames : List Str) (k : Prog)
  | obs (k : Prog)                          -- observe the two stacks
  | raise (e : ExcKind)                     -- an exception of kind e is raised here
  | cd (path : Str) (body : Prog) (k : Prog)      -- `with c.cd(path): body` ; k
  | pfx (p : Str) (body : Prog) (k : Prog)        -- `with c.prefix(p): body` ; k
  | catch (body : Prog) (k : Prog)                -- `try: body  except BaseException: pass` ; k
  deriving Repr

inductive Ev
  | ran (command : Str)
  | stacks (prefixes cwds : List Str)
  deriving DecidableEq, Repr

structure ExecOut where
  ctx : Ctx
  log : List Ev
  raised : Option ExcKind        -- the exception that escapes, if any
  deriving DecidableEq, Repr

def pushCwd (c : Ctx) (p : Str) : Ctx := { c with cwds := c.cwds ++ [p] }
def popCwd (c : Ctx) : Ctx := { c with cwds := c.cwds.dropLast }
def pushPrefix (c : Ctx) (p : Str) : Ctx := { c with prefixes := c.prefixes ++ [p] }
def popPrefix (c : Ctx) : Ctx := { c with prefixes := c.prefixes.dropLast }

/-- sequencing after a block whose `finally` has already run (`ctxAfter`): an exception in the block skips
    the rest (`rest` = outcome of the rest started from `ctxAfter`) -/
def seqOut (body : ExecOut) (ctxAfter : Ctx) (rest : ExecOut) : ExecOut :=
  match body.raised with
  | some e => { ctx := ctxAfter, log := body.log, raised := some e }
  | none => { ctx := rest.ctx, log := body.log ++ rest.log, raised := rest.raised }

def exec (s : SudoCfg) (c : Ctx) : Prog → ExecOut
  | .done => { ctx := c, log := [], raised := none }
  | .raise e => { ctx := c, log := [], raised := some e }
  | .run cmd k =>
    let r := exec s c k
    { ctx := r.ctx, log := .ran (prefixCommands c cmd) :: r.log, raised := r.raised }
  | .sudo cmd userKw envNames k =>
    let r := exec s c k
    { ctx := r.ctx, log := .ran (sudoCommand s.prompt (popKw userKw s.user) envNames (prefixCommands c cmd)) :: r.log,
      raised := r.raised }
  | .obs k =>
    let r := exec s c k
    { ctx := r.ctx, log := .stacks c.prefixes c.cwds :: r.log, raised := r.raised }
  | .cd path body k =>
    let b := exec s (pushCwd c path) body
    seqOut b (popCwd b.ctx) (exec s (popCwd b.ctx) k)            -- `finally: self.command_cwds.pop()`
  | .pfx p body k =>
    let b := exec s (pushPrefix c p) body
    seqOut b (popPrefix b.ctx) (exec s (popPrefix b.ctx) k)      -- `finally: self.command_prefixes.pop()`
  | .catch body k =>
    let b := exec s c body
    let r := exec s b.ctx k
    { ctx := r.ctx, log := b.log ++ r.log, raised := r.raised }

/-- `ps` nested `prefix` blocks (outermost first) around `inner` -/
def nestPrefixes : List Str → Prog → Prog
  | [], inner => inner
  | p :: ps, inner => .pfx p (nestPrefixes ps inner) .done

/-- nested `cd` blocks (outermost first) around `inner` -/
def nestCds : List Str → Prog → Prog
  | [], inner => inner
  | p :: ps, inner => .cd p (nestCds ps inner) .done

end Inv
