/-! Byte-stream decoding as a state machine (`codecs` incremental decoders), and the UTF-8 /
    `errors="replace"` machine reproducing CPython's maximal-subpart replacement rule. -/
namespace Inv
abbrev Byte := Nat     -- 0..255 (bounds are irrelevant for the theorems)

structure Decoder where
  σ : Type
  init : σ
  feed : σ → Byte → σ × List Char
  flush : σ → List Char

namespace Decoder
/-- run the machine over bytes, returning final state and output -/
def run (D : Decoder) : D.σ → List Byte → D.σ × List Char
  | s, [] => (s, [])
  | s, b :: bs =>
    let (s1, o1) := D.feed s b
    let (s2, o2) := run D s1 bs
    (s2, o1 ++ o2)

/-- `bytes.decode(enc, "replace")` of the whole stream -/
def decodeWhole (D : Decoder) (bs : List Byte) : List Char :=
  let (s, o) := D.run D.init bs
  o ++ D.flush s

/-- one decoder per stream, state carried across reads: `Runner.read_proc_output` -/
def runChunks (D : Decoder) : D.σ → List (List Byte) → D.σ × List Char
  | s, [] => (s, [])
  | s, c :: cs =>
    let (s1, o1) := D.run s c
    let (s2, o2) := runChunks D s1 cs
    (s2, o1 ++ o2)
def decodeIncremental (D : Decoder) (chunks : List (List Byte)) : List Char :=
  let (s, o) := D.runChunks D.init chunks
  o ++ D.flush s

/-- one decoder, state carried across reads, NEVER flushed: `Runner.read_our_stdin` (at end of input the handler closes
    the command's stdin; bytes of a character the stream ended in the middle of are dropped, not replaced) -/
def decodeUnflushed (D : Decoder) (chunks : List (List Byte)) : List Char := (D.runChunks D.init chunks).2

/-- a fresh decoder per read (what the code did before the repair) -/
def decodePerChunk (D : Decoder) (chunks : List (List Byte)) : List Char :=
  (chunks.map D.decodeWhole).flatten
end Decoder

/-- CPython's UTF-8 decoder with errors="replace" as a byte-at-a-time machine -/
structure U8 where
  need : Nat := 0
  lo : Nat := 0x80
  hi : Nat := 0xBF
  acc : Nat := 0
  deriving DecidableEq, Repr

def repl : Char := Char.ofNat 0xFFFD
def u8start (b : Byte) : U8 × List Char :=
  if b < 0x80 then ({}, [Char.ofNat b])
  else if 0xC2 ≤ b ∧ b ≤ 0xDF then ({ need := 1, acc := b % 32 }, [])
  else if b = 0xE0 then ({ need := 2, lo := 0xA0, acc := b % 16 }, [])
  else if (0xE1 ≤ b ∧ b ≤ 0xEC) ∨ (0xEE ≤ b ∧ b ≤ 0xEF) then ({ need := 2, acc := b % 16 }, [])
  else if b = 0xED then ({ need := 2, hi := 0x9F, acc := b % 16 }, [])
  else if b = 0xF0 then ({ need := 3, lo := 0x90, acc := b % 8 }, [])
  else if 0xF1 ≤ b ∧ b ≤ 0xF3 then ({ need := 3, acc := b % 8 }, [])
  else if b = 0xF4 then ({ need := 3, hi := 0x8F, acc := b % 8 }, [])
  else ({}, [repl])
def u8feed (s : U8) (b : Byte) : U8 × List Char :=
  if s.need = 0 then u8start b
  else if s.lo ≤ b ∧ b ≤ s.hi then
    let acc := s.acc * 64 + b % 64
    if s.need = 1 then ({}, [Char.ofNat acc]) else ({ need := s.need - 1, acc := acc }, [])
  else
    let (s', o) := u8start b
    (s', repl :: o)
def u8flush (s : U8) : List Char := if s.need = 0 then [] else [repl]
def utf8 : Decoder := { σ := U8, init := {}, feed := u8feed, flush := u8flush }

/-- Latin-1: every byte is a character (a stateless decoder, for contrast) -/
def latin1 : Decoder := { σ := Unit, init := (), feed := fun _ b => ((), [Char.ofNat b]), flush := fun _ => [] }

end Inv
