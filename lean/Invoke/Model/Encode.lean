import Invoke.Model.Decode
/-! Text-to-bytes encoding as a state machine (`codecs` incremental encoders): what `Runner.write_proc_stdin` does
    to every piece of input it forwards.  A code point is a `Nat`; only encodable text is modelled (lone surrogates
    make CPython's strict encoders raise, which the runner does not catch - the correspondence generates none). -/
namespace Inv

structure Encoder where
  σ : Type
  init : σ
  feed : σ → Nat → σ × List Byte

namespace Encoder
/-- run the machine over code points, returning final state and output -/
def run (E : Encoder) : E.σ → List Nat → E.σ × List Byte
  | s, [] => (s, [])
  | s, c :: cs =>
    let (s1, o1) := E.feed s c
    let (s2, o2) := run E s1 cs
    (s2, o1 ++ o2)

/-- `text.encode(enc)` of the whole text (empty text: nothing - see `Props/C13`, the runner never calls the encoder
    for an empty input) -/
def encodeWhole (E : Encoder) (cs : List Nat) : List Byte := (E.run E.init cs).2

/-- one encoder per run, state carried across the forwarded pieces: `Runner.write_proc_stdin` as repaired -/
def runPieces (E : Encoder) : E.σ → List (List Nat) → E.σ × List Byte
  | s, [] => (s, [])
  | s, p :: ps =>
    let (s1, o1) := E.run s p
    let (s2, o2) := runPieces E s1 ps
    (s2, o1 ++ o2)
def encodeIncremental (E : Encoder) (pieces : List (List Nat)) : List Byte := (E.runPieces E.init pieces).2

/-- every piece encoded on its own (`data.encode(self.encoding)` per call: the code before the repair) -/
def encodePerPiece (E : Encoder) (pieces : List (List Nat)) : List Byte := (pieces.map E.encodeWhole).flatten

/-- an encoder whose output for a code point does not depend on what came before -/
def Stateless (E : Encoder) : Prop := ∀ s c, (E.feed s c).2 = (E.feed E.init c).2
end Encoder

/-- UTF-8 bytes of one code point (< 0x110000) -/
def u8bytes (c : Nat) : List Byte :=
  if c < 0x80 then [c]
  else if c < 0x800 then [0xC0 + c / 64, 0x80 + c % 64]
  else if c < 0x10000 then [0xE0 + c / 4096, 0x80 + c / 64 % 64, 0x80 + c % 64]
  else [0xF0 + c / 262144, 0x80 + c / 4096 % 64, 0x80 + c / 64 % 64, 0x80 + c % 64]

/-- UTF-16 little-endian code units of one code point -/
def u16bytes (c : Nat) : List Byte :=
  if c < 0x10000 then [c % 256, c / 256]
  else
    let v := c - 0x10000
    let hi := 0xD800 + v / 1024
    let lo := 0xDC00 + v % 1024
    [hi % 256, hi / 256, lo % 256, lo / 256]

/-- `utf-8`: stateless -/
def utf8enc : Encoder := { σ := Unit, init := (), feed := fun _ c => ((), u8bytes c) }
/-- `latin-1` (code points < 256): stateless -/
def latin1enc : Encoder := { σ := Unit, init := (), feed := fun _ c => ((), [c]) }
/-- `utf-16` (native little-endian): a byte-order mark before the FIRST code point of the stream, then code units;
    the state is "mark already written" -/
def utf16enc : Encoder :=
  { σ := Bool, init := false, feed := fun started c => (true, (if started then [] else [0xFF, 0xFE]) ++ u16bytes c) }
/-- `utf-8-sig`: the UTF-8 signature before the first code point of the stream -/
def utf8sigenc : Encoder :=
  { σ := Bool, init := false, feed := fun started c => (true, (if started then [] else [0xEF, 0xBB, 0xBF]) ++ u8bytes c) }

end Inv
