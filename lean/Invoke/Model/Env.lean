import Invoke.Model.Val
import Invoke.Generated.Env
/-! `invoke.env.Environment`: which environment variables override which settings, and how the string is cast.

    `crawl` is `Environment._crawl` (literal: variable names are collected subtree by subtree and a name that
    was already produced by an earlier sibling subtree is refused), `castLeaf` is `Environment._cast` with its
    branch order taken from the table REGENERATED from the repository (`Generated.envCastOrder`), `loadEnv` is
    `Environment.load` (the result is the content of the `env` configuration level).
    Keys and values are ASCII (`str.upper`, `int(str)` are modelled for ASCII only). -/
namespace Inv

/-- `str.upper` on one ASCII character -/
def upperChar (c : Char) : Char :=
  if 97 ≤ c.toNat ∧ c.toNat ≤ 122 then Char.ofNat (c.toNat - 32) else c

/-- `"_".join(key_path)` -/
def joinUnderscore : List Key → List Char
  | [] => []
  | [k] => k
  | k :: k2 :: rest => k ++ '_' :: joinUnderscore (k2 :: rest)

/-- `Environment._to_env_var` -/
def envVarName (p : List Key) : List Char := (joinUnderscore p).map upperChar

/-- VAR ↦ key path, in dict (insertion) order -/
abbrev Vars := List (List Char × List Key)

def varNames (m : Vars) : List (List Char) := m.map Prod.fst

def hasVarName (m : Vars) (e : List Char × List Key) : Bool := (varNames m).contains e.1

/-- `for key in crawled: if key in new_vars: raise` -/
def clash (crawled acc : Vars) : Bool := crawled.any (hasVarName acc)

def varsOf (ps : List (List Key)) : Vars := ps.map (fun p => (envVarName p, p))

/-- `Environment._crawl` on the dict at `path` (`acc` = `new_vars` so far) -/
def crawl (path : List Key) : KVs → Vars → Except CErr Vars
  | [], acc => .ok acc
  | (k, .leaf _) :: rest, acc =>
    if clash [(envVarName (path ++ [k]), path ++ [k])] acc then .error .ambiguousEnv
    else crawl path rest (acc ++ [(envVarName (path ++ [k]), path ++ [k])])
  | (k, .dict d) :: rest, acc =>
    match crawl (path ++ [k]) d [] with
    | .error e => .error e
    | .ok cr => if clash cr acc then .error .ambiguousEnv else crawl path rest (acc ++ cr)

/-! ### `int(str)` for ASCII strings -/

/-- the ASCII characters `int()` strips from both ends: space, \t \n \v \f \r -/
def isPySpace (c : Char) : Bool :=
  c.toNat == 32 || (9 ≤ c.toNat && c.toNat ≤ 13)

def dropSpaces : List Char → List Char
  | [] => []
  | c :: r => if isPySpace c then dropSpaces r else c :: r

def stripSpaces (s : List Char) : List Char := (dropSpaces (dropSpaces s).reverse).reverse

def isAsciiDigit (c : Char) : Bool := 48 ≤ c.toNat && c.toNat ≤ 57

/-- decimal digits with single underscores allowed between digits; `prev` = the previous character was a digit -/
def digitsVal : List Char → Nat → Bool → Option Nat
  | [], acc, prev => if prev then some acc else none
  | c :: r, acc, prev =>
    if isAsciiDigit c then digitsVal r (acc * 10 + (c.toNat - 48)) true
    else if c == '_' && prev then digitsVal r acc false
    else none

def signedVal : List Char → Option Int
  | '-' :: r => (digitsVal r 0 false).map (fun n => - (Int.ofNat n))
  | '+' :: r => (digitsVal r 0 false).map Int.ofNat
  | r => (digitsVal r 0 false).map Int.ofNat

/-- `int(s)` (base 10): `none` = `ValueError` -/
def pyInt (s : List Char) : Option Int := signedVal (stripSpaces s)

/-! ### `Environment._cast` -/

/-- `new not in ("0", "")` -/
def envTruthy (s : List Char) : Bool := !(s == [] || s == ['0'])

/-- `old.__class__(new)`, the fallback branch -/
def classCall : Leaf → List Char → Except CErr Leaf
  | .b _, s => .ok (.b (!s.isEmpty))
  | .i _, s => match pyInt s with
    | some n => .ok (.i n)
    | none => .error (.value "int()")
  | .s _, s => .ok (.s s)
  | .none, _ => .error (.typ "NoneType()")
  | .l _, s => .ok (.l (s.map fun c => [c]))
  | .obj t, _ => .ok (.obj t)   -- opaque class: result not modelled

/-- does the branch of `_cast` named `tag` accept a setting whose current value is `old`? -/
def branchApplies (old : Leaf) (tag : String) : Bool :=
  if tag == "bool" then (match old with | .b _ => true | _ => false)
  else if tag == "str" then (match old with | .s _ => true | _ => false)
  else if tag == "none" then (match old with | .none => true | _ => false)
  else if tag == "seq" then (match old with | .l _ => true | _ => false)
  else tag == "other"

def runBranch (tag : String) (old : Leaf) (s : List Char) : Except CErr Leaf :=
  if tag == "bool" then .ok (.b (envTruthy s))
  else if tag == "str" then .ok (.s s)
  else if tag == "none" then .ok (.s s)
  else if tag == "seq" then .error .uncastable
  else classCall old s

/-- the `if / elif` chain: the first branch (in `order`) that applies is taken -/
def castWith (order : List String) (old : Leaf) (s : List Char) : Except CErr Leaf :=
  match order.find? (branchApplies old) with
  | some tag => runBranch tag old s
  | none => .error (.typ "no cast branch")

/-- `Environment._cast(old, new)` with the branch order of the repository -/
def castLeaf (old : Leaf) (s : List Char) : Except CErr Leaf := castWith Generated.envCastOrder old s

/-! ### `Environment.load` -/

/-- `os.environ` -/
abbrev Environ := List (List Char × List Char)

def lookupEnv (name : List Char) : Environ → Option (List Char)
  | [] => none
  | (n, v) :: r => if name = n then some v else lookupEnv name r

/-- the loop of `load`: every crawled variable that is set in the environment is cast by the type of the
    setting it names and written into the (initially empty) result at that setting's path -/
def applyVars (pre : List Char) (environ : Environ) (c : KVs) : Vars → KVs → Except CErr KVs
  | [], data => .ok data
  | (var, p) :: rest, data =>
    match lookupEnv (pre ++ var) environ with
    | none => applyVars pre environ c rest data
    | some s =>
      match getLeaf p c with
      | none => .error (.key "_path_get")
      | some old =>
        match castLeaf old s with
        | .error e => .error e
        | .ok new => applyVars pre environ c rest (setLeaf p new data)

/-- `Environment(config, prefix).load()` -/
def loadEnv (pre : List Char) (environ : Environ) (c : KVs) : Except CErr KVs :=
  match crawl [] c [] with
  | .error e => .error e
  | .ok vars => applyVars pre environ c vars []

/-! ### specification vocabulary (used by the theorems of C16) -/

/-- the variable names of the leaf paths below `path`, in dict order -/
def leafVarNames (path : List Key) (kvs : KVs) : List (List Char) := (leafPaths path kvs).map envVarName

/-- no two leaf paths share a name, and none of the names was produced before -/
def NoClash (names : List (List Char)) (acc : Vars) : Prop :=
  names.Nodup ∧ ∀ v ∈ names, v ∉ varNames acc

instance (names : List (List Char)) (acc : Vars) : Decidable (NoClash names acc) := by
  unfold NoClash; infer_instance

/-- is the variable `pre ++ envVarName p` set in the environment? -/
def envNames (pre : List Char) (environ : Environ) (p : List Key) : Bool :=
  (lookupEnv (pre ++ envVarName p) environ).isSome

/-- what `_path_set` computes for the setting at `p` from the string `s`: `_cast(_path_get(p), s)` -/
def castAt (c : KVs) (p : List Key) (s : List Char) : Except CErr Leaf :=
  match getLeaf p c with
  | none => .error (.key "_path_get")
  | some old => castLeaf old s

end Inv
