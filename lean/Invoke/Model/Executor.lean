/-! Model of `invoke.executor.Executor` (`normalize`, `expand_calls`, `dedupe`, `execute`) and of the
    equality it rests on (`invoke.tasks.Call.__eq__`, `Task.__eq__`).

    Acyclic pre/post graphs are unfolded into finite trees: a `TaskT` carries its identity `id` (one per
    `Task` OBJECT), its *dictionary key* `key` (what `Task.__hash__` and `Task.__eq__` together identify: the
    name and the very body function object - two `Task` objects wrapping one function under one name share
    it, even with different pre/post lists), its *equality class* `cls` (what `Task.__eq__` compares: the name and the code object of the body - two
    distinct task objects made by one factory function have the same class) and its pre/post lists,
    whose members are calls `(task, arguments)`.  A plain task reference in a pre/post list is the call
    with no arguments (`expand_calls` turns it into `Call(task)`), `call(t, *a, **kw)` carries `(a, kw)`.

    Keyword arguments are association lists compared *extensionally* (`kwEq`), as Python compares
    dicts; positional arguments are compared as tuples. -/
namespace Inv.Exec

abbrev Name := List Char

/-- argument values.  All the executor ever does with an argument is compare it with `==` (through
    `Call.__eq__`) and pass it on, so a value is modelled by its EQUALITY CLASS: the correspondence check
    numbers the values of a case by Python `==` (`1`, `1.0` and `True` are one class; two equal lists
    built separately are one class; every NaN object is a class of its own) and sends the numbers as
    `int`s.  Whether a value is hashable is NOT part of the model - equality is; an executor that treats
    equal unhashable arguments differently from equal hashable ones disagrees with the model.
    `compound` is there to write compound values (a list, dict, set … given by a kind and the classes
    of its parts) in examples. -/
inductive AVal | int (i : Int) | str (s : List Char) | compound (kind : Nat) (parts : List Int)
  deriving DecidableEq, Repr

abbrev KW := List (Name × AVal)

/-- the literal arguments a `Call` carries: `Call.args`, `Call.kwargs` -/
structure CArgs where
  pos : List AVal
  kw : KW
  deriving DecidableEq, Repr

def noArgs : CArgs := ⟨[], []⟩

inductive TaskT where
  | mk (id : Nat) (key : Nat) (cls : Nat) (pre post : List (TaskT × CArgs))

abbrev CallT := TaskT × CArgs

def TaskT.id : TaskT → Nat | .mk i _ _ _ _ => i
def TaskT.key : TaskT → Nat | .mk _ k _ _ _ => k
def TaskT.cls : TaskT → Nat | .mk _ _ c _ _ => c
def TaskT.pre : TaskT → List CallT | .mk _ _ _ p _ => p
def TaskT.post : TaskT → List CallT | .mk _ _ _ _ p => p

/-- one invocation of a task body: which task, with which literal arguments -/
structure Occ where
  id : Nat
  key : Nat
  cls : Nat
  args : CArgs
  deriving DecidableEq, Repr

def occ (c : CallT) : Occ := ⟨c.1.id, c.1.key, c.1.cls, c.2⟩

/-! ### `expand_calls` -/

mutual
/-- one call: its task's pre-tasks (recursively), the call itself, its task's post-tasks -/
def expandCall : TaskT → CArgs → List Occ
  | .mk id key cls pre post, a => expand pre ++ ⟨id, key, cls, a⟩ :: expand post
/-- `Executor.expand_calls`.  The expansion follows the pre/post lists of the task OBJECTS; whether a task is
    registered in the executor's collection plays no role (only requested names are looked up there), so a
    helper task that is in no collection is expanded and run like any other, and a dependency chain may be
    arbitrarily deeper than the collection is large. -/
def expand : List CallT → List Occ
  | [] => []
  | (t, a) :: cs => expandCall t a ++ expand cs
end

/-! ### `Call.__eq__` -/

def lookup (k : Name) : KW → Option AVal
  | [] => none
  | (k', v) :: r => if k' = k then some v else lookup k r

def keys (a : KW) : List Name := a.map Prod.fst

def sameAt (a b : KW) (k : Name) : Bool := lookup k a == lookup k b

/-- Python `dict.__eq__` on keyword dicts: the same keys with the same values, in any order -/
def kwEq (a b : KW) : Bool := (keys a ++ keys b).all (sameAt a b)

def argsEq (a b : CArgs) : Bool := a.pos == b.pos && kwEq a.kw b.kw

/-- `Call.__eq__` BEFORE the repair (DESIGN §4 #22/#30): `task` (`Task.__eq__`: name and code object,
    i.e. `cls`) and the LITERAL `args`, `kwargs`; `called_as` is not compared -/
def callEqPinned (c d : Occ) : Bool := c.cls == d.cls && argsEq c.args d.args

/-! ### `dedupe` -/

/-- `d == c` seen from the list member `d` -/
def eqvTo {α} (eqv : α → α → Bool) (c d : α) : Bool := eqv d c

/-- `call in deduped` -/
def isSeen {α} (eqv : α → α → Bool) (c : α) (kept : List α) : Bool := kept.any (eqvTo eqv c)

/-- the loop of `Executor.dedupe`; `kept` is the list built so far -/
def dedupeFrom {α} (eqv : α → α → Bool) (kept : List α) : List α → List α
  | [] => []
  | c :: cs => if isSeen eqv c kept then dedupeFrom eqv kept cs else c :: dedupeFrom eqv (kept ++ [c]) cs

def dedupeBy {α} (eqv : α → α → Bool) (l : List α) : List α := dedupeFrom eqv [] l

/-- `Executor.dedupe` with the pre-repair equality -/
def dedupePinned (l : List Occ) : List Occ := dedupeBy callEqPinned l

/-! ### `normalize` -/

/-- the three request forms all end as `Call(collection[name], kwargs=kwargs, called_as=name)`
    (names: no kwargs; pairs: the given kwargs; parser contexts: `as_kwargs`); an empty request
    means the default task if there is one -/
def reqCall (r : TaskT × KW) : CallT := (r.1, ⟨[], r.2⟩)

def normalize (dflt : Option TaskT) (req : List (TaskT × KW)) : List CallT :=
  match req with
  | [] => (match dflt with | some t => [(t, noArgs)] | none => [])
  | _ :: _ => req.map reqCall

/-! ### the returned mapping -/

def insertKV (k v : Nat) : List (Nat × Nat) → List (Nat × Nat)
  | [] => [(k, v)]
  | (k', v') :: r => if k' = k then (k, v) :: r else (k', v') :: insertKV k v r

def lookupKV (k : Nat) : List (Nat × Nat) → Option Nat
  | [] => none
  | (k', v) :: r => if k' = k then some v else lookupKV k r

/-- `results[call.task] = result` for each executed call (a dict keyed by `Task`: `key`); the result of the `i`-th execution is
    represented by `i` (the bodies return pairwise different values) -/
def runResults (i : Nat) (acc : List (Nat × Nat)) : List Occ → List (Nat × Nat)
  | [] => acc
  | o :: os => runResults (i + 1) (insertKV o.key i acc) os

/-! ### effective (bound) arguments -/

/-- a parameter after the context: name and default (`none` = required) -/
structure Param where
  name : Name
  dflt : Option AVal
  deriving DecidableEq, Repr

/-- the value parameter number `i` receives: positional, else keyword, else default (`none` = missing) -/
def bindOne (a : CArgs) (i : Nat) (p : Param) : Option AVal :=
  match a.pos[i]? with
  | some v => some v
  | none => (match lookup p.name a.kw with | some v => some v | none => p.dflt)

def bindFrom (a : CArgs) : Nat → List Param → List (Option AVal)
  | _, [] => []
  | i, p :: ps => bindOne a i p :: bindFrom a (i + 1) ps

/-- the arguments the body sees -/
def bind (sig : List Param) (a : CArgs) : List (Option AVal) := bindFrom a 0 sig

/-- "same task, same effective arguments" for signatures of plain parameters only (used for the theorem
    about the pre-repair rule) -/
def effEqPlain (sig : Nat → List Param) (c d : Occ) : Bool :=
  c.id == d.id && bind (sig c.id) c.args == bind (sig d.id) d.args

/-- two calls spell out the same parameters: as many positionals and the same keyword names -/
def hasKey (b : KW) (k : Name) : Bool := (keys b).contains k
def subKeys (a b : KW) : Bool := (keys a).all (hasKey b)

def sameSpelling (c d : Occ) : Bool :=
  c.args.pos.length == d.args.pos.length && subKeys c.args.kw d.args.kw && subKeys d.args.kw c.args.kw

/-! ### signatures with `*rest`, keyword-only parameters and `**kw` -/

/-- the parameters after the context: positional-or-keyword ones, keyword-only ones, and whether the
    body takes `*rest` / `**kw` -/
structure Sig where
  pk : List Param
  ko : List Param
  varPos : Bool
  varKw : Bool
  deriving Repr

/-- a signature of plain parameters -/
def Sig.plain (l : List Param) : Sig := ⟨l, [], false, false⟩

def Sig.named (s : Sig) : List Param := s.pk ++ s.ko

def paramNames (sig : List Param) : List Name := sig.map Param.name

/-- what the body receives: one slot per named parameter (`none` = still missing), the extra positionals
    (`*rest`) and the extra keywords (`**kw`); this determines `(bound.args[1:], bound.kwargs)` and vice
    versa -/
structure Bound where
  slots : List (Option AVal)
  extraPos : List AVal
  extraKw : KW
  deriving Repr

def notNamed (s : Sig) (kv : Name × AVal) : Bool := !(paramNames s.named).contains kv.1

/-- `bind_partial(None, *args, **kwargs)` + `apply_defaults()` -/
def bindS (s : Sig) (a : CArgs) : Bound :=
  ⟨bind s.named ⟨a.pos.take s.pk.length, a.kw⟩, a.pos.drop s.pk.length, a.kw.filter (notNamed s)⟩

def boundEq (a b : Bound) : Bool :=
  a.slots == b.slots && a.extraPos == b.extraPos && kwEq a.extraKw b.extraKw

/-- a keyword is accepted: it names a positional-or-keyword parameter not already filled positionally, or
    a keyword-only parameter, or it names no parameter at all and the body takes `**kw` -/
def kwAccepted (s : Sig) (a : CArgs) (k : Name) : Bool :=
  (paramNames (s.pk.drop a.pos.length ++ s.ko)).contains k ||
    (s.varKw && !(paramNames s.named).contains k)

/-- `inspect.signature(body).bind_partial(None, *args, **kwargs)` succeeds -/
def wellCalled (s : Sig) (a : CArgs) : Bool :=
  (s.varPos || decide (a.pos.length ≤ s.pk.length)) && (keys a.kw).all (kwAccepted s a)

/-! ### `Call.__eq__` (as repaired): equal tasks and equal EFFECTIVE arguments -/

/-- `Call._effective_arguments()`: the bound arguments with defaults applied, or the literal
    `(args, kwargs)` when binding raises `TypeError` -/
inductive Eff
  | bound (b : Bound)
  | literal (a : CArgs)
  deriving Repr

def effArgs (s : Sig) (a : CArgs) : Eff :=
  if wellCalled s a then .bound (bindS s a) else .literal a

def effArgsEq : Eff → Eff → Bool
  | .bound a, .bound b => boundEq a b
  | .literal a, .literal b => argsEq a b
  | _, _ => false

/-- `Call.__eq__`: `task` (`Task.__eq__`: name and code object, i.e. `cls`) and the effective arguments;
    `called_as` is not compared.  `sig` gives each task's signature (after the context) -/
def callEq (sig : Nat → Sig) (c d : Occ) : Bool :=
  c.cls == d.cls && effArgsEq (effArgs (sig c.id) c.args) (effArgs (sig d.id) d.args)

/-- "same task, same effective arguments" -/
def effEq (sig : Nat → Sig) (c d : Occ) : Bool :=
  c.id == d.id && boundEq (bindS (sig c.id) c.args) (bindS (sig d.id) d.args)

/-- `Executor.dedupe` -/
def dedupe (sig : Nat → Sig) (l : List Occ) : List Occ := dedupeBy (callEq sig) l

/-! ### `execute` -/

/-- the list of calls that are executed, in order -/
def runLog (sig : Nat → Sig) (dd : Bool) (dflt : Option TaskT) (req : List (TaskT × KW)) : List Occ :=
  if dd then dedupe sig (expand (normalize dflt req)) else expand (normalize dflt req)

/-- `Executor.execute`: the run log and the returned mapping (task dictionary key ↦ index of the execution
    whose return value is stored) -/
def execute (sig : Nat → Sig) (dd : Bool) (dflt : Option TaskT) (req : List (TaskT × KW)) :
    List Occ × List (Nat × Nat) :=
  (runLog sig dd dflt req, runResults 0 [] (runLog sig dd dflt req))

end Inv.Exec
