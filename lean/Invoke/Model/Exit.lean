import Invoke.Generated.Runner
/-! # Model for C05 — exit status, return vs raise, the program's own exit status

Literal models of
* `Local.returncode` (pty branch: `os.WIFEXITED / WEXITSTATUS / WIFSIGNALED / WTERMSIG` as arithmetic),
* `Result.ok`,
* the decision tail of `Runner._finish` (`_collate_result` + the ordered `raise`s); the ORDER in which the
  failure causes are examined is the parameter `order`, instantiated with `Generated.finishRaiseOrder`,
* `Promise.join` (asynchronous path),
* `Exit.code` and the exception → exit-status mapping of `Program.run` (over `Generated.exitCodeMap`).

ASSUMPTION (not verified, validated against the running kernel by the harness on every run): the Linux
wait-status layout `encodeWait` — exit code in bits 8..15, terminating signal in bits 0..6, core flag in
bit 7. -/
namespace Inv
open Generated

/-- how a child process ended -/
inductive ProcExit
  | exited (code : Nat)
  | signaled (sig : Nat) (core : Bool)
  deriving DecidableEq, Repr

/-- ASSUMPTION: Linux wait-status layout (what `os.waitpid` hands to `Local`) -/
def encodeWait : ProcExit → Nat
  | .exited c => (c % 256) * 256
  | .signaled s core => s % 128 + (if core then 128 else 0)

/-- `os.WTERMSIG(st)` = `st & 0x7f` -/
def wtermsig (st : Nat) : Nat := st % 128
/-- `os.WIFEXITED(st)` = `WTERMSIG(st) == 0` -/
def wifexited (st : Nat) : Bool := wtermsig st == 0
/-- `os.WEXITSTATUS(st)` = `(st & 0xff00) >> 8` -/
def wexitstatus (st : Nat) : Nat := (st / 256) % 256
/-- `os.WIFSIGNALED(st)` = `((signed char)((st & 0x7f) + 1) >> 1) > 0`, i.e. the low 7 bits are neither 0 nor 0x7f -/
def wifsignaled (st : Nat) : Bool := decide (0 < wtermsig st) && decide (wtermsig st < 127)

/-- `Local.returncode()` with `using_pty`: literal -/
def returncodePty (st : Nat) : Option Int :=
  if wifexited st then some (Int.ofNat (wexitstatus st))
  else if wifsignaled st then some (-1 * Int.ofNat (wtermsig st))
  else none

/-- the status `subprocess.Popen.returncode` reports (non-pty branch): modelled, not verified -/
def returncodePopen : ProcExit → Int
  | .exited c => Int.ofNat (c % 256)
  | .signaled s _ => -(Int.ofNat s)

/-- the part of `Result` the property talks about; `payload` stands for everything else the result carries
    (stdout, stderr, command, shell, env, pty, hide, encoding) -/
structure Res where
  exited : Option Int
  payload : Nat
  deriving DecidableEq, Repr

/-- `Result.ok` : `bool(self.exited == 0)` -/
def Res.ok (r : Res) : Bool := r.exited == some 0
/-- `Result.failed` -/
def Res.failed (r : Res) : Bool := !r.ok

/-- what `_finish` sees after the worker threads are joined -/
structure FinIn where
  threadExns : Nat          -- worker-thread exceptions other than WatcherError
  watcherErrs : Nat         -- WatcherErrors raised in the worker threads
  timeoutSet : Bool         -- opts["timeout"] is not None
  timerFired : Bool         -- Runner.timed_out
  code : Int                -- what returncode() reports
  warn : Bool
  payload : Nat
  deriving DecidableEq, Repr

inductive Decision
  | raiseThread (n : Nat)          -- ThreadException(thread_exceptions)
  | raiseFailure (r : Res)         -- Failure(result, reason = watcher_errors[0])
  | raiseTimedOut (r : Res)        -- CommandTimedOut(result, timeout)
  | raiseUnexpected (r : Res)      -- UnexpectedExit(result)
  | ret (r : Res)
  deriving DecidableEq, Repr

/-- `_collate_result`: `exited = None if watcher_errors else self.returncode()` -/
def collate (i : FinIn) : Res :=
  { exited := if i.watcherErrs > 0 then none else some i.code, payload := i.payload }

def timedOut (i : FinIn) : Bool := i.timeoutSet && i.timerFired

/-- the guard of each `raise` in `_finish` -/
def fires (i : FinIn) : Cause → Bool
  | .thread => decide (i.threadExns > 0)
  | .watcher => decide (i.watcherErrs > 0)
  | .timeout => timedOut i
  | .exit => !((collate i).ok || i.warn)

def raiseOf (i : FinIn) : Cause → Decision
  | .thread => .raiseThread i.threadExns
  | .watcher => .raiseFailure (collate i)
  | .timeout => .raiseTimedOut (collate i)
  | .exit => .raiseUnexpected (collate i)

/-- the guards are examined in `order`; the first one that fires raises, otherwise the result is returned -/
def finishDecision (order : List Cause) (i : FinIn) : Decision :=
  match order with
  | [] => .ret (collate i)
  | c :: rest => if fires i c then raiseOf i c else finishDecision rest i

/-- synchronous `run`: `_run_body` ends in `self._finish()` -/
def runSync (i : FinIn) : Decision := finishDecision finishRaiseOrder i

/-- asynchronous `run` hands out a promise holding the runner … -/
structure Promise where
  pending : FinIn
def makePromise (i : FinIn) : Promise := ⟨i⟩
/-- … and `Promise.join` is `self.runner._finish()` -/
def Promise.join (p : Promise) : Decision := finishDecision finishRaiseOrder p.pending

def Decision.returnsNormally : Decision → Bool
  | .ret _ => true
  | _ => false

def Decision.result? : Decision → Option Res
  | .raiseThread _ => none
  | .raiseFailure r | .raiseTimedOut r | .raiseUnexpected r | .ret r => some r

def Decision.kind : Decision → FinKind
  | .raiseThread _ => .threadException
  | .raiseFailure _ => .failure
  | .raiseTimedOut _ => .commandTimedOut
  | .raiseUnexpected _ => .unexpectedExit
  | .ret _ => .returned

/-- the row of the probed truth table as a `FinIn` (non-zero exit = 7, as in the probe) -/
def probeIn (k : Bool × Bool × Bool × Bool × Bool) : FinIn :=
  { threadExns := if k.1 then 1 else 0, watcherErrs := if k.2.1 then 1 else 0, timeoutSet := true,
    timerFired := k.2.2.1, code := if k.2.2.2.1 then 7 else 0, warn := k.2.2.2.2, payload := 0 }

def probeOut (d : Decision) : FinKind × Bool :=
  (d.kind, match d.result? with | some r => r.exited.isNone | none => false)

/-! ## the program's own exit status -/

/-- `Exit.code`: the explicit code, else 1 if a message was given, else 0 -/
def exitObjCode (code : Option Int) (hasMessage : Bool) : Int :=
  match code with
  | some c => c
  | none => if hasMessage then 1 else 0

/-- how `Program.run` ended, with the code the exception carries -/
inductive ProgOutcome
  | success
  | unexpectedExit (exited : Int)
  | exit (code : Option Int) (hasMessage : Bool)
  | parseError
  deriving DecidableEq, Repr

def ProgOutcome.kind : ProgOutcome → ProgKind
  | .success => .success
  | .unexpectedExit _ => .unexpectedExit
  | .exit _ _ => .exit
  | .parseError => .parseError

def ProgOutcome.carried : ProgOutcome → Int
  | .unexpectedExit e => e
  | .exit c m => exitObjCode c m
  | _ => 0

def ruleFor (m : List (ProgKind × ExitRule)) (k : ProgKind) : Option ExitRule :=
  match m with
  | [] => none
  | (k', r) :: rest => if k' = k then some r else ruleFor rest k

/-- exit status of the program (`none`: the table has no rule for this way of ending) -/
def programExit (m : List (ProgKind × ExitRule)) (o : ProgOutcome) : Option Int :=
  match ruleFor m o.kind with
  | none => none
  | some (.const n) => some n
  | some .carried => some o.carried

end Inv
