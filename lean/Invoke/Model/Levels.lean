import Invoke.Model.Val
import Invoke.Model.Env
import Invoke.Generated.Config
/-! The nine configuration levels of `invoke.config.Config` and the merged view.

    `view` is `Config.merge` without the deletions step (deletions belong to C06): the levels are
    merged, in the order REGENERATED from the repository (`Generated.mergeOrder`), onto an empty dict.
    `viewE` is the same fold with the raising `merge_dicts`.  File discovery (`_load_file`) and the
    load bookkeeping (found flags, one slot per level, cache recomputed by every load) are modelled by
    `loadFirst` and `LoadSt`. -/
namespace Inv

inductive Level
  | defaults | collection | system | user | project | env | runtime | overrides | modifications
  deriving DecidableEq, Repr

def Level.all : List Level :=
  [.defaults, .collection, .system, .user, .project, .env, .runtime, .overrides, .modifications]

def Level.name : Level → String
  | .defaults => "defaults" | .collection => "collection" | .system => "system" | .user => "user"
  | .project => "project" | .env => "env" | .runtime => "runtime" | .overrides => "overrides"
  | .modifications => "modifications"

def Level.hasName (s : String) (l : Level) : Bool := l.name == s

def Level.ofName (s : String) : Option Level := Level.all.find? (Level.hasName s)

/-- the merge order of the real `Config.merge`, as regenerated from the repository -/
def mergeOrder : List Level := Generated.mergeOrder.filterMap Level.ofName

/-- contents of the nine levels -/
abbrev Levels := Level → KVs

def Levels.set (L : Levels) (l : Level) (d : KVs) : Levels := fun x => if x = l then d else L x

def Levels.empty : Levels := fun _ => []

/-- the setting `p` as level `l` defines it -/
def leafAt (L : Levels) (p : List Key) (l : Level) : Option Leaf := getLeaf p (L l)

/-- is `p` a section of level `l`? -/
def secAt (L : Levels) (p : List Key) (l : Level) : Bool := isSec p (L l)

/-- one step of `Config.merge`: `merge_dicts(self._config, self._<level>)`, total version -/
def mergeLevel (L : Levels) (acc : KVs) (l : Level) : KVs := mergeT acc (L l)

/-- the same step with the raising `merge_dicts` -/
def mergeLevelE (L : Levels) (acc : Except CErr KVs) (l : Level) : Except CErr KVs :=
  match acc with
  | .error e => .error e
  | .ok a => mergeKVs a (L l)

def viewOf (order : List Level) (L : Levels) : KVs := order.foldl (mergeLevel L) []

def viewOfE (order : List Level) (L : Levels) : Except CErr KVs := order.foldl (mergeLevelE L) (.ok [])

/-- the merged configuration (`Config._config` after `merge()`, no deletions recorded) -/
def view (L : Levels) : KVs := viewOf mergeOrder L

/-- the same through the raising `merge_dicts` (what the code literally does) -/
def viewE (L : Levels) : Except CErr KVs := viewOfE mergeOrder L

/-- type consistency of an assignment of trees to the levels (the property's quantifier): every level is a
    well-formed nested dict, and any two levels agree on which paths are sections and which are leaves -/
def TypeConsistent (L : Levels) : Prop := (∀ l, WF (L l)) ∧ ∀ l l', Compat (L l) (L l')

def allWfB (L : Levels) (l : Level) : Bool := wfB (L l)
def allCompatB (L : Levels) (l : Level) : Bool := Level.all.all (fun l' => compatB (L l) (L l'))

/-- executable `TypeConsistent` (sound: `typeConsistentB_sound`) -/
def typeConsistentB (L : Levels) : Bool := Level.all.all (allWfB L) && Level.all.all (allCompatB L)

/-! ### file discovery: `Config._load_file` -/

/-- the loop over candidate paths: the first suffix whose file exists is read, the rest is never looked at
    (`fs s` = parsed content of `<prefix>.<s>` when that file exists) -/
def loadFirst (fs : String → Option KVs) : List String → Option (String × KVs)
  | [] => none
  | s :: rest => match fs s with
    | some d => some (s, d)
    | none => loadFirst fs rest

def fileExists (fs : String → Option KVs) (s : String) : Bool := (fs s).isSome

/-- the file read for one location -/
def chosenFile (fs : String → Option KVs) : Option (String × KVs) := loadFirst fs Generated.fileSuffixes

/-! ### load bookkeeping -/

/-- `Config` as far as loading is concerned: one slot per level, the tri-state `_<level>_found` flags of the
    file-backed levels, and the merged cache `_config` -/
structure LoadSt where
  slots : Levels
  found : Level → Option Bool
  cache : KVs

def LoadSt.init : LoadSt := { slots := Levels.empty, found := fun _ => none, cache := [] }

def setFound (f : Level → Option Bool) (l : Level) (b : Option Bool) : Level → Option Bool :=
  fun x => if x = l then b else f x

/-- `load_defaults / load_collection / load_overrides (data)` and the net effect of attribute writes on the
    modifications level: the slot is replaced and the cache re-merged from ALL slots -/
def LoadSt.load (c : LoadSt) (l : Level) (d : KVs) : LoadSt :=
  { c with slots := c.slots.set l d, cache := view (c.slots.set l d) }

/-- `load_system / load_user / load_project / load_runtime`: a no-op once loading was attempted; otherwise the
    first existing candidate file is read (`none`: no candidate exists, remembered as found = False) -/
def LoadSt.loadFile (c : LoadSt) (l : Level) (fs : String → Option KVs) : LoadSt :=
  match c.found l with
  | some _ => c
  | none => match chosenFile fs with
    | none => { c with found := setFound c.found l (some false) }
    | some (_, d) => { slots := c.slots.set l d, found := setFound c.found l (some true),
                       cache := view (c.slots.set l d) }

/-- a sequence of data loads -/
def LoadSt.loads (c : LoadSt) : List (Level × KVs) → LoadSt
  | [] => c
  | (l, d) :: rest => (c.load l d).loads rest

/-- `load_shell_env`: the env level left by an earlier load is dropped, what the OTHER levels hold is merged, THAT
    view is crawled for the settings the environment may override, the result becomes the env level, merge again -/
def LoadSt.loadShellEnv (c : LoadSt) (pre : List Char) (environ : Environ) : Except CErr LoadSt :=
  match loadEnv pre environ (view (c.slots.set .env [])) with
  | .error e => .error e
  | .ok ev => .ok (c.load .env ev)

/-- the rule before the repair (`fix: load_shell_env no longer lets a previous environment load keep settings …`):
    the pre-merge still contained the env level of the previous load -/
def LoadSt.loadShellEnvPinned (c : LoadSt) (pre : List Char) (environ : Environ) : Except CErr LoadSt :=
  match loadEnv pre environ (view c.slots) with
  | .error e => .error e
  | .ok ev => .ok (c.load .env ev)

/-- `set_runtime_path(None)` / `set_project_location(None)` followed by `load_runtime()` / `load_project()`: the
    setter resets the slot and clears the found flag, the load finds no location and re-merges -/
def LoadSt.unload (c : LoadSt) (l : Level) : LoadSt :=
  { slots := c.slots.set l [], found := setFound c.found l none, cache := view (c.slots.set l []) }

/-- the rule before the repair (`fix: loading a file level whose location was unset re-merges …`): the load
    returned early WITHOUT re-merging, the cache kept showing the old content until the next merge -/
def LoadSt.unloadPinned (c : LoadSt) (l : Level) : LoadSt :=
  { c with slots := c.slots.set l [], found := setFound c.found l none }

/-- `load_*(…, merge=False)`: the slot is replaced, the merged cache is NOT recomputed (it stays as it was until
    something merges) -/
def LoadSt.loadUnmerged (c : LoadSt) (l : Level) (d : KVs) : LoadSt :=
  { c with slots := c.slots.set l d }

/-- `Config.merge()` -/
def LoadSt.remerge (c : LoadSt) : LoadSt := { c with cache := view c.slots }

end Inv
