/-! Model of `invoke.loader.FilesystemLoader.find` and `Loader.load`.

    Paths are lists of components below the filesystem root (`[]` is `/`).  The filesystem is given by
    two functions, `ls` (`os.listdir`: `none` = `FileNotFoundError`) and `ex` (`os.path.exists`).

    `find` is literal: `paths = os.path.abspath(start).split(os.sep)`; for `x = len(paths) … 0` the
    candidate directory is `os.sep.join(paths[0:x]) or (os.sep if x else "")`: the one-component slice
    `[""]` denotes the root directory `/` and is searched (repair of DESIGN §4 #25 "root"), the empty
    slice is the empty string, `os.listdir("")` raises `FileNotFoundError`, which `find` turns into
    `CollectionNotFound`.  Consequently the walk never ends normally (`return None` is unreachable).
    When the start directory is `/` itself (`"/".split("/") = ["", ""]`) the root is listed twice. -/
namespace Inv.Loader

abbrev Name := List Char
abbrev Path := List Name

structure FS where
  ls : Path → Option (List Name)
  ex : Path → Bool

/-! ### `os.path.abspath` (POSIX): `normpath(join(cwd, start))` -/

def dotdot : Name := ['.', '.']

/-- one component of `normpath`: empty and `.` vanish, `..` drops the last component (stays at the root) -/
def normStep (acc : Path) (c : Name) : Path :=
  if c = [] ∨ c = ['.'] then acc else if c = dotdot then acc.dropLast else acc ++ [c]

/-- `raw` = `start.split("/")`, `isAbs` = `start.startswith("/")`; `cwd` is already normal -/
def absPath (cwd : Path) (isAbs : Bool) (raw : List Name) : Path :=
  raw.foldl normStep (if isAbs then [] else cwd)

/-! ### the upward walk -/

/-- `os.path.abspath(start).split("/")` for a normal absolute path -/
def splitParts (p : Path) : List Name := if p = [] then [[], []] else [] :: p

/-- `"/".join(parts) or ("/" if parts else "")` read back as a directory: `none` is the empty string -/
def joinDir : List Name → Option Path
  | [] => none
  | [[]] => some []
  | [[], []] => some []
  | [] :: rest => some rest
  | _ :: _ => none

/-- the rule BEFORE the repair (`"/".join(parts)` alone): the slice `[""]` is the empty string too -/
def joinDirPinned : List Name → Option Path
  | [] => none
  | [[]] => none
  | [[], []] => some []
  | [] :: rest => some rest
  | _ :: _ => none

/-- the slices `paths[0:x]` for `x = len … 0`, given the REVERSED list -/
def slicesDown : List Name → List (List Name)
  | [] => [[]]
  | c :: r => (c :: r).reverse :: slicesDown r

/-- the directories visited, in order (`none` = the empty path string) -/
def walkDirs (p : Path) : List (Option Path) := (slicesDown (splitParts p).reverse).map joinDir

inductive FindR
  | module (dir : Path)      -- `dir/name.py`
  | package (dir : Path)     -- `dir/name/__init__.py`
  | notFound                 -- `CollectionNotFound`
  | noSpec                   -- `find` returned `None` (then `load` raises `ImportError`)
  deriving DecidableEq, Repr

def pyFile (name : Name) : Name := name ++ ['.', 'p', 'y']
def initPy : Name := ['_', '_', 'i', 'n', 'i', 't', '_', '_', '.', 'p', 'y']

/-- the loop body of `find` over the remaining candidate directories -/
def findFrom (fs : FS) (name : Name) : List (Option Path) → FindR
  | [] => .noSpec
  | none :: _ => .notFound
  | some d :: rest =>
    match fs.ls d with
    | none => .notFound
    | some es =>
      if es.contains (pyFile name) then .module d
      else if es.contains name && fs.ex (d ++ [name, initPy]) then .package d
      else findFrom fs name rest

/-- the behaviour BEFORE the repair (DESIGN §4 #25): `paths = start.split("/")` without `abspath`;
    a non-empty relative join is resolved by the OS against the working directory -/
def joinRel (cwd : Path) (parts : List Name) : Option Path :=
  if parts.all (fun c => c = []) then none else some (parts.foldl normStep cwd)

/-- `find` BEFORE the root repair: the root directory was only listed when it was the start itself -/
def findPinnedRoot (fs : FS) (cwd : Path) (isAbs : Bool) (raw : List Name) (name : Name) : FindR :=
  findFrom fs name ((slicesDown (splitParts (absPath cwd isAbs raw)).reverse).map joinDirPinned)

def findPinnedRel (fs : FS) (cwd : Path) (raw : List Name) (name : Name) : FindR :=
  findFrom fs name ((slicesDown raw.reverse).map (joinRel cwd))

/-- `FilesystemLoader(start).find(name)` -/
def find (fs : FS) (cwd : Path) (isAbs : Bool) (raw : List Name) (name : Name) : FindR :=
  findFrom fs name (walkDirs (absPath cwd isAbs raw))

/-- does directory `d` contain a module or package called `name`? -/
def hasCandidate (fs : FS) (name : Name) (d : Path) : Bool :=
  match fs.ls d with
  | none => false
  | some es => es.contains (pyFile name) || (es.contains name && fs.ex (d ++ [name, initPy]))

/-! ### `Loader.load` -/

structure Loaded where
  file : Path        -- `module.__file__` (`spec.origin`)
  sysPath : Path     -- the directory inserted into `sys.path` (`enclosing_dir`)
  parent : Path      -- the returned project directory (`module_parent`)
  deriving DecidableEq, Repr

inductive LoadR
  | ok (l : Loaded)
  | collectionNotFound
  | importError
  deriving DecidableEq, Repr

/-- `source_file.parent`, and one more `.parent` when `spec.parent` is non-empty (a package) -/
def load (name : Name) : FindR → LoadR
  | .module d => .ok ⟨d ++ [pyFile name], (d ++ [pyFile name]).dropLast, (d ++ [pyFile name]).dropLast⟩
  | .package d => .ok ⟨d ++ [name, initPy], (d ++ [name, initPy]).dropLast, (d ++ [name, initPy]).dropLast.dropLast⟩
  | .notFound => .collectionNotFound
  | .noSpec => .importError

/-- `FilesystemLoader(start=…).load(name)` -/
def loadFrom (fs : FS) (cwd : Path) (isAbs : Bool) (raw : List Name) (name : Name) : LoadR :=
  load name (find fs cwd isAbs raw name)

/-! ### one `FilesystemLoader` OBJECT used several times (histories)

    The object stores only what it was constructed with (`_start`: the `start` argument, else
    `config.tasks.search_root`, possibly nothing).  The `start` property is `self._start or os.getcwd()`,
    evaluated at every use: a loader without explicit start searches from the working directory current
    AT THE TIME OF THE CALL.  The process state a call depends on is the working directory and the filesystem. -/

structure LoaderObj where
  start : Option (Bool × List Name)     -- explicit start: (`startswith("/")`, `split("/")`)

/-- the `start` property read while the working directory is `cwd` (`os.getcwd()` is absolute and normal) -/
def LoaderObj.startAt (l : LoaderObj) (cwd : Path) : Bool × List Name :=
  match l.start with
  | some s => s
  | none => (true, [] :: cwd)

/-- `loader.find(name)` / `loader.load(name)` called while the working directory is `cwd` -/
def LoaderObj.findAt (l : LoaderObj) (fs : FS) (cwd : Path) (name : Name) : FindR :=
  find fs cwd (l.startAt cwd).1 (l.startAt cwd).2 name

def LoaderObj.loadAt (l : LoaderObj) (fs : FS) (cwd : Path) (name : Name) : LoadR :=
  load name (l.findAt fs cwd name)

structure World where
  fs : FS
  cwd : Path

/-- what happens to / with one loader object over time -/
inductive LStep where
  | chdir (p : Path)         -- `os.chdir`
  | setFs (fs : FS)          -- files appear / disappear
  | load (name : Name)       -- `loader.load(name)` (or `find`)
  | readStart                -- `loader.start` is read (e.g. by a debug line)

/-- the process state after one step; using the loader changes nothing -/
def LStep.after (w : World) : LStep → World
  | .chdir p => { w with cwd := p }
  | .setFs fs => { w with fs := fs }
  | .load _ => w
  | .readStart => w

def worldAfter (w : World) (steps : List LStep) : World := steps.foldl LStep.after w

/-- the answers of the `load` calls of a history on ONE loader object, in order -/
def runLoader (l : LoaderObj) : World → List LStep → List LoadR
  | _, [] => []
  | w, .load name :: r => l.loadAt w.fs w.cwd name :: runLoader l w r
  | w, s :: r => runLoader l (s.after w) r

/-! ### a finite layout as a filesystem (used by the driver and the examples) -/

abbrev Layout := List (Path × List Name)

def lsOf (lay : Layout) (p : Path) : Option (List Name) :=
  match lay with
  | [] => none
  | (d, es) :: r => if d = p then some es else lsOf r p

/-- a path exists when it is a listed directory or its parent lists its last component -/
def exOf (lay : Layout) (p : Path) : Bool :=
  (lsOf lay p).isSome ||
    (match p.getLast? with
     | none => true
     | some b => (match lsOf lay p.dropLast with | some es => es.contains b | none => false))

def fsOf (lay : Layout) : FS := ⟨lsOf lay, exOf lay⟩

end Inv.Loader
