/-! Prototype (round 0) of the argv state-machine model: invoke/parser/parser.py + argument.py + context.py.
    Tokens/names/values are `List Char`. Differentially validated against the real Parser. -/
namespace Inv
abbrev Tok := List Char

inductive Kind | str | int | bool | list deriving DecidableEq, Repr

inductive PVal
  | none | s (v : Tok) | i (v : Int) | b (v : Bool) | l (v : List Tok)
  deriving DecidableEq, Repr

structure ArgSpec where
  names : List Tok
  kind : Kind := .str
  default : PVal := .none
  positional : Bool := false
  optional : Bool := false
  incrementable : Bool := false
  attrName : Option Tok := none
  deriving Repr

structure Arg where
  spec : ArgSpec
  raw : Option PVal      -- raw_value (none = Python None)
  val : PVal             -- _value   (PVal.none = Python None)
  deriving Repr

def Arg.init (sp : ArgSpec) : Arg :=
  let iv : PVal := if sp.incrementable then sp.default else if sp.kind = .list then .l [] else .none
  { spec := sp, raw := (if iv = .none then none else some iv), val := iv }

def Arg.takesValue (a : Arg) : Bool := !(a.spec.kind = .bool) && !a.spec.incrementable
def Arg.value (a : Arg) : PVal := if a.val = .none then a.spec.default else a.val

inductive Err
  | parse (kind : String) (detail : Tok)
  | other (cls : String) (site : String)
  | fuel
  deriving Repr, DecidableEq

def digitsToNat (cs : List Char) : Nat := cs.foldl (fun n c => 10 * n + (c.toNat - '0'.toNat)) 0
/-- the ASCII characters CPython's `int(str)` strips from both ends (C `isspace`) -/
def isPySpace (c : Char) : Bool :=
  c = ' ' || c = '\t' || c = '\n' || c = '\r' || c = Char.ofNat 11 || c = Char.ofNat 12

def stripPySpace (s : Tok) : Tok := ((s.dropWhile isPySpace).reverse.dropWhile isPySpace).reverse

/-- decimal digits with single underscores BETWEEN digits (`1_000`; not `_1`, `1_`, `1__0`): the digits, underscores removed.
    `prev` = the previous character was a digit. -/
def pyDigits? : Bool → List Char → Option (List Char)
  | prev, [] => if prev then some [] else none
  | prev, c :: r =>
    if c.isDigit then (pyDigits? true r).map (c :: ·)
    else if c = '_' && prev then pyDigits? false r
    else none

/-- optional sign directly before the digits: (negative?, rest) -/
def splitSign : Tok → Bool × Tok
  | '-' :: r => (true, r)
  | '+' :: r => (false, r)
  | r => (false, r)

/-- the ASCII part of CPython `int(str)` (base 10): surrounding ASCII whitespace, optional sign directly before the digits,
    leading zeros allowed, single underscores between digits.  NOT modelled (compared by the harness oracle only): non-ASCII
    decimal digits and non-ASCII whitespace, which `int()` also accepts. -/
def pyInt? (s : Tok) : Option Int :=
  let p := splitSign (stripPySpace s)
  match pyDigits? false p.2 with
  | none => none
  | some digits => some (if p.1 then - (Int.ofNat (digitsToNat digits)) else Int.ofNat (digitsToNat digits))

/-- Argument.set_value -/
def Arg.setValue (a : Arg) (v : PVal) (cast : Bool := true) : Except Err Arg :=
  let a' := { a with raw := some v }
  if a.spec.incrementable then
    match a.value with
    | .i n => .ok { a' with val := .i (n + 1) }
    | _ => .error (.other "TypeError" "increment")
  else if a.spec.kind = .list then
    match a.value, v with
    | .l xs, .s x => .ok { a' with val := .l (xs ++ [x]) }
    | _, _ => .error (.other "TypeError" "list-append")
  else if !cast then .ok { a' with val := v }
  else match a.spec.kind, v with
    | .str, .s x => .ok { a' with val := .s x }
    | .str, .b x => .ok { a' with val := .s (if x then "True".toList else "False".toList) }
    | .int, .s x => match pyInt? x with
        | some n => .ok { a' with val := .i n }
        | none => .error (.other "ValueError" "int-cast")
    | .bool, .b x => .ok { a' with val := .b x }
    | .bool, .s x => .ok { a' with val := .b (!x.isEmpty) }
    | _, _ => .error (.other "TypeError" "cast")

def translateUnderscores (n : Tok) : Tok :=
  let cs := n.dropWhile (· = '_')
  let cs := (cs.reverse.dropWhile (· = '_')).reverse
  cs.map fun c => if c = '_' then '-' else c

def toFlag (n : Tok) : Tok :=
  let t := translateUnderscores n
  if t.length = 1 then '-' :: t else '-' :: '-' :: t

structure Ctx where
  name : Option Tok
  aliases : List Tok
  args : List Arg
  flags : List (Tok × Nat)        -- flag spelling ↦ index into args (Lexicon incl. aliases)
  inverse : List (Tok × Tok)      -- --no-x ↦ --x
  positional : List Nat
  deriving Repr

def assoc? {β} (k : Tok) : List (Tok × β) → Option β
  | [] => none
  | (k', v) :: r => if k = k' then some v else assoc? k r

def Ctx.empty (name : Option Tok) (aliases : List Tok := []) : Ctx :=
  { name, aliases, args := [], flags := [], inverse := [], positional := [] }

/-- ParserContext.add_arg -/
def Ctx.addArg (c : Ctx) (sp : ArgSpec) : Except Err Ctx :=
  let allNames (a : Arg) := a.spec.names ++ (match a.spec.attrName with | some n => [n] | none => [])
  let taken := c.args.flatMap allNames
  if sp.names.any (taken.contains ·) then .error (.other "ValueError" "duplicate-arg")
  else match sp.names with
  | [] => .error (.other "TypeError" "no-names")
  | main :: nick =>
    let idx := c.args.length
    let flags := c.flags ++ [(toFlag main, idx)] ++ nick.map (fun n => (toFlag n, idx))
    let inv := if sp.kind = .bool && sp.default = .b true
               then c.inverse ++ [(toFlag ("no-".toList ++ main), toFlag main)] else c.inverse
    .ok { c with args := c.args ++ [Arg.init sp], flags := flags, inverse := inv,
                 positional := if sp.positional then c.positional ++ [idx] else c.positional }

def Ctx.ofSpecs (name : Option Tok) (aliases : List Tok) (sps : List ArgSpec) : Except Err Ctx :=
  sps.foldlM Ctx.addArg (Ctx.empty name aliases)

/-- positional argument `i` has no value yet (named, so that lemmas can mention it) -/
def Ctx.isMissing (c : Ctx) (i : Nat) : Bool := match c.args[i]? with | some a => a.value = .none | none => false
def Ctx.missingPositional (c : Ctx) : List Nat := c.positional.filter c.isMissing
def Ctx.firstMissing (c : Ctx) : Option Nat := c.positional.find? c.isMissing

inductive St | context | unknown | «end» deriving DecidableEq, Repr
inductive Where | cur | initial deriving DecidableEq, Repr

/-- ParseMachine. `curIsInitial`: the current context *is* the initial (core) context object. -/
structure M where
  st : St := .context
  initial : Option Ctx
  cur : Option Ctx
  curIsInitial : Bool := true
  flag : Option (Where × Nat) := none
  flagGotValue : Bool := false
  done : List Ctx := []      -- completed task contexts, in order
  unparsed : List Tok := []
  registry : List Ctx
  ignoreUnknown : Bool
  deriving Repr

namespace M
def ctx (m : M) : Option Ctx := if m.curIsInitial then m.initial else m.cur
def setCtx (m : M) (c : Ctx) : M := if m.curIsInitial then { m with initial := some c } else { m with cur := some c }

def flagArg (m : M) : Option Arg :=
  match m.flag with
  | none => none
  | some (.cur, i) => m.ctx.bind (·.args[i]?)
  | some (.initial, i) => m.initial.bind (·.args[i]?)

def updFlagArg (m : M) (a : Arg) : M :=
  match m.flag with
  | none => m
  | some (.cur, i) => match m.ctx with
      | some c => m.setCtx { c with args := c.args.set i a }
      | none => m
  | some (.initial, i) => match m.initial with
      | some c => { m with initial := some { c with args := c.args.set i a } }
      | none => m

/-- waiting_for_flag_value -/
def waiting (m : M) : Bool :=
  match m.flagArg with
  | none => false
  | some a =>
    if !a.takesValue then false
    else if a.spec.kind = .list && !m.flagGotValue then true
    else a.raw.isNone

def lookupCtx (m : M) (tok : Tok) : Option Ctx :=
  m.registry.find? fun c => c.name = some tok || c.aliases.contains tok

def completeFlag (m : M) : Except Err M :=
  match m.flagArg with
  | none => .ok m
  | some a =>
    if a.takesValue && (a.raw.isNone || (a.spec.kind = .list && !m.flagGotValue)) && !a.spec.optional then .error (.parse "needed-value" (a.spec.names.headD []))
    else if a.raw.isNone && a.spec.optional then do
      let a' ← a.setValue (.b true) (cast := false)
      .ok (m.updFlagArg a')
    else .ok m

def completeContext (m : M) : Except Err M :=
  match m.ctx with
  | none => .ok m
  | some c =>
    if !c.missingPositional.isEmpty then .error (.parse "missing-positional" (c.name.getD []))
    else .ok m

/-- state-entry actions (run on every transition *before* the transition action) -/
def enter (m : M) : Except Err M := do completeContext (← completeFlag m)

def checkAmbiguity (m : M) (value : Tok) : Except Err Unit :=
  match m.flagArg with
  | none => .ok ()
  | some a =>
    if !a.spec.optional then .ok ()
    else if a.raw.isSome then .ok ()
    else
      let t1 := match m.ctx with | some c => !c.missingPositional.isEmpty | none => false
      let t2 := (m.lookupCtx value).isSome
      if t1 || t2 then .error (.parse "ambiguous" value) else .ok ()

/-- see_context: a flag living in a finished task context is never mutated again, so the reference is dropped -/
def switchToContext (m : M) (tok : Tok) : Except Err M := do
  let m ← enter m
  match m.lookupCtx tok with
  | none => .error (.other "KeyError" "context")
  | some c =>
    let done := if m.curIsInitial then m.done else match m.cur with | some old => m.done ++ [old] | none => m.done
    let flag := match m.flag with | some (.cur, i) => if m.curIsInitial then some (.initial, i) else none | f => f
    .ok { m with done := done, cur := some c, curIsInitial := false, flag := flag }

def seeUnknown (m : M) (tok : Tok) : Except Err M := do
  let m ← enter m
  .ok { m with st := .unknown, unparsed := m.unparsed ++ [tok] }

def switchToFlag (m : M) (tok : Tok) (inverse : Bool := false) : Except Err M := do
  checkAmbiguity m tok
  let m ← completeFlag m
  let c ← match m.ctx with | some c => pure c | none => throw (.other "AttributeError" "context-none")
  let tok' ← if inverse then (match assoc? tok c.inverse with | some t => pure t | none => throw (.other "KeyError" "inverse")) else pure tok
  let fl ← match assoc? tok' c.flags with
    | some i => pure (Where.cur, i)
    | none => match m.initial.bind (fun ic => assoc? tok' ic.flags) with
      | some i => pure (Where.initial, i)
      | none => throw (.other "KeyError" "flag")
  let m := { m with flag := some fl, flagGotValue := false }
  match m.flagArg with
  | some a =>
    if !a.takesValue then
      match a.setValue (.b (!inverse)) with
      | .ok a' => .ok (m.updFlagArg a')
      | .error e => .error e
    else .ok m
  | none => .ok m

def seeValue (m : M) (v : Tok) : Except Err M := do
  checkAmbiguity m v
  match m.flagArg with
  | some a =>
    if a.takesValue then
      match a.setValue (.s v) with
      | .ok a' => .ok { (m.updFlagArg a') with flagGotValue := true }
      | .error (.other "ValueError" _) => .error (.parse "invalid-value" v)
      | .error e => .error e
    else .error (.parse "takes-no-value" v)
  | none => .error (.parse "takes-no-value" v)

def seePositional (m : M) (v : Tok) : Except Err M :=
  match m.ctx with
  | none => .ok m
  | some c =>
    match c.firstMissing with
    | none => .ok m
    | some i => match c.args[i]? with
      | none => .ok m
      | some a =>
        match a.setValue (.s v) with
        | .ok a' => .ok (m.setCtx { c with args := c.args.set i a' })
        | .error (.other "ValueError" _) => .error (.parse "invalid-value" v)
        | .error e => .error e

/-- `is_core_flag_in_task_context`: the token is a flag of the core context and the current context is a task's -/
def coreFlagInTask (m : M) (tok : Tok) : Bool :=
  !m.curIsInitial && (match m.initial with | some ic => (assoc? tok ic.flags).isSome | none => false)

/-- the pending flag's value is optional -/
def optionalPending (m : M) : Bool :=
  match m.flagArg with | some a => a.spec.optional | none => false

/-- ParseMachine.handle: dispatch order flag > inverse > pending value (unless optional and the token is a core flag)
    > positional > context > core flag > unknown -/
def handle (m : M) (tok : Tok) : Except Err M :=
  if m.st = .unknown then seeUnknown m tok
  else
    let inFlags := match m.ctx with | some c => (assoc? tok c.flags).isSome | none => false
    let inInv := match m.ctx with | some c => (assoc? tok c.inverse).isSome | none => false
    if inFlags then switchToFlag m tok
    else if inInv then switchToFlag m tok (inverse := true)
    else if m.waiting && !(optionalPending m && coreFlagInTask m tok) then seeValue m tok
    else if (match m.ctx with | some c => !c.missingPositional.isEmpty | none => false) &&
            !(!m.curIsInitial && (match m.initial with | some ic => (assoc? tok ic.flags).isSome | none => false)) then seePositional m tok
    else if (m.lookupCtx tok).isSome then switchToContext m tok
    else if (match m.initial with | some ic => (assoc? tok ic.flags).isSome | none => false) then
      match m.initial.bind (fun ic => (assoc? tok ic.flags).bind (ic.args[·]?)) with
      | some a => if a.spec.names.headD [] = "help".toList then
            match m.initial, m.initial.bind (fun ic => assoc? tok ic.flags) with
            | some ic, some i => match m.ctx.bind (·.name) with
                | some nm => do
                    let a' ← a.setValue (.s nm)
                    .ok { m with initial := some { ic with args := ic.args.set i a' } }
                | none => .error (.other "TypeError" "help-none")
            | _, _ => .ok m
          else switchToFlag m tok
      | none => .ok m
    else if !m.ignoreUnknown then .error (.parse "no-idea" tok)
    else seeUnknown m tok
end M

def isFlag : Tok → Bool | '-' :: _ => true | _ => false
def isLongFlag : Tok → Bool | '-' :: '-' :: _ => true | _ => false
def beforeEq : Tok → Tok | [] => [] | c :: r => if c = '=' then [] else c :: beforeEq r
def afterEq : Tok → Tok | [] => [] | c :: r => if c = '=' then r else afterEq r
def hasEq : Tok → Bool | [] => false | c :: r => if c = '=' then true else hasEq r

/-- the value flag (of the context, else of the core context) that a 2-character prefix denotes -/
def gluedFlag (m : M) (token : Tok) : Option Arg :=
  if m.st = .unknown then none else
  match (match m.ctx with | some c => (assoc? token c.flags).bind (c.args[·]?) | none => none) with
  | some a => some a
  | none =>
    if m.curIsInitial then none
    else match m.initial with
      | some ic => (assoc? token ic.flags).bind (ic.args[·]?)
      | none => none
def ctxFlag (m : M) (token : Tok) : Option Arg :=
  if m.st = .unknown then none else
  match m.ctx with | some c => (assoc? token c.flags).bind (c.args[·]?) | none => none

/-- `-nVALUE`: the two-character prefix is a value flag of the context (else, inside a task context,
    of the core context) and the third character is not `=` -/
def isGlued (m : M) (orig : Tok) : Bool :=
  !isLongFlag orig && orig.length > 2 && (orig.drop 2).head? ≠ some '=' &&
    (match gluedFlag m (orig.take 2) with | some a => a.takesValue | none => false)

/-- split of a short-flag token longer than two characters: glued value, or a block of boolean shorts -/
def splitShort (m : M) (orig : Tok) : Tok × List Tok :=
  let token := orig.take 2
  let rest := orig.drop 2
  match gluedFlag m token with
  | some a => if a.takesValue then (token, [rest]) else (token, rest.map fun ch => ['-', ch])
  | none => (token, rest.map fun ch => ['-', ch])

/-- the pre-splitting of one token (before the rollback decision) — repaired version -/
def presplit (m : M) (orig : Tok) : Except Err (Tok × List Tok) :=
  if isFlag orig && m.unparsed.isEmpty then
    if hasEq orig && !isGlued m orig then .ok (beforeEq orig, [afterEq orig])
    else if !isLongFlag orig && orig.length > 2 then .ok (splitShort m orig)
    else .ok (orig, [])
  else .ok (orig, [])

/-- with a value pending, the split is kept only if the flag's value is optional and the sub-token is a flag of the context -/
def keepSplit (m : M) (tok : Tok) : Bool :=
  (match m.flagArg with | some a => a.spec.optional | none => false) &&
  ((match m.ctx with | some c => (assoc? tok c.flags).isSome | none => false) || M.coreFlagInTask m tok)

/-- rollback when a value is pending -/
def rollback (m : M) (orig : Tok) (p : Tok × List Tok) : Tok × List Tok :=
  if m.waiting && !keepSplit m p.1 then (orig, []) else p

/-- one original token, including the tokens the Python loop inserts right after it -/
def procTok : Nat → M → Tok → Except Err M
  | 0, _, _ => .error .fuel
  | fuel + 1, m, orig =>
    match presplit m orig with
    | .error e => .error e
    | .ok p =>
      match M.handle m (rollback m orig p).1 with
      | .error e => .error e
      | .ok m' => (rollback m orig p).2.foldlM (fun m t => procTok fuel m t) m'

structure PResult where
  contexts : List Ctx
  unparsed : List Tok
  remainder : Tok
  deriving Repr

def parseArgv (initial : Option Ctx) (registry : List Ctx) (ignoreUnknown : Bool) (argv : List Tok) : Except Err PResult := do
  let body := argv.takeWhile (· ≠ ['-','-'])
  let rem := (argv.dropWhile (· ≠ ['-','-'])).drop 1
  let m0 : M := { initial := initial, cur := none, registry := registry, ignoreUnknown := ignoreUnknown }
  let m0 ← M.enter m0
  let m ← body.foldlM (fun m t => procTok (t.length + 2) m t) m0
  let m ← M.enter { m with st := .end }
  let ctxs := (match m.initial with | some c => [c] | none => []) ++ m.done ++
              (if m.curIsInitial then [] else match m.cur with | some c => [c] | none => [])
  .ok { contexts := ctxs, unparsed := m.unparsed, remainder := [' '].intercalate rem }

end Inv
