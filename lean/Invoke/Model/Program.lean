import Invoke.Model.Parser
/-! Model of the two-pass parse of `invoke.Program` (C18):
    `parse_core_args` (ignore-unknown parser over the core context only) →
    `parse_tasks` (core context as `initial`, task contexts from the collection) →
    `_update_core_context` (values given to core flags inside task contexts are copied back) →
    `update_config` (core values ↦ configuration overrides).
    Differentially validated against the real `Program` on every run (harness/props/c18.py). -/
namespace Inv

/-- Python truthiness of a parsed value -/
def PVal.truthy : PVal → Bool
  | .none => false
  | .s v => !v.isEmpty
  | .i n => n != 0
  | .b v => v
  | .l xs => !xs.isEmpty

/-- Argument.got_value -/
def Arg.gotValue (a : Arg) : Bool :=
  if a.spec.kind = .list then a.val.truthy else !(a.val = .none)

/-- one step of `_update_core_context`: the via-tasks copy wins iff it was truly given a value -/
def mergeCoreArg (c t : Arg) : Arg := if t.gotValue then { c with val := t.val } else c

/-- Program._update_core_context (both contexts are built from the same core specs, so key-wise = position-wise) -/
def updateCore (core viaTasks : Ctx) : Ctx :=
  { core with args := List.zipWith mergeCoreArg core.args viaTasks.args }

structure ProgResult where
  core : Ctx               -- Program.core[0] after _update_core_context
  tasks : List Ctx         -- Program.tasks
  unparsed : List Tok      -- Program.core.unparsed (what the core pass handed to task parsing)
  remainder : Tok          -- Program.core.remainder
  deriving Repr

/-- Program.parse_core_args -/
def corePass (coreCtx : Ctx) (argv : List Tok) : Except Err PResult :=
  parseArgv (some coreCtx) [] true argv

/-- Program.parse_tasks (without the core update) -/
def taskPass (coreCtx : Ctx) (registry : List Ctx) (toks : List Tok) : Except Err PResult :=
  parseArgv (some coreCtx) registry false toks

/-- Program.parse_core_args ; parse_tasks ; _update_core_context -/
def programParse (coreCtx : Ctx) (registry : List Ctx) (argv : List Tok) : Except Err ProgResult := do
  let r1 ← corePass coreCtx argv
  let core1 ← match r1.contexts with | c :: _ => pure c | [] => throw (.other "IndexError" "core")
  let r2 ← taskPass coreCtx registry r1.unparsed
  match r2.contexts with
  | via :: tasks => .ok { core := updateCore core1 via, tasks := tasks, unparsed := r1.unparsed, remainder := r1.remainder }
  | [] => throw (.other "IndexError" "tasks")

/-- the argument whose main name is `n` -/
def Arg.isNamed (n : Tok) (a : Arg) : Bool := a.spec.names.headD [] = n
def Ctx.argNamed (c : Ctx) (n : Tok) : Option Arg := c.args.find? (Arg.isNamed n)
def Ctx.valueOf (c : Ctx) (n : Tok) : PVal := match c.argNamed n with | some a => a.value | none => .none

/-- what `Program.update_config` loads as the overrides level (only values that alter behaviour) -/
structure Overrides where
  warn : Bool
  pty : Bool
  echo : Bool
  dry : Bool
  hide : PVal        -- `.none` = not overridden
  dedupeOff : Bool
  timeout : PVal     -- `.none` = not overridden
  deriving Repr, DecidableEq

def PVal.ifTruthy (v : PVal) : PVal := if v.truthy then v else .none

def overrides (core : Ctx) : Overrides :=
  { warn := (core.valueOf "warn-only".toList).truthy
    pty := (core.valueOf "pty".toList).truthy
    echo := (core.valueOf "echo".toList).truthy
    dry := (core.valueOf "dry".toList).truthy
    hide := (core.valueOf "hide".toList).ifTruthy
    dedupeOff := (core.valueOf "no-dedupe".toList).truthy
    timeout := (core.valueOf "command-timeout".toList).ifTruthy }

end Inv
