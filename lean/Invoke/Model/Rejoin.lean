import Invoke.Model.RunnerIO
/-! `Promise.join()` called again on a run whose first join is over. -/
namespace Inv

/-- `_finish` is entered again: the main thread is back in the wait loop, every flag is as the first pass left it -/
def rejoin (s : S) : S := { s with mainPc := .poll }

end Inv
