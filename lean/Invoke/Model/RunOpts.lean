import Invoke.Generated.Runner
/-! # Model for C15 (first half) — options, streams and environment actually used by `Runner.run`

Literal model of `Runner._unify_kwargs_with_config`, `normalize_hide`, `Runner.generate_env` and the part of
`Runner._run_body` up to `start` (echo, dry short-circuit), over the option keys and built-in defaults
REGENERATED from `Config.global_defaults()` (`Generated.runOptionKeys`, `Generated.runDefaults`,
`Generated.timeoutDefault`) and the value universe `Generated.RV`
(`none | false | true | int | str | stream | mapping | list`).

Streams: `.stream 0/1/2` stand for `sys.stdin / sys.stdout / sys.stderr`, other ids for caller-supplied objects. -/
namespace Inv
open Generated

abbrev V := RV
abbrev Key := String
/-- a Python dict with string keys (kwargs, config overrides): association list, first binding wins -/
abbrev KW := List (Key × V)

def kwGet (kw : KW) (k : Key) : Option V :=
  match kw with
  | [] => none
  | (k', v) :: rest => if k' = k then some v else kwGet rest k

/-- built-in default of a run option -/
def defaultOf (k : Key) : V := (kwGet runDefaults k).getD .none

/-- the configured value: the config levels above the defaults if they define the key, else the built-in default -/
def cfgGet (cfg : KW) (k : Key) : V := (kwGet cfg k).getD (defaultOf k)

/-- Python truthiness on the value universe -/
def V.truthy : V → Bool
  | .none => false
  | .false => false
  | .true => true
  | .int i => i != 0
  | .str s => s != ""
  | .stream _ => true
  | .mapping kvs => !kvs.isEmpty
  | .list n => n != 0

def V.isNone : V → Bool
  | .none => true
  | _ => false

/-- `runtime = kwargs.pop(key, None); opts[key] = value if runtime is None else runtime` -/
def resolveOpt (runtime : Option V) (configured : V) : V :=
  match runtime with
  | none => configured
  | some .none => configured
  | some v => v

/-- `opts["timeout"] = kwargs.pop("timeout", config_timeout)`: presence of the kwarg decides, not None-ness -/
def resolveTimeout (runtime : Option V) (configured : V) : V :=
  match runtime with
  | none => configured
  | some v => v

def isKnownKwarg (k : Key) : Bool := runOptionKeys.contains k || k == "timeout"

/-- anything left in kwargs after the pops -/
def unknownPair (p : Key × V) : Bool := !isKnownKwarg p.1
def hasUnknown (kw : KW) : Bool := kw.any unknownPair

def setPair (k : Key) (v : V) (p : Key × V) : Key × V := if p.1 = k then (p.1, v) else p
def setOpt (opts : KW) (k : Key) (v : V) : KW := opts.map (setPair k v)

def optGet (opts : KW) (k : Key) : V := (kwGet opts k).getD .none

/-- the list-of-stream-names a `hide` value stands for (`none` = `ValueError`) -/
def hideBase : V → Option (List String)
  | .none => some []
  | .false => some []
  | .true => some ["stdout", "stderr"]
  | .str s =>
    if s = "both" then some ["stdout", "stderr"]
    else if s = "out" then some ["stdout"]
    else if s = "err" then some ["stderr"]
    else if s = "stdout" then some ["stdout"]
    else if s = "stderr" then some ["stderr"]
    else none
  | _ => none

/-- `normalize_hide(val, out_stream, err_stream)`: streams overridden from the default are reverted -/
def normalizeHide (val : V) (outStream errStream : V) : Option (List String) :=
  match hideBase val with
  | none => none
  | some h =>
    let h := if !outStream.isNone then h.erase "stdout" else h
    let h := if !errStream.isNone then h.erase "stderr" else h
    some h

inductive RunErr
  | typeError          -- run() got an unexpected keyword argument
  | asyncDisown        -- ValueError: both asynchronous and disown
  | badHide            -- ValueError from normalize_hide
  deriving DecidableEq, Repr

structure Unified where
  opts : KW                   -- every run key (the `hide` entry holds the value handed to normalize_hide)
  timeout : V
  hide : List String          -- normalized
  outStream : V
  errStream : V
  inStream : V
  async : Bool
  disown : Bool
  deriving DecidableEq, Repr

/-- the plain resolution of every key, before the interactions -/
def resolveKey (cfg kw : KW) (k : Key) : V := resolveOpt (kwGet kw k) (cfgGet cfg k)
def resolvePair (cfg kw : KW) (k : Key) : Key × V := (k, resolveKey cfg kw k)
def resolveAll (cfg kw : KW) : KW := runOptionKeys.map (resolvePair cfg kw)

def applyHideEcho (opts : KW) : KW :=
  if optGet opts "hide" = .true then setOpt opts "echo" .false else opts

def applyDryEcho (opts : KW) : KW :=
  if optGet opts "dry" = .true then setOpt opts "echo" .true else opts

def applyAsyncHide (async : Bool) (opts : KW) : KW :=
  if async then setOpt opts "hide" .true else opts

def defaultStream (v : V) (dflt : V) : V := if v.isNone then dflt else v

/-- `_unify_kwargs_with_config` -/
def unify (cfg : KW) (cfgTimeout : V) (kw : KW) : Except RunErr Unified :=
  let opts := resolveAll cfg kw
  let timeout := resolveTimeout (kwGet kw "timeout") cfgTimeout
  if hasUnknown kw then .error .typeError
  else
    let async := (optGet opts "asynchronous").truthy
    let disown := (optGet opts "disown").truthy
    if async && disown then .error .asyncDisown
    else
      let opts := applyAsyncHide async (applyDryEcho (applyHideEcho opts))
      let outS := optGet opts "out_stream"
      let errS := optGet opts "err_stream"
      match normalizeHide (optGet opts "hide") outS errS with
      | none => .error .badHide
      | some hide =>
        let inS := optGet opts "in_stream"
        .ok { opts := opts, timeout := timeout, hide := hide,
              outStream := defaultStream outS (.stream 1), errStream := defaultStream errS (.stream 2),
              inStream := if inS.isNone then (if async then .false else .stream 0) else inS,
              async := async, disown := disown }

/-! ## environment -/

abbrev EnvMap := List (String × String)

def envGet (e : EnvMap) (k : String) : Option String :=
  match e with
  | [] => none
  | (k', v) :: rest => if k' = k then some v else envGet rest k

def envSet (e : EnvMap) (k v : String) : EnvMap :=
  match e with
  | [] => [(k, v)]
  | (k', v') :: rest => if k' = k then (k, v) :: rest else (k', v') :: envSet rest k v

/-- `dict(parent, **given)` -/
def envUpdate (parent given : EnvMap) : EnvMap :=
  match given with
  | [] => parent
  | (k, v) :: rest => envUpdate (envSet parent k v) rest

/-- `generate_env(env, replace_env)` : `env if replace_env else dict(os.environ, **env)` -/
def generateEnv (parent given : EnvMap) (replace : Bool) : EnvMap :=
  if replace then given else envUpdate parent given

def V.asEnv : V → EnvMap
  | .mapping kvs => kvs
  | _ => []

/-! ## `_run_body` up to `start` -/

structure Started where
  command : List Char
  shell : V
  env : EnvMap
  deriving DecidableEq, Repr

structure RunOut where
  unified : Unified
  env : EnvMap
  echoed : Bool                  -- the command was printed
  started : Option Started       -- arguments of `start` (none: dry run, nothing started)
  deriving DecidableEq, Repr

def runBody (parentEnv : EnvMap) (cfg : KW) (cfgTimeout : V) (kw : KW) (command : List Char) : Except RunErr RunOut :=
  match unify cfg cfgTimeout kw with
  | .error e => .error e
  | .ok u =>
    let env := generateEnv parentEnv (optGet u.opts "env").asEnv (optGet u.opts "replace_env").truthy
    let echoed := (optGet u.opts "echo").truthy
    if (optGet u.opts "dry").truthy then .ok { unified := u, env := env, echoed := echoed, started := none }
    else .ok { unified := u, env := env, echoed := echoed,
               started := some { command := command, shell := optGet u.opts "shell", env := env } }

end Inv
