/-! The threaded `invoke.runners.Runner` as a labelled transition system.

    One transition per access to shared state or to the environment - exactly the points the gate
    scheduler (`harness/gate.py`) intercepts in the REAL code: `process_is_finished`,
    `has_dead_threads`, `program_finished.set()/is_set()`, each polling `join`, `Timer.is_alive()/
    cancel()`, every read of a child pipe, every read of the input stream, every write/close of
    the child's stdin, `kill`.  Between two such points a thread only touches its own locals and
    its own capture list (argued in DESIGN.md 2.5, validated by the gated runs on every check).

    Actors: `main` (run/_finish/wait/stop), `out`/`err` (handle_stdout/handle_stderr),
    `stdin` (handle_stdin), `timer` (threading.Timer calling kill).  The environment (child
    process, pipes, input stream, signals) moves by `envStep`. -/
namespace Inv

abbrev Chunk := List Nat          -- bytes

inductive Actor | main | out | err | stdin | timer deriving DecidableEq, Repr

inductive MainPc
  | idle | poll | pollDead (fin : Bool) | sendIntr | settleCheck | settleCancel | setFin
  | join (i : Nat) (n : Nat) (tmo : Bool) | checkTimeout | stop | done
  deriving DecidableEq, Repr
inductive RdPc | read | done | dead deriving DecidableEq, Repr
inductive InItem | data (d : Chunk) | notReady | eof deriving DecidableEq, Repr
inductive InPc | read | write (d : Chunk) | close | isSet (hasData : Bool) | done deriving DecidableEq, Repr
inductive TmPc | none | armed | kill | finish | done | cancelled deriving DecidableEq, Repr
inductive Outcome
  | pending | ret (exited : Int) | timedOut (exited : Int) | unexpected (exited : Int)
  | threadExc | startFailed
  deriving DecidableEq, Repr

structure Pipe where
  pending : List Chunk := []     -- chunks the child will still write
  buf : List Chunk := []         -- written, not yet read
  isOpen : Bool := true          -- some process still holds the write end
  written : List Chunk := []     -- ghost: everything ever written
  fault : Bool := false          -- the next read raises (injected worker failure)
  deriving Repr, DecidableEq

structure S where
  -- environment
  exited : Bool := false
  rc : Int := 0
  holdOpen : Bool := false       -- a grandchild keeps the pipes open past exit/kill
  out : Pipe := {}
  err : Pipe := {}
  inScript : List InItem := []
  childStdin : List (Bool × Chunk) := []  -- everything written to the child's stdin, in order;
                                          -- tag `true` = forwarded by the stdin handler, `false` = interrupt
  closeCount : Nat := 0
  kills : Nat := 0
  killsAfterReturn : Nat := 0    -- ghost: kills issued after `run` has returned/raised
  intr : Bool := false           -- a KeyboardInterrupt is pending for the wait loop
  startFails : Bool := false
  -- options
  hasStdin : Bool := false
  hasTimer : Bool := false
  warn : Bool := false
  pty : Bool := false
  echo : Bool := false
  hideOut : Bool := false        -- `hide` covers stdout (and no explicit out_stream was given)
  hideErr : Bool := false
  readSize : Nat := 1000
  -- threads
  mainPc : MainPc := .poll
  outPc : RdPc := .read
  errPc : RdPc := .read
  inPc : InPc := .read
  inClosed : Bool := false
  tmPc : TmPc := .none
  fin : Bool := false            -- program_finished
  processDone : Bool := false    -- `_process_done`: wait() saw the subprocess ended
  killIssued : Bool := false     -- `_kill_issued`: kill() ran while the subprocess was not known to have ended
  killSkipped : Bool := false    -- `_kill_skipped`: kill() found the subprocess already ended and did nothing
  early : Bool := false          -- `_timer_cancelled_early`: the timer was disarmed because the subprocess ended first
  capOut : List Chunk := []
  capErr : List Chunk := []
  mirOut : List Chunk := []      -- what was forwarded to our own stdout stream
  mirErr : List Chunk := []
  echoed : List Chunk := []
  outcome : Outcome := .pending
  deriving Repr, DecidableEq

/-- the order in which `_finish` joins the workers (dict insertion order of `create_io_threads`) -/
def S.joinOrder (s : S) : List Actor :=
  [.out] ++ (if s.hasStdin then [.stdin] else []) ++ (if s.pty then [] else [.err])

def S.rdDone (pc : RdPc) : Bool := pc != .read
def S.finished (s : S) : Actor → Bool
  | .main => s.mainPc = .done
  | .out => S.rdDone s.outPc
  | .err => s.pty || S.rdDone s.errPc
  | .stdin => !s.hasStdin || s.inPc = .done
  | .timer => !s.hasTimer || s.tmPc = .done || s.tmPc = .cancelled || s.tmPc = .none

def S.anyDead (s : S) : Bool := s.outPc = .dead || (!s.pty && s.errPc = .dead)

/-- `_thread_join_timeout`: a reader is joined with a 1 s timeout iff its sibling reader is dead -/
def S.joinHasTimeout (s : S) : Actor → Bool
  | .out => !s.pty && s.errPc = .dead
  | .err => s.outPc = .dead
  | _ => false

/-- number of polls after which a join with timeout gives up (abstraction of the 1 s) -/
def joinPatience : Nat := 3

def closeIfUnheld (s : S) (p : Pipe) : Pipe := if s.holdOpen then p else { p with isOpen := false }

/-- environment actions -/
inductive EnvAct
  | writeOut | writeErr | closeOut | closeErr | exit (rc : Int) | interrupt | faultOut | faultErr
  deriving DecidableEq, Repr

def pipeWrite (p : Pipe) : Pipe :=
  match p.pending with
  | c :: r => if p.isOpen then { p with pending := r, buf := p.buf ++ [c], written := p.written ++ [c] } else p
  | [] => p

def envStep (s : S) : EnvAct → S
  | .writeOut => { s with out := pipeWrite s.out }
  | .writeErr => { s with err := pipeWrite s.err }
  | .closeOut => { s with out := { s.out with isOpen := false } }
  | .closeErr => { s with err := { s.err with isOpen := false } }
  | .exit rc => if s.exited then s else
      { s with exited := true, rc := rc, out := closeIfUnheld s s.out, err := closeIfUnheld s s.err }
  | .interrupt => { s with intr := true }
  | .faultOut => { s with out := { s.out with fault := true } }
  | .faultErr => { s with err := { s.err with fault := true } }

/-- `_finish` after the joins, no worker exception: timeout, then exit status vs warn -/
def decideOutcome (s : S) (timedOut : Bool) : Outcome :=
  if timedOut then .timedOut s.rc
  else if s.rc ≠ 0 && !s.warn then .unexpected s.rc
  else .ret s.rc

/-- one read of a child pipe by a reader thread: (pipe, pc, capture) -/
def readerStep (n : Nat) (p : Pipe) (pc : RdPc) (cap : List Chunk) : Pipe × RdPc × List Chunk :=
  match pc with
  | .done => (p, pc, cap)
  | .dead => (p, pc, cap)
  | .read =>
    if p.fault then (p, .dead, cap) else
    match p.buf with
    | c :: r =>
      if c.length ≤ n then ({ p with buf := r }, .read, cap ++ [c])
      else ({ p with buf := c.drop n :: r }, .read, cap ++ [c.take n])
    | [] => if p.isOpen then (p, .read, cap) else (p, .done, cap)

def timerAlive (t : TmPc) : Bool := t = .armed || t = .kill || t = .finish

/-- `_finish` after the joins.  `timeout is not None and (_kill_issued or (timed_out and not
    _timer_cancelled_early))`: the `or` short-circuits, so `Timer.is_alive()` (a gate of its own,
    `checkTimeout`) is only consulted when no kill was issued. -/
def afterJoins (s : S) : S :=
  if s.anyDead then { s with outcome := .threadExc, mainPc := if s.hasTimer then .stop else .done }
  else if s.hasTimer then
    (if s.killIssued then { s with outcome := decideOutcome s true, mainPc := .stop }
     else { s with mainPc := .checkTimeout })
  else { s with outcome := decideOutcome s false, mainPc := .done }

/-- leaving `wait()`: `_disarm_timer_if_timely` consults the timer only when a timeout is in effect,
    the subprocess was seen to have ended and no kill was issued -/
def leaveWait (s : S) : S :=
  if s.hasTimer && s.processDone && !s.killIssued then { s with mainPc := .settleCheck }
  else { s with mainPc := .setFin }

/-- enter the join of the `i`-th worker; the timeout is decided now (`_thread_join_timeout`) -/
def enterJoin (s : S) (i : Nat) : S :=
  match s.joinOrder[i]? with
  | some a => { s with mainPc := .join i 0 (s.joinHasTimeout a) }
  | none => afterJoins s

def nextJoin (s : S) (i : Nat) : S := enterJoin s (i + 1)

def mainStep (s : S) : S :=
  match s.mainPc with
  | .idle => { s with mainPc := .poll }   -- asynchronous run: `Promise.join()` is called, `_finish` begins
  | .poll =>
    if s.intr then { s with intr := false, mainPc := .sendIntr } else { s with mainPc := .pollDead s.exited }
  | .sendIntr => { s with childStdin := s.childStdin ++ [(false, [3])], mainPc := .poll }
  | .pollDead fin =>
    if fin || s.anyDead then leaveWait { s with processDone := s.processDone || fin }
    else { s with mainPc := .poll }
  | .settleCheck =>   -- `not self.timed_out or self._kill_skipped`
    if timerAlive s.tmPc || s.killSkipped then { s with mainPc := .settleCancel } else { s with mainPc := .setFin }
  | .settleCancel =>  -- `_timer.cancel()`, then `_timer_cancelled_early = True`
    { s with tmPc := (if s.tmPc = .armed then .cancelled else s.tmPc), early := true, mainPc := .setFin }
  | .setFin => enterJoin { s with fin := true } 0
  | .join i n tmo =>
    match s.joinOrder[i]? with
    | none => afterJoins s
    | some a =>
      if s.finished a then nextJoin s i
      else if tmo && joinPatience ≤ n then nextJoin s i
      else { s with mainPc := .join i (n + 1) tmo }
  | .checkTimeout => { s with outcome := decideOutcome s (!timerAlive s.tmPc && !s.early), mainPc := .stop }
  | .stop => { s with tmPc := (if s.tmPc = .armed then .cancelled else s.tmPc), mainPc := .done }
  | .done => s

def stdinStep (s : S) : S :=
  if !s.hasStdin then s else
  match s.inPc with
  | .read =>
    match s.inScript with
    | [] => if !s.pty && !s.inClosed then { s with inPc := .close } else { s with inPc := .isSet false }
    | .data d :: r => { s with inScript := r, inPc := .write d }
    | .notReady :: r => { s with inScript := r, inPc := .isSet false }
    | .eof :: r =>
      if !s.pty && !s.inClosed then { s with inScript := r, inPc := .close }
      else { s with inScript := r, inPc := .isSet false }
  | .write d =>
    { s with childStdin := s.childStdin ++ [(true, d)],
             echoed := if s.echo then s.echoed ++ [d] else s.echoed, inPc := .isSet true }
  | .close => { s with closeCount := s.closeCount + 1, inClosed := true, inPc := .isSet false }
  | .isSet hasData => if s.fin && !hasData then { s with inPc := .done } else { s with inPc := .read }
  | .done => s

/-- what SIGKILL does to the child: it ends (status -9) unless it had ended already; the pipes close
    unless a grandchild still holds them -/
def killEffect (s : S) : S :=
  if s.exited then s
  else { s with exited := true, rc := -9, out := closeIfUnheld s s.out, err := closeIfUnheld s s.err }

def lateKill (s : S) : Nat := if s.mainPc = MainPc.done then 1 else 0

def timerStep (s : S) : S :=
  if !s.hasTimer then s else
  match s.tmPc with
  | .armed => { s with tmPc := .kill }
  | .kill =>   -- `Local.kill`: nothing is killed once the subprocess is known to have ended
    if s.processDone then { s with killSkipped := true, tmPc := .finish }
    else { killEffect s with killIssued := true, kills := s.kills + 1,
                             killsAfterReturn := s.killsAfterReturn + lateKill s, tmPc := .finish }
  | .finish => { s with tmPc := .done }
  | _ => s

/-- `_handle_output`: what was just read is written to our own stream unless hidden -/
def mirrorOf (hide : Bool) (mir oldCap newCap : List Chunk) : List Chunk :=
  if hide then mir else mir ++ newCap.drop oldCap.length

def step (s : S) : Actor → S
  | .out =>
    let r := readerStep s.readSize s.out s.outPc s.capOut
    { s with out := r.1, outPc := r.2.1, capOut := r.2.2, mirOut := mirrorOf s.hideOut s.mirOut s.capOut r.2.2 }
  | .err =>
    if s.pty then s else
    let r := readerStep s.readSize s.err s.errPc s.capErr
    { s with err := r.1, errPc := r.2.1, capErr := r.2.2, mirErr := mirrorOf s.hideErr s.mirErr s.capErr r.2.2 }
  | .stdin => stdinStep s
  | .timer => timerStep s
  | .main => mainStep s

/-- schedule events -/
inductive Ev | act (a : Actor) | env (e : EnvAct) deriving DecidableEq, Repr

def evStep (s : S) : Ev → S
  | .act a => step s a
  | .env e => envStep s e

def run (s : S) (evs : List Ev) : S := evs.foldl evStep s

/-- the chunks the stdin handler forwarded to the child, in order -/
def S.fwd (s : S) : List Chunk := (s.childStdin.filter (·.1)).map (·.2)
/-- every byte the child received on its stdin, in order -/
def S.childBytes (s : S) : List Nat := (s.childStdin.map (·.2)).flatten

/-- `handle_stdin`'s echo rule: explicit `echo_stdin`, else "input is a tty and no pty" -/
def effEcho (echoOpt : Option Bool) (pty inTty : Bool) : Bool :=
  match echoOpt with
  | some e => e
  | none => !pty && inTty

/-- initial state for given options and environment script.  `start()` failing means no worker
    and no timer is ever created: `run` raises at once (and `stop()` finds no timer).
    `async`: `run(asynchronous=True)` has returned a Promise - workers and timer are already running -
    and the main thread is `idle` until it calls `Promise.join()` (which is `_finish` + `stop`, exactly
    the tail of a synchronous `run`). -/
def S.init (hasStdin hasTimer warn pty echo : Bool) (outP errP : List Chunk) (ins : List InItem)
    (holdOpen startFails : Bool := false) (readSize : Nat := 1000) (async : Bool := false) : S :=
  { hasStdin := hasStdin && !startFails, hasTimer := hasTimer, warn := warn, pty := pty, echo := echo,
    outPc := if startFails then .done else .read, errPc := if startFails then .done else .read,
    out := { pending := outP, isOpen := !startFails }, err := { pending := errP, isOpen := !startFails },
    inScript := ins,
    holdOpen := holdOpen, startFails := startFails, readSize := readSize,
    tmPc := if hasTimer && !startFails then .armed else .none,
    mainPc := if startFails then .done else if async then .idle else .poll,
    outcome := if startFails then .startFailed else .pending }

end Inv
