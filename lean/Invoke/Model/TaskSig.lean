import Invoke.Model.Parser
/-! # Model of `Task.arg_opts` / `Task.get_arguments` / `ParserContext.add_arg` (uniqueness incl. the
    inverse-flag checks) / `ParserContext.as_kwargs` — the code C09 is anchored in.

    A *signature* is the parameter list of the task body after the context argument (plain
    positional-or-keyword parameters: name + default) together with the decorator options.
    The model produces `ArgSpec`s and contexts of the shared parser model (`Model/Parser.lean`).
    Every predicate used inside a definition is a named function.  No Mathlib. -/
namespace Inv

/-- the default value of a Python parameter, as far as `arg_opts` looks at it.
    `empty` = `inspect.Signature.empty` (no default). -/
inductive PyDefault
  | empty | none | str (s : Tok) | int (i : Int) | bool (b : Bool) | list (xs : List Tok)
  deriving DecidableEq, Repr

/-- One parameter of the task body after the context argument, in declaration order.  `arg_opts` and
    `fill_implicit_positionals` look at the name and the default only, never at `Parameter.kind`: a keyword-only
    parameter (`*, x` / `*, x=1`) is a `Param` like any other, and - unlike plain parameters - may lack a default
    *after* a defaulted one; nothing in the model or the theorems assumes that parameters without default come
    first.  (`*args`, `**kwargs` and positional-only parameters are treated by the code in exactly the same way -
    which is the known findings C09-var-positional-param / -var-keyword-param / -positional-only-param: their
    values cannot be delivered by keyword.) -/
structure Param where
  name : Tok
  default : PyDefault
  deriving DecidableEq, Repr

/-- the `@task(...)` options that influence the argument list -/
structure TaskOpts where
  positional : Option (List Tok) := none
  optional : List Tok := []
  iterable : List Tok := []
  incrementable : List Tok := []
  autoShort : Bool := true
  help : List Tok := []               -- keys of the help dict
  ignoreUnknownHelp : Bool := false
  deriving Repr

def PyDefault.toPVal : PyDefault → PVal
  | .empty => .none | .none => .none | .str s => .s s | .int i => .i i | .bool b => .b b | .list xs => .l xs

def PyDefault.isEmpty (d : PyDefault) : Bool := d = .empty

/-- `"_" in name` -/
def hasUnderscore (n : Tok) : Bool := n.contains '_'

/-- the CLI name of a parameter: `translate_underscores(name)` when it contains an underscore -/
def dashedName (n : Tok) : Tok := if hasUnderscore n then translateUnderscores n else n

/-- the loop test of the auto-short-flag search: alphanumeric, not the whole name, not taken -/
def shortCandidate (name : Tok) (taken : List Tok) (ch : Char) : Bool :=
  ch.isAlphanum && !(decide ([ch] = name) || taken.contains [ch])

/-- the nicknames chosen by `arg_opts`: at most one, the first candidate character of the dashed name -/
def pickShort (auto : Bool) (name : Tok) (taken : List Tok) : List Tok :=
  if auto then
    match name.find? (shortCandidate name taken) with
    | some ch => [[ch]]
    | none => []
  else []

/-- default given to an `iterable` parameter before the value-based inference -/
def iterDefault : PyDefault → PVal
  | .none => .l []
  | d => d.toPVal

/-- kind and default before the value-based inference -/
def baseKind (isIter : Bool) (d : PyDefault) : Kind × PVal :=
  if isIter then (.list, iterDefault d) else (.str, .none)

/-- kind/default inference of `arg_opts` -/
def kindDefault (isOpt isIter : Bool) (d : PyDefault) : Kind × PVal :=
  match d with
  | .empty => baseKind isIter d
  | .none => baseKind isIter d
  | .str s => (.str, .s s)
  | .int i => (.int, .i i)
  | .list xs => (.list, .l xs)
  | .bool b => if isOpt then ((baseKind isIter d).1, .b b) else (.bool, .b b)

/-- `Task.arg_opts` (without help) -/
def argOpts (o : TaskOpts) (positional : List Tok) (p : Param) (taken : List Tok) : ArgSpec :=
  let kd := kindDefault (o.optional.contains p.name) (o.iterable.contains p.name) p.default
  { names := dashedName p.name :: pickShort o.autoShort (dashedName p.name) taken
    kind := kd.1
    default := kd.2
    positional := positional.contains p.name
    optional := o.optional.contains p.name
    incrementable := o.incrementable.contains p.name
    attrName := if hasUnderscore p.name then some p.name else none }

/-- the loop of `get_arguments`: `taken` grows by the names of every argument built -/
def buildArgs (o : TaskOpts) (positional : List Tok) : List Param → List Tok → List ArgSpec
  | [], _ => []
  | p :: ps, taken =>
    argOpts o positional p taken :: buildArgs o positional ps (taken ++ (argOpts o positional p taken).names)

/-- `Argument.name`: attr_name or the first name -/
def ArgSpec.pyName (a : ArgSpec) : Tok := a.attrName.getD (a.names.headD [])

/-- remove the first argument called `pn` -/
def extractArg (pn : Tok) : List ArgSpec → Option (ArgSpec × List ArgSpec)
  | [] => none
  | a :: r =>
    if a.pyName = pn then some (a, r)
    else match extractArg pn r with
      | some (x, r') => some (x, a :: r')
      | none => none

/-- `args.insert(0, args.pop(i))` for the first `i` whose argument is called `pn` -/
def moveFront (args : List ArgSpec) (pn : Tok) : List ArgSpec :=
  match extractArg pn args with
  | some (a, r) => a :: r
  | none => args

/-- `for posarg in reversed(positional): move to front` -/
def reorder : List Tok → List ArgSpec → List ArgSpec
  | [], args => args
  | pn :: ps, args => moveFront (reorder ps args) pn

def Param.noDefault (p : Param) : Bool := p.default.isEmpty

/-- `fill_implicit_positionals` -/
def positionalNames (o : TaskOpts) (ps : List Param) : List Tok :=
  match o.positional with
  | some l => l
  | none => (ps.filter Param.noDefault).map Param.name

/-- the initial `taken_names`: every parameter name and its translation -/
def takenInit (ps : List Param) : List Tok :=
  ps.map Param.name ++ ps.map (fun p => translateUnderscores p.name)

/-- the argument list of `get_arguments` (help handling apart) -/
def argList (o : TaskOpts) (ps : List Param) : List ArgSpec :=
  reorder (positionalNames o ps) (buildArgs o (positionalNames o ps) ps (takenInit ps))

/-- which help key `arg_opts` pops for a parameter: the dashed name first, then the original one -/
def helpKey (help : List Tok) (p : Param) : Option Tok :=
  if help.contains (dashedName p.name) then some (dashedName p.name)
  else if help.contains p.name then some p.name
  else none

def dropKey (k : Tok) (help : List Tok) : List Tok := help.filter (fun x => !decide (x = k))

/-- help keys left over after all parameters popped theirs -/
def helpLeft : List Tok → List Param → List Tok
  | help, [] => help
  | help, p :: ps =>
    match helpKey help p with
    | some k => helpLeft (dropKey k help) ps
    | none => helpLeft help ps

/-- does parameter number `i` receive a help string? -/
def helpFlags : List Tok → List Param → List Bool
  | _, [] => []
  | help, p :: ps =>
    match helpKey help p with
    | some k => true :: helpFlags (dropKey k help) ps
    | none => false :: helpFlags help ps

def helpOK (o : TaskOpts) (ps : List Param) : Bool := (helpLeft o.help ps).isEmpty || o.ignoreUnknownHelp

/-- `arg_opts` refuses a parameter whose CLI name would be empty: `"_" in name` and nothing is left after
    `translate_underscores` (a name made of underscores only) -/
def blankName (p : Param) : Bool := hasUnderscore p.name && (translateUnderscores p.name).isEmpty

/-- `Task.get_arguments`: `ValueError` from `arg_opts` for a blank name (raised inside the loop, i.e. first),
    then the leftover-help `ValueError` -/
def getArguments (o : TaskOpts) (ps : List Param) : Except Err (List ArgSpec) :=
  if ps.any blankName then .error (.other "ValueError" "blank-name")
  else if helpOK o ps then .ok (argList o ps) else .error (.other "ValueError" "unknown-help")

/-! ## `ParserContext.add_arg` with the inverse-flag uniqueness checks -/

def ArgSpec.hasInverse (sp : ArgSpec) : Bool := sp.kind = .bool && sp.default = .b true
def ArgSpec.inverseName (sp : ArgSpec) : Tok := toFlag ("no-".toList ++ sp.names.headD [])
def ArgSpec.flagNames (sp : ArgSpec) : List Tok := sp.names.map toFlag

def Ctx.flagNames (c : Ctx) : List Tok := c.flags.map Prod.fst
def Ctx.inverseNames (c : Ctx) : List Tok := c.inverse.map Prod.fst

/-- `to_flag(name) in self.inverse_flags` for one of the new names -/
def Ctx.inverseClash (c : Ctx) (sp : ArgSpec) : Bool := sp.flagNames.any c.inverseNames.contains
/-- the new inverse flag already is a flag (the new argument's own flags included) -/
def Ctx.inverseExists (c : Ctx) (sp : ArgSpec) : Bool :=
  sp.hasInverse && (c.flagNames ++ sp.flagNames).contains sp.inverseName

/-- `ParserContext.add_arg` as it is now: `Ctx.addArg` of the shared parser model plus the two
    inverse-flag `ValueError`s, in the order the code raises them. -/
def Ctx.addArgChecked (c : Ctx) (sp : ArgSpec) : Except Err Ctx :=
  match c.addArg sp with
  | .error e => .error e
  | .ok c' =>
    if c.inverseClash sp then .error (.other "ValueError" "inverse-collision")
    else if c.inverseExists sp then .error (.other "ValueError" "inverse-exists")
    else .ok c'

def foldChecked (c : Ctx) : List ArgSpec → Except Err Ctx
  | [] => .ok c
  | sp :: sps =>
    match c.addArgChecked sp with
    | .error e => .error e
    | .ok c' => foldChecked c' sps

/-- `ParserContext(name, aliases, args)` -/
def Ctx.ofSpecsChecked (name : Option Tok) (aliases : List Tok) (sps : List ArgSpec) : Except Err Ctx :=
  foldChecked (Ctx.empty name aliases) sps

/-- `ParserContext(name=…, args=task.get_arguments())` — what `Collection.to_contexts` builds per task -/
def mkCtx (name : Tok) (o : TaskOpts) (ps : List Param) : Except Err Ctx :=
  match getArguments o ps with
  | .error e => .error e
  | .ok args => Ctx.ofSpecsChecked (some name) [] args

/-- `ParserContext.as_kwargs`: values keyed by `Argument.name` -/
def Ctx.asKwargs (c : Ctx) : List (Tok × PVal) := c.args.map (fun a => (a.spec.pyName, a.value))

/-- positional arguments in order, by python name -/
def Ctx.positionalNames (c : Ctx) : List Tok :=
  c.positional.filterMap (fun i => (c.args[i]?).map (fun a => a.spec.pyName))

/-! ## identifiers -/

def isIdentChar (ch : Char) : Bool := ch.isAlphanum || ch = '_'
def isIdentStart (ch : Char) : Bool := ch.isAlpha || ch = '_'
/-- ASCII Python identifier `[A-Za-z_][A-Za-z0-9_]*` (keywords are not excluded: a superset) -/
def pyIdent (n : Tok) : Bool :=
  match n with
  | [] => false
  | ch :: r => isIdentStart ch && r.all isIdentChar
def isUnderscore (ch : Char) : Bool := ch = '_'
/-- a name made of underscores only (`_`, `__`, …): finding #29 -/
def allUnderscores (n : Tok) : Bool := n.all isUnderscore

/-! ## pre-fix variants (for the `_counterexample` theorems) -/

/-- the short-flag test before fix #11/#12: any character, only the raw names taken -/
def shortCandidatePinned (name : Tok) (taken : List Tok) (ch : Char) : Bool :=
  !(decide ([ch] = name) || taken.contains [ch])
def pickShortPinned (auto : Bool) (name : Tok) (taken : List Tok) : List Tok :=
  if auto then
    match name.find? (shortCandidatePinned name taken) with
    | some ch => [[ch]]
    | none => []
  else []
def argOptsPinned (o : TaskOpts) (positional : List Tok) (p : Param) (taken : List Tok) : ArgSpec :=
  { argOpts o positional p taken with
    names := dashedName p.name :: pickShortPinned o.autoShort (dashedName p.name) taken }
def buildArgsPinned (o : TaskOpts) (positional : List Tok) : List Param → List Tok → List ArgSpec
  | [], _ => []
  | p :: ps, taken =>
    argOptsPinned o positional p taken ::
      buildArgsPinned o positional ps (taken ++ (argOptsPinned o positional p taken).names)
def argListPinned (o : TaskOpts) (ps : List Param) : List ArgSpec :=
  reorder (positionalNames o ps) (buildArgsPinned o (positionalNames o ps) ps (ps.map Param.name))

/-- `get_arguments` / context building before fix #29: a blank name was not refused -/
def getArgumentsPinned29 (o : TaskOpts) (ps : List Param) : Except Err (List ArgSpec) :=
  if helpOK o ps then .ok (argList o ps) else .error (.other "ValueError" "unknown-help")
def mkCtxPinned29 (name : Tok) (o : TaskOpts) (ps : List Param) : Except Err Ctx :=
  match getArgumentsPinned29 o ps with
  | .error e => .error e
  | .ok args => Ctx.ofSpecsChecked (some name) [] args

end Inv
