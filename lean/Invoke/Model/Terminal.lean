/-! `invoke.terminals.character_buffered` as a bracket around a body (C08: "a terminal serving as the
    input stream is back in the mode it had before the call").

    The terminal attributes are modelled as far as the bracket looks at them (`ECHO`, `ICANON`,
    `VMIN`, `VTIME`) plus an opaque rest; what `tty.setcbreak` does is a PARAMETER (CPython, not
    verified), and so is the body. -/
namespace Inv

structure TtyAttrs where
  echo : Bool
  icanon : Bool
  vmin : Nat
  vtime : Nat
  rest : Nat
  deriving DecidableEq, Repr

structure TtyEnv where
  isTty : Bool        -- `isatty(stream)`
  foreground : Bool   -- `stdin_is_foregrounded_tty(stream)`
  attrs : TtyAttrs
  deriving DecidableEq, Repr

/-- `cbreak_already_set`: all four sentinels -/
def cbreakAlreadySet (a : TtyAttrs) : Bool := !a.echo && !a.icanon && a.vmin == 1 && a.vtime == 0

/-- the bracket changes the terminal only for a foregrounded tty that is not in cbreak mode yet -/
def touches (t : TtyEnv) : Bool := t.isTty && t.foreground && !cbreakAlreadySet t.attrs

/-- what happened: the attributes the body started from, the attributes after the bracket, and
    whether the body raised (the exception propagates either way) -/
structure Bracketed where
  during : TtyAttrs
  after : TtyAttrs
  raised : Bool
  deriving DecidableEq, Repr

/-- `with character_buffered(stream): body` - `body` maps the attributes it finds to the attributes
    it leaves and says whether it raised; the `finally:` restores the saved settings whatever the
    body did -/
def characterBuffered (setcbreak : TtyAttrs → TtyAttrs) (body : TtyAttrs → TtyAttrs × Bool) (t : TtyEnv) : Bracketed :=
  if touches t then
    let during := setcbreak t.attrs
    { during := during, after := t.attrs, raised := (body during).2 }
  else
    { during := t.attrs, after := (body t.attrs).1, raised := (body t.attrs).2 }

/-- the standard `tty.setcbreak` as far as the sentinels go (other bits: `f`) -/
def stdSetcbreak (f : Nat → Nat) (a : TtyAttrs) : TtyAttrs :=
  { echo := false, icanon := false, vmin := 1, vtime := 0, rest := f a.rest }

/-- a session: the application edits the terminal mode, then a command runs under the bracket;
    repeated.  Returns the final attributes and, per command, whether the mode after it equals the
    mode just before it. -/
def session (setcbreak : TtyAttrs → TtyAttrs) (isTty fg : Bool) :
    TtyAttrs → List ((TtyAttrs → TtyAttrs) × Bool) → TtyAttrs × List Bool
  | a, [] => (a, [])
  | a, (edit, raises) :: rest =>
    let before := edit a
    let r := characterBuffered setcbreak (fun x => (x, raises)) { isTty := isTty, foreground := fg, attrs := before }
    let (fin, oks) := session setcbreak isTty fg r.after rest
    (fin, (r.after == before) :: oks)

end Inv
