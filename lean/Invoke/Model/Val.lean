/-! Nested settings: the Python `dict`-of-`dict`s that `invoke.config` manipulates.

    `KVs` is an association list standing for a `dict` with string keys; well-formedness (`WF`,
    hereditarily duplicate-free keys) is what a Python dict guarantees.  `mergeKVs` is
    `invoke.config.merge_dicts` (raises `AmbiguousMergeError` on a dict/non-dict clash); `mergeT`
    is its total version (update wins on a clash), related to `mergeKVs` under `Compat`. -/
namespace Inv

abbrev Key := List Char

/-- leaf values; `obj` stands for any other Python object (copied by `copy.copy`) -/
inductive Leaf
  | none | b (v : Bool) | i (v : Int) | s (v : List Char) | l (v : List (List Char)) | obj (tag : Nat)
  deriving DecidableEq, Repr

inductive Val where
  | leaf : Leaf → Val
  | dict : List (Key × Val) → Val
  deriving Repr

abbrev KVs := List (Key × Val)

/-- errors of the config layer: Python exception class (+ site) -/
inductive CErr
  | key (site : String) | typ (site : String) | value (site : String) | attr (site : String)
  | ambiguousMerge | ambiguousEnv | uncastable
  deriving Repr, DecidableEq

def lookup (k : Key) : KVs → Option Val
  | [] => none
  | (k', v) :: r => if k = k' then some v else lookup k r

def insert (k : Key) (v : Val) : KVs → KVs
  | [] => [(k, v)]
  | (k', v') :: r => if k = k' then (k, v) :: r else (k', v') :: insert k v r

def erase (k : Key) : KVs → KVs
  | [] => []
  | (k', v') :: r => if k = k' then r else (k', v') :: erase k r

def keys (m : KVs) : List Key := m.map (·.1)

/-- total merge: on a dict/leaf clash the update wins (the real code raises; see `Compat`).
    The `match` computes the VALUE to insert, so lemmas can treat it as opaque. -/
def mergeT (base : KVs) : KVs → KVs
  | [] => base
  | (k, v) :: rest =>
    let w : Val := match lookup k base, v with
      | some (.dict b), .dict u => .dict (mergeT b u)
      | _, .dict u => .dict (mergeT [] u)
      | _, .leaf x => .leaf x
    mergeT (insert k w base) rest

/-- `invoke.config.merge_dicts(base, updates)` -/
def mergeKVs (base : KVs) : KVs → Except CErr KVs
  | [] => .ok base
  | (k, v) :: rest =>
    match (match lookup k base, v with
      | some (.dict b), .dict u => (mergeKVs b u).map fun m => insert k (.dict m) base
      | some (.dict _), .leaf _ => .error .ambiguousMerge
      | some (.leaf _), .dict _ => .error .ambiguousMerge
      | some (.leaf _), .leaf _ => .ok (insert k v base)
      | none, .dict u => (mergeKVs [] u).map fun m => insert k (.dict m) base
      | none, .leaf _ => .ok (insert k v base)) with
    | .error e => .error e
    | .ok base' => mergeKVs base' rest

/-- `copy_dict` -/
def copyDict (d : KVs) : Except CErr KVs := mergeKVs [] d

/-- leaf value at a key path -/
def getLeaf : List Key → KVs → Option Leaf
  | [], _ => none
  | [k], m => match lookup k m with | some (.leaf x) => some x | _ => none
  | k :: k2 :: rest, m => match lookup k m with | some (.dict d) => getLeaf (k2 :: rest) d | _ => none

/-- value (leaf or section) at a key path; `[]` is the dict itself -/
def getPath : KVs → List Key → Option Val
  | d, [] => some (.dict d)
  | d, [k] => lookup k d
  | d, k :: rest => match lookup k d with
    | some (.dict sub) => getPath sub rest
    | _ => none

/-- hereditarily duplicate-free keys (what a Python dict guarantees) -/
inductive WF : KVs → Prop
  | mk {m : KVs} : (keys m).Nodup → (∀ k d, lookup k m = some (.dict d) → WF d) → WF m

/-- type consistency of two levels: a key is a section in both or a leaf in both -/
inductive Compat : KVs → KVs → Prop
  | mk {a b : KVs} :
      (∀ k x y, lookup k a = some (.dict x) → lookup k b = some (.dict y) → Compat x y) →
      (∀ k x y, lookup k a = some (.dict x) → lookup k b = some (.leaf y) → False) →
      (∀ k x y, lookup k a = some (.leaf x) → lookup k b = some (.dict y) → False) →
      Compat a b

/-! ### additions for C03/C16 (sections, path writes) -/

/-- the section (nested dict) at a key path; `[]` is the dict itself -/
def getSec : List Key → KVs → Option KVs
  | [], m => some m
  | k :: rest, m => match lookup k m with | some (.dict d) => getSec rest d | _ => none

/-- is the path a section (a nested dict) of `m`? -/
def isSec (p : List Key) (m : KVs) : Bool := (getSec p m).isSome

/-- is the path a leaf setting of `m`? -/
def isLeaf (p : List Key) (m : KVs) : Bool := (getLeaf p m).isSome

/-- the sub-dict at `k`, `[]` when `k` is absent or a leaf (`if key not in obj: obj[key] = {}`) -/
def subDict (k : Key) (m : KVs) : KVs :=
  match lookup k m with | some (.dict d) => d | _ => []

/-- write a leaf at a key path, creating intermediate dicts (`Environment._path_set`) -/
def setLeaf : List Key → Leaf → KVs → KVs
  | [], _, m => m
  | [k], x, m => insert k (.leaf x) m
  | k :: k2 :: rest, x, m => insert k (.dict (setLeaf (k2 :: rest) x (subDict k m))) m

/-- `q` is a prefix of `p` -/
def isPrefixOf : List Key → List Key → Bool
  | [], _ => true
  | _ :: _, [] => false
  | a :: q, b :: p => a == b && isPrefixOf q p

/-- all leaf paths below `path`, in dict order -/
def leafPaths (path : List Key) : KVs → List (List Key)
  | [] => []
  | (k, .leaf _) :: rest => (path ++ [k]) :: leafPaths path rest
  | (k, .dict d) :: rest => leafPaths (path ++ [k]) d ++ leafPaths path rest


/-- does the association list have an entry for `k`? -/
def hasKey (k : Key) (m : KVs) : Bool := (lookup k m).isSome

mutual
/-- executable `WF` (sound: `wfB_sound`); structural, so `decide` evaluates it -/
def wfB : KVs → Bool
  | [] => true
  | (k, v) :: rest => (!(hasKey k rest)) && wfVal v && wfB rest
def wfVal : Val → Bool
  | .leaf _ => true
  | .dict d => wfB d
end

mutual
/-- executable `Compat` (sound: `compatB_sound`); structural, so `decide` evaluates it -/
def compatB : KVs → KVs → Bool
  | [], _ => true
  | (k, v) :: rest, b => compatVal v (lookup k b) && compatB rest b
def compatVal : Val → Option Val → Bool
  | .dict x, some (.dict y) => compatB x y
  | .dict _, some (.leaf _) => false
  | .leaf _, some (.dict _) => false
  | _, _ => true
end

end Inv
