/-! Model of `invoke.watchers.Responder` / `FailingResponder` for fixed-width patterns
    (sequences of character classes; `re.S`, so `.` also matches newlines).

    `starts` is `re.finditer` (leftmost, non-overlapping) written with a skip counter so that it is
    structurally recursive.  `submit` is `Responder.pattern_matches`: scan the text after the stored
    index, move the index to the end of the last match. -/
namespace Inv

inductive Cls | any | lit (c : Char) | oneOf (cs : List Char) deriving Repr, DecidableEq
def Cls.ok : Cls → Char → Bool
  | .any, _ => true
  | .lit c, x => x == c
  | .oneOf cs, x => cs.contains x
abbrev Pat := List Cls

/-- does the pattern match a prefix of the text? (`re.match` with a fixed-width pattern) -/
def matchAt : Pat → List Char → Bool
  | [], _ => true
  | _ :: _, [] => false
  | p :: ps, c :: cs => p.ok c && matchAt ps cs

/-- start offsets of the leftmost non-overlapping matches (`re.finditer`);
    `skip` = characters still covered by the previous match -/
def starts (p : Pat) : Nat → Nat → List Char → List Nat
  | _, _, [] => []
  | skip + 1, pos, _ :: cs => starts p skip (pos + 1) cs
  | 0, pos, c :: cs =>
    if matchAt p (c :: cs) then pos :: starts p (p.length - 1) (pos + 1) cs
    else starts p 0 (pos + 1) cs

def findall (p : Pat) (t : List Char) : List Nat := starts p 0 0 t

/-- end offset of the last match, 0 if none -/
def lastEnd (p : Pat) (t : List Char) : Nat :=
  match (findall p t).getLast? with | none => 0 | some s => s + p.length

/-- `Responder.pattern_matches`: returns (new index, number of matches) -/
def submit (p : Pat) (idx : Nat) (stream : List Char) : Nat × Nat :=
  let new := stream.drop idx
  match (findall p new).getLast? with
  | none => (idx, 0)
  | some s => (idx + (s + p.length), (findall p new).length)

/-- the rule the code had before the repair (index jumps to the end of the text seen) -/
def submitPinned (p : Pat) (idx : Nat) (stream : List Char) : Nat × Nat :=
  let new := stream.drop idx
  if (findall p new).isEmpty then (idx, 0) else (idx + new.length, (findall p new).length)

/-- feed the chunks one by one; each submit sees the whole capture buffer so far
    (`Runner.respond` joins the buffer).  Result: total number of responses. -/
def runChunks (sub : Nat → List Char → Nat × Nat) : Nat → List Char → List (List Char) → Nat
  | _, _, [] => 0
  | idx, seen, c :: cs =>
    let r := sub idx (seen ++ c)
    r.2 + runChunks sub r.1 (seen ++ c) cs

/-- per-chunk response counts (what the correspondence check compares) -/
def runChunksTrace (sub : Nat → List Char → Nat × Nat) : Nat → List Char → List (List Char) → List Nat
  | _, _, [] => []
  | idx, seen, c :: cs =>
    let r := sub idx (seen ++ c)
    r.2 :: runChunksTrace sub r.1 (seen ++ c) cs

/-! ### FailingResponder -/

structure FState where
  idx : Nat := 0
  fidx : Nat := 0
  tried : Bool := false
  deriving Repr, DecidableEq

/-- `FailingResponder.submit`: the sentinel is scanned first (its index advances even when the call
    raises); `tried` is set by *any* completed submit, because the code tests the truthiness of a
    generator object; the responses are produced afterwards.  `none` = `ResponseNotAccepted`. -/
def fsubmit (p sent : Pat) (s : FState) (stream : List Char) : FState × Option Nat :=
  let f := submit sent s.fidx stream
  if s.tried && f.2 != 0 then ({ s with fidx := f.1 }, none)
  else
    let r := submit p s.idx stream
    ({ idx := r.1, fidx := f.1, tried := true }, some r.2)

/-- run over chunks; stops at the first raise.  Per-chunk outputs; `none` marks the raise. -/
def frun (p sent : Pat) : FState → List Char → List (List Char) → List (Option Nat)
  | _, _, [] => []
  | s, seen, c :: cs =>
    match fsubmit p sent s (seen ++ c) with
    | (s', some n) => some n :: frun p sent s' (seen ++ c) cs
    | (_, none) => [none]

/-! ### several commands on one Context

`Context.run` uses the configured watchers; `Context._sudo` uses a CLONE of the configured list
extended by one password responder, so the configured list is the same before and after every
command.  Watcher state is per thread (`StreamWatcher(threading.local)`) and every command reads
its output in new threads, so every watcher starts every command FRESH (index 0, nothing seen). -/

/-- one command: `sudo = some prompt` for `Context.sudo`, `none` for `Context.run`;
    `kw = some ws` when the call passes `watchers=ws`; `chunks` = the reads in which its output arrived -/
structure Cmd where
  sudo : Option Pat
  kw : Option (List Pat) := none
  chunks : List (List Char)
  deriving Repr, DecidableEq

/-- a `watchers=` kwarg replaces the configured watchers -/
def Cmd.base (conf : List Pat) (c : Cmd) : List Pat :=
  match c.kw with
  | none => conf
  | some ws => ws

/-- the watchers a command runs with, given the configured ones; sudo adds its password responder -/
def Cmd.watchers (conf : List Pat) (c : Cmd) : List Pat :=
  match c.sudo with
  | none => c.base conf
  | some prompt => c.base conf ++ [prompt]

/-- the configured watchers after the command: unchanged (the list was cloned) -/
def Cmd.confAfter (conf : List Pat) (_c : Cmd) : List Pat := conf

/-- the rule a seeded change had: without a `watchers=` kwarg sudo appends its responder to the
    configured list itself -/
def Cmd.confAfterLeaky (conf : List Pat) (c : Cmd) : List Pat :=
  match c.kw with
  | none => c.watchers conf
  | some _ => conf

/-- number of responses per watcher for one command; every watcher starts fresh -/
def cmdResponses (ws : List Pat) (chunks : List (List Char)) : List Nat :=
  ws.map (fun p => runChunks (submit p) 0 [] chunks)

/-- a history of commands on one Context: per command, per watcher, the number of responses -/
def historyWith (after : List Pat → Cmd → List Pat) : List Pat → List Cmd → List (List Nat)
  | _, [] => []
  | conf, c :: cs => cmdResponses (c.watchers conf) c.chunks :: historyWith after (after conf c) cs

def history : List Pat → List Cmd → List (List Nat) := historyWith Cmd.confAfter
def historyLeaky : List Pat → List Cmd → List (List Nat) := historyWith Cmd.confAfterLeaky

/-- what the text alone determines: per watcher the occurrences in the command's whole output -/
def cmdReference (conf : List Pat) (c : Cmd) : List Nat :=
  (c.watchers conf).map (fun p => (findall p c.chunks.flatten).length)

end Inv
