import Invoke.Lemmas.SpellFrame
/-! # C01 — every spelling of an intended invocation parses to exactly that invocation

Model: `Invoke/Model/Parser.lean` (the argv state machine of `invoke/parser/parser.py` + `argument.py` +
`context.py`, as it is NOW in /repo, i.e. with the `fix:` commits).  Helper lemmas: `Invoke/Lemmas/ParserChain.lean`
(invariants `Ready`/`Pending`, one lemma per token form), `SpellOpt.lean` (bare optional-value flags),
`SpellItems.lean` (items, side conditions, composition), `SpellChain.lean` (task switch, chains, `parseArgv`),
`SpellCheck.lean` (executable side conditions + soundness), `SpellFrame.lean` (what items do not touch).

FULL-STRENGTH STATEMENT AIMED AT (DESIGN.md §3 C01):

    theorem parse_spelling (P : ParserSpec) (hP : P.WF) (invs : List Invocation)
        (sp : Spelling P invs) (hv : ValuesAdmissible P invs) :
        parseArgv P (render sp) = .ok (expectedResult P invs)

where `Spelling` ranges over ALL documented forms.  What is proved below is `parse_spelling_partial`: the same
conclusion with the spelling given as a list of `Call`s, each a name token plus a list of `Item`s.  The items ARE
the documented forms; the theorem covers

  * task name or alias (any registry lookup hit), chains of any length, with or without a core context;
  * value flags, long or short, `--name v` (`Item.spaced`), `--name=v` / `-n=v` (`Item.eq`), `-nVALUE`
    (`Item.glued`, VALUE may contain `=`), for `str` parameters (verbatim), `int` parameters (typed by `int()`),
    list parameters (each occurrence appends) and optional-value parameters WITH a value;
  * boolean flags and counters (`Item.toggle`: bool ↦ True, counter ↦ +1, repeatable), `--no-x` inverses
    (`Item.inverse`), combined short blocks `-abc` / `-vvv` (`Item.block`);
  * positional tokens (`Item.pos`, fills the first positional that has no value yet; a positional parameter given
    by flag is simply a value-flag item);
  * optional-value flags given bare (`Item.optBare` ↦ True);
  * any number of items in ANY order.

Side conditions (`Item.ok`, `ItemsOK`, `ChainOK` — all evaluated against the context as it evolves), each with its
justification:

  1. `ValFlagOK.fresh`: a non-list value parameter is mentioned at most once (a second mention is outside the
     property: the parser then treats the flag as already satisfied);
  2. `ValFlagOK.hv1/hv2`, `Item.pos`: the value is not itself a flag / inverse flag of the task — the property's own
     quantifier ("argument values not colliding with a flag or task name");
  3. `ValFlagOK.give`: the value is admissible for the parameter's kind (`int()` accepts it);
  4. `Item.glued`: the glued value is non-empty and does not start with `=` (`-n=v` IS the documented equals form);
  5. `Item.pos`: a positional value is not flag-like, or is a flag-like token the parser does not pre-split (`-x`,
     `--zzz`: no `=`, not a short token longer than two characters); it is not a core flag; it fills the FIRST
     unfilled positional (meaning of "positional": a positional given by flag must therefore come before a
     positional token that would otherwise fill it). Excluded point, real code: `inv t -xyz` / `inv t --zz=1` with
     `def t(c, pos)` are pre-split and refused ("No idea what '-y' is!") — flag-like positional values are not a
     documented form (`inv t --pos=-xyz` is, and is covered);
  6. `OptValueOK` (documented, "Optional flag values / Resolving ambiguity"): an optional-value flag takes a value
     only when every positional of the task is filled and the value is not a task name; the value is not flag-like,
     or no piece of it (the token, its part before `=`, its first two characters) is a flag of the task — then it "is
     interpreted literally and stored as the value";
  7. `Item.optBare` + `FollowsBare` + `ChainOK` (same section): a bare optional-value flag comes after all
     positionals and is followed by another FLAG of the same task (whose first piece is not a task name) or ends the
     command line;
  8. `NameOK`: a task-name token is not flag-like, is not a flag of the context it is read in, and that context has
     all its positionals (an invocation supplies every required argument);
  9. no token is the `--` remainder sentinel (documented in `invoke.rst`).

NOT covered (hence `_partial`): the signature → `Ctx` step (`Task.get_arguments`, property C09) is taken from the
real code by the correspondence check rather than modelled here; core options interleaved with task tokens (C18);
values whose textual form `int()` accepts beyond ASCII sign+digits.
-/
open Inv Inv.M
namespace Inv.C01

/-- HEADLINE (partial, see the module doc for the exact coverage): every admissible spelling of a chain of calls parses
    to the core context (if any) followed by exactly one context per call, namely a fresh copy of the call's registry
    context with exactly the intended effects of its items. Nothing is unparsed, nothing is left over. -/
theorem parse_spelling_partial (ic : Option Ctx) (reg : List Ctx) (ign : Bool) (calls : List Call)
    (hok : ChainOK ic reg ic calls)
    (hbody : ∀ t ∈ calls.flatMap Call.toks, t ≠ ['-', '-']) :
    parseArgv ic reg ign (calls.flatMap Call.toks) =
      .ok { contexts := ic.toList ++ calls.map Call.result, unparsed := [], remainder := [] } :=
  parse_chain_core ic reg ign calls hok hbody

/-- the same with the side conditions in executable form (what `drv_spell` evaluates per generated case) -/
theorem parse_spelling_checked (ic : Option Ctx) (reg : List Ctx) (ign : Bool) (calls : List Call)
    (hok : chainOKb ic reg ic calls = true) (hbody : noSentinelB (calls.flatMap Call.toks) = true) :
    parseArgv ic reg ign (calls.flatMap Call.toks) =
      .ok { contexts := ic.toList ++ calls.map Call.result, unparsed := [], remainder := [] } :=
  parse_spelling_partial ic reg ign calls (chainOKb_sound calls hok) (noSentinelB_sound hbody)

/-- NO TOKEN IS ATTRIBUTED TO A NEIGHBOUR / OCCURRENCES ARE INDEPENDENT: the `j`-th task context of the result is a
    function of the `j`-th call alone (its registry context and its own items) — whatever the other calls are, and
    also when they name the same task (each occurrence starts from the pristine registry copy). -/
theorem occurrences_independent (ic : Option Ctx) (reg : List Ctx) (ign : Bool) (calls : List Call)
    (hok : ChainOK ic reg ic calls) (hbody : ∀ t ∈ calls.flatMap Call.toks, t ≠ ['-', '-'])
    (j : Nat) (k : Call) (hk : calls[j]? = some k) :
    ∃ r, parseArgv ic reg ign (calls.flatMap Call.toks) = .ok r ∧
      r.contexts[ic.toList.length + j]? = some (k.items.foldl Item.apply k.ctx) := by
  refine ⟨_, parse_spelling_partial ic reg ign calls hok hbody, ?_⟩
  simp [List.getElem?_append_right, hk, Call.result]

/-- DEFAULTS FOR UNMENTIONED: a parameter no item of the call mentions keeps the state it has in the registry
    context (so it shows its declared default, `init_value_nonlist`), and the context keeps its name. -/
theorem defaults_for_unmentioned (k : Call) (j : Nat) (h : ∀ it ∈ k.items, j ∉ it.indices) :
    k.result.args[j]? = k.ctx.args[j]? ∧ k.result.name = k.ctx.name :=
  ⟨foldl_apply_args_ne k.items k.ctx j h, foldl_apply_name k.items k.ctx⟩

/-- a freshly declared non-list parameter shows its declared default -/
theorem fresh_arg_shows_default (sp : ArgSpec) (h : sp.kind ≠ .list) : (Arg.init sp).value = sp.default :=
  init_value_nonlist sp h

/-- TYPED VALUES: what an admissible value-flag item stores — `str` verbatim, `int` as the integer, list appended. -/
theorem typed_value (a a' : Arg) (v : Tok) (h : a.give v = some a') :
    (a.spec.kind = .str → a'.value = .s v) ∧
    (a.spec.kind = .int → ∃ n, pyInt? v = some n ∧ a'.value = .i n) ∧
    (a.spec.kind = .list → ∃ xs, a.val = .l xs ∧ a'.value = .l (xs ++ [v])) := by
  unfold Arg.give at h
  refine ⟨?_, ?_, ?_⟩
  · intro hk
    simp [hk, castTok] at h
    subst h; simp [Arg.value]
  · intro hk
    simp [hk, castTok] at h
    obtain ⟨n, hn, rfl⟩ := h
    exact ⟨n, hn, by simp [Arg.value]⟩
  · intro hk
    simp only [hk, if_true] at h
    cases hv : a.val <;> simp [hv] at h
    subst h
    exact ⟨_, rfl, by simp [Arg.value]⟩

/-! ## Non-vacuity: a concrete collection, a chain using every item kind, the same task twice -/

def T (s : String) : Tok := s.toList

/-- `def build(c, pos, name='dflt', num=3, flag=False, verbose=False, quiet=True, lst=[], cnt=0, opt=None)`
    with `iterable=['lst'], incrementable=['cnt'], optional=['opt']`, auto short flags, alias `b` -/
def buildSpecs : List ArgSpec :=
  [ { names := [T "pos", T "p"], positional := true },
    { names := [T "name", T "n"], default := .s (T "dflt") },
    { names := [T "num", T "u"], kind := .int, default := .i 3 },
    { names := [T "flag", T "f"], kind := .bool, default := .b false },
    { names := [T "verbose", T "v"], kind := .bool, default := .b false },
    { names := [T "quiet", T "q"], kind := .bool, default := .b true },
    { names := [T "lst", T "l"], kind := .list, default := .l [] },
    { names := [T "cnt", T "c"], kind := .int, default := .i 0, incrementable := true },
    { names := [T "opt", T "o"], optional := true } ]

def orEmpty : Except Err Ctx → Ctx | .ok c => c | .error _ => Ctx.empty none

def buildCtx : Ctx := orEmpty (Ctx.ofSpecs (some (T "build")) [T "b"] buildSpecs)
def cleanCtx : Ctx := orEmpty (Ctx.ofSpecs (some (T "clean")) [] [{ names := [T "name", T "n"], default := .none }])
def coreCtx : Ctx := orEmpty (Ctx.ofSpecs none []
  [ { names := [T "echo", T "e"], kind := .bool, default := .b false },
    { names := [T "help", T "h"], optional := true } ])
def exReg : List Ctx := [buildCtx, cleanCtx]

/-- `build x --name=a=b -u -5 -fv --no-quiet -l one --lst two -ccc  clean -nbuild  b --pos=y -nfoo=bar --cnt --opt` -/
def exCall0 : Call :=
  { tname := T "build", ctx := buildCtx, items :=
      [ .pos (T "x") 0, .eq (T "--name") (T "a=b") 1, .spaced (T "-u") (T "-5") 2, .block 'f' 3 [('v', 4)],
        .inverse (T "--no-quiet") 5, .spaced (T "-l") (T "one") 6, .spaced (T "--lst") (T "two") 6,
        .block 'c' 7 [('c', 7), ('c', 7)] ] }
def exCall1 : Call := { tname := T "clean", ctx := cleanCtx, items := [ .glued 'n' 'b' (T "uild") 0 ] }
def exCall2 : Call :=
  { tname := T "b", ctx := buildCtx, items :=
      [ .eq (T "--pos") (T "y") 0, .glued 'n' 'f' (T "oo=bar") 1, .toggle (T "--cnt") 7, .optBare (T "--opt") 8 ] }
def exCalls : List Call := [exCall0, exCall1, exCall2]

example : exCalls.flatMap Call.toks =
    [T "build", T "x", T "--name=a=b", T "-u", T "-5", T "-fv", T "--no-quiet", T "-l", T "one", T "--lst", T "two",
     T "-ccc", T "clean", T "-nbuild", T "b", T "--pos=y", T "-nfoo=bar", T "--cnt", T "--opt"] := by decide

/-- the hypotheses of `parse_spelling_partial` are satisfiable by a chain using every item kind … -/
example : ChainOK (some coreCtx) exReg (some coreCtx) exCalls := chainOKb_sound exCalls (by decide)
example : ∀ t ∈ exCalls.flatMap Call.toks, t ≠ ['-', '-'] := noSentinelB_sound (by decide)

/-- … with a core context … -/
example : parseArgv (some coreCtx) exReg false (exCalls.flatMap Call.toks) =
    .ok { contexts := [coreCtx] ++ exCalls.map Call.result, unparsed := [], remainder := [] } :=
  parse_spelling_checked (some coreCtx) exReg false exCalls (by decide) (by decide)

/-- … and without one. -/
example : parseArgv none exReg false (exCalls.flatMap Call.toks) =
    .ok { contexts := exCalls.map Call.result, unparsed := [], remainder := [] } :=
  parse_spelling_checked none exReg false exCalls (by decide) (by decide)

/-- the values the three calls deliver (typed, defaults for the unmentioned, the two `build` occurrences independent) -/
example : (exCalls.map Call.result).map (fun c => c.args.map Arg.value) =
    [ [.s (T "x"), .s (T "a=b"), .i (-5), .b true, .b true, .b false, .l [T "one", T "two"], .i 3, .none],
      [.s (T "build")],
      [.s (T "y"), .s (T "foo=bar"), .i 3, .b false, .b false, .b true, .l [], .i 1, .b true] ] := by decide

example : ∃ r, parseArgv (some coreCtx) exReg false (exCalls.flatMap Call.toks) = .ok r ∧
    r.contexts[1 + 2]? = some (exCall2.items.foldl Item.apply exCall2.ctx) :=
  occurrences_independent (some coreCtx) exReg false exCalls (chainOKb_sound exCalls (by decide))
    (noSentinelB_sound (by decide)) 2 exCall2 rfl

example : exCall1.result.name = cleanCtx.name := (defaults_for_unmentioned exCall1 99 (by decide)).2
example : exCall2.result.args[2]? = buildCtx.args[2]? := (defaults_for_unmentioned exCall2 2 (by decide)).1
example : (Arg.init { names := [T "num"], kind := .int, default := .i 3 }).value = .i 3 :=
  fresh_arg_shows_default _ (by decide)
example : ∃ a', (Arg.init { names := [T "num"], kind := .int, default := .i 3 }).give (T "-5") = some a' ∧ a'.value = .i (-5) :=
  ⟨_, rfl, by decide⟩

/-! ## Regression witnesses of the repaired behaviour (DESIGN.md §4 #10, #8) -/

/-- #10: a value glued to a short flag keeps any `=` it contains (`-nfoo=bar` ↦ name = "foo=bar") -/
example : (parseArgv none exReg false [T "clean", T "-nfoo=bar"]).toOption.map
    (fun r => r.contexts.map fun c => c.args.map Arg.value) = some [[.s (T "foo=bar")]] := by decide

/-- outside the hypotheses the parser may refuse — e.g. a bare optional-value flag followed by a task name is the
    documented ambiguity error, so side condition 7 cannot be dropped -/
example : (match parseArgv none exReg false [T "build", T "x", T "--opt", T "clean"] with
    | .error (.parse k _) => k | _ => "") = "ambiguous" := by decide

end Inv.C01
