import Invoke.Lemmas.SpellFrame
import Invoke.Lemmas.SpellSigKwargs
/-! # C01 — every spelling of an intended invocation parses to exactly that invocation

Model: `Invoke/Model/Parser.lean` (the argv state machine of `invoke/parser/parser.py` + `argument.py` +
`context.py`, as it is NOW in /repo, i.e. with the `fix:` commits).  Helper lemmas: `Invoke/Lemmas/ParserChain.lean`
(invariants `Ready`/`Pending`, one lemma per token form), `SpellOpt.lean` (bare optional-value flags),
`SpellItems.lean` (items, side conditions, composition), `SpellChain.lean` (task switch, chains, `parseArgv`),
`SpellCheck.lean` (executable side conditions + soundness), `SpellFrame.lean` (what items do not touch).

FULL-STRENGTH STATEMENT AIMED AT (DESIGN.md §3 C01):

    theorem parse_spelling (P : ParserSpec) (hP : P.WF) (invs : List Invocation)
        (sp : Spelling P invs) (hv : ValuesAdmissible P invs) :
        parseArgv P (render sp) = .ok (expectedResult P invs)

where `Spelling` ranges over ALL documented forms.  What is proved below is `parse_spelling_partial`: the same
conclusion with the spelling given as a list of `Call`s, each a name token plus a list of `Item`s.  The items ARE
the documented forms; the theorem covers

  * task name or alias (any registry lookup hit), chains of any length, with or without a core context;
  * value flags, long or short, `--name v` (`Item.spaced`), `--name=v` / `-n=v` (`Item.eq`), `-nVALUE`
    (`Item.glued`, VALUE may contain `=`), for `str` parameters (verbatim), `int` parameters (typed by `int()`),
    list parameters (each occurrence appends) and optional-value parameters WITH a value;
  * boolean flags and counters (`Item.toggle`: bool ↦ True, counter ↦ +1, repeatable), `--no-x` inverses
    (`Item.inverse`), combined short blocks `-abc` / `-vvv` (`Item.block`);
  * positional tokens (`Item.pos`, fills the first positional that has no value yet; a positional parameter given
    by flag is simply a value-flag item);
  * optional-value flags given bare (`Item.optBare` ↦ True);
  * any number of items in ANY order.

Side conditions (`Item.ok`, `ItemsOK`, `ChainOK` — all evaluated against the context as it evolves), each with its
justification:

  1. `ValFlagOK.fresh`: a non-list value parameter is mentioned at most once (a second mention is outside the
     property: the parser then treats the flag as already satisfied);
  2. `ValFlagOK.hv1/hv2`, `Item.pos`: the value is not itself a flag / inverse flag of the task — the property's own
     quantifier ("argument values not colliding with a flag or task name");
  3. `ValFlagOK.give`: the value is admissible for the parameter's kind (`int()` accepts it);
  4. `Item.glued`: the glued value is non-empty and does not start with `=` (`-n=v` IS the documented equals form);
  5. `Item.pos`: a positional value is not flag-like, or is a flag-like token the parser does not pre-split (`-x`,
     `--zzz`: no `=`, not a short token longer than two characters); it is not a core flag; it fills the FIRST
     unfilled positional (meaning of "positional": a positional given by flag must therefore come before a
     positional token that would otherwise fill it). Excluded point, real code: `inv t -xyz` / `inv t --zz=1` with
     `def t(c, pos)` are pre-split and refused ("No idea what '-y' is!") — flag-like positional values are not a
     documented form (`inv t --pos=-xyz` is, and is covered);
  6. `OptValueOK` (documented, "Optional flag values / Resolving ambiguity"): an optional-value flag takes a value
     only when every positional of the task is filled, the value is not a task name and is not spelled like a core
     flag (such a token belongs to the core: `is_core_flag_in_task_context`); the value is not flag-like,
     or no piece of it (the token, its part before `=`, its first two characters) is a flag of the task or of the core — then it "is
     interpreted literally and stored as the value";
  7. `Item.optBare` + `FollowsBare` + `ChainOK` (same section): a bare optional-value flag comes after all
     positionals and is followed by another FLAG of the same task (whose first piece is not a task name) or ends the
     command line;
  8. `NameOK`: a task-name token is not flag-like, is not a flag of the context it is read in, and that context has
     all its positionals (an invocation supplies every required argument);
  9. no token is the `--` remainder sentinel (documented in `invoke.rst`).

NOT covered by `parse_spelling_partial` itself: the signature → `Ctx` step (`Task.get_arguments`, property C09) — that gap
is closed by the composition theorem `parse_spelling_from_signatures` at the end of this file (contexts built by
C09's `mkCtx`, items given as mentions of the signature's PARAMETERS, side conditions about the signature only,
conclusion about the keyword arguments the task receives); still open: core options interleaved with task tokens (C18);
values whose textual form `int()` accepts beyond ASCII sign+digits.
-/
open Inv Inv.M
namespace Inv.C01

/-- HEADLINE (partial, see the module doc for the exact coverage): every admissible spelling of a chain of calls parses
    to the core context (if any) followed by exactly one context per call, namely a fresh copy of the call's registry
    context with exactly the intended effects of its items. Nothing is unparsed, nothing is left over. -/
theorem parse_spelling_partial (ic : Option Ctx) (reg : List Ctx) (ign : Bool) (calls : List Call)
    (hok : ChainOK ic reg ic calls)
    (hbody : ∀ t ∈ calls.flatMap Call.toks, t ≠ ['-', '-']) :
    parseArgv ic reg ign (calls.flatMap Call.toks) =
      .ok { contexts := ic.toList ++ calls.map Call.result, unparsed := [], remainder := [] } :=
  parse_chain_core ic reg ign calls hok hbody

/-- the same with the side conditions in executable form (what `drv_spell` evaluates per generated case) -/
theorem parse_spelling_checked (ic : Option Ctx) (reg : List Ctx) (ign : Bool) (calls : List Call)
    (hok : chainOKb ic reg ic calls = true) (hbody : noSentinelB (calls.flatMap Call.toks) = true) :
    parseArgv ic reg ign (calls.flatMap Call.toks) =
      .ok { contexts := ic.toList ++ calls.map Call.result, unparsed := [], remainder := [] } :=
  parse_spelling_partial ic reg ign calls (chainOKb_sound calls hok) (noSentinelB_sound hbody)

/-- NO TOKEN IS ATTRIBUTED TO A NEIGHBOUR / OCCURRENCES ARE INDEPENDENT: the `j`-th task context of the result is a
    function of the `j`-th call alone (its registry context and its own items) — whatever the other calls are, and
    also when they name the same task (each occurrence starts from the pristine registry copy). -/
theorem occurrences_independent (ic : Option Ctx) (reg : List Ctx) (ign : Bool) (calls : List Call)
    (hok : ChainOK ic reg ic calls) (hbody : ∀ t ∈ calls.flatMap Call.toks, t ≠ ['-', '-'])
    (j : Nat) (k : Call) (hk : calls[j]? = some k) :
    ∃ r, parseArgv ic reg ign (calls.flatMap Call.toks) = .ok r ∧
      r.contexts[ic.toList.length + j]? = some (k.items.foldl Item.apply k.ctx) := by
  refine ⟨_, parse_spelling_partial ic reg ign calls hok hbody, ?_⟩
  simp [List.getElem?_append_right, hk, Call.result]

/-- DEFAULTS FOR UNMENTIONED: a parameter no item of the call mentions keeps the state it has in the registry
    context (so it shows its declared default, `init_value_nonlist`), and the context keeps its name. -/
theorem defaults_for_unmentioned (k : Call) (j : Nat) (h : ∀ it ∈ k.items, j ∉ it.indices) :
    k.result.args[j]? = k.ctx.args[j]? ∧ k.result.name = k.ctx.name :=
  ⟨foldl_apply_args_ne k.items k.ctx j h, foldl_apply_name k.items k.ctx⟩

/-- a freshly declared non-list parameter shows its declared default -/
theorem fresh_arg_shows_default (sp : ArgSpec) (h : sp.kind ≠ .list) : (Arg.init sp).value = sp.default :=
  init_value_nonlist sp h

/-- TYPED VALUES: what an admissible value-flag item stores — `str` verbatim, `int` as the integer, list appended. -/
theorem typed_value (a a' : Arg) (v : Tok) (h : a.give v = some a') :
    (a.spec.kind = .str → a'.value = .s v) ∧
    (a.spec.kind = .int → ∃ n, pyInt? v = some n ∧ a'.value = .i n) ∧
    (a.spec.kind = .list → ∃ xs, a.val = .l xs ∧ a'.value = .l (xs ++ [v])) := by
  unfold Arg.give at h
  refine ⟨?_, ?_, ?_⟩
  · intro hk
    simp [hk, castTok] at h
    subst h; simp [Arg.value]
  · intro hk
    simp [hk, castTok] at h
    obtain ⟨n, hn, rfl⟩ := h
    exact ⟨n, hn, by simp [Arg.value]⟩
  · intro hk
    simp only [hk, if_true] at h
    cases hv : a.val <;> simp [hv] at h
    subst h
    exact ⟨_, rfl, by simp [Arg.value]⟩

/-! ## Non-vacuity: a concrete collection, a chain using every item kind, the same task twice -/

def T (s : String) : Tok := s.toList

/-- `def build(c, pos, name='dflt', num=3, flag=False, verbose=False, quiet=True, lst=[], cnt=0, opt=None)`
    with `iterable=['lst'], incrementable=['cnt'], optional=['opt']`, auto short flags, alias `b` -/
def buildSpecs : List ArgSpec :=
  [ { names := [T "pos", T "p"], positional := true },
    { names := [T "name", T "n"], default := .s (T "dflt") },
    { names := [T "num", T "u"], kind := .int, default := .i 3 },
    { names := [T "flag", T "f"], kind := .bool, default := .b false },
    { names := [T "verbose", T "v"], kind := .bool, default := .b false },
    { names := [T "quiet", T "q"], kind := .bool, default := .b true },
    { names := [T "lst", T "l"], kind := .list, default := .l [] },
    { names := [T "cnt", T "c"], kind := .int, default := .i 0, incrementable := true },
    { names := [T "opt", T "o"], optional := true } ]

def orEmpty : Except Err Ctx → Ctx | .ok c => c | .error _ => Ctx.empty none

def buildCtx : Ctx := orEmpty (Ctx.ofSpecs (some (T "build")) [T "b"] buildSpecs)
def cleanCtx : Ctx := orEmpty (Ctx.ofSpecs (some (T "clean")) [] [{ names := [T "name", T "n"], default := .none }])
def coreCtx : Ctx := orEmpty (Ctx.ofSpecs none []
  [ { names := [T "echo", T "e"], kind := .bool, default := .b false },
    { names := [T "help", T "h"], optional := true } ])
def exReg : List Ctx := [buildCtx, cleanCtx]

/-- `build x --name=a=b -u -5 -fv --no-quiet -l one --lst two -ccc  clean -nbuild  b --pos=y -nfoo=bar --cnt --opt` -/
def exCall0 : Call :=
  { tname := T "build", ctx := buildCtx, items :=
      [ .pos (T "x") 0, .eq (T "--name") (T "a=b") 1, .spaced (T "-u") (T "-5") 2, .block 'f' 3 [('v', 4)],
        .inverse (T "--no-quiet") 5, .spaced (T "-l") (T "one") 6, .spaced (T "--lst") (T "two") 6,
        .block 'c' 7 [('c', 7), ('c', 7)] ] }
def exCall1 : Call := { tname := T "clean", ctx := cleanCtx, items := [ .glued 'n' 'b' (T "uild") 0 ] }
def exCall2 : Call :=
  { tname := T "b", ctx := buildCtx, items :=
      [ .eq (T "--pos") (T "y") 0, .glued 'n' 'f' (T "oo=bar") 1, .toggle (T "--cnt") 7, .optBare (T "--opt") 8 ] }
def exCalls : List Call := [exCall0, exCall1, exCall2]

example : exCalls.flatMap Call.toks =
    [T "build", T "x", T "--name=a=b", T "-u", T "-5", T "-fv", T "--no-quiet", T "-l", T "one", T "--lst", T "two",
     T "-ccc", T "clean", T "-nbuild", T "b", T "--pos=y", T "-nfoo=bar", T "--cnt", T "--opt"] := by decide

/-- the hypotheses of `parse_spelling_partial` are satisfiable by a chain using every item kind … -/
example : ChainOK (some coreCtx) exReg (some coreCtx) exCalls := chainOKb_sound exCalls (by decide)
example : ∀ t ∈ exCalls.flatMap Call.toks, t ≠ ['-', '-'] := noSentinelB_sound (by decide)

/-- … with a core context … -/
example : parseArgv (some coreCtx) exReg false (exCalls.flatMap Call.toks) =
    .ok { contexts := [coreCtx] ++ exCalls.map Call.result, unparsed := [], remainder := [] } :=
  parse_spelling_checked (some coreCtx) exReg false exCalls (by decide) (by decide)

/-- … and without one. -/
example : parseArgv none exReg false (exCalls.flatMap Call.toks) =
    .ok { contexts := exCalls.map Call.result, unparsed := [], remainder := [] } :=
  parse_spelling_checked none exReg false exCalls (by decide) (by decide)

/-- the values the three calls deliver (typed, defaults for the unmentioned, the two `build` occurrences independent) -/
example : (exCalls.map Call.result).map (fun c => c.args.map Arg.value) =
    [ [.s (T "x"), .s (T "a=b"), .i (-5), .b true, .b true, .b false, .l [T "one", T "two"], .i 3, .none],
      [.s (T "build")],
      [.s (T "y"), .s (T "foo=bar"), .i 3, .b false, .b false, .b true, .l [], .i 1, .b true] ] := by decide

example : ∃ r, parseArgv (some coreCtx) exReg false (exCalls.flatMap Call.toks) = .ok r ∧
    r.contexts[1 + 2]? = some (exCall2.items.foldl Item.apply exCall2.ctx) :=
  occurrences_independent (some coreCtx) exReg false exCalls (chainOKb_sound exCalls (by decide))
    (noSentinelB_sound (by decide)) 2 exCall2 rfl

example : exCall1.result.name = cleanCtx.name := (defaults_for_unmentioned exCall1 99 (by decide)).2
example : exCall2.result.args[2]? = buildCtx.args[2]? := (defaults_for_unmentioned exCall2 2 (by decide)).1
example : (Arg.init { names := [T "num"], kind := .int, default := .i 3 }).value = .i 3 :=
  fresh_arg_shows_default _ (by decide)
example : ∃ a', (Arg.init { names := [T "num"], kind := .int, default := .i 3 }).give (T "-5") = some a' ∧ a'.value = .i (-5) :=
  ⟨_, rfl, by decide⟩

/-! ## Regression witnesses of the repaired behaviour (DESIGN.md §4 #10, #8) -/

/-- #10: a value glued to a short flag keeps any `=` it contains (`-nfoo=bar` ↦ name = "foo=bar") -/
example : (parseArgv none exReg false [T "clean", T "-nfoo=bar"]).toOption.map
    (fun r => r.contexts.map fun c => c.args.map Arg.value) = some [[.s (T "foo=bar")]] := by decide

/-- outside the hypotheses the parser may refuse — e.g. a bare optional-value flag followed by a task name is the
    documented ambiguity error, so side condition 7 cannot be dropped -/
example : (match parseArgv none exReg false [T "build", T "x", T "--opt", T "clean"] with
    | .error (.parse k _) => k | _ => "") = "ambiguous" := by decide

/-! ## Composition with C09: from task SIGNATURES to the keyword arguments the task receives

`TaskDecl` = (name, decorator options, parameters); its parser context is C09's `mkCtx` (`TaskDecl.ctx?`); `SigWorld decls
reg` says the registry is exactly the contexts built from the declarations (`Built`), all names are ASCII identifiers
(`IdentSig`, `NoBlankName`: C09's hypotheses) and no task name looks like a flag.  A call is a task name plus a list of
`SItem`s — mentions of PARAMETERS by their python name in one of the documented forms; `SItem.elab` derives the tokens: the
long flag is `toFlag` of the (dashed) parameter name, the short flag is the one `arg_opts` assigned (or the name itself
if it is one character), a positional token goes to the parameter's slot in `get_arguments()`, `--no-` is
`ArgSpec.inverseName`.

`sigChainOKb` (decidable, evaluated per generated case by `drv_spell`) states the side conditions ON THE SIGNATURE:
  * a value parameter is not boolean / counter (`takesVal`), is mentioned once unless it is a list (`done`), its value
    is admissible for the declared type (`castable`) and is not one of the task's own flag tokens (`flagToks`);
  * bare flags only for booleans and for counters with an integer default (`toggles`); `--no-` only for default-True
    booleans (`hasInverse`);
  * a positional token goes to the first positional parameter still without a value (`firstPending`) and is not
    flag-like (or is an unsplittable flag-like token) and not a core flag;
  * optional-value parameters: value / bare form only once every positional has a value (`pending = []`), value not a task
    name, a bare one followed by another flag of the task or ending the command line;
  * every call leaves no positional pending; the core context accepts the first task name.
Everything else the parser-level theorem needs is DERIVED from C09: a flag token reaches its own parameter's slot
(`flag_reaches_its_argument`), flag tokens are pairwise distinct so `--no-x` is not also a flag (`flags_distinct`), the
tokens are well-formed unsplit flags without `=` (`long_flag_wellformed`, `short_is_alnum`), the arguments start as
declared (`context_holds_the_arguments`), task names are not flags of any task (all flag tokens start with `-`), and the
evolving-context conditions (`fresh`, `firstMissing`, lists stay lists, counters stay counters) follow from the
tracking invariant `Tracks` (`Lemmas/SpellTrack.lean`).

Still open: task ALIASES (`mkCtx` builds contexts without aliases, so calls by alias are covered by
`parse_spelling_partial` only), explicit `positional=[…]` lists are covered (they are part of `TaskOpts`) but the harness
does not generate them, core options between task tokens (C18). -/

/-- HEADLINE (composition C09 ∘ C01): for task signatures whose contexts `mkCtx` builds, every command line that spells a
    chain of calls by mentions of the signatures' parameters (side conditions on the signatures only) parses; nothing is
    unparsed or left over; there is exactly one task context per call, in order, carrying the task's name; and FOR EVERY
    PARAMETER of the called task the keyword arguments hold, under the parameter's own name, the intended value — the
    declared start value followed by that parameter's own mentions (and nobody else's), typed by the declared default
    (`intendedStep`; see `intended_values_typed`), hence the declared default when the parameter is not mentioned
    (`unmentioned_shows_declared_default`).
    The registry is a FUNCTION OF THE FINAL SIGNATURES (`Built decls reg`): the order in which the namespace was assembled
    and inspected (sub-collections attached before or after they are filled, tasks and aliases added after an enclosing
    collection was already looked at) is not a parameter of the statement — the implementation must therefore hand the
    parser the same contexts for every assembly history; the harness checks that with incrementally built namespaces. -/
theorem parse_spelling_from_signatures (ic : Option Ctx) (decls : List TaskDecl) (reg : List Ctx) (ign : Bool)
    (ch : List SCall) (w : SigWorld decls reg) (hok : sigChainOKb ic decls ch = true)
    (hbody : noSentinelB (renderChain decls ch) = true) :
    ∃ r, parseArgv ic reg ign (renderChain decls ch) = .ok r ∧ r.unparsed = [] ∧ r.remainder = [] ∧
      r.contexts.length = ic.toList.length + ch.length ∧
      ∀ (n : Nat) (k : SCall) (d : TaskDecl), ch[n]? = some k → findDecl decls k.tname = some d →
        ∃ cn, r.contexts[ic.toList.length + n]? = some cn ∧ cn.name = some d.name ∧
          cn.asKwargs.length = d.args.length ∧
          ∀ p ∈ d.params, ∃ j a, d.slot p.name = some (j, a) ∧
            cn.asKwargs[j]? = some (p.name, intendedValue a (k.items.flatMap (SItem.mentions p.name))) := by
  obtain ⟨calls, hcalls, hparse⟩ := parse_from_signatures ic decls reg ign ch w hok hbody
  obtain ⟨hlen, hget⟩ := elabChain_get hcalls
  refine ⟨_, hparse, rfl, rfl, by simp [hlen], ?_⟩
  intro n k d hk hf
  obtain ⟨c, hc, hcall⟩ := hget n k hk
  obtain ⟨c0, its, hc0, hits, rfl⟩ := elabCall_spec hcall hf
  refine ⟨its.foldl Item.apply c0, ?_, ?_, result_kwargs_length hc0 its, ?_⟩
  · simp [List.getElem?_append_right, hc, Call.result]
  · rw [foldl_apply_name]; exact (mkCtx_name hc0).1
  · intro p hp
    obtain ⟨j, a, hslot⟩ := slot_exists hp
    obtain ⟨hj, hpy, _⟩ := slot_spec hslot
    refine ⟨j, a, hslot, ?_⟩
    rw [result_kwargs_slot hc0 its hj, elabItems_effs hslot k.items hits, hpy]

/-- TYPED ACCORDING TO THE DECLARED DEFAULT: what `intendedValue` is, kind by kind (the kind of the argument spec is the
    one C09's `kind_from_default` derives from the parameter's default). -/
theorem intended_values_typed (a : ArgSpec) :
    (a.kind = .str → ∀ v, intendedValue a [.val v] = .s v) ∧
    (a.kind = .int → ∀ v n, pyInt? v = some n → intendedValue a [.val v] = .i n) ∧
    (a.kind = .list → a.incrementable = false → ∀ vs, intendedValue a (vs.map Eff.val) = .l vs) ∧
    (a.incrementable = false → intendedValue a [.on] = .b true) ∧
    (intendedValue a [.off] = .b false) ∧
    (a.incrementable = true → ∀ n, a.default = .i n → ∀ m, intendedValue a (List.replicate m Eff.on) = .i (n + m)) :=
  ⟨intended_str a, intended_int a, intended_list a, intended_flag a, intended_noflag a, intended_counter a⟩

/-- DECLARED DEFAULTS FOR EVERYTHING NOT MENTIONED: a parameter without mentions shows the value of its freshly declared
    argument, which is the function's own default (`[]` for a list-type parameter) — C09's `CarriesDefault`. -/
theorem unmentioned_shows_declared_default (d : TaskDecl) (a : ArgSpec) (ha : a ∈ d.args) :
    intendedValue a [] = (Arg.init a).value ∧
    ∃ p ∈ d.params, a.pyName = p.name ∧ (p.default ≠ .empty → CarriesDefault p a (intendedValue a [])) :=
  ⟨rfl, unmentioned_carries_default ha⟩

/-! ### Non-vacuity: two real signatures, a chain mentioning parameters in every form, the same task twice

    @task(iterable=['lst'], incrementable=['cnt'], optional=['log'])
    def build(c, pos, name='dflt', num=3, quiet=True, force=False, lst=None, cnt=0, log=None)
    @task
    def clean(c, name=None) -/

def buildDecl : TaskDecl :=
  { name := T "build",
    opts := { iterable := [T "lst"], incrementable := [T "cnt"], optional := [T "log"] },
    params := [⟨T "pos", .empty⟩, ⟨T "name", .str (T "dflt")⟩, ⟨T "num", .int 3⟩, ⟨T "quiet", .bool true⟩,
               ⟨T "force", .bool false⟩, ⟨T "lst", .none⟩, ⟨T "cnt", .int 0⟩, ⟨T "log", .none⟩] }
def cleanDecl : TaskDecl := { name := T "clean", opts := {}, params := [⟨T "name", .none⟩] }
def sigDecls : List TaskDecl := [buildDecl, cleanDecl]
def sigReg : List Ctx := [orEmpty buildDecl.ctx?, orEmpty cleanDecl.ctx?]

/-- the hypotheses about the declarations are satisfiable: the registry IS what `mkCtx` builds -/
theorem sigWorld : SigWorld sigDecls sigReg where
  built := by
    have key : ∀ d : TaskDecl, (d.ctx?).toOption.isSome = true → d.ctx? = .ok (orEmpty d.ctx?) := by
      intro d h
      cases hc : d.ctx? with
      | ok c => rfl
      | error e => rw [hc] at h; cases h
    exact .cons (key buildDecl (by decide)) (.cons (key cleanDecl (by decide)) .nil)
  good := by
    intro d hd
    simp only [sigDecls, List.mem_cons, List.not_mem_nil, or_false] at hd
    rcases hd with rfl | rfl
    · exact ⟨by unfold IdentSig; decide, by unfold NoBlankName; decide⟩
    · exact ⟨by unfold IdentSig; decide, by unfold NoBlankName; decide⟩
  plain := by
    intro d hd
    simp only [sigDecls, List.mem_cons, List.not_mem_nil, or_false] at hd
    rcases hd with rfl | rfl <;> decide

/-- `build x --name=a=b -u -5 --no-quiet -fc -l one --lst two -c  clean -nbuild  build --pos=y --log` -/
def sigCall0 : SCall :=
  ⟨T "build", [.pos (T "pos") (T "x"), .longEq (T "name") (T "a=b"), .shortSpaced (T "num") (T "-5"),
               .noFlag (T "quiet"), .block (T "force") [T "cnt"], .shortSpaced (T "lst") (T "one"),
               .longSpaced (T "lst") (T "two"), .flagShort (T "cnt")]⟩
def sigChain : List SCall :=
  [ sigCall0, ⟨T "clean", [.shortGlued (T "name") 'b' (T "uild")]⟩,
    ⟨T "build", [.longEq (T "pos") (T "y"), .bareLong (T "log")]⟩ ]

example : renderChain sigDecls sigChain =
    [T "build", T "x", T "--name=a=b", T "-u", T "-5", T "--no-quiet", T "-fc", T "-l", T "one", T "--lst", T "two", T "-c",
     T "clean", T "-nbuild", T "build", T "--pos=y", T "--log"] := by decide

/-- the signature-level hypotheses hold for this chain (with and without a core context) … -/
example : sigChainOKb (some coreCtx) sigDecls sigChain = true := by decide
example : sigChainOKb none sigDecls sigChain = true := by decide
example : noSentinelB (renderChain sigDecls sigChain) = true := by decide

/-- … so the theorem applies: -/
example : ∃ r, parseArgv (some coreCtx) sigReg false (renderChain sigDecls sigChain) = .ok r ∧ r.contexts.length = 1 + 3 := by
  obtain ⟨r, h, _, _, hl, _⟩ :=
    parse_spelling_from_signatures (some coreCtx) sigDecls sigReg false sigChain sigWorld (by decide) (by decide)
  exact ⟨r, h, hl⟩

/-- its per-parameter clause, for `cnt` of the first call (mentioned inside the block `-fc` and once more as `-c`): -/
example : ∃ r cn j a, parseArgv (some coreCtx) sigReg false (renderChain sigDecls sigChain) = .ok r ∧
    r.contexts[1 + 0]? = some cn ∧ buildDecl.slot (T "cnt") = some (j, a) ∧
    cn.asKwargs[j]? = some (T "cnt", intendedValue a [.on, .on]) := by
  obtain ⟨r, h, _, _, _, hall⟩ :=
    parse_spelling_from_signatures (some coreCtx) sigDecls sigReg false sigChain sigWorld (by decide) (by decide)
  obtain ⟨cn, hcn, _, _, hp⟩ := hall 0 sigCall0 buildDecl rfl rfl
  obtain ⟨j, a, hs, hk⟩ := hp ⟨T "cnt", .int 0⟩ (by decide)
  refine ⟨r, cn, j, a, h, hcn, hs, ?_⟩
  rw [hk]
  have : sigCall0.items.flatMap (SItem.mentions (T "cnt")) = [.on, .on] := by decide
  rw [this]

/-- … and this is what the three task invocations receive (typed; declared defaults for the unmentioned; the second
    `build` is independent of the first): -/
example : (parseArgv none sigReg false (renderChain sigDecls sigChain)).toOption.map (fun r => r.contexts.map Ctx.asKwargs) =
    some [ [(T "pos", .s (T "x")), (T "name", .s (T "a=b")), (T "num", .i (-5)), (T "quiet", .b false), (T "force", .b true),
            (T "lst", .l [T "one", T "two"]), (T "cnt", .i 2), (T "log", .none)],
           [(T "name", .s (T "build"))],
           [(T "pos", .s (T "y")), (T "name", .s (T "dflt")), (T "num", .i 3), (T "quiet", .b true), (T "force", .b false),
            (T "lst", .l []), (T "cnt", .i 0), (T "log", .b true)] ] := by decide

example : ∀ a, a.incrementable = true → a.default = .i 0 → intendedValue a [.on, .on] = .i 2 := by
  intro a hi hd
  have := (intended_values_typed a).2.2.2.2.2 hi 0 hd 2
  simpa using this

example : ∀ a ∈ buildDecl.args, ∃ p ∈ buildDecl.params, a.pyName = p.name ∧
    (p.default ≠ .empty → CarriesDefault p a (intendedValue a [])) :=
  fun a ha => (unmentioned_shows_declared_default buildDecl a ha).2

/-! ### Any SUBSET of the positionals may be given by flag

The spelling language of `parse_spelling_partial` has no special form for "positional given by flag": it is a value-flag
item (`Item.spaced` / `.eq` / `.glued`) whose slot happens to be positional, and a bare value (`Item.pos`) goes to
`firstMissing`, the first positional slot that has no value YET — whatever filled the earlier ones.  So every subset of
the positionals given by flag, with the remaining ones bare in slot order, is covered, for any number of positionals;
the only ordering condition is the one forced by the meaning of "positional" (side condition 5): a by-flag positional
stands before the first bare value of a LATER slot.  Instances with three required parameters:

    def deploy(c, env, region, tag)      def notify(c)
    deploy --env prod --region eu v1 notify          (first two by flag, the third bare, then a further task)
    deploy prod --tag v1 eu notify                   (the last by flag BETWEEN the bare values) -/

def deployDecl : TaskDecl :=
  { name := T "deploy", opts := {}, params := [⟨T "env", .empty⟩, ⟨T "region", .empty⟩, ⟨T "tag", .empty⟩] }
def notifyDecl : TaskDecl := { name := T "notify", opts := {}, params := [] }
def posDecls : List TaskDecl := [deployDecl, notifyDecl]
def posReg : List Ctx := [orEmpty deployDecl.ctx?, orEmpty notifyDecl.ctx?]

def posCalls1 : List Call :=
  [ { tname := T "deploy", ctx := orEmpty deployDecl.ctx?, items :=
        [.spaced (T "--env") (T "prod") 0, .spaced (T "--region") (T "eu") 1, .pos (T "v1") 2] },
    { tname := T "notify", ctx := orEmpty notifyDecl.ctx?, items := [] } ]
def posCalls2 : List Call :=
  [ { tname := T "deploy", ctx := orEmpty deployDecl.ctx?, items :=
        [.pos (T "prod") 0, .spaced (T "--tag") (T "v1") 2, .pos (T "eu") 1] },
    { tname := T "notify", ctx := orEmpty notifyDecl.ctx?, items := [] } ]

example : posCalls1.flatMap Call.toks = [T "deploy", T "--env", T "prod", T "--region", T "eu", T "v1", T "notify"] := by decide
example : posCalls2.flatMap Call.toks = [T "deploy", T "prod", T "--tag", T "v1", T "eu", T "notify"] := by decide

/-- the theorem applies (first two positionals by flag, then a bare value, then a further task) … -/
example : parseArgv (some coreCtx) posReg false (posCalls1.flatMap Call.toks) =
    .ok { contexts := [coreCtx] ++ posCalls1.map Call.result, unparsed := [], remainder := [] } :=
  parse_spelling_checked (some coreCtx) posReg false posCalls1 (by decide) (by decide)
example : parseArgv none posReg false (posCalls2.flatMap Call.toks) =
    .ok { contexts := posCalls2.map Call.result, unparsed := [], remainder := [] } :=
  parse_spelling_checked none posReg false posCalls2 (by decide) (by decide)

/-- … and both spellings deliver deploy(env='prod', region='eu', tag='v1') followed by notify() — the bare `v1` is not
    given to `region`, and `notify` is not swallowed as a value -/
example : (posCalls1.map Call.result).map Ctx.asKwargs =
    [[(T "env", .s (T "prod")), (T "region", .s (T "eu")), (T "tag", .s (T "v1"))], []] := by decide
example : (posCalls2.map Call.result).map Ctx.asKwargs =
    [[(T "env", .s (T "prod")), (T "region", .s (T "eu")), (T "tag", .s (T "v1"))], []] := by decide

/-- the same at the signature level (`parse_spelling_from_signatures`): mentions of the parameters `env`, `region`, `tag` -/
example : sigChainOKb (some coreCtx) posDecls
    [⟨T "deploy", [.longSpaced (T "env") (T "prod"), .longSpaced (T "region") (T "eu"), .pos (T "tag") (T "v1")]⟩,
     ⟨T "notify", []⟩] = true := by decide

end Inv.C01
