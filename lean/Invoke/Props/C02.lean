import Invoke.Lemmas.Decode
import Invoke.Lemmas.Utf8Roundtrip
import Invoke.Lemmas.RunnerIO
import Invoke.Lemmas.RunnerMirror
/-! # C02 — captured and mirrored command output equals what the command wrote

(a) decoding: for ANY decoder machine and ANY way the OS splits the byte stream into reads, the
    per-stream incremental decoding of `Runner.read_proc_output` equals the decoding of the whole
    stream (so a multi-byte character straddling two reads is never torn);
(b) completeness under EVERY schedule of the threaded runner (`Inv.run` over arbitrary event
    lists: thread steps and environment actions in any order): nothing written is lost, duplicated
    or reordered, and a reader that reached EOF has captured everything that was ever written -
    also when the process exits right after writing.
Property theorems only; helper lemmas are in `Lemmas/Decode.lean`, `Lemmas/RunnerIO.lean`. -/
namespace Inv

/-- (a) HEADLINE: incremental decoding of any chunking = decoding of the whole byte stream -/
theorem chunked_decode_eq_whole (D : Decoder) (chunks : List (List Byte)) :
    D.decodeIncremental chunks = D.decodeWhole chunks.flatten := by
  simp [Decoder.decodeIncremental, Decoder.decodeWhole, Decoder.runChunks_flatten]

/-- any two ways of splitting the same bytes into reads give the same text -/
theorem chunkings_agree (D : Decoder) (c₁ c₂ : List (List Byte)) (h : c₁.flatten = c₂.flatten) :
    D.decodeIncremental c₁ = D.decodeIncremental c₂ := by
  rw [chunked_decode_eq_whole, chunked_decode_eq_whole, h]

/-- live output is never retracted: the text decoded (and mirrored to the user's terminal) after ANY number of reads
    is an initial part of the final captured text, whatever the reads that follow - a character held back at a read
    boundary is only ever delayed, and nothing already shown is later replaced. -/
theorem live_output_is_prefix_of_final (D : Decoder) (pre post : List (List Byte)) :
    ∃ rest, D.decodeIncremental (pre ++ post) = D.decodeUnflushed pre ++ rest := by
  refine ⟨(D.run (D.run D.init pre.flatten).1 post.flatten).2 ++
      D.flush (D.run (D.run D.init pre.flatten).1 post.flatten).1, ?_⟩
  simp [Decoder.decodeIncremental, Decoder.decodeUnflushed, Decoder.runChunks_flatten, Decoder.run_append,
    List.append_assoc]

/-- ... and the text shown after more reads extends the text shown after fewer -/
theorem live_output_grows (D : Decoder) (pre post : List (List Byte)) :
    ∃ more, D.decodeUnflushed (pre ++ post) = D.decodeUnflushed pre ++ more := by
  refine ⟨(D.run (D.run D.init pre.flatten).1 post.flatten).2, ?_⟩
  simp [Decoder.decodeUnflushed, Decoder.runChunks_flatten, Decoder.run_append]

/-- non-vacuity: after the read that ends inside `é` the user has seen "caf"; the final text extends it -/
example : utf8.decodeUnflushed [[0x63, 0x61, 0x66, 0xC3]] = "caf".toList ∧
    utf8.decodeIncremental ([[0x63, 0x61, 0x66, 0xC3]] ++ [[0xA9, 0x21]]) = "caf".toList ++ "é!".toList := by decide

/-- the per-read decoding the code used before the repair tears a character split across two reads -/
theorem perchunk_counterexample :
    utf8.decodePerChunk [[0xC3], [0xA9]] = [repl, repl] ∧ utf8.decodeWhole [0xC3, 0xA9] = ['é'] := by decide

example : utf8.decodeIncremental [[0x63, 0x61, 0x66, 0xC3], [0xA9, 0x21]] = "café!".toList := by decide
example : utf8.decodeWhole [0xE2, 0x82, 0xFF, 0x41] = [repl, repl, 'A'] := by decide

/-- a command that writes the UTF-8 encoding of a text - in reads of any sizes, ending inside characters or not - is
    captured as exactly that text (no replacement character, nothing lost): the `U8` machine against `u8bytes` -/
theorem utf8_text_captured_exactly (cs : List Nat) (hv : ∀ c ∈ cs, ValidCp c) (reads : List (List Byte))
    (hr : reads.flatten = cs.flatMap u8bytes) :
    utf8.decodeIncremental reads = cs.map Char.ofNat := by
  rw [chunked_decode_eq_whole, hr, utf8_decode_encode cs hv]

/-- (b) conservation along EVERY schedule from every initial configuration:
    captured ++ still in the pipe = everything written so far, on both streams -/
theorem pipe_conservation (hi ht w p e : Bool) (o er : List Chunk) (ins : List InItem) (ho sf : Bool)
    (n : Nat) (asy : Bool) (evs : List Ev) :
    let s := run (S.init hi ht w p e o er ins ho sf n asy) evs
    s.capOut.flatten ++ s.out.buf.flatten = s.out.written.flatten ∧
    s.capErr.flatten ++ s.err.buf.flatten = s.err.written.flatten := by
  have h := streamInv_run _ evs (streamInv_init hi ht w p e o er ins ho sf n asy)
  exact ⟨h.1.1, h.2.1⟩

/-- (b) HEADLINE: once a reader has seen EOF it holds exactly the bytes ever written to its pipe,
    whatever the interleaving of writes, reads, exit, kill, timer and main-thread steps was -/
theorem capture_complete (hi ht w p e : Bool) (o er : List Chunk) (ins : List InItem) (ho sf : Bool)
    (n : Nat) (asy : Bool) (evs : List Ev) :
    let s := run (S.init hi ht w p e o er ins ho sf n asy) evs
    (s.outPc = .done → s.capOut.flatten = s.out.written.flatten) ∧
    (s.errPc = .done → s.capErr.flatten = s.err.written.flatten) := by
  have h := streamInv_run _ evs (streamInv_init hi ht w p e o er ins ho sf n asy)
  refine ⟨fun hd => ?_, fun hd => ?_⟩
  · have := h.1.1; rw [(h.1.2 hd).1] at this; simpa using this
  · have := h.2.1; rw [(h.2.2 hd).1] at this; simpa using this

/-- the child's output script is never altered: written ++ still-to-write is the initial script,
    so "everything written" is a prefix of what the command intended to write, in order -/
theorem written_is_prefix_of_script (hi ht w p e : Bool) (o er : List Chunk) (ins : List InItem) (ho sf : Bool)
    (n : Nat) (asy : Bool) (evs : List Ev) :
    let s := run (S.init hi ht w p e o er ins ho sf n asy) evs
    s.out.written ++ s.out.pending = o ∧ s.err.written ++ s.err.pending = er := by
  have h := script_run (S.init hi ht w p e o er ins ho sf n asy) evs
  simpa [S.outScript, S.errScript, S.init] using h

/-- composition of (a) and (b): the text captured for a stream whose reader reached EOF is the
    decoding of the complete byte stream the command wrote, for any decoder -/
theorem captured_text_is_decoding_of_written (D : Decoder) (hi ht w p e : Bool) (o er : List Chunk)
    (ins : List InItem) (ho sf : Bool) (n : Nat) (asy : Bool) (evs : List Ev) :
    let s := run (S.init hi ht w p e o er ins ho sf n asy) evs
    (s.outPc = .done → D.decodeIncremental s.capOut = D.decodeWhole s.out.written.flatten) ∧
    (s.errPc = .done → D.decodeIncremental s.capErr = D.decodeWhole s.err.written.flatten) := by
  have h := capture_complete hi ht w p e o er ins ho sf n asy evs
  refine ⟨fun hd => ?_, fun hd => ?_⟩
  · rw [chunked_decode_eq_whole, h.1 hd]
  · rw [chunked_decode_eq_whole, h.2 hd]

/-- mirroring: along EVERY schedule, from every initial configuration and for every hide setting,
    what has been forwarded to our own stdout / stderr streams is exactly what has been captured,
    in the same order - and nothing at all for a hidden stream -/
theorem mirror_eq_capture_or_empty (hi ht w p e : Bool) (o er : List Chunk) (ins : List InItem) (ho sf : Bool)
    (n : Nat) (asy : Bool) (hideOut hideErr : Bool) (evs : List Ev) :
    let s := run { S.init hi ht w p e o er ins ho sf n asy with hideOut := hideOut, hideErr := hideErr } evs
    s.mirOut = (if hideOut then [] else s.capOut) ∧ s.mirErr = (if hideErr then [] else s.capErr) := by
  have h0 : MirInv { S.init hi ht w p e o er ins ho sf n asy with hideOut := hideOut, hideErr := hideErr } := by
    cases hideOut <;> cases hideErr <;> simp [MirInv, S.init]
  have h := mirInv_run _ evs h0
  have hh := hide_const_run { S.init hi ht w p e o er ins ho sf n asy with hideOut := hideOut, hideErr := hideErr } evs
  simp only [MirInv, hh.1, hh.2] at h
  exact h

/-- non-vacuity: a schedule in which the process exits right after writing and the reader only
    reads afterwards still captures both chunks, split across a multi-byte character -/
example :
    let s := run { S.init false false false false false [[1], [2]] [[3]] [] false false 1000 with hideErr := true }
      [.env .writeOut, .env .writeErr, .act .out, .env .writeOut, .act .err, .act .out]
    s.mirOut = [[1], [2]] ∧ s.capErr = [[3]] ∧ s.mirErr = [] := by decide

example :
    let s := run (S.init false false false false false [[0x63, 0xC3], [0xA9]] [] [] false false 1000)
      [.env .writeOut, .env .writeOut, .env (.exit 0), .act .main, .act .out, .act .out, .act .out]
    s.outPc = .done ∧ utf8.decodeIncremental s.capOut = ['c', 'é'] := by decide

end Inv
