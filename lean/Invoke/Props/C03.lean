import Invoke.Lemmas.Levels
/-! # C03 — every setting comes from the highest-precedence level that defines it

Property theorems only (helpers: `Lemmas/Val.lean`, `Lemmas/Levels.lean`).  `view L` is `Config.merge` over the
level contents `L`, folded in the order REGENERATED from the repository (`Generated.mergeOrder`, probed pairwise
on the real `Config`); `TypeConsistent L` is the property's quantifier (every level a well-formed nested dict; a
path is a section in every level or a leaf in every level). -/
namespace Inv

/-! ## the tables regenerated from the repository are the documented ones -/

/-- the probed merge order is the documented one: defaults < collection < system < user < project <
    environment < runtime file < overrides < modifications -/
theorem generated_order_documented : Generated.mergeOrder =
    ["defaults", "collection", "system", "user", "project", "env", "runtime", "overrides", "modifications"] := by
  decide

theorem merge_order_levels : mergeOrder =
    [.defaults, .collection, .system, .user, .project, .env, .runtime, .overrides, .modifications] := by decide

/-- no level is left out of the merge -/
theorem every_level_merged (l : Level) : l ∈ mergeOrder := by cases l <;> decide

/-- the suffix order probed with real files is the documented one, and the suffix attribute of the class — as
    long as it exists under that name — says the same -/
theorem generated_suffixes_documented :
    Generated.fileSuffixes = ["yaml", "yml", "json", "py"] ∧
    (Generated.fileSuffixesAttr = [] ∨ Generated.fileSuffixesAttr = Generated.fileSuffixes) := by decide

/-! ## precedence -/

/-- HEADLINE (n levels).  For type-consistent level contents the leaf visible at EVERY key path of the merged
    view is the one of the last level in merge order — i.e. the highest-precedence level — that defines it. -/
theorem get_merge_precedence (L : Levels) (hT : TypeConsistent L) (p : List Key) :
    getLeaf p (view L) = mergeOrder.reverse.findSome? (leafAt L p) := by
  have := getLeaf_fold L hT p mergeOrder [] (fun _ => compat_nil _)
  simpa [view, viewOf] using this

/-- the same, spelled out: the visible value is `x` exactly when some level defines `x` there and no level
    later in the merge order defines the path at all -/
theorem precedence_highest_defining (L : Levels) (hT : TypeConsistent L) (p : List Key) (x : Leaf) :
    getLeaf p (view L) = some x ↔
      ∃ lo l hi, mergeOrder = lo ++ l :: hi ∧ leafAt L p l = some x ∧ ∀ h ∈ hi, leafAt L p h = none := by
  rw [get_merge_precedence L hT p, List.findSome?_eq_some_iff]
  constructor
  · rintro ⟨l₁, a, l₂, hsplit, ha, hnone⟩
    refine ⟨l₂.reverse, a, l₁.reverse, ?_, ha, ?_⟩
    · have := congrArg List.reverse hsplit
      simpa using this
    · intro h hh; exact hnone h (List.mem_reverse.mp hh)
  · rintro ⟨lo, l, hi, hsplit, hl, hnone⟩
    refine ⟨hi.reverse, l, lo.reverse, ?_, hl, ?_⟩
    · rw [hsplit]; simp
    · intro h hh; exact hnone h (List.mem_reverse.mp hh)

/-- a level wins over everything merged before it, whatever those levels contain -/
theorem level_wins (L : Levels) (hT : TypeConsistent L) (p : List Key) (lo hi : List Level) (l : Level)
    (hsplit : mergeOrder = lo ++ l :: hi) (x : Leaf) (hl : leafAt L p l = some x)
    (hhi : ∀ h ∈ hi, leafAt L p h = none) : getLeaf p (view L) = some x :=
  (precedence_highest_defining L hT p x).mpr ⟨lo, l, hi, hsplit, hl, hhi⟩

/-- every setting defined by any level is visible, and nothing else is -/
theorem all_defined_visible (L : Levels) (hT : TypeConsistent L) (p : List Key) :
    (∃ l, isLeaf p (L l) = true) ↔ isLeaf p (view L) = true := by
  simp only [isLeaf, get_merge_precedence L hT p, List.findSome?_isSome_iff, List.mem_reverse, leafAt]
  constructor
  · rintro ⟨l, hl⟩; exact ⟨l, every_level_merged l, hl⟩
  · rintro ⟨l, _, hl⟩; exact ⟨l, hl⟩

/-- nested sections are the union of the levels' sections: a path is a section of the view iff it is a
    section of some level -/
theorem sections_union (L : Levels) (hT : TypeConsistent L) (p : List Key) :
    isSec p (view L) = true ↔ ∃ l, secAt L p l = true := by
  have := isSec_fold L hT p mergeOrder [] (fun _ => compat_nil _)
  simp only [view, viewOf, this, Bool.or_eq_true, List.any_eq_true]
  constructor
  · rintro (⟨l, _, hl⟩ | h)
    · exact ⟨l, hl⟩
    · cases p with
      | nil => exact ⟨.defaults, rfl⟩
      | cons k r => simp [isSec_cons_nil_dict] at h
  · rintro ⟨l, hl⟩; exact Or.inl ⟨l, every_level_merged l, hl⟩

/-- the keys of a section are the union of the keys the levels give it: a key (leaf or sub-section) exists
    below a path in the view iff it exists there in some level -/
theorem section_keys_union (L : Levels) (hT : TypeConsistent L) (p : List Key) (k : Key) :
    (isLeaf (p ++ [k]) (view L) = true ∨ isSec (p ++ [k]) (view L) = true) ↔
      ∃ l, isLeaf (p ++ [k]) (L l) = true ∨ secAt L (p ++ [k]) l = true := by
  rw [← all_defined_visible L hT, sections_union L hT]
  constructor
  · rintro (⟨l, h⟩ | ⟨l, h⟩)
    · exact ⟨l, Or.inl h⟩
    · exact ⟨l, Or.inr h⟩
  · rintro ⟨l, h | h⟩
    · exact Or.inl ⟨l, h⟩
    · exact Or.inr ⟨l, h⟩

/-- the code's raising `merge_dicts` never raises on type-consistent levels, and computes `view` -/
theorem merge_never_raises (L : Levels) (hT : TypeConsistent L) : viewE L = .ok (view L) :=
  foldE_eq L hT mergeOrder [] (fun _ => compat_nil _)

/-- the merged view is again a well-formed nested dict, type-consistent with every level -/
theorem view_wf (L : Levels) (hT : TypeConsistent L) : WF (view L) ∧ ∀ l, Compat (view L) (L l) :=
  ⟨wf_fold L hT mergeOrder [] wf_nil, compat_fold L hT mergeOrder [] (fun _ => compat_nil _)⟩

/-! ## file discovery -/

theorem loadFirst_suffix (fs : String → Option KVs) (sfx : List String) :
    (loadFirst fs sfx).map Prod.fst = sfx.find? (fileExists fs) := by
  induction sfx with
  | nil => rfl
  | cons s rest ih =>
    unfold loadFirst
    cases h : fs s with
    | none => simp [List.find?, fileExists, h, ih]
    | some d => simp [List.find?, fileExists, h]

/-- for each file location only the first existing candidate in the documented suffix order is read … -/
theorem first_existing_suffix (fs : String → Option KVs) :
    (chosenFile fs).map Prod.fst = ["yaml", "yml", "json", "py"].find? (fileExists fs) := by
  rw [← generated_suffixes_documented.1]; exact loadFirst_suffix fs _

/-- … its content is what the level gets … -/
theorem chosen_content (fs : String → Option KVs) (s : String) (d : KVs) (h : chosenFile fs = some (s, d)) :
    fs s = some d := by
  unfold chosenFile at h
  generalize Generated.fileSuffixes = sfx at h
  induction sfx with
  | nil => simp [loadFirst] at h
  | cons t rest ih =>
    unfold loadFirst at h
    cases ht : fs t with
    | none => rw [ht] at h; exact ih h
    | some d' => rw [ht] at h; simp only [Option.some.injEq, Prod.mk.injEq] at h; rw [← h.1, ← h.2]; exact ht

/-- … and files with later suffixes (decoys) are never looked at -/
theorem decoys_ignored (fs fs' : String → Option KVs) (pre post : List String) (s : String) (d : KVs)
    (hsplit : Generated.fileSuffixes = pre ++ s :: post)
    (hpre : ∀ t ∈ pre, fs t = none ∧ fs' t = none) (hs : fs s = some d) (hs' : fs' s = some d) :
    chosenFile fs = some (s, d) ∧ chosenFile fs' = some (s, d) := by
  unfold chosenFile
  rw [hsplit]
  clear hsplit
  induction pre with
  | nil => simp [loadFirst, hs, hs']
  | cons t rest ih =>
    have h1 := hpre t (List.mem_cons_self ..)
    simp only [List.cons_append, loadFirst, h1.1, h1.2]
    exact ih (fun t' ht' => hpre t' (List.mem_cons_of_mem _ ht'))

/-- loading a file level is attempted once: a second `load_*` is a no-op (tri-state found flag) -/
theorem load_once (c : LoadSt) (l : Level) (fs fs' : String → Option KVs) :
    (c.loadFile l fs).loadFile l fs' = c.loadFile l fs := by
  unfold LoadSt.loadFile
  cases hf : c.found l with
  | some b => simp [hf]
  | none =>
    cases chosenFile fs with
    | none => simp [setFound]
    | some sd => obtain ⟨s, d⟩ := sd; simp [setFound]

/-- a file level that was looked for and not found contributes nothing -/
theorem file_level_absent_when_not_found (c : LoadSt) (l : Level) (fs : String → Option KVs)
    (hf : c.found l = none) (hno : chosenFile fs = none) :
    (c.loadFile l fs).slots = c.slots ∧ (c.loadFile l fs).cache = c.cache ∧
    (c.loadFile l fs).found l = some false := by
  simp [LoadSt.loadFile, hf, hno, setFound]

/-! ## load order -/

/-- after any sequence of loads the cache is the merge of the slots … -/
theorem cache_is_view (c : LoadSt) (ops : List (Level × KVs)) (hne : ops ≠ []) :
    (c.loads ops).cache = view (c.loads ops).slots := by
  induction ops generalizing c with
  | nil => exact absurd rfl hne
  | cons op rest ih =>
    obtain ⟨l, d⟩ := op
    cases rest with
    | nil => simp [LoadSt.loads, LoadSt.load]
    | cons op2 rest2 => simpa [LoadSt.loads] using ih (c.load l d) (by simp)

/-- … and the order in which distinct levels were loaded is irrelevant: the resulting configuration (slots,
    flags, merged cache) is the same for every permutation of the loads -/
theorem load_order_irrelevant (c : LoadSt) (ops₁ ops₂ : List (Level × KVs)) (hp : ops₁.Perm ops₂)
    (hnd : (ops₁.map Prod.fst).Nodup) : c.loads ops₁ = c.loads ops₂ := by
  induction hp generalizing c with
  | nil => rfl
  | cons x _ ih =>
    obtain ⟨l, d⟩ := x
    simp only [List.map_cons, List.nodup_cons] at hnd
    simp only [LoadSt.loads]
    exact ih _ hnd.2
  | swap x y l =>
    obtain ⟨lx, dx⟩ := x
    obtain ⟨ly, dy⟩ := y
    simp only [List.map_cons, List.nodup_cons, List.mem_cons, not_or] at hnd
    have hne : ly ≠ lx := hnd.1.1
    simp only [LoadSt.loads, LoadSt.load]
    rw [Levels.set_comm c.slots hne dy dx]
  | trans h1 _ ih1 ih2 =>
    rw [ih1 c hnd]
    exact ih2 c ((h1.map Prod.fst).nodup_iff.mp hnd)

/-- the documented usage — the environment read once the other levels are in place: whatever the order of the
    other loads, `load_shell_env` sees the same configuration, fails or succeeds alike and leaves the same result -/
theorem load_order_irrelevant_env_last (c : LoadSt) (ops₁ ops₂ : List (Level × KVs)) (hp : ops₁.Perm ops₂)
    (hnd : (ops₁.map Prod.fst).Nodup) (pre : List Char) (environ : Environ) :
    (c.loads ops₁).loadShellEnv pre environ = (c.loads ops₂).loadShellEnv pre environ := by
  rw [load_order_irrelevant c ops₁ ops₂ hp hnd]

/-- after `load_shell_env` the cache is the merge of all slots, the env slot holding what `Environment.load`
    computed from the view of the OTHER levels (an env level left by an earlier load does not take part) -/
theorem shell_env_view (c c' : LoadSt) (pre : List Char) (environ : Environ)
    (h : c.loadShellEnv pre environ = .ok c') :
    ∃ ev, loadEnv pre environ (view (c.slots.set .env [])) = .ok ev ∧ c'.slots = c.slots.set .env ev ∧
      c'.cache = view (c.slots.set .env ev) := by
  unfold LoadSt.loadShellEnv at h
  cases hl : loadEnv pre environ (view (c.slots.set .env [])) with
  | error e => simp [hl] at h
  | ok ev =>
    simp only [hl, Except.ok.injEq] at h
    subst h
    exact ⟨ev, rfl, rfl, rfl⟩

/-- the slot a level ends up with is the data it was loaded with (so, with `cache_is_view`, the final view is
    a function of the level contents only) -/
theorem loads_slot (c : LoadSt) (ops : List (Level × KVs)) (hnd : (ops.map Prod.fst).Nodup) (l : Level) :
    (c.loads ops).slots l = match ops.find? (fun op => op.1 == l) with
      | some op => op.2
      | none => c.slots l := by
  induction ops generalizing c with
  | nil => rfl
  | cons op rest ih =>
    obtain ⟨l0, d0⟩ := op
    simp only [List.map_cons, List.nodup_cons] at hnd
    simp only [LoadSt.loads]
    rw [ih _ hnd.2]
    by_cases h : l0 = l
    · subst h
      have : rest.find? (fun op => op.1 == l0) = none := by
        rw [List.find?_eq_none]
        intro op hop hb
        simp only [beq_iff_eq] at hb
        exact hnd.1 (List.mem_map.mpr ⟨op, hop, hb⟩)
      simp [this, LoadSt.load, Levels.set]
    · have hb : ((l0, d0).1 == l) = false := by simp [h]
      rw [List.find?_cons_of_neg (by simp [h])]
      cases rest.find? (fun op => op.1 == l) with
      | some op => rfl
      | none => simp [LoadSt.load, Levels.set, Ne.symm h]

/-- a load with `merge=False` followed by `merge()` is the load with `merge=True` -/
theorem remerge_after_unmerged_load (c : LoadSt) (l : Level) (d : KVs) :
    (c.loadUnmerged l d).remerge = c.load l d := rfl

/-- deferred merges commute with everything that re-merges: any later merging load shows the deferred level too -/
theorem unmerged_then_load (c : LoadSt) (l l' : Level) (d d' : KVs) :
    ((c.loadUnmerged l d).load l' d').cache = view (((c.slots.set l d)).set l' d') := rfl

/-- un-setting a file level and loading again drops the level: its slot is empty and the cache is the merge of
    the remaining levels -/
theorem unload_then_load_drops_level (c : LoadSt) (l : Level) :
    (c.unload l).slots l = [] ∧ (c.unload l).cache = view (c.unload l).slots ∧
    ∀ l', l' ≠ l → (c.unload l).slots l' = c.slots l' := by
  refine ⟨by simp [LoadSt.unload, Levels.set], rfl, ?_⟩
  intro l' h
  simp [LoadSt.unload, Levels.set, h]

/-- FIXED FINDING (C03-unload-stale-cache), the rule before the repair: the slot was reset but nothing re-merged —
    the cache still showed a value that no level defined any more; the repaired rule drops it -/
theorem unload_pinned_counterexample :
    getLeaf [['y']] ((LoadSt.init.load .runtime [(['y'], .leaf (.i 2))]).unloadPinned .runtime).cache = some (.i 2) ∧
    getLeaf [['y']] (view ((LoadSt.init.load .runtime [(['y'], .leaf (.i 2))]).unloadPinned .runtime).slots) = none ∧
    getLeaf [['y']] ((LoadSt.init.load .runtime [(['y'], .leaf (.i 2))]).unload .runtime).cache = none := by
  simp [LoadSt.load, LoadSt.unload, LoadSt.unloadPinned, LoadSt.init, Levels.set, Levels.empty, view, viewOf,
    merge_order_levels, mergeLevel, mergeT, lookup, insert, getLeaf]

/-! ## non-vacuity: concrete, nested, partially overlapping level contents -/

/-- defaults `{a: {x: 1, y: {z: 2}}, b: 3}`, project `{a: {x: 10}, c: {}}`, overrides `{a: {y: {z: 20, w: 21}}}` -/
def exLevels : Levels := fun l => match l with
  | .defaults => [(['a'], .dict [(['x'], .leaf (.i 1)), (['y'], .dict [(['z'], .leaf (.i 2))])]), (['b'], .leaf (.i 3))]
  | .project => [(['a'], .dict [(['x'], .leaf (.i 10))]), (['c'], .dict [])]
  | .overrides => [(['a'], .dict [(['y'], .dict [(['z'], .leaf (.i 20)), (['w'], .leaf (.i 21))])])]
  | _ => []

theorem exLevels_consistent : TypeConsistent exLevels := typeConsistentB_sound _ (by decide)

/-- the precedence theorem computes the view: project beats defaults at `a.x`, overrides beat defaults at
    `a.y.z`, settings defined once show through -/
example : getLeaf [['a'], ['x']] (view exLevels) = some (.i 10) := by
  rw [get_merge_precedence _ exLevels_consistent]; decide
example : getLeaf [['a'], ['y'], ['z']] (view exLevels) = some (.i 20) := by
  rw [get_merge_precedence _ exLevels_consistent]; decide
example : getLeaf [['a'], ['y'], ['w']] (view exLevels) = some (.i 21) := by
  rw [get_merge_precedence _ exLevels_consistent]; decide
example : getLeaf [['b']] (view exLevels) = some (.i 3) := by
  rw [get_merge_precedence _ exLevels_consistent]; decide
example : isLeaf [['b']] (view exLevels) = true :=
  (all_defined_visible _ exLevels_consistent _).mp ⟨.defaults, by decide⟩
example : isSec [['c']] (view exLevels) = true ∧ isSec [['a'], ['y']] (view exLevels) = true :=
  ⟨(sections_union _ exLevels_consistent _).mpr ⟨.project, by decide⟩,
   (sections_union _ exLevels_consistent _).mpr ⟨.overrides, by decide⟩⟩
example : viewE exLevels = .ok (view exLevels) := merge_never_raises _ exLevels_consistent
/-- `level_wins` instantiated: the project level wins over defaults at `a.x` (nothing above defines it) -/
example : getLeaf [['a'], ['x']] (view exLevels) = some (.i 10) :=
  level_wins exLevels exLevels_consistent _ [.defaults, .collection, .system, .user] [.env, .runtime, .overrides, .modifications]
    .project (by decide) _ (by decide) (by decide)
/-- a dict/leaf clash (NOT type-consistent) does make the real merge raise: the hypothesis is needed -/
example : mergeKVs [(['a'], .leaf (.i 1))] [(['a'], .dict [])] = .error .ambiguousMerge := by
  simp [mergeKVs, lookup]
/-- suffix choice: `yml` and `py` exist, `yaml` does not — `yml` is read -/
example : (chosenFile (fun s => if s = "yml" then some [(['k'], .leaf (.i 1))] else if s = "py" then some [] else none)).map Prod.fst
    = some "yml" := by
  rw [first_existing_suffix]; decide
/-- an EXISTING first candidate that holds no settings (a blank `invoke.yaml`) is the level — empty —; the `json`
    candidate with real settings behind it is never consulted -/
example : chosenFile (fun s => if s = "yaml" then some [] else if s = "json" then some [(['k'], .leaf (.i 1))] else none)
    = some ("yaml", []) := by
  rw [chosenFile, generated_suffixes_documented.1]; simp [loadFirst]
/-- load order: project-then-defaults = defaults-then-project -/
example : (LoadSt.init.loads [(.project, exLevels .project), (.defaults, exLevels .defaults)]).cache =
          (LoadSt.init.loads [(.defaults, exLevels .defaults), (.project, exLevels .project)]).cache :=
  congrArg LoadSt.cache (load_order_irrelevant _ _ _ (List.Perm.swap ..) (by decide))

end Inv
