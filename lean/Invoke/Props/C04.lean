import Invoke.Lemmas.Executor
/-! # C04 — tasks run depth-first in request order; identical invocations run once

Property theorems only; helper lemmas live in `Invoke/Lemmas/Executor.lean`, the model (a literal
rendering of `Executor.normalize / expand_calls / dedupe / execute` and `Call.__eq__`) in
`Invoke/Model/Executor.lean`.  Task graphs are finite trees (acyclic graphs unfolded). -/
namespace Inv.Exec

/-- HEADLINE (order).  The expansion of a list of calls is, call by call in the order given, the
    recursive expansion of the task's pre-tasks, the call itself, the recursive expansion of its
    post-tasks. -/
theorem expand_dfs (cs : List CallT) :
    expand cs = cs.flatMap (fun c => expand c.1.pre ++ [occ c] ++ expand c.1.post) := by
  induction cs with
  | nil => simp [expand_nil]
  | cons c cs ih => rw [expand_cons, List.flatMap_cons, ← ih]; simp

/-- requested tasks in the order given: the expansion of a concatenation is the concatenation -/
theorem expand_request_order (a b : List CallT) : expand (a ++ b) = expand a ++ expand b :=
  expand_append a b

/-- position lemma, for EVERY occurrence of a call anywhere in the forest (at top level, or nested at
    any depth below pre/post lists): its expanded pre-tasks immediately precede it and its expanded
    post-tasks immediately follow it in the execution order. -/
theorem pre_before_post_after {c : CallT} {cs : List CallT} (h : Sub c cs) :
    ∃ l r, expand cs = l ++ (expand c.1.pre ++ occ c :: expand c.1.post) ++ r := by
  induction h with
  | here hm => exact expand_mem_split hm
  | @inPre d cs hd _ ih =>
    obtain ⟨l, r, e⟩ := expand_mem_split hd
    obtain ⟨l', r', e'⟩ := ih
    exact ⟨l ++ l', r' ++ (occ d :: expand d.1.post) ++ r, by rw [e, e']; simp⟩
  | @inPost d cs hd _ ih =>
    obtain ⟨l, r, e⟩ := expand_mem_split hd
    obtain ⟨l', r', e'⟩ := ih
    exact ⟨l ++ expand d.1.pre ++ [occ d] ++ l', r' ++ r, by rw [e, e']; simp⟩

/-- each executed occurrence carries exactly the arguments specified where it was requested / listed:
    the expansion consists precisely of `occ c` (task identity and the literal `(args, kwargs)` of `c`)
    for the calls `c` occurring in the forest. -/
theorem args_exact (cs : List CallT) (o : Occ) : o ∈ expand cs ↔ ∃ c, Sub c cs ∧ o = occ c := by
  constructor
  · -- by strong induction on the length of the expansion
    suffices H : ∀ n (cs : List CallT), (expand cs).length ≤ n → o ∈ expand cs → ∃ c, Sub c cs ∧ o = occ c from
      H _ cs (Nat.le_refl _)
    intro n
    induction n with
    | zero =>
      intro cs hl ho
      have : expand cs = [] := List.length_eq_zero_iff.1 (Nat.le_zero.1 hl)
      rw [this] at ho
      cases ho
    | succ n ih =>
      intro cs hl ho
      cases cs with
      | nil => rw [expand_nil] at ho; cases ho
      | cons d ds =>
        rw [expand_cons] at ho hl
        simp only [List.length_append, List.length_cons] at hl
        simp only [List.mem_append, List.mem_cons] at ho
        rcases ho with (hpre | rfl | hpost) | hrest
        · obtain ⟨c, hc, e⟩ := ih d.1.pre (by omega) hpre
          exact ⟨c, Sub.inPre (List.mem_cons_self) hc, e⟩
        · exact ⟨d, Sub.here (List.mem_cons_self), rfl⟩
        · obtain ⟨c, hc, e⟩ := ih d.1.post (by omega) hpost
          exact ⟨c, Sub.inPost (List.mem_cons_self) hc, e⟩
        · obtain ⟨c, hc, e⟩ := ih ds (by omega) hrest
          refine ⟨c, ?_, e⟩
          clear e ih hl hrest
          induction hc with
          | here hm => exact Sub.here (List.mem_cons_of_mem _ hm)
          | inPre hd hs _ => exact Sub.inPre (List.mem_cons_of_mem _ hd) hs
          | inPost hd hs _ => exact Sub.inPost (List.mem_cons_of_mem _ hd) hs
  · rintro ⟨c, hc, rfl⟩
    obtain ⟨l, r, e⟩ := pre_before_post_after hc
    rw [e]
    simp

/-- HEADLINE (dedupe).  With deduplication on, the executed list
    (1) is a sublist of the expansion — everything that runs keeps its relative order;
    (2) contains no two identical invocations (`Call.__eq__`: equal task, equal effective arguments);
    (3) contains an identical representative of every expanded invocation;
    (4) first occurrence: an invocation is skipped iff an identical one occurs earlier in the expansion
        (equivalently: has already been executed), and what ran before is unaffected by what follows. -/
theorem dedupe_first_occurrence (sig : Nat → Sig) (l : List Occ) :
    (dedupe sig l).Sublist l ∧
    (dedupe sig l).Pairwise (fun a b => callEq sig a b = false) ∧
    (∀ c ∈ l, ∃ d ∈ dedupe sig l, callEq sig d c = true) ∧
    (∀ l₁ c, dedupe sig (l₁ ++ [c]) =
      if isSeen (callEq sig) c l₁ then dedupe sig l₁ else dedupe sig l₁ ++ [c]) := by
  unfold dedupe dedupeBy
  refine ⟨dedupeFrom_sublist (callEq sig) [] l, (dedupeFrom_fresh (callEq sig) [] l).1, ?_, ?_⟩
  · intro c hc
    simpa using dedupeFrom_repr (callEq sig) (callEq_refl sig) [] l c hc
  · intro l₁ c
    have h := dedupeFrom_append (callEq sig) [] l₁ [c]
    have hs := isSeen_dedupeFrom (callEq sig) (callEq_refl sig) (fun _ _ _ => callEq_trans sig) c [] l₁
    simp only [List.nil_append] at h hs
    rw [h, ← hs]
    simp only [dedupeFrom]
    split <;> simp

/-- the same for "already executed": the next invocation is skipped iff it is identical to one that
    has been executed (this form holds for any comparison, also a non-transitive one) -/
theorem dedupe_skips_iff_executed (sig : Nat → Sig) (l₁ : List Occ) (c : Occ) :
    dedupe sig (l₁ ++ [c]) =
      if isSeen (callEq sig) c (dedupe sig l₁) then dedupe sig l₁ else dedupe sig l₁ ++ [c] := by
  unfold dedupe dedupeBy
  have h := dedupeFrom_append (callEq sig) [] l₁ [c]
  simp only [List.nil_append] at h
  rw [h]
  simp only [dedupeFrom]
  split <;> simp

/-- with deduplication off nothing is skipped -/
theorem nodedupe_runs_all (sig : Nat → Sig) (dflt : Option TaskT) (req : List (TaskT × KW)) :
    (execute sig false dflt req).1 = expand (normalize dflt req) := by
  simp [execute, runLog]

/-- with deduplication on, what runs is the deduplicated expansion of the normalised request -/
theorem dedupe_runs (sig : Nat → Sig) (dflt : Option TaskT) (req : List (TaskT × KW)) :
    (execute sig true dflt req).1 = dedupe sig (expand (normalize dflt req)) := by
  simp [execute, runLog]

/-- a non-empty request is taken item by item in the order given, each with exactly its kwargs and no
    positional arguments; an empty one means the default task without arguments -/
theorem normalize_request (dflt : Option TaskT) (r : TaskT × KW) (rs : List (TaskT × KW)) :
    normalize dflt (r :: rs) = (r :: rs).map (fun x => (x.1, ⟨[], x.2⟩)) ∧
    normalize (some r.1) [] = [(r.1, noArgs)] ∧ normalize none [] = [] := by
  refine ⟨?_, rfl, rfl⟩
  simp only [normalize]
  rfl

/-- HEADLINE (results).  The returned mapping has an entry for task (dictionary key) `t` iff `t` was executed, and the
    entry is the return value of the LAST execution of `t`: `j` is stored iff the `j`-th executed call
    is a call of `t` and no later one is. -/
theorem results_last (sig : Nat → Sig) (dd : Bool) (dflt : Option TaskT) (req : List (TaskT × KW)) (t j : Nat) :
    lookupKV t (execute sig dd dflt req).2 = some j ↔
      (((execute sig dd dflt req).1)[j]?).map Occ.key = some t ∧
      ∀ k, j < k → (((execute sig dd dflt req).1)[k]?).map Occ.key ≠ some t := by
  simp only [execute]
  rw [lookupKV_runResults]
  cases hl : lastIdxFrom t 0 (runLog sig dd dflt req) with
  | some j' =>
    have := lastIdxFrom_spec t (runLog sig dd dflt req) 0 j
    rw [hl] at this
    simp only [Nat.zero_add] at this
    rw [this]
    constructor
    · rintro ⟨k, rfl, h⟩; exact h
    · intro h; exact ⟨j, rfl, h⟩
  | none =>
    have hn := (lastIdxFrom_none t (runLog sig dd dflt req) 0).1 hl
    simp only [lookupKV, reduceCtorEq, false_iff, not_and]
    intro hj
    exfalso
    cases ho : (runLog sig dd dflt req)[j]? with
    | none => simp [ho] at hj
    | some x =>
      simp only [ho, Option.map_some, Option.some.injEq] at hj
      exact hn x (List.mem_of_getElem? ho) hj

/-- a task that was never executed has no entry -/
theorem results_only_executed (sig : Nat → Sig) (dd : Bool) (dflt : Option TaskT) (req : List (TaskT × KW)) (t : Nat) :
    lookupKV t (execute sig dd dflt req).2 = none ↔ ∀ o ∈ (execute sig dd dflt req).1, o.key ≠ t := by
  simp only [execute]
  rw [lookupKV_runResults]
  cases hl : lastIdxFrom t 0 (runLog sig dd dflt req) with
  | some j' =>
    have h := (not_congr (lastIdxFrom_none t (runLog sig dd dflt req) 0)).1 (by rw [hl]; simp)
    simp only [reduceCtorEq, false_iff]
    exact h
  | none =>
    simp only [lookupKV, true_iff]
    exact (lastIdxFrom_none t (runLog sig dd dflt req) 0).1 hl

/-- HEADLINE ("same task, same EFFECTIVE arguments").  The executed list is exactly the first-occurrence
    dedupe under "same task identity ∧ same bound arguments (defaults applied)": an explicit keyword equal
    to the default, or a value given positionally instead of by keyword, makes no difference.
    Hypotheses that remain, and why:
    (a) `cls` determines `id` on the list — distinct `Task` objects are distinguishable by name or code.
        `Task.__eq__` compares only name and code object; without (a) see
        `task_identity_dedupe_counterexample` (known finding C04-task-eq-by-code);
    (b) every call can be bound to its task's signature (`wellCalled`: not too many positionals, every
        keyword names a parameter not already filled).  A call that cannot be bound has no effective
        arguments — executing it raises `TypeError` — and the code then compares it literally.
    The former "same spelling" hypothesis is gone (DESIGN §4 #22/#30 repaired). -/
theorem effective_args_dedupe (sig : Nat → Sig) (l : List Occ)
    (hcls : ∀ c ∈ l, ∀ d ∈ l, (c.cls = d.cls ↔ c.id = d.id))
    (hwc : ∀ c ∈ l, wellCalled (sig c.id) c.args = true) :
    dedupe sig l = dedupeBy (effEq sig) l := by
  apply dedupeFrom_congr
  intro c hc d hd
  simp only [List.nil_append] at hc hd
  rw [callEq_wellCalled sig c d (hwc c hc) (hwc d hd), effEq, Bool.eq_iff_iff]
  simp only [Bool.and_eq_true, beq_iff_eq]
  constructor
  · rintro ⟨h1, h2⟩; exact ⟨(hcls c hc d hd).1 h1, h2⟩
  · rintro ⟨h1, h2⟩; exact ⟨(hcls c hc d hd).2 h1, h2⟩

/-- consequence in the property's words: with dedupe on, an invocation of the same task with the same
    effective arguments as an earlier one in the list is skipped, every other one is kept -/
theorem effective_args_skipped (sig : Nat → Sig) (l₁ : List Occ) (c : Occ)
    (hcls : ∀ a ∈ l₁ ++ [c], ∀ d ∈ l₁ ++ [c], (a.cls = d.cls ↔ a.id = d.id))
    (hwc : ∀ a ∈ l₁ ++ [c], wellCalled (sig a.id) a.args = true) :
    dedupe sig (l₁ ++ [c]) =
      if l₁.any (fun d => d.id == c.id && boundEq (bindS (sig d.id) d.args) (bindS (sig c.id) c.args))
      then dedupe sig l₁ else dedupe sig l₁ ++ [c] := by
  rw [(dedupe_first_occurrence sig (l₁ ++ [c])).2.2.2 l₁ c]
  have : isSeen (callEq sig) c l₁ =
      l₁.any (fun d => d.id == c.id && boundEq (bindS (sig d.id) d.args) (bindS (sig c.id) c.args)) := by
    have key : ∀ d ∈ l₁, eqvTo (callEq sig) c d =
        (d.id == c.id && boundEq (bindS (sig d.id) d.args) (bindS (sig c.id) c.args)) := by
      intro d hd
      have hd' : d ∈ l₁ ++ [c] := List.mem_append_left _ hd
      have hc' : c ∈ l₁ ++ [c] := by simp
      show callEq sig d c = _
      rw [callEq_wellCalled sig d c (hwc d hd') (hwc c hc'), Bool.eq_iff_iff]
      simp only [Bool.and_eq_true, beq_iff_eq]
      constructor
      · rintro ⟨h1, h2⟩; exact ⟨(hcls d hd' c hc').1 h1, h2⟩
      · rintro ⟨h1, h2⟩; exact ⟨(hcls d hd' c hc').2 h1, h2⟩
    unfold isSeen
    rw [Bool.eq_iff_iff, List.any_eq_true, List.any_eq_true]
    constructor
    · rintro ⟨d, hd, h⟩; exact ⟨d, hd, by rw [← key d hd]; exact h⟩
    · rintro ⟨d, hd, h⟩; exact ⟨d, hd, by rw [key d hd]; exact h⟩
  rw [this]

/-- dedupe never merges invocations of DISTINCT tasks: an invocation whose task differs (`Task.__eq__`)
    from the task of every earlier invocation is kept, whatever the arguments (namesakes in different
    sub-collections with different bodies both run) -/
theorem dedupe_keeps_distinct_tasks (sig : Nat → Sig) (l₁ : List Occ) (c : Occ)
    (h : ∀ d ∈ l₁, d.cls ≠ c.cls) :
    dedupe sig (l₁ ++ [c]) = dedupe sig l₁ ++ [c] := by
  rw [(dedupe_first_occurrence sig (l₁ ++ [c])).2.2.2 l₁ c]
  have : isSeen (callEq sig) c l₁ = false := by
    rw [Bool.eq_false_iff]
    intro hs
    obtain ⟨d, hd, hdc⟩ := (isSeen_iff (callEq sig) c l₁).1 hs
    exact h d hd ((callEq_iff sig d c).1 hdc).1
  simp [this]

/-- … and invocations that differ in ANY effective argument (a named parameter, a later extra positional
    of `*rest`, a keyword-only value, an entry of `**kw`) from every earlier one are kept -/
theorem dedupe_keeps_different_arguments (sig : Nat → Sig) (l₁ : List Occ) (c : Occ)
    (h : ∀ d ∈ l₁, effArgsEq (effArgs (sig d.id) d.args) (effArgs (sig c.id) c.args) = false) :
    dedupe sig (l₁ ++ [c]) = dedupe sig l₁ ++ [c] := by
  rw [(dedupe_first_occurrence sig (l₁ ++ [c])).2.2.2 l₁ c]
  have : isSeen (callEq sig) c l₁ = false := by
    rw [Bool.eq_false_iff]
    intro hs
    obtain ⟨d, hd, hdc⟩ := (isSeen_iff (callEq sig) c l₁).1 hs
    have := ((callEq_iff sig d c).1 hdc).2
    rw [h d hd] at this
    cases this
  simp [this]

/-- bound arguments differ as soon as the extra positionals, a slot or the extra keywords differ -/
theorem boundEq_false_of_extraPos (a b : Bound) (h : a.extraPos ≠ b.extraPos) : boundEq a b = false := by
  rw [Bool.eq_false_iff]
  intro hb
  exact h ((boundEq_iff a b).1 hb).2.1

/-! ### the rule before the repair, and what is still open -/

/-- the pre-repair `Call.__eq__` (literal args/kwargs) agreed with "same effective arguments" only when
    calls of one task spelled out the same parameters -/
theorem effective_args_dedupe_pinned_partial (sig : Nat → List Param) (l : List Occ)
    (hcls : ∀ c ∈ l, ∀ d ∈ l, (c.cls = d.cls ↔ c.id = d.id))
    (hwc : ∀ c ∈ l, WellCalled (sig c.id) c.args)
    (hsp : ∀ c ∈ l, ∀ d ∈ l, c.id = d.id → sameSpelling c d = true) :
    dedupePinned l = dedupeBy (effEqPlain sig) l := by
  apply dedupeFrom_congr
  intro c hc d hd
  simp only [List.nil_append] at hc hd
  rw [Bool.eq_iff_iff, callEqPinned_iff]
  simp only [effEqPlain, Bool.and_eq_true, beq_iff_eq]
  constructor
  · rintro ⟨h1, h2, h3⟩
    have hid := (hcls c hc d hd).1 h1
    exact ⟨hid, by rw [← hid]; exact bind_eq_of_literal _ _ _ h2 h3⟩
  · rintro ⟨hid, hb⟩
    refine ⟨(hcls c hc d hd).2 hid, ?_⟩
    have hs := hsp c hc d hd hid
    simp only [sameSpelling, Bool.and_eq_true, beq_iff_eq, subKeys_iff] at hs
    rw [← hid] at hb
    exact literal_eq_of_bind (sig c.id) c.args d.args (hwc c hc) hs.1.1 hs.1.2 hs.2 hb

/-- DESIGN §4 #22 under the PRE-REPAIR rule: `pre(c, x=1)` invoked once with the keyword spelled out
    (`{x: 1}`, as the CLI parser does) and once as a plain pre-task reference (`{}`): both ran; the
    code as it is now runs it once; likewise positional vs keyword (#30) -/
theorem effective_args_dedupe_counterexample :
    let sig : Nat → Sig := fun _ => .plain [⟨['x'], some (.int 1)⟩]
    let l : List Occ := [⟨0, 0, 0, ⟨[], [(['x'], .int 1)]⟩⟩, ⟨0, 0, 0, ⟨[], []⟩⟩, ⟨0, 0, 0, ⟨[.int 1], []⟩⟩]
    dedupePinned l = l ∧ dedupeBy (effEq sig) l = [⟨0, 0, 0, ⟨[], [(['x'], .int 1)]⟩⟩] ∧
    dedupe sig l = [⟨0, 0, 0, ⟨[], [(['x'], .int 1)]⟩⟩] := by decide

/-- STILL OPEN (known finding C04-task-eq-by-code): two different tasks that `Task.__eq__` cannot tell
    apart (same name, same code object — e.g. made by one factory function and bound in two
    sub-collections): the second is skipped. -/
theorem task_identity_dedupe_counterexample :
    let l : List Occ := [⟨0, 0, 7, noArgs⟩, ⟨1, 1, 7, noArgs⟩]
    dedupe (fun _ => .plain []) l = [⟨0, 0, 7, noArgs⟩] ∧ dedupeBy (effEq (fun _ => .plain [])) l = l := by decide

/-! ### non-vacuity -/

/-- `build` (id 2) has pre `[setup, call(clean, x=1)]` and post `[notify]`; `setup` has post `[notify]` -/
def exNotify : TaskT := .mk 0 0 0 [] []
def exSetup : TaskT := .mk 1 1 1 [] [(exNotify, noArgs)]
def exClean : TaskT := .mk 3 3 3 [] []
def exBuild : TaskT := .mk 2 2 2 [(exSetup, noArgs), (exClean, ⟨[], [(['x'], .int 1)]⟩)] [(exNotify, noArgs)]

example : (execute (fun _ => .plain []) false none [(exBuild, []), (exSetup, [])]).1.map Occ.id = [1, 0, 3, 2, 0, 1, 0] := by decide
example : (execute (fun _ => .plain []) true none [(exBuild, []), (exSetup, [])]).1.map Occ.id = [1, 0, 3, 2] := by decide
example : (execute (fun _ => .plain []) true none [(exBuild, []), (exSetup, [])]).2 = [(1, 0), (0, 1), (3, 2), (2, 3)] := by decide
example : (execute (fun _ => .plain []) false none [(exBuild, []), (exSetup, [])]).2 = [(1, 5), (0, 6), (3, 2), (2, 3)] := by decide
example : (execute (fun _ => .plain []) true (some exSetup) []).1.map Occ.id = [1, 0] := by decide
/-- two `Task` objects wrapping ONE body function under one name (same `key`, same `cls`) with different
    pre-tasks: each occurrence is surrounded by its OWN pre-tasks (dedupe off: everything runs; dedupe on:
    the second `build` is taken for the first - known finding - but its own pre-task still runs), and the
    returned mapping has a single entry for the shared key -/
def exWebBuild : TaskT := .mk 10 10 10 [(.mk 11 11 11 [] [], noArgs)] []
def exApiBuild : TaskT := .mk 20 10 10 [(.mk 21 21 21 [] [], noArgs)] []
example : (execute (fun _ => .plain []) false none [(exWebBuild, []), (exApiBuild, [])]).1.map Occ.id = [11, 10, 21, 20] := by decide
example : (execute (fun _ => .plain []) true none [(exWebBuild, []), (exApiBuild, [])]).1.map Occ.id = [11, 10, 21] := by decide
example : (execute (fun _ => .plain []) false none [(exWebBuild, []), (exApiBuild, [])]).2 = [(11, 0), (10, 3), (21, 2)] := by decide
/-- a dependency chain much longer than the request list (one requested task, five helpers below it that
    need not be registered anywhere, the innermost also a post-task of the top): everything runs, depth
    first; with dedupe on the repeated innermost helper runs once -/
def exChain0 : TaskT := .mk 0 0 0 [] []
def exChain1 : TaskT := .mk 1 1 1 [(exChain0, noArgs)] []
def exChain2 : TaskT := .mk 2 2 2 [] [(exChain1, noArgs)]
def exChain3 : TaskT := .mk 3 3 3 [(exChain2, noArgs)] []
def exChain4 : TaskT := .mk 4 4 4 [(exChain3, noArgs)] []
def exChain5 : TaskT := .mk 5 5 5 [(exChain4, noArgs)] [(exChain0, noArgs)]
example : (execute (fun _ => .plain []) false none [(exChain5, [])]).1.map Occ.id = [2, 0, 1, 3, 4, 5, 0] := by decide
example : (execute (fun _ => .plain []) true none [(exChain5, [])]).1.map Occ.id = [2, 0, 1, 3, 4, 5] := by decide
/-- a nested occurrence (`notify` below `setup` below `build`) satisfies `Sub` -/
example : Sub (exNotify, noArgs) [(exBuild, noArgs)] :=
  Sub.inPre (d := (exBuild, noArgs)) (by simp) (Sub.inPost (d := (exSetup, noArgs)) (by simp [exBuild, TaskT.pre]) (Sub.here (by simp [exSetup, TaskT.post])))
/-- effective arguments: keyword order, an explicit default and positional-vs-keyword make no difference,
    the values do; a call that cannot be bound is compared literally -/
def exSig : Nat → Sig := fun _ => .plain [⟨['x'], some (.int 1)⟩, ⟨['y'], some (.int 2)⟩]
example : callEq exSig ⟨0, 0, 0, ⟨[], [(['x'], .int 1), (['y'], .int 2)]⟩⟩ ⟨0, 0, 0, ⟨[], [(['y'], .int 2), (['x'], .int 1)]⟩⟩ = true := by decide
example : callEq exSig ⟨0, 0, 0, ⟨[], []⟩⟩ ⟨0, 0, 0, ⟨[.int 1], [(['y'], .int 2)]⟩⟩ = true := by decide
example : callEq exSig ⟨0, 0, 0, ⟨[], [(['x'], .int 1)]⟩⟩ ⟨0, 0, 0, ⟨[], [(['x'], .int 2)]⟩⟩ = false := by decide
example : callEq exSig ⟨0, 0, 0, ⟨[], [(['z'], .int 1)]⟩⟩ ⟨0, 0, 0, ⟨[], []⟩⟩ = false ∧
    callEq exSig ⟨0, 0, 0, ⟨[], [(['z'], .int 1)]⟩⟩ ⟨0, 0, 0, ⟨[], [(['z'], .int 1)]⟩⟩ = true := by decide
/-- namesakes: `docs.build` (id 0) and `www.build` (id 1) are different tasks with different bodies
    (different `cls`) and equal (empty) arguments: both run, also as pre-tasks of a third task -/
example : dedupe (fun _ => .plain []) [⟨0, 0, 5, noArgs⟩, ⟨1, 1, 6, noArgs⟩, ⟨0, 0, 5, noArgs⟩] =
    [⟨0, 0, 5, noArgs⟩, ⟨1, 1, 6, noArgs⟩] := by decide
example : (execute (fun _ => .plain []) true none
    [(.mk 2 2 2 [(.mk 0 0 5 [] [], noArgs), (.mk 1 1 6 [] [], noArgs)] [], [])]).1.map Occ.id = [0, 1, 2] := by decide
/-- `def stop(c, x, *rest, k=0, **kw)`: calls that differ only in a later extra positional, in the
    keyword-only value or in a `**kw` entry are different invocations; equal ones are one -/
def exVarSig : Nat → Sig := fun _ => ⟨[⟨['x'], none⟩], [⟨['k'], some (.int 0)⟩], true, true⟩
def exWeb : AVal := .str ['w']
def exDb : AVal := .str ['d']
example : dedupe exVarSig
    [⟨0, 0, 0, ⟨[exWeb], []⟩⟩, ⟨0, 0, 0, ⟨[exWeb, exDb], []⟩⟩, ⟨0, 0, 0, ⟨[exWeb, exDb, exDb], []⟩⟩,
     ⟨0, 0, 0, ⟨[exWeb], [(['k'], .int 1)]⟩⟩, ⟨0, 0, 0, ⟨[exWeb], [(['z'], .int 1)]⟩⟩,
     ⟨0, 0, 0, ⟨[], [(['x'], exWeb), (['k'], .int 0)]⟩⟩, ⟨0, 0, 0, ⟨[exWeb, exDb], []⟩⟩] =
    [⟨0, 0, 0, ⟨[exWeb], []⟩⟩, ⟨0, 0, 0, ⟨[exWeb, exDb], []⟩⟩, ⟨0, 0, 0, ⟨[exWeb, exDb, exDb], []⟩⟩,
     ⟨0, 0, 0, ⟨[exWeb], [(['k'], .int 1)]⟩⟩, ⟨0, 0, 0, ⟨[exWeb], [(['z'], .int 1)]⟩⟩] := by decide
example : wellCalled (exVarSig 0) ⟨[exWeb, exDb], [(['z'], .int 1)]⟩ = true ∧
    wellCalled (exVarSig 0) ⟨[exWeb], [(['x'], exDb)]⟩ = false ∧
    wellCalled (.plain [⟨['x'], none⟩]) ⟨[exWeb, exDb], []⟩ = false := by decide
/-- compound (unhashable) arguments: `build(c, targets)` invoked with two equal lists built separately
    is ONE invocation, with a different list another; likewise as an extra positional of `*rest` and as a
    `**kw` entry -/
def exList12 : AVal := .compound 0 [1, 2]
def exList13 : AVal := .compound 0 [1, 3]
example : dedupe (fun _ => .plain [⟨['t'], none⟩])
    [⟨0, 0, 0, ⟨[], [(['t'], exList12)]⟩⟩, ⟨0, 0, 0, ⟨[exList12], []⟩⟩, ⟨0, 0, 0, ⟨[exList13], []⟩⟩,
     ⟨0, 0, 0, ⟨[], [(['t'], .compound 0 [1, 2])]⟩⟩] =
    [⟨0, 0, 0, ⟨[], [(['t'], exList12)]⟩⟩, ⟨0, 0, 0, ⟨[exList13], []⟩⟩] := by decide
example : dedupe exVarSig
    [⟨0, 0, 0, ⟨[exWeb, exList12], [(['z'], exList13)]⟩⟩, ⟨0, 0, 0, ⟨[exWeb, exList12], [(['z'], exList13)]⟩⟩,
     ⟨0, 0, 0, ⟨[exWeb, exList12], [(['z'], exList12)]⟩⟩] =
    [⟨0, 0, 0, ⟨[exWeb, exList12], [(['z'], exList13)]⟩⟩, ⟨0, 0, 0, ⟨[exWeb, exList12], [(['z'], exList12)]⟩⟩] := by decide
/-- the same contents in another container type are ANOTHER value when Python's `==` says so (a list
    `["x","y"]`, kind 0, and a tuple `("x","y")`, kind 1): both invocations run, in either order -/
example : dedupe (fun _ => .plain [⟨['t'], none⟩])
    [⟨0, 0, 0, ⟨[], [(['t'], .compound 1 [1, 2])]⟩⟩, ⟨0, 0, 0, ⟨[], [(['t'], .compound 0 [1, 2])]⟩⟩,
     ⟨0, 0, 0, ⟨[.compound 1 [1, 2]], []⟩⟩] =
    [⟨0, 0, 0, ⟨[], [(['t'], .compound 1 [1, 2])]⟩⟩, ⟨0, 0, 0, ⟨[], [(['t'], .compound 0 [1, 2])]⟩⟩] := by decide
/-- the hypotheses of `effective_args_dedupe` are satisfiable by a list with real duplicates under
    different spellings -/
example :
    let l : List Occ := [⟨0, 0, 0, ⟨[], [(['x'], .int 1)]⟩⟩, ⟨0, 0, 0, ⟨[], [(['x'], .int 2)]⟩⟩, ⟨0, 0, 0, ⟨[.int 1], []⟩⟩, ⟨0, 0, 0, ⟨[], []⟩⟩]
    (∀ c ∈ l, ∀ d ∈ l, (c.cls = d.cls ↔ c.id = d.id)) ∧ (∀ c ∈ l, wellCalled (exSig c.id) c.args = true) ∧
    (dedupe exSig l).length = 2 ∧ dedupe exSig l = dedupeBy (effEq exSig) l := by decide
/-- … and those of the pinned partial theorem -/
example :
    let sig : Nat → List Param := fun _ => [⟨['x'], some (.int 1)⟩]
    let l : List Occ := [⟨0, 0, 0, ⟨[], [(['x'], .int 1)]⟩⟩, ⟨0, 0, 0, ⟨[], [(['x'], .int 2)]⟩⟩, ⟨0, 0, 0, ⟨[], [(['x'], .int 1)]⟩⟩]
    (∀ c ∈ l, ∀ d ∈ l, c.id = d.id → sameSpelling c d = true) ∧ (dedupePinned l).length = 2 ∧
    dedupePinned l = dedupeBy (effEqPlain sig) l := by decide
example : WellCalled [⟨['x'], some (.int 1)⟩] ⟨[], [(['x'], .int 1)]⟩ :=
  ⟨by simp, by intro k hk; simp [keys] at hk; exact ⟨0, by simp, by simp [hk]⟩⟩

end Inv.Exec
