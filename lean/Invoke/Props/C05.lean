import Invoke.Lemmas.Exit
import Invoke.Lemmas.RunnerJoined
/-! # C05 — exit status is reported truthfully and decides return vs. raise; the program's own exit status

Property theorems only (helpers: `Invoke/Lemmas/Exit.lean`).  All statements are about the model in
`Invoke/Model/Exit.lean`, instantiated with the tables REGENERATED from the repository
(`Generated.finishRaiseOrder`, `Generated.finishProbe`, `Generated.exitCodeMap`, `Generated.exitCodeProbe`,
`Generated.exitObjProbe`).  ASSUMPTION: the Linux wait-status layout `encodeWait` (validated against the
running kernel by the harness, not proved). -/
namespace Inv
open Generated

/-! ## the true exit status -/

/-- every exit code 0..255 decodes to itself; every terminating signal 1..64 decodes to its negative,
    with or without the core-dump flag (pty branch of `Local.returncode`) -/
theorem waitstatus_decode :
    (∀ c, c < 256 → returncodePty (encodeWait (.exited c)) = some (Int.ofNat c)) ∧
    (∀ s, 1 ≤ s → s ≤ 64 → ∀ core, returncodePty (encodeWait (.signaled s core)) = some (-(Int.ofNat s))) := by
  constructor
  · intro c hc
    simp [returncodePty, wifexited, wtermsig_exited, wexitstatus_exited c hc]
  · intro s h1 h2 core
    have hs : wtermsig (encodeWait (.signaled s core)) = s := wtermsig_signaled s core (by omega)
    have h0 : (s == 0) = false := by simp; omega
    have hlt : s < 127 := by omega
    have hpos : 0 < s := by omega
    simp [returncodePty, wifexited, wifsignaled, hs, h0, hlt, hpos]

/-- pty and non-pty branches report the same status for every way of ending -/
theorem pty_agrees_with_popen (e : ProcExit)
    (h : match e with | .exited c => c < 256 | .signaled s _ => 1 ≤ s ∧ s ≤ 64) :
    returncodePty (encodeWait e) = some (returncodePopen e) := by
  cases e with
  | exited c =>
    have hc : c < 256 := h
    rw [waitstatus_decode.1 c hc]; simp [returncodePopen, Nat.mod_eq_of_lt hc]
  | signaled s core =>
    have hs : 1 ≤ s ∧ s ≤ 64 := h
    rw [waitstatus_decode.2 s hs.1 hs.2 core]; simp [returncodePopen]

/-- a stopped child (low byte 0x7f) is neither "exited" nor "signaled": no status is invented -/
theorem stopped_has_no_status (sig : Nat) : returncodePty (sig % 256 * 256 + 127) = none := by
  have h : wtermsig (sig % 256 * 256 + 127) = 127 := by simp only [wtermsig]; omega
  simp [returncodePty, wifexited, wifsignaled, h]

/-- `ok` exactly when the status is zero -/
theorem ok_iff_zero (r : Res) : r.ok = true ↔ r.exited = some 0 := by
  simp [Res.ok]

theorem failed_iff_not_ok (r : Res) : r.failed = true ↔ r.exited ≠ some 0 := by
  simp [Res.failed, Res.ok]

/-! ## return vs raise -/

/-- the generated priority order is the documented one -/
theorem finish_order_is_documented : finishRaiseOrder = [.thread, .watcher, .timeout, .exit] :=
  finishRaiseOrder_eq

/-- the model reproduces every row of the truth table probed from the real `Runner._finish` -/
theorem finish_probe_agrees :
    ∀ row ∈ finishProbe, probeOut (finishDecision finishRaiseOrder (probeIn row.1)) = row.2 := by
  decide

/-- the probed table is complete: all 32 combinations were driven -/
theorem finish_probe_complete :
    ∀ a b c d e : Bool, (finishProbe.map Prod.fst).contains (a, b, c, d, e) = true := by
  decide

/-- HEADLINE: thread exceptions > watcher errors (result.exited = none) > timeout > non-zero ∧ ¬warn > return
    (`timedOut i` = a timeout was requested ∧ the timer fired) -/
theorem finish_decision_table (i : FinIn) :
    runSync i =
      if i.threadExns > 0 then .raiseThread i.threadExns
      else if i.watcherErrs > 0 then .raiseFailure { exited := none, payload := i.payload }
      else if timedOut i then .raiseTimedOut { exited := some i.code, payload := i.payload }
      else if i.code ≠ 0 ∧ i.warn = false then .raiseUnexpected { exited := some i.code, payload := i.payload }
      else .ret { exited := some i.code, payload := i.payload } := by
  rw [runSync_unfold]
  by_cases ht : i.threadExns > 0
  · simp [fires, raiseOf, ht]
  · by_cases hw : i.watcherErrs > 0
    · simp [fires, raiseOf, ht, hw, collate]
    · have hw0 : i.watcherErrs = 0 := by omega
      cases hto : timedOut i
      · by_cases hc : i.code = 0 <;> cases hwarn : i.warn <;>
          simp_all [fires, raiseOf, collate, Res.ok]
      · simp [fires, raiseOf, ht, hw0, collate, hto]

theorem timedOut_iff (i : FinIn) : timedOut i = true ↔ (i.timeoutSet = true ∧ i.timerFired = true) := by
  simp [timedOut]

/-- running a command returns normally iff no worker fault, no timeout, and (status zero or warn) -/
theorem returns_iff (i : FinIn) :
    (runSync i).returnsNormally = true ↔
      (i.threadExns = 0 ∧ i.watcherErrs = 0 ∧ timedOut i = false ∧ (i.code = 0 ∨ i.warn = true)) := by
  rw [finish_decision_table]
  by_cases ht : i.threadExns > 0
  · simp [ht, Decision.returnsNormally]; omega
  · by_cases hw : i.watcherErrs > 0
    · simp [ht, hw, Decision.returnsNormally]; omega
    · have ht0 : i.threadExns = 0 := by omega
      have hw0 : i.watcherErrs = 0 := by omega
      cases hto : timedOut i <;> by_cases hc : i.code = 0 <;> cases hwarn : i.warn <;>
        simp_all [Decision.returnsNormally]

/-- with no worker fault and no timeout: normal return iff status zero or warn (the statement's wording) -/
theorem returns_iff_zero_or_warn (i : FinIn) (h1 : i.threadExns = 0) (h2 : i.watcherErrs = 0)
    (h3 : timedOut i = false) :
    (runSync i).returnsNormally = true ↔ (i.code = 0 ∨ i.warn = true) := by
  rw [returns_iff]; simp [h1, h2, h3]

/-- the returned result reports the true status -/
theorem returned_result_truthful (i : FinIn) (r : Res) (h : runSync i = .ret r) :
    r.exited = some i.code ∧ r.payload = i.payload ∧ (r.ok = true ↔ i.code = 0) := by
  rw [finish_decision_table] at h
  by_cases ht : i.threadExns > 0
  · simp [ht] at h
  · by_cases hw : i.watcherErrs > 0
    · simp [ht, hw] at h
    · cases hto : timedOut i
      · by_cases hx : i.code ≠ 0 ∧ i.warn = false
        · simp [ht, hw, hto, hx] at h
        · rw [if_neg ht, if_neg hw, hto, if_neg (by simp), if_neg hx] at h
          injection h with h
          subst h
          simp [Res.ok]
      · simp [ht, hw, hto] at h

/-- the unexpected-exit failure carries the same complete result the run would have returned under `warn` -/
theorem failure_carries_same_result (i : FinIn) (r : Res) (h : runSync i = .raiseUnexpected r) :
    r = { exited := some i.code, payload := i.payload } ∧ i.code ≠ 0 ∧ i.warn = false ∧
    runSync { i with warn := true } = .ret r := by
  rw [finish_decision_table] at h
  rw [finish_decision_table]
  have hT : timedOut { i with warn := true } = timedOut i := rfl
  rw [hT]
  by_cases ht : i.threadExns > 0
  · simp [ht] at h
  · by_cases hw : i.watcherErrs > 0
    · simp [ht, hw] at h
    · cases hto : timedOut i
      · by_cases hx : i.code ≠ 0 ∧ i.warn = false
        · rw [if_neg ht, if_neg hw, hto, if_neg (by simp), if_pos hx] at h
          injection h with h
          subst h
          refine ⟨rfl, hx.1, hx.2, ?_⟩
          simp [ht, hw]
        · simp [ht, hw, hto, hx] at h
      · simp [ht, hw, hto] at h

/-- timeouts and watcher errors raise their own failure types regardless of `warn` -/
theorem warn_irrelevant_for_timeout_and_watcher (i : FinIn) (w : Bool) (h0 : i.threadExns = 0)
    (h : i.watcherErrs > 0 ∨ timedOut i = true) :
    runSync { i with warn := w } = runSync i ∧
    ((runSync i).kind = (if i.watcherErrs > 0 then FinKind.failure else FinKind.commandTimedOut)) := by
  rw [finish_decision_table, finish_decision_table]
  have hT : timedOut { i with warn := w } = timedOut i := rfl
  rw [hT]
  by_cases hw : i.watcherErrs > 0
  · simp [h0, hw, Decision.kind]
  · have hto : timedOut i = true := by
      cases h with
      | inl h => exact absurd h hw
      | inr h => exact h
    simp [h0, hw, hto, Decision.kind]

/-- `Promise.join` takes the same decision as the synchronous path -/
theorem async_join_same_decision (i : FinIn) : (makePromise i).join = runSync i := rfl

/-! ## the program's own exit status -/

/-- the generated exit-status table reproduces every probe of the real `Program.run` … -/
theorem exit_probe_agrees :
    ∀ row ∈ exitCodeProbe,
      (match ruleFor exitCodeMap row.1 with
        | some (.const n) => some n
        | some .carried => row.2.1
        | none => none) = some (row.2.2.getD 0) := by
  decide

/-- … and `Exit.code` is as modelled on every probe of the real class -/
theorem exit_obj_probe_agrees : ∀ row ∈ exitObjProbe, exitObjCode row.1 row.2.1 = row.2.2 := by
  decide

/-- 0 on success, the failing command's status on an unexpected exit, the code of an explicit `Exit`,
    1 for a parse error.  The exit-status map does not look at the captured output: the theorem quantifies over
    results with ANY captured text (`Res.payload` is arbitrary), which the harness family "output text as a dimension"
    ties to the code (whatever the failing command printed, hidden or not). -/
theorem program_exit_code :
    programExit exitCodeMap .success = some 0 ∧
    (∀ e, programExit exitCodeMap (.unexpectedExit e) = some e) ∧
    (∀ c m, programExit exitCodeMap (.exit (some c) m) = some c) ∧
    (∀ c m, programExit exitCodeMap (.exit c m) = some (exitObjCode c m)) ∧
    programExit exitCodeMap .parseError = some 1 := by
  rw [exitCodeMap_eq]
  refine ⟨by decide, ?_, ?_, ?_, by decide⟩
  · intro e; simp [programExit, ruleFor, ProgOutcome.kind, ProgOutcome.carried]
  · intro c m; simp [programExit, ruleFor, ProgOutcome.kind, ProgOutcome.carried, exitObjCode]
  · intro c m; simp [programExit, ruleFor, ProgOutcome.kind, ProgOutcome.carried]

/-- end to end: a task whose command fails with wait status `st` (pty) makes the program exit with the
    decoded status -/
theorem program_reports_command_status (c : Nat) (hc : c < 256) (hz : c ≠ 0) (p : Nat) :
    ∃ r, runSync { threadExns := 0, watcherErrs := 0, timeoutSet := false, timerFired := false,
                   code := Int.ofNat c, warn := false, payload := p } = .raiseUnexpected r ∧
         returncodePty (encodeWait (.exited c)) = r.exited ∧
         programExit exitCodeMap (.unexpectedExit (Int.ofNat c)) = r.exited := by
  refine ⟨{ exited := some (Int.ofNat c), payload := p }, ?_, ?_, ?_⟩
  · rw [finish_decision_table]
    simp [timedOut, hz]
  · exact waitstatus_decode.1 c hc
  · exact program_exit_code.2.1 _

/-! ## counterexamples for plausible wrong orders / decodings, and non-vacuity -/

/-- examining the exit status before the timeout would report a killed-by-timeout command as an unexpected exit -/
theorem exit_before_timeout_counterexample :
    (finishDecision [.thread, .watcher, .exit, .timeout]
      { threadExns := 0, watcherErrs := 0, timeoutSet := true, timerFired := true, code := -9, warn := false, payload := 0 }).kind
      = .unexpectedExit ∧
    (runSync { threadExns := 0, watcherErrs := 0, timeoutSet := true, timerFired := true, code := -9, warn := false, payload := 0 }).kind
      = .commandTimedOut := by decide

/-- forgetting the sign for signals would report SIGKILL as exit status 9 -/
theorem unsigned_signal_counterexample :
    returncodePty (encodeWait (.signaled 9 false)) = some (-9) ∧
    returncodePty (encodeWait (.exited 9)) = some 9 := by decide

example : (runSync { threadExns := 0, watcherErrs := 0, timeoutSet := false, timerFired := false, code := 3, warn := false, payload := 5 })
    = .raiseUnexpected { exited := some 3, payload := 5 } := by decide
example : (runSync { threadExns := 0, watcherErrs := 0, timeoutSet := false, timerFired := false, code := 3, warn := true, payload := 5 })
    = .ret { exited := some 3, payload := 5 } := by decide
example : (runSync { threadExns := 0, watcherErrs := 2, timeoutSet := true, timerFired := true, code := 3, warn := true, payload := 5 })
    = .raiseFailure { exited := none, payload := 5 } := by decide
example : (runSync { threadExns := 1, watcherErrs := 2, timeoutSet := true, timerFired := true, code := 3, warn := true, payload := 5 })
    = .raiseThread 1 := by decide
example : returncodePty (encodeWait (.signaled 11 true)) = some (-11) := by decide
example : returncodePty (encodeWait (.exited 255)) = some 255 := by decide
example : programExit exitCodeMap (.exit none true) = some 1 := by decide

/-! ## every join of one run takes the same decision -/

/-- SECOND JOIN: `Promise.join()` may be called again on a run whose first join is over (explicitly, or by leaving
    `with promise:` after a join): `_finish` is re-entered (`rejoin`: the main thread is back in the wait loop, every
    flag as the first pass left it).  From EVERY reachable state in which the first join is over, along EVERY schedule
    of the second pass (timer thread, late environment events and interrupts included), a second join that completes
    takes the decision of the first: the same return, the same unexpected-exit or timed-out failure with the same exit
    status, the same worker-exception report.  (In particular a timely run with a timeout is not reported as timed out
    by its second join: the "disarmed as timely" flag is latched.) -/
theorem second_join_same_decision (hi ht w p e : Bool) (o er : List Chunk) (ins : List InItem) (ho : Bool) (n : Nat)
    (asy : Bool) (evs₁ evs₂ : List Ev)
    (hdone : (run (S.init hi ht w p e o er ins ho false n asy) evs₁).mainPc = .done) :
    (run (rejoin (run (S.init hi ht w p e o er ins ho false n asy) evs₁)) evs₂).mainPc = .done →
    (run (rejoin (run (S.init hi ht w p e o er ins ho false n asy) evs₁)) evs₂).outcome =
      (run (S.init hi ht w p e o er ins ho false n asy) evs₁).outcome := by
  intro h2
  have hj := joined_reachable hi ht w p e o er ins ho n asy evs₁ hdone
  exact (rj_run _ _ evs₂ (rj_rejoin _ hj)).dec (by rw [h2]; rfl)

/-- ... and so does a third, a fourth, ...: `Joined` holds again when the second join is over -/
theorem later_joins_same_decision (hi ht w p e : Bool) (o er : List Chunk) (ins : List InItem) (ho : Bool) (n : Nat)
    (asy : Bool) (evs₁ evs₂ evs₃ : List Ev)
    (hdone : (run (S.init hi ht w p e o er ins ho false n asy) evs₁).mainPc = .done)
    (h2 : (run (rejoin (run (S.init hi ht w p e o er ins ho false n asy) evs₁)) evs₂).mainPc = .done) :
    (run (rejoin (run (rejoin (run (S.init hi ht w p e o er ins ho false n asy) evs₁)) evs₂)) evs₃).mainPc = .done →
    (run (rejoin (run (rejoin (run (S.init hi ht w p e o er ins ho false n asy) evs₁)) evs₂)) evs₃).outcome =
      (run (S.init hi ht w p e o er ins ho false n asy) evs₁).outcome := by
  intro h3
  have hj := joined_reachable hi ht w p e o er ins ho n asy evs₁ hdone
  have r2 := rj_run _ _ evs₂ (rj_rejoin _ hj)
  -- after the second join the invariant still holds for the first decision; re-entering keeps it
  have r2' : RJ (run (S.init hi ht w p e o er ins ho false n asy) evs₁).outcome
      (rejoin (run (rejoin (run (S.init hi ht w p e o er ins ho false n asy) evs₁)) evs₂)) :=
    ⟨r2.dead, r2.live, fun hc => by simp [rejoin, decided] at hc, fun hc => by simp [rejoin] at hc⟩
  exact (rj_run _ _ evs₃ r2').dec (by rw [h3]; rfl)

/-- the hypotheses are met by a concrete run: a command with a timeout exits 3 in time, the first join raises the
    unexpected-exit failure (timer disarmed as timely); the second pass - with a timer step and an interrupt thrown in -
    completes with the same failure -/
example :
    let evs₁ : List Ev := [.env (.exit 3), .act .out, .act .err] ++ List.replicate 12 (.act .main)
    let evs₂ : List Ev := [.act .timer, .env .interrupt] ++ List.replicate 14 (.act .main)
    let s := run (S.init false true false false false [] [] []) evs₁
    s.mainPc = .done ∧ s.outcome = .unexpected 3 ∧ s.early = true ∧
    (run (rejoin s) evs₂).mainPc = .done ∧ (run (rejoin s) evs₂).outcome = .unexpected 3 := by decide

end Inv
