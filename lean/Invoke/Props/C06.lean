import Invoke.Lemmas.ConfigReach
import Invoke.Lemmas.ConfigCache
/-! # C06 — a config behaves like a nested dict under any history of edits and reloads

Property theorems only (helper lemmas: `Lemmas/Hist.lean`, `ConfigPath.lean`, `ConfigStep.lean`,
`ConfigOps.lean`).  Vocabulary:

* `viewT b m d` — what a configuration reads as when the merge of its eight lower levels is `b`, its
  modifications are `m` and its deletion marks `d` (`obliterate (merge_dicts b m) d`);
* `node p t` — what the key path `p` denotes in tree `t` (leaf value / section / nothing); `Ext t t'`
  — the two trees read identically through every key path;
* `setPath t p v`, `erasePath t p` — `t[p₁]…[pₙ] = v` (creating sections) and `del t[p₁]…[pₙ]` on a
  plain nested dict — the SAME walks `_modify` and `excise` perform on the journal;
* `Edit`, `journalOf`, `replay` — the effective edits of a history, what they do to the journal,
  and what they do to a plain nested dict.

Every statement quantifies over the base `b`: reloading lower levels changes `b` and nothing else,
so "for every base" is exactly "under any interleaving with reloads". -/
namespace Inv
open Inv.Hist

/-! ## one step -/

/-- A written value is read back (at the written path and below it) whatever the lower levels are
    and whatever they are reloaded to afterwards.  `h1`/`h3` are discharged by navigation
    (`navigated_write_is_valid`), `h2` is the `_partial` side condition of finding #17/#18. -/
theorem set_then_get (b m d : KVs) (hb : WF b) (hm : WF m) (hd : WF d) (p : List Key) (hp : p ≠ [])
    (v : Val) (hv : WFV v) (h1 : leafOnWay d p = false) (h3 : leafOnWay m p = false) (h2 : Fresh v b p)
    (s : List Key) :
    node (p ++ s) (viewT b (setPath m p v) (erasePath d p)) = nodeV s v := by
  rw [step_set p v hv b m d hb hm hd h1 h3 h2 (p ++ s)]
  exact node_setPath_at p hp v s _

/-- A deleted key (and everything below it) is absent over every base: it stays absent across any
    reload of the lower levels. -/
theorem del_then_absent (b m d : KVs) (hb : WF b) (hm : WF m) (hd : WF d) (p : List Key) (hp : p ≠ [])
    (s : List Key) :
    node (p ++ s) (viewT b m (markDel d p)) = none := by
  rw [step_del p hp b m d hb hm hd (p ++ s)]
  exact node_erasePath_at p hp s _ (wf_viewT hb hm hd)

/-- Settings at paths that part ways with the written path keep their merged value. -/
theorem untouched_paths_keep_merged_value_set (b m d : KVs) (hb : WF b) (hm : WF m) (hd : WF d) (p : List Key)
    (v : Val) (hv : WFV v) (h1 : leafOnWay d p = false) (h3 : leafOnWay m p = false) (h2 : Fresh v b p)
    (r : List Key) (hr : diverge p r = true) :
    node r (viewT b (setPath m p v) (erasePath d p)) = node r (viewT b m d) := by
  rw [step_set p v hv b m d hb hm hd h1 h3 h2 r]
  exact node_setPath_other p v r _ hr

/-- ...and likewise for a deletion. -/
theorem untouched_paths_keep_merged_value_del (b m d : KVs) (hb : WF b) (hm : WF m) (hd : WF d) (p : List Key)
    (hp : p ≠ []) (r : List Key) (hr : diverge p r = true) :
    node r (viewT b m (markDel d p)) = node r (viewT b m d) := by
  rw [step_del p hp b m d hb hm hd r]
  exact node_erasePath_other p r _ (wf_viewT hb hm hd) hr

/-- The side conditions of a write hold BASE-INDEPENDENTLY as soon as the parent section `q` could
    be navigated to in the view over some base `b₀` (the one current when the write was made). -/
theorem navigated_write_is_valid (q : List Key) (k : Key) (b₀ m d : KVs) (hb : WF b₀) (hm : WF m) (hd : WF d)
    (hnav : node q (viewT b₀ m d) = some .sec) :
    leafOnWay d (q ++ [k]) = false ∧ leafOnWay m (q ++ [k]) = false :=
  nav_valid q k b₀ m d hb hm hd hnav

/-! ## histories -/

/-- HEADLINE (`_partial`).  For EVERY sequence of valid writes and deletions, and EVERY base `b`
    (= whatever the lower levels have meanwhile been reloaded to), the configuration whose journal was
    built by that sequence reads exactly like the plain nested dict `b` that received the same
    operations.

    What is missing from full strength (`history_refines_dict`): `FreshAll b es` — a dict-valued
    write must go to a key path that is not a section of `b` (leaf writes are unrestricted).  Without
    it the statement is false (`section_write_merges_counterexample`, findings #17/#18).  Outputs of
    the operations are functions of the view before them, so they agree as well. -/
theorem history_refines_dict_partial (es : List Edit) (hv : JValid ⟨[], []⟩ es) (b : KVs) (hb : WF b)
    (hf : FreshAll b es) :
    Ext (viewT b (journalOf ⟨[], []⟩ es).mods (journalOf ⟨[], []⟩ es).dels) (replay b es) := by
  have := journal_replay es ⟨[], []⟩ wf_nil wf_nil hv b hb hf
  simpa using this

/-- The same from any journal state: the continuation of a history. -/
theorem history_refines_dict_from (j : Journal) (hm : WF j.mods) (hd : WF j.dels) (es : List Edit) (hv : JValid j es)
    (b : KVs) (hb : WF b) (hf : FreshAll b es) :
    Ext (viewT b (journalOf j es).mods (journalOf j es).dels) (replay (viewT b j.mods j.dels) es) :=
  journal_replay es j hm hd hv b hb hf

/-- A reload changes the base and nothing else: before it the configuration reads as the replay of
    the journal over the old merge, after it as the replay of the SAME journal over the fresh merge. -/
theorem reload_replays_journal (es : List Edit) (hv : JValid ⟨[], []⟩ es) (b b' : KVs) (hb : WF b) (hb' : WF b')
    (hf : FreshAll b es) (hf' : FreshAll b' es) :
    Ext (viewT b (journalOf ⟨[], []⟩ es).mods (journalOf ⟨[], []⟩ es).dels) (replay b es) ∧
    Ext (viewT b' (journalOf ⟨[], []⟩ es).mods (journalOf ⟨[], []⟩ es).dels) (replay b' es) :=
  ⟨history_refines_dict_partial es hv b hb hf, history_refines_dict_partial es hv b' hb' hf'⟩

/-- HEADLINE at the level of the model's operations.  For EVERY configuration reachable by ANY
    history of reloads, writes through navigated proxies and deletions (`Reach c es`; `es` = the
    edits made), the configuration reads like the plain nested dict "current merge of its lower levels
    + the same edits" — under the `_partial` side condition on dict-valued writes. -/
theorem reachable_reads_like_dict (c : Cfg) (es : List Edit) (h : Reach c es) (hf : FreshAll c.baseT es) :
    Ext c.viewT (replay c.baseT es) := by
  obtain ⟨hc, hj, hv⟩ := reach_inv h
  have := history_refines_dict_partial es hv c.baseT (wf_baseT hc.lower) hf
  rw [← hj] at this
  exact this

/-- ...and every reachable configuration can be read at all (`merge()` does not raise). -/
theorem reachable_view_ok (c : Cfg) (es : List Edit) (h : Reach c es) : c.view = .ok c.viewT :=
  view_eq (reach_inv h).1

/-! ## the model's operations are these edits -/

/-- `cfg[path…][k] = v` on a type-consistent configuration: the journal receives the edit `set`,
    the lower levels are untouched, and over every base the view is the old view with `v` written. -/
theorem setitem_like_dict (c c' : Cfg) (hc : TypeOK c) (path : List Step) (sub : KVs) (k : Key) (v : Val) (hv : WFV v)
    (hnav : nav c.viewT path = .ok sub) (h : c.modify (path.map Prod.fst ++ [k]) v = .ok c')
    (b : KVs) (hb : WF b) (hf : Fresh v b (path.map Prod.fst ++ [k])) :
    c'.lower = c.lower ∧
    Ext (viewT b c'.mods c'.dels) (setPath (viewT b c.mods c.dels) (path.map Prod.fst ++ [k]) v) := by
  obtain ⟨hj, hl, hval⟩ := modify_journal hc path sub k v hv hnav h
  refine ⟨hl, ?_⟩
  have := step_edit (.set (path.map Prod.fst ++ [k]) v) (jOf c) b hb hc.mods hc.dels hval ⟨hf, trivial⟩
  rw [← hj] at this
  exact this

/-- `del cfg[path…][k]` (also `pop`, `popitem`, each step of `clear`) -/
theorem delitem_like_dict (c c' : Cfg) (hc : TypeOK c) (p : List Key) (hp : p ≠ []) (h : c.remove p = .ok c')
    (b : KVs) (hb : WF b) :
    c'.lower = c.lower ∧ Ext (viewT b c'.mods c'.dels) (erasePath (viewT b c.mods c.dels) p) := by
  obtain ⟨hj, hl, hval⟩ := remove_journal p hp h
  refine ⟨hl, ?_⟩
  have := step_edit (.del p) (jOf c) b hb hc.mods hc.dels hval trivial
  rw [← hj] at this
  exact this

/-- the other mutators are these two: `pop` of a present key is a deletion … -/
theorem pop_is_delete (c : Cfg) (hc : TypeOK c) (path : List Step) (sub : KVs) (k : Key) (x : Val) (dflt : Option Val)
    (hnav : nav c.viewT path = .ok sub) (hk : lookup k sub = some x) :
    c.apply path (.pop k dflt) = withOut (.val x) (c.remove (path.map Prod.fst ++ [k])) := by
  unfold Cfg.apply
  simp only [view_eq hc, hnav, hk]

/-- … `setdefault` of an absent key is a write of the default (`None` when omitted) … -/
theorem setdefault_is_write (c : Cfg) (hc : TypeOK c) (path : List Step) (sub : KVs) (k : Key) (dflt : Option Val)
    (hnav : nav c.viewT path = .ok sub) (hk : lookup k sub = none) :
    c.apply path (.setdefault k dflt) =
      withOut (.val (dflt.getD (.leaf .none))) (c.modify (path.map Prod.fst ++ [k]) (dflt.getD (.leaf .none))) := by
  unfold Cfg.apply
  simp only [view_eq hc, hnav, hk]
  cases dflt <;> rfl

/-- … `popitem` is the deletion of the key it returns (the one the implementation chose) … -/
theorem popitem_is_delete (c : Cfg) (hc : TypeOK c) (path : List Step) (sub : KVs) (chosen : Option Key) (k : Key) (x : Val)
    (hnav : nav c.viewT path = .ok sub) (hk : popKey sub chosen = some k) (hx : lookup k sub = some x) :
    c.apply path (.popitem chosen) = withOut (.pair k x) (c.remove (path.map Prod.fst ++ [k])) := by
  unfold Cfg.apply
  simp only [view_eq hc, hnav]
  cases chosen with
  | some k0 => simp only [popKey, Option.some.injEq] at hk; subst hk; simp only [hx]
  | none => simp only [popKey] at hk; simp only [hk, hx]

/-- … `clear` is the deletion of every key of the section, one after the other … -/
theorem clear_is_deletes (c c' : Cfg) (o : Out) (hc : TypeOK c) (path : List Step) (sub : KVs)
    (hnav : nav c.viewT path = .ok sub) :
    c.apply path .clear = withOut .none (c.removeAll (path.map Prod.fst) (keys sub)) ∧
    (c.apply path .clear = .ok (c', o) →
      jOf c' = journalOf (jOf c) (delEdits (path.map Prod.fst) (keys sub)) ∧ c'.lower = c.lower ∧
        JValid (jOf c) (delEdits (path.map Prod.fst) (keys sub))) := by
  refine ⟨?_, fun h => apply_edits hc path sub .clear hnav trivial h⟩
  unfold Cfg.apply
  simp only [view_eq hc, hnav]

/-- … `update(mapping, **kwargs)` is the writes of the mapping's items followed by the writes of the
    keyword arguments (as the code does since the repair of #20), each a valid write on every base … -/
theorem update_is_writes (c c' : Cfg) (o : Out) (hc : TypeOK c) (path : List Step) (sub : KVs) (pos : Option KVs) (kw : KVs)
    (hnav : nav c.viewT path = .ok sub) (hw : OpWF (.update pos kw)) (h : c.apply path (.update pos kw) = .ok (c', o)) :
    jOf c' = journalOf (jOf c) (setEdits (path.map Prod.fst) (posList pos) ++ setEdits (path.map Prod.fst) kw) ∧
      c'.lower = c.lower ∧
      JValid (jOf c) (setEdits (path.map Prod.fst) (posList pos) ++ setEdits (path.map Prod.fst) kw) :=
  apply_edits hc path sub (.update pos kw) hnav hw h

/-- THE WHOLE OPERATION SET.  Every operation of the property statement — get / set / del by item or
    attribute, `get`, `pop`, `popitem`, `clear`, `setdefault`, `update`, `in`, `len`, iteration, `keys`,
    `items` — through a proxy navigated from the root: when it succeeds it is exactly its list of
    effective edits (`opEdits`; none for reads), and those edits are valid on every base.  `Reach.op`
    therefore lets `reachable_reads_like_dict` range over histories of ALL these operations. -/
theorem every_op_is_its_edits (c c' : Cfg) (o : Out) (hc : TypeOK c) (path : List Step) (sub : KVs) (op : Op)
    (hnav : nav c.viewT path = .ok sub) (hw : OpWF op) (h : c.apply path op = .ok (c', o)) :
    jOf c' = journalOf (jOf c) (opEdits sub (path.map Prod.fst) op) ∧ c'.lower = c.lower ∧
      JValid (jOf c) (opEdits sub (path.map Prod.fst) op) :=
  apply_edits hc path sub op hnav hw h

/-- OUTPUTS.  On a reachable configuration and on the nested dict `replay c.baseT es`, navigation along
    any key path raises the same exception or reaches sections that read identically; a key is present
    in the one iff in the other, and the value read — a leaf or a whole SECTION — agrees at every
    sub-path.  (All read operations and the values returned by `pop` / `popitem` / `setdefault` are
    such lookups in the navigated section.) -/
theorem outputs_agree (c : Cfg) (es : List Edit) (h : Reach c es) (hf : FreshAll c.baseT es) (path : List Step) :
    NavAgree (nav c.viewT path) (nav (replay c.baseT es) path) ∧
    ∀ sub sub', nav c.viewT path = .ok sub → nav (replay c.baseT es) path = .ok sub' →
      ∀ k, (lookup k sub = none ↔ lookup k sub' = none) ∧ ∀ r, nodeO r (lookup k sub) = nodeO r (lookup k sub') := by
  have hx := reachable_reads_like_dict c es h hf
  have hn := nav_congr path hx
  refine ⟨hn, ?_⟩
  intro sub sub' h1 h2 k
  rw [h1, h2] at hn
  exact read_congr hn k

/-- … and reads do not change the configuration. -/
theorem reads_do_not_change (c c' : Cfg) (path : List Step) (k : Key) (o : Out)
    (h : c.apply path (.getItem k) = .ok (c', o) ∨ c.apply path (.getAttr k) = .ok (c', o) ∨
         c.apply path (.get k) = .ok (c', o) ∨ c.apply path (.contains k) = .ok (c', o) ∨
         c.apply path .len = .ok (c', o) ∨ c.apply path .keys = .ok (c', o) ∨ c.apply path .items = .ok (c', o)) :
    c' = c := by
  unfold Cfg.apply at h
  rcases h with h | h | h | h | h | h | h <;>
  · split at h
    · simp at h
    · split at h
      · simp at h
      · simp only [] at h
        first
          | (split at h <;> simp at h <;> exact h.1.symm)
          | (simp at h; exact h.1.symm)

/-! ## no internal error -/

/-- On a type-consistent configuration: a deletion never fails; a reload never fails as long as the
    new level is type-consistent (in particular `obliterate` is total: marks whose keys vanished are
    skipped — divergence #3, fixed); a write through a navigated proxy never hits the `TypeError` of
    the `_modify` walk nor the one of `excise` (#21, fixed) and succeeds as soon as the written value
    is type-consistent.  `KeyError` / `AttributeError` arise only from navigation or from an absent
    key (`nav`, `Cfg.apply`). -/
theorem no_internal_error (c : Cfg) (hc : TypeOK c) :
    (∀ p, c.remove p = .ok { c with dels := markDel c.dels p }) ∧
    (∀ s data, TypeOK (c.set s data) → c.load s data = .ok (c.set s data)) ∧
    (∀ path sub k v, nav c.viewT path = .ok sub →
      TypeOK { c with dels := erasePath c.dels (path.map Prod.fst ++ [k]),
                      mods := setPath c.mods (path.map Prod.fst ++ [k]) v } →
      c.modify (path.map Prod.fst ++ [k]) v =
        .ok { c with dels := erasePath c.dels (path.map Prod.fst ++ [k]),
                     mods := setPath c.mods (path.map Prod.fst ++ [k]) v }) := by
  refine ⟨fun p => remove_ok hc p, ?_, fun path sub k v hnav hc' => modify_ok hc path sub k v hnav hc'⟩
  intro s data h
  unfold Cfg.load
  simp only [view_eq h]

/-- A write through a navigated proxy of a value that has the kind (leaf / section) the lower levels
    have at that key path SUCCEEDS and keeps the configuration type-consistent: together with
    `no_internal_error` type consistency is an invariant of histories, so no later read, write or
    reload fails. -/
theorem navigated_write_succeeds (c : Cfg) (hc : TypeOK c) (path : List Step) (sub : KVs) (k : Key) (v : Val)
    (hv : WFV v) (hnav : nav c.viewT path = .ok sub) (hk : KindOK v c.baseT (path.map Prod.fst ++ [k])) :
    ∃ c', c.modify (path.map Prod.fst ++ [k]) v = .ok c' ∧ TypeOK c' := by
  have hc' := typeOK_modify hc (path.map Prod.fst) k v hv (nav_node path _ _ hnav) hk
  exact ⟨_, modify_ok hc path sub k v hnav hc', hc'⟩

/-! ## held proxy handles: the cached model (`Model/ConfigCache.lean`)

The cached model keeps the merged view as a graph of dict OBJECTS that every `merge()` rebuilds with fresh
addresses; a proxy handle is the address captured at navigation time plus its key path.  It is tied to the
implementation by running the C06 handle histories - stale handles included - through both. -/

open Inv.Cache in
/-- (d) ABSTRACTION.  After `merge()` the cache reachable from the root address reads as `Cfg.view`
    (`Synced`), and so it does after every single-step operation through ANY proxy object: a write
    (`setitem`, `setattr`, `setdefault` of an absent key, each step of `update`), a deletion (`delitem`,
    `delattr`, `pop`, `popitem`, each step of `clear`) not below an already deleted ancestor, a merged
    reload, a new object; reads leave the state alone.  `_partial`: the LOOPS of `clear` / `update` (sequences
    of these steps, `delAllAt` / `setAllAt`) and `load_shell_env` / `clone` (a `rebuild` after the pure
    step, `rebuild_synced`) are not restated here, and `load_*(merge=False)` deliberately leaves the cache
    behind the levels until the next merge. -/
theorem cache_view_eq_pure_view_partial (s s' : CState) (hc : Heap.Closed s.heap) (a : Nat) (pre : List Key) (k : Key) :
    (∀ v, FitsVal v → setAt s a pre k v = .ok s' →
        ∃ c', s.cfg.modify (pre ++ [k]) v = .ok c' ∧ s'.cfg = c' ∧ (FitsView c' → Synced s' ∧ Heap.Closed s'.heap)) ∧
    (leafOnWay s.cfg.dels (pre ++ [k]) = false → delAt s a pre k = .ok s' →
        ∃ c', s.cfg.remove (pre ++ [k]) = .ok c' ∧ s'.cfg = c' ∧ (FitsView c' → Synced s' ∧ Heap.Closed s'.heap)) ∧
    (∀ sl data, loadC s sl data = .ok s' →
        s'.cfg = s.cfg.set sl data ∧ (FitsView (s.cfg.set sl data) → Synced s' ∧ Heap.Closed s'.heap)) ∧
    (∀ c, CState.new c = .ok s' → s'.cfg = c ∧ (FitsView c → Synced s' ∧ Heap.Closed s'.heap)) :=
  ⟨fun _ hv h => setAt_spec hc hv h, fun hne h => delAt_spec hc hne h, fun _ _ h => loadC_spec hc h,
   fun _ h => new_spec h⟩

open Inv.Cache in
/-- materialise a tree as fresh objects, read the object graph back: the tree (the core of (d)) -/
theorem cache_roundtrip (f g : Nat) (h : Heap.Heap) (t : KVs) (hc : Heap.Closed h) (hf : fits f t = true)
    (hg : fits g t = true) : readObj g (matDict f h t).1 (matDict f h t).2 = t :=
  read_mat f g h t hc hf hg

open Inv.Cache in
/-- (a) `_partial` OF DICT-LIKENESS FOR HANDLES, excluding hypothesis named: a handle that is the one
    navigation yields in the CURRENT state (`hold s path = .ok hd`: obtained with no re-merge in between)
    behaves exactly like a proxy freshly navigated from the root - every operation, result and resulting
    state.  (Root navigation is what all other C06 theorems and the pure-model correspondence are about.)
    Without the hypothesis the statement is false: `stale_handle_counterexample`. -/
theorem fresh_handle_is_dict_like (s : CState) (path : List Step) (hd : Handle) (op : Op)
    (h : hold s path = .ok hd) : applyHandle s hd op = applyRoot s path op := by
  unfold hold at h
  unfold applyHandle applyRoot
  split at h
  · simp at h
  · rename_i a ha
    simp only [Except.ok.injEq] at h
    subst h
    simp only [ha]

open Inv.Cache in
/-- (b) AN EDIT THROUGH ANY HANDLE - stale or not (`a` is an arbitrary object address) - whose section still
    exists in the root's view is effective at the root: a leaf written at `pre ++ [k]` reads back from the
    rebuilt cache, a deleted key is absent.  (What the harness demands untagged.) -/
theorem edit_through_handle_reaches_root (s s' : CState) (a : Nat) (pre : List Key) (k : Key)
    (hc : Heap.Closed s.heap) (ht : TypeOK s.cfg) (hsec : node pre s.cfg.viewT = some .sec)
    (hf : FitsView s'.cfg) (ht' : TypeOK s'.cfg) :
    (∀ x, setAt s a pre k (.leaf x) = .ok s' → node (pre ++ [k]) s'.view = some (.leaf x)) ∧
    (delAt s a pre k = .ok s' → node (pre ++ [k]) s'.view = none) := by
  have hb := wf_baseT ht.lower
  have hval := nav_valid pre k s.cfg.baseT s.cfg.mods s.cfg.dels hb ht.mods ht.dels hsec
  constructor
  · intro x h
    obtain ⟨c', hm, hc', hs⟩ := setAt_spec hc (v := .leaf x) trivial h
    obtain ⟨⟨v, hv, hview⟩, _⟩ := hs (by rw [← hc']; exact hf)
    rw [view_eq ht'] at hv
    simp only [Except.ok.injEq] at hv
    rw [hview, ← hv, hc']
    obtain ⟨he, _⟩ := modify_spec hm
    subst he
    have := set_then_get s.cfg.baseT s.cfg.mods s.cfg.dels hb ht.mods ht.dels (pre ++ [k]) (by simp)
      (.leaf x) trivial hval.1 hval.2 trivial []
    simp only [List.append_nil, nodeV] at this
    exact this
  · intro h
    obtain ⟨c', hm, hc', hs⟩ := delAt_spec hc hval.1 h
    obtain ⟨⟨v, hv, hview⟩, _⟩ := hs (by rw [← hc']; exact hf)
    rw [view_eq ht'] at hv
    simp only [Except.ok.injEq] at hv
    rw [hview, ← hv, hc']
    have he := remove_spec hm
    subst he
    have := del_then_absent s.cfg.baseT s.cfg.mods s.cfg.dels hb ht.mods ht.dels (pre ++ [k]) (by simp) []
    simp only [List.append_nil] at this
    exact this

/-- the witness history of known finding `C06-stale-held-handle`, run in the cached model:
    `c = Config(defaults={'a': {'b': 1, 'k': 0}}); h = c.a; c.a.x = 1; c.a.y = 2`, then `'y' in h`,
    `h.setdefault('y', 9)`; reported: (`'y' in h`, what `setdefault` returned, `c.a.y` before it, `c.a.y` after it) -/
def staleHandleWitness : Except CErr (Bool × Out × Option Node × Option Node) :=
  open Inv.Cache in
  match CState.new { defaults := [(['a'], .dict [(['b'], .leaf (.i 1)), (['k'], .leaf (.i 0))])] } with
  | .error e => .error e
  | .ok s0 =>
  match hold s0 [(['a'], false)] with
  | .error e => .error e
  | .ok hd =>
  match applyRoot s0 [(['a'], false)] (.setItem ['x'] (.leaf (.i 1))) with
  | .error e => .error e
  | .ok (s1, _) =>
  match applyRoot s1 [(['a'], false)] (.setItem ['y'] (.leaf (.i 2))) with
  | .error e => .error e
  | .ok (s2, _) =>
  match applyHandle s2 hd (.contains ['y']), applyHandle s2 hd (.setdefault ['y'] (some (.leaf (.i 9)))) with
  | .ok (_, .bool b), .ok (s3, o) => .ok (b, o, node [['a'], ['y']] s2.view, node [['a'], ['y']] s3.view)
  | _, _ => .error (.key "unexpected")

set_option maxRecDepth 4000 in
open Inv.Cache Inv.Heap in
/-- (c) KNOWN FINDING `C06-stale-held-handle`, negation of dict-likeness with a concrete witness: through the
    handle obtained before the two writes `'y' in h` is FALSE although the root reads `a.y == 2` (a held
    nested dict says true), and `h.setdefault('y', 9)` returns 9 and OVERWRITES the root's `a.y` with 9 (a
    held nested dict returns 2 and changes nothing).  The same history is the finding's witness replayed
    on the implementation by the harness. -/
theorem stale_handle_counterexample :
    staleHandleWitness = .ok (false, .val (.leaf (.i 9)), some (.leaf (.i 2)), some (.leaf (.i 9))) := by
  simp [staleHandleWitness, CState.new, rebuild, hold, applyRoot, applyHandle, applyAt, setAt, withOutC, navH, matVal,
    Cfg.view, Cfg.lower, Cfg.modify, mergeLevels, mergeKVs_cons, mergeStep, Except.map,
    Inv.insert, lookup, setPath, subDict, leafOnWay, FUEL, matDict, matEntries, alloc, setD, cellAt,
    lookupH, insertH, readObj, readEntries, CState.view, CState.viewAt, node]

/-! ## known findings #17 / #18: dict-valued writes over a section of a lower level -/

/-- FINDING #17.  `defaults = {a: {b: 1}}`, `cfg['a'] = {'z': 9}`: the configuration still reads
    `a.b == 1`; the nested dict that received the same assignment has no `a.b`. -/
theorem section_write_merges_counterexample :
    let b : KVs := [(['a'], .dict [(['b'], .leaf (.i 1))])]
    let es : List Edit := [.set [['a']] (.dict [(['z'], .leaf (.i 9))])]
    JValid ⟨[], []⟩ es ∧
    node [['a'], ['b']] (viewT b (journalOf ⟨[], []⟩ es).mods (journalOf ⟨[], []⟩ es).dels) = some (.leaf (.i 1)) ∧
    node [['a'], ['b']] (replay b es) = none := by
  refine ⟨⟨by simp, wfB_sound _ (by decide), rfl, rfl, trivial⟩, ?_, ?_⟩
  · simp [journalOf, Edit.toJournal, viewT, setPath, erasePath, mergeT_cons, mergeVal, Inv.insert, lookup, erase, node]
  · simp [replay, Edit.toDict, setPath, Inv.insert, lookup, node]

/-- FINDING #18.  `del cfg['a']; cfg['a'] = {}` resurrects the lower level's `a.b`. -/
theorem section_rewrite_resurrects_counterexample :
    let b : KVs := [(['a'], .dict [(['b'], .leaf (.i 1))])]
    let es : List Edit := [.del [['a']], .set [['a']] (.dict [])]
    JValid ⟨[], []⟩ es ∧
    node [['a'], ['b']] (viewT b (journalOf ⟨[], []⟩ es).mods (journalOf ⟨[], []⟩ es).dels) = some (.leaf (.i 1)) ∧
    node [['a'], ['b']] (replay b es) = none := by
  refine ⟨⟨by simp, by simp, wf_nil, rfl, rfl, trivial⟩, ?_, ?_⟩
  · simp [journalOf, Edit.toJournal, viewT, setPath, erasePath, markDel, mergeT_cons, mergeVal, Inv.insert, lookup, erase, node]
  · simp [replay, Edit.toDict, setPath, erasePath, Inv.insert, lookup, erase, node]

/-! ## non-vacuity: a history with a nested leaf write, a deletion, a dict write at a fresh key -/

/-- `cfg.a.b = 5; del cfg.a.c; cfg['n'] = {'k': 1}; cfg.n.j = 2` over `{a: {b: 1, c: 2}, d: 0}` -/
def c06Edits : List Edit :=
  [.set [['a'], ['b']] (.leaf (.i 5)), .del [['a'], ['c']], .set [['n']] (.dict [(['k'], .leaf (.i 1))]),
   .set [['n'], ['j']] (.leaf (.i 2))]

def c06Base : KVs := [(['a'], .dict [(['b'], .leaf (.i 1)), (['c'], .leaf (.i 2))]), (['d'], .leaf (.i 0))]

example : JValid ⟨[], []⟩ c06Edits := by
  refine ⟨by simp, trivial, rfl, rfl, by simp, by simp, wfB_sound _ (by decide), ?_, ?_, by simp, trivial, ?_, ?_, trivial⟩ <;>
  simp [Edit.toJournal, setPath, erasePath, markDel, subDict, Inv.insert, lookup, erase, leafOnWay]

example : FreshAll c06Base c06Edits := by
  refine ⟨trivial, ?_, trivial, trivial⟩
  simp [Fresh, c06Base, node, lookup]

example : WF c06Base := wfB_sound _ (by decide)

example : node [['a'], ['b']] (replay c06Base c06Edits) = some (.leaf (.i 5)) ∧
    node [['a'], ['c']] (replay c06Base c06Edits) = none ∧
    node [['n'], ['j']] (replay c06Base c06Edits) = some (.leaf (.i 2)) := by
  refine ⟨?_, ?_, ?_⟩ <;>
  simp [replay, c06Edits, c06Base, Edit.toDict, setPath, erasePath, subDict, Inv.insert, lookup, erase, node]

/-- the fuel side conditions of the cached-model theorems are satisfiable (and decidable) -/
example : Cache.fits Cache.FUEL c06Base = true ∧ Cache.FitsVal (.dict [(['k'], .leaf (.i 1))]) ∧ Heap.Closed [] := by
  refine ⟨by decide, (by decide : Cache.fits Cache.FUEL [(['k'], .leaf (.i 1))] = true), ?_⟩
  intro a k b hm; simp [Heap.cellAt] at hm

/-- a reachable configuration: start from `defaults = {a: {b: 1}}`, then `cfg['x'] = 7` at the root -/
example : ∃ c es, Reach c es ∧ es = [.set [['x']] (.leaf (.i 7))] := by
  let c0 : Cfg := { defaults := [(['a'], .dict [(['b'], .leaf (.i 1))])] }
  have h0 : TypeOK c0 := typeOK_simple (wfB_sound _ (by decide)) wf_nil wf_nil (compat_nil_right _)
  have hk : KindOK (.leaf (.i 7)) c0.baseT (([] : List Step).map Prod.fst ++ [['x']]) := by
    simp [KindOK, c0, Cfg.baseT, Cfg.lower, mergeLevelsT, mergeT_cons, mergeVal, Inv.insert, lookup]
  obtain ⟨c', hm, hc'⟩ := navigated_write_succeeds c0 h0 [] c0.viewT ['x'] (.leaf (.i 7)) trivial rfl hk
  exact ⟨c', _, Reach.write [] c0.viewT ['x'] (.leaf (.i 7)) (Reach.init rfl rfl h0) rfl trivial hm hc', rfl⟩

/-- a configuration reached through a whole DataProxy operation (`Reach.op`): `del cfg['a']` -/
example : ∃ c es, Reach c es ∧ es = [.del [['a']]] := by
  let c0 : Cfg := { defaults := [(['a'], .dict [(['b'], .leaf (.i 1))])] }
  have h0 : TypeOK c0 := typeOK_simple (wfB_sound _ (by decide)) wf_nil wf_nil (compat_nil_right _)
  have hv : c0.viewT = [(['a'], .dict [(['b'], .leaf (.i 1))])] := by
    simp [c0, Cfg.viewT, Cfg.baseT, Cfg.lower, viewT, mergeLevelsT, mergeT_cons, mergeVal, Inv.insert, lookup]
  have h1 : TypeOK { c0 with dels := markDel c0.dels [['a']] } :=
    ⟨h0.lower, h0.mods, wf_markDel h0.dels _, h0.chain⟩
  have happ : c0.apply [] (.delItem ['a']) = .ok ({ c0 with dels := markDel c0.dels [['a']] }, .none) := by
    unfold Cfg.apply
    simp only [view_eq h0, nav, hv, lookup, if_true, List.map_nil, List.nil_append, remove_ok h0, withOut]
  exact ⟨_, _, Reach.op [] c0.viewT (.delItem ['a']) .none (Reach.init rfl rfl h0) rfl trivial happ h1, rfl⟩

end Inv
