import Invoke.Lemmas.ParserSituations
import Invoke.Lemmas.ParserSpecs
import Invoke.Lemmas.ParserConverse
import Invoke.Lemmas.ParserCast
import Invoke.Generated.Parser
/-! # C07 — parsing is total, side-effect free and fails only with the documented parse error

Property theorems only; helper lemmas live in `Invoke/Lemmas/Parser{Term,WF,Total,Situations}.lean`.
The model `parseArgv` (`Invoke/Model/Parser.lean`) is a pure function of (specification, argv), so the
"side-effect free / repeatable" half of the property is trivial here (`parse_pure`); on the implementation it
is validated metamorphically by `harness/props/c07.py` (fingerprints of argv / contexts / initial before and
after, repeated parse, a different parse in between).

`specWF` (decidable, `Lemmas/ParserWF.lean`) is the hypothesis "parser built from valid task signatures":
counters have an integer default, list-type arguments hold lists, task contexts are named, the core `help`
argument is not int-typed.  Error kinds of the model: "no-idea" (unknown token), "needed-value" (value flag left
without a value), "missing-positional", "ambiguous" (token after an optional-value flag), and "invalid-value"
(the cast `ValueError` of an int-typed argument, turned into `ParseError` by the fix for DESIGN §4 #6). -/
namespace Inv
open M

/-! ## Termination -/

/-- TERMINATION.  The insert-while-iterating loop of `parse_argv` terminates: with fuel above the token length
    (parseArgv supplies `t.length + 2`) the loop never runs out of fuel, for EVERY machine state and token
    (no well-formedness needed).  Out-of-fuel is `none`, not an error value. -/
theorem no_fuel_exhaustion (n : Nat) (m : M) (t : Tok) (h : t.length < n) : (procTok' n m t).isSome = true :=
  procTok'_isSome n m t h

/-- the executable `procTok` of the model computes exactly what the `Option`-fuel version answers -/
theorem procTok_agrees (m : M) (t : Tok) :
    ∃ r, procTok' (t.length + 2) m t = some r ∧ procTok (t.length + 2) m t = r := by
  have h := no_fuel_exhaustion (t.length + 2) m t (by omega)
  cases hr : procTok' (t.length + 2) m t with
  | none => simp [hr] at h
  | some r => exact ⟨r, rfl, procTok_eq _ m t r hr⟩

/-- every token the loop inserts is strictly shorter than the token it was split from (the measure) -/
theorem inserted_tokens_shorter (m : M) (orig : Tok) (p : Tok × List Tok) (h : presplit m orig = .ok p) :
    ∀ t ∈ (rollback m orig p).2, t.length < orig.length :=
  fun t ht => presplit_pieces_shorter m orig p h t (rollback_pieces m orig p t ht)

/-! ## Totality: a result or the documented parse error, nothing else -/

/-- TOTALITY.  For every well-formed parser specification (with or without an initial context, any
    `ignore_unknown`) and EVERY token list, parsing returns a result or raises a `ParseError`. -/
theorem parse_total (initial : Option Ctx) (registry : List Ctx) (ign : Bool) (argv : List Tok)
    (hP : specWF initial registry = true) :
    (∃ r, parseArgv initial registry ign argv = .ok r) ∨ (∃ k d, parseArgv initial registry ign argv = .error (.parse k d)) := by
  rcases parseArgv_res initial registry ign argv hP with h | ⟨k, d, h, _⟩
  · exact Or.inl h
  · exact Or.inr ⟨k, d, h⟩

/-- ONLY THE DOCUMENTED ERROR.  Whatever error comes out is a `ParseError` of one of the documented kinds;
    in particular never `ValueError`/`KeyError`/`AttributeError`/`TypeError` (the `Err.other` sites of the model)
    and never fuel exhaustion. -/
theorem error_only_documented (initial : Option Ctx) (registry : List Ctx) (ign : Bool) (argv : List Tok)
    (hP : specWF initial registry = true) (e : Err) (he : parseArgv initial registry ign argv = .error e) :
    ∃ k d, e = .parse k d ∧ k ∈ ["no-idea", "needed-value", "missing-positional", "ambiguous", "invalid-value"] := by
  rcases parseArgv_res initial registry ign argv hP with ⟨r, h⟩ | ⟨k, d, h, hk⟩
  · rw [h] at he; cases he
  · rw [h] at he; cases he; exact ⟨k, d, rfl, hk⟩

/-- in particular the model never takes its out-of-fuel exit -/
theorem parse_never_out_of_fuel (initial : Option Ctx) (registry : List Ctx) (ign : Bool) (argv : List Tok)
    (hP : specWF initial registry = true) : parseArgv initial registry ign argv ≠ .error .fuel := by
  intro h
  obtain ⟨k, d, he, _⟩ := error_only_documented initial registry ign argv hP _ h
  cases he

/-- WF IS WHAT TASK SIGNATURES GIVE.  A registry whose contexts are built by `add_arg` (`Ctx.ofSpecs`) from named
    tasks whose argument specs are well-formed (`ArgSpec.wf`: a counter has an integer default; kinds are those of the
    model) satisfies `specWF` — so `parse_total` applies to every parser built from such signatures. -/
theorem specWF_of_built (reg : List Ctx)
    (h : ∀ c ∈ reg, ∃ name aliases sps, (∀ sp ∈ sps, ArgSpec.wf sp = true) ∧ Ctx.ofSpecs (some name) aliases sps = .ok c) :
    specWF none reg = true := by
  simp only [specWF, optOkI, Bool.true_and]
  apply List.all_eq_true.mpr
  intro c hc
  obtain ⟨name, aliases, sps, hw, hb⟩ := h c hc
  exact Ctx.ofSpecs_okR name aliases sps c hw hb

/-- one step of the machine keeps the invariant or fails with a documented `ParseError` (the induction step) -/
theorem handle_total (m : M) (tok : Tok) (h : MInv m) :
    (∃ m', handle m tok = .ok m' ∧ MInv m') ∨ (∃ k d, handle m tok = .error (.parse k d) ∧ k ∈ docKinds) :=
  handle_res m tok h

/-- the `else` branch of `see_value` ("Flag doesn't take any value") is dead code: `handle` calls
    `see_value` only while waiting for a value, and then the current flag takes one -/
theorem see_value_else_unreachable (m : M) (v d : Tok) (hw : m.waiting = true) :
    seeValue m v ≠ .error (.parse "takes-no-value" d) := by
  obtain ⟨a, hfa, ht⟩ := waiting_spec m hw
  unfold M.seeValue
  rcases checkAmbiguity_res m v with h0 | h0
  · simp only [h0, bind, Except.bind, hfa, ht, if_true]
    cases hs : a.setValue (.s v) with
    | ok a' => intro h; cases h
    | error e =>
      obtain ⟨c, s, rfl⟩ := Arg.setValue_err_other a (.s v) true e hs
      split <;> (intro h; simp at h) <;> simp_all
  · simp only [h0, bind, Except.bind]; intro h; simp at h

/-- PURITY (model).  `parseArgv` is a function: the same specification and token list give the same answer,
    whatever was parsed before.  (Trivial in the model; validated on the implementation by the harness.) -/
theorem parse_pure (initial : Option Ctx) (registry : List Ctx) (ign : Bool) (argv argv' : List Tok) (h : argv = argv') :
    parseArgv initial registry ign argv = parseArgv initial registry ign argv' := by rw [h]

/-! ## It raises exactly in the documented situations -/

/-- (a) UNKNOWN TOKEN.  A first token that is not flag-like, not a flag or inverse flag of the core context and not a
    task name or alias is refused with "No idea what … is" — whatever follows. -/
theorem error_unknown_first_token (initial : Option Ctx) (registry : List Ctx) (t : Tok) (rest : List Tok)
    (hnf : isFlag t = false)
    (hi : ∀ ic, initial = some ic → assoc? t ic.flags = none ∧ assoc? t ic.inverse = none ∧ ic.missingPositional = [])
    (hr : registry.find? (fun c => c.name = some t || c.aliases.contains t) = none) :
    parseArgv initial registry false (t :: rest) = .error (.parse "no-idea" t) :=
  unknown_first_token initial registry t rest hnf hi hr

/-- (b) VALUE FLAG LEFT WITHOUT A VALUE.  If, when the tokens before `--` are used up, the current flag takes a value,
    has received none and its value is not optional, the parse fails with "needed value". -/
theorem error_value_flag_last (initial : Option Ctx) (registry : List Ctx) (ign : Bool) (argv : List Tok) (m : M) (a : Arg)
    (hrun : runBody initial registry ign (bodyOf argv) = .ok m)
    (hfa : m.flagArg = some a) (ht : a.takesValue = true) (hr : a.raw = none) (ho : a.spec.optional = false) :
    parseArgv initial registry ign argv = .error (.parse "needed-value" (a.spec.names.headD [])) :=
  parseArgv_finish initial registry ign argv m _ hrun (finish_needed_value m a hfa ht hr ho)

/-- (c) MISSING POSITIONALS.  If the command line ends while the current context still lacks positional arguments
    (and no flag is pending), the parse fails with "did not receive required positional arguments". -/
theorem error_missing_positionals (initial : Option Ctx) (registry : List Ctx) (ign : Bool) (argv : List Tok) (m : M) (c : Ctx)
    (hrun : runBody initial registry ign (bodyOf argv) = .ok m)
    (hfa : m.flagArg = none) (hc : m.ctx = some c) (hm : c.missingPositional ≠ []) :
    parseArgv initial registry ign argv = .error (.parse "missing-positional" (c.name.getD [])) :=
  parseArgv_finish initial registry ign argv m _ hrun (finish_missing_positional m c hfa hc hm)

/-- (d) AMBIGUITY AFTER AN OPTIONAL-VALUE FLAG.  While an optional-value flag has not received a value, a token that is
    not a flag of the context — nor, inside a task, a core flag (`hncf`) — is refused as ambiguous when it names a task or
    when positionals are still unfilled. -/
theorem error_ambiguous_after_optional (m : M) (c : Ctx) (a : Arg) (tok : Tok) (hst : m.st ≠ .unknown) (hc : m.ctx = some c)
    (hf : assoc? tok c.flags = none) (hi : assoc? tok c.inverse = none) (hncf : m.coreFlagInTask tok = false)
    (hfa : m.flagArg = some a) (ht : a.takesValue = true) (ho : a.spec.optional = true) (hr : a.raw = none)
    (hamb : c.missingPositional ≠ [] ∨ (m.lookupCtx tok).isSome = true) :
    handle m tok = .error (.parse "ambiguous" tok) :=
  handle_ambiguous m c a tok hst hc hf hi hncf hfa ht ho hr hamb

/-! ## … and ONLY in the documented situations (converse direction of `error_iff_situation`)

`Reach m0 m`: `m` is one of the machine states the parse loop goes through (start machine, its state entry, every
`handle` step); `ReachEnd` adds the machine at `finish`.  The situations are predicates on the machine at the moment
of the failing step: `SitNoIdea` (unknown token), `SitNeeded` (value flag pending without a value), `SitMissing`
(current context lacks positionals when a state is entered: end of input, task switch, unknown token),
`SitAmbig` (optional-value flag pending and the token could be a positional value or a task name), `SitInvalid`
(non-integer for an int-typed argument; the fifth kind, from the fix for DESIGN §4 #6). -/

/-- ERROR ⇒ SITUATION (all kinds at once).  For a well-formed specification, a `ParseError` of kind `k` is raised by a
    reachable machine state in which the situation of kind `k` holds: at a token (`handle` fails there) or at a state
    entry (start / end of the command line). -/
theorem error_implies_situation (initial : Option Ctx) (registry : List Ctx) (ign : Bool) (argv : List Tok) (k : String) (d : Tok)
    (hP : specWF initial registry = true) (h : parseArgv initial registry ign argv = .error (.parse k d)) :
    (∃ m tok, Reach { initial := initial, cur := none, registry := registry, ignoreUnknown := ign } m ∧
        handle m tok = .error (.parse k d) ∧ StepSituation m tok k d) ∨
    (∃ m, ReachEnd { initial := initial, cur := none, registry := registry, ignoreUnknown := ign } m ∧
        enter m = .error (.parse k d) ∧
        ((k = "needed-value" ∧ SitNeeded m d) ∨ (k = "missing-positional" ∧ SitMissing m d))) :=
  parse_error_situation initial registry ign argv k d hP h

/-- (c⁻¹) "did not receive required positional arguments" ⇒ at the end of input, at a task switch or when an unknown token
    was about to be stored, the current context had unfilled positionals (`d` is its name) -/
theorem error_missing_positionals_converse (initial : Option Ctx) (registry : List Ctx) (ign : Bool) (argv : List Tok) (d : Tok)
    (hP : specWF initial registry = true)
    (h : parseArgv initial registry ign argv = .error (.parse "missing-positional" d)) :
    ∃ m, ReachEnd { initial := initial, cur := none, registry := registry, ignoreUnknown := ign } m ∧ SitMissing m d := by
  rcases parse_error_situation initial registry ign argv _ d hP h with ⟨m, tok, hr, _, hs⟩ | ⟨m, hr, _, hs⟩
  · rcases hs with ⟨hk, _⟩ | ⟨hk, _⟩ | ⟨_, hs⟩ | ⟨hk, _⟩ | ⟨hk, _⟩
    · exact absurd hk (by decide)
    · exact absurd hk (by decide)
    · exact ⟨m, Or.inl hr, hs⟩
    · exact absurd hk (by decide)
    · exact absurd hk (by decide)
  · rcases hs with ⟨hk, _⟩ | ⟨_, hs⟩
    · exact absurd hk (by decide)
    · exact ⟨m, hr, hs⟩

/-- (b⁻¹) "needed value and was not given one" ⇒ a value-requiring, non-optional flag was pending without a value when the
    next flag / task name / unknown token arrived or the command line ended (`d` is the flag's name) -/
theorem error_needed_value_converse (initial : Option Ctx) (registry : List Ctx) (ign : Bool) (argv : List Tok) (d : Tok)
    (hP : specWF initial registry = true)
    (h : parseArgv initial registry ign argv = .error (.parse "needed-value" d)) :
    ∃ m, ReachEnd { initial := initial, cur := none, registry := registry, ignoreUnknown := ign } m ∧ SitNeeded m d := by
  rcases parse_error_situation initial registry ign argv _ d hP h with ⟨m, tok, hr, _, hs⟩ | ⟨m, hr, _, hs⟩
  · rcases hs with ⟨hk, _⟩ | ⟨_, hs⟩ | ⟨hk, _⟩ | ⟨hk, _⟩ | ⟨hk, _⟩
    · exact absurd hk (by decide)
    · exact ⟨m, Or.inl hr, hs⟩
    · exact absurd hk (by decide)
    · exact absurd hk (by decide)
    · exact absurd hk (by decide)
  · rcases hs with ⟨_, hs⟩ | ⟨hk, _⟩
    · exact ⟨m, hr, hs⟩
    · exact absurd hk (by decide)

/-- (d⁻¹) "is ambiguous when given after an optional-value flag" ⇒ the token `d` arrived while an optional-value flag had no
    value yet, and `d` names a task or the context still lacks positionals -/
theorem error_ambiguous_converse (initial : Option Ctx) (registry : List Ctx) (ign : Bool) (argv : List Tok) (d : Tok)
    (hP : specWF initial registry = true)
    (h : parseArgv initial registry ign argv = .error (.parse "ambiguous" d)) :
    ∃ m, Reach { initial := initial, cur := none, registry := registry, ignoreUnknown := ign } m ∧ SitAmbig m d := by
  rcases parse_error_situation initial registry ign argv _ d hP h with ⟨m, tok, hr, _, hs⟩ | ⟨m, hr, _, hs⟩
  · rcases hs with ⟨hk, _⟩ | ⟨hk, _⟩ | ⟨hk, _⟩ | ⟨_, hd, hs⟩ | ⟨hk, _⟩
    · exact absurd hk (by decide)
    · exact absurd hk (by decide)
    · exact absurd hk (by decide)
    · subst hd; exact ⟨m, hr, hs⟩
    · exact absurd hk (by decide)
  · rcases hs with ⟨hk, _⟩ | ⟨hk, _⟩ <;> exact absurd hk (by decide)

/-- (a⁻¹) "No idea what … is" ⇒ the token `d` was not a flag of the current context, no value was awaited, no positional slot
    was open, it names no task and is no core flag (and unknown tokens are not being collected) -/
theorem error_unknown_token_converse (initial : Option Ctx) (registry : List Ctx) (ign : Bool) (argv : List Tok) (d : Tok)
    (hP : specWF initial registry = true)
    (h : parseArgv initial registry ign argv = .error (.parse "no-idea" d)) :
    ∃ m, Reach { initial := initial, cur := none, registry := registry, ignoreUnknown := ign } m ∧ SitNoIdea m d := by
  rcases parse_error_situation initial registry ign argv _ d hP h with ⟨m, tok, hr, _, hs⟩ | ⟨m, hr, _, hs⟩
  · rcases hs with ⟨_, hd, hs⟩ | ⟨hk, _⟩ | ⟨hk, _⟩ | ⟨hk, _⟩ | ⟨hk, _⟩
    · subst hd; exact ⟨m, hr, hs⟩
    · exact absurd hk (by decide)
    · exact absurd hk (by decide)
    · exact absurd hk (by decide)
    · exact absurd hk (by decide)
  · rcases hs with ⟨hk, _⟩ | ⟨hk, _⟩ <;> exact absurd hk (by decide)

/-- (fifth kind) "got invalid value" ⇒ the token `d` is not an integer and was due to an int-typed argument -/
theorem error_invalid_value_converse (initial : Option Ctx) (registry : List Ctx) (ign : Bool) (argv : List Tok) (d : Tok)
    (hP : specWF initial registry = true)
    (h : parseArgv initial registry ign argv = .error (.parse "invalid-value" d)) :
    ∃ m, Reach { initial := initial, cur := none, registry := registry, ignoreUnknown := ign } m ∧ SitInvalid m d := by
  rcases parse_error_situation initial registry ign argv _ d hP h with ⟨m, tok, hr, _, hs⟩ | ⟨m, hr, _, hs⟩
  · rcases hs with ⟨hk, _⟩ | ⟨hk, _⟩ | ⟨hk, _⟩ | ⟨hk, _⟩ | ⟨_, hd, hs⟩
    · exact absurd hk (by decide)
    · exact absurd hk (by decide)
    · exact absurd hk (by decide)
    · exact absurd hk (by decide)
    · subst hd; exact ⟨m, hr, hs⟩
  · rcases hs with ⟨hk, _⟩ | ⟨hk, _⟩ <;> exact absurd hk (by decide)

/-! ## Non-vacuity and the situations on a concrete parser (evaluated by the kernel) -/

def exCtx (name : Option Tok) (aliases : List Tok) (specs : List ArgSpec) : Ctx :=
  match Ctx.ofSpecs name aliases specs with | .ok c => c | .error _ => Ctx.empty name aliases

/-- core: `--help -h` (optional value), `--echo -e` (bool), `--command-timeout -T` (int) -/
def exCore : Ctx := exCtx none []
  [{ names := ["help".toList, "h".toList], optional := true },
   { names := ["echo".toList, "e".toList], kind := .bool, default := .b false },
   { names := ["command-timeout".toList, "T".toList], kind := .int }]

/-- `def t(c, pos, name="n", flag=False, opt=None [optional], lst=[] [iterable], v=0 [incrementable])`, `def u(c)` -/
def exReg : List Ctx :=
  [exCtx (some "t".toList) ["tt".toList]
     [{ names := ["pos".toList], positional := true },
      { names := ["name".toList, "n".toList], default := .s "n".toList },
      { names := ["flag".toList, "f".toList], kind := .bool, default := .b false },
      { names := ["opt".toList, "o".toList], optional := true },
      { names := ["lst".toList, "l".toList], kind := .list, default := .l [] },
      { names := ["v".toList], kind := .int, default := .i 0, incrementable := true }],
   exCtx (some "u".toList) [] [{ names := ["x".toList], default := .s [] }]]

def exArgv (ws : List String) : List Tok := ws.map String.toList

def errKind : Except Err PResult → Option String
  | .error (.parse k _) => some k
  | .error (.other c _) => some ("OTHER:" ++ c)
  | .error .fuel => some "FUEL"
  | .ok _ => none

/-- `specWF_of_built` applies to the example registry: every spec is well-formed -/
example : ∀ sp ∈ [({ names := ["v".toList], kind := .int, default := .i 0, incrementable := true } : ArgSpec),
                  { names := ["lst".toList], kind := .list, default := .l [] }], ArgSpec.wf sp = true := by decide
/-- the hypothesis of the totality theorems is satisfiable: this specification is well-formed … -/
example : specWF (some exCore) exReg = true := by decide
/-- … and so is a parser without an initial context -/
example : specWF none exReg = true := by decide
/-- a valid invocation parses (the theorems are not about a parser that always fails) -/
example : errKind (parseArgv (some exCore) exReg false (exArgv ["-e", "t", "val", "--name", "x", "-f", "u"])) = none := by decide
/-- (a) unknown first token -/
example : errKind (parseArgv (some exCore) exReg false (exArgv ["nope", "t", "val"])) = some "no-idea" := by decide
/-- (b) value flag as last token; also a list-type flag (fix for DESIGN §4 #8) -/
example : errKind (parseArgv (some exCore) exReg false (exArgv ["t", "val", "--name"])) = some "needed-value" := by decide
example : errKind (parseArgv (some exCore) exReg false (exArgv ["t", "val", "--lst"])) = some "needed-value" := by decide
/-- (c) task with unfilled positionals -/
example : errKind (parseArgv (some exCore) exReg false (exArgv ["t", "-f"])) = some "missing-positional" := by decide
/-- (d) bare optional-value flag followed by a task name -/
example : errKind (parseArgv (some exCore) exReg false (exArgv ["t", "val", "--opt", "u"])) = some "ambiguous" := by decide
/-- cast failure is a ParseError (fix for DESIGN §4 #6), without an initial context nothing but ParseError either (#7) -/
example : errKind (parseArgv (some exCore) exReg false (exArgv ["-T", "abc"])) = some "invalid-value" := by decide
example : errKind (parseArgv none exReg false (exArgv ["-ab"])) = some "no-idea" := by decide
/-- hypotheses of (a) on the concrete parser -/
example : isFlag "nope".toList = false ∧ assoc? "nope".toList exCore.flags = none ∧ assoc? "nope".toList exCore.inverse = none ∧
    exCore.missingPositional = [] ∧
    exReg.find? (fun c => c.name = some "nope".toList || c.aliases.contains "nope".toList) = none := by decide
/-- hypotheses of (b): after `t val --name` the machine has a pending non-optional value flag without a value -/
def pendingNeedsValue : Except Err M → Bool
  | .ok m => (match m.flagArg with | some a => a.takesValue && a.raw.isNone && !a.spec.optional | none => false)
  | .error _ => false
example : pendingNeedsValue (runBody (some exCore) exReg false (bodyOf (exArgv ["t", "val", "--name"]))) = true := by decide
/-- hypotheses of (c): after `t` no flag is pending and the context lacks its positional -/
def lacksPositional : Except Err M → Bool
  | .ok m => m.flagArg.isNone && (match m.ctx with | some c => !c.missingPositional.isEmpty | none => false)
  | .error _ => false
example : lacksPositional (runBody (some exCore) exReg false (bodyOf (exArgv ["t"]))) = true := by decide
/-- hypotheses of (d): after `t val --opt` an optional-value flag is pending, and `u` names a task -/
def pendingOptional (tok : Tok) : Except Err M → Bool
  | .ok m => (match m.flagArg, m.ctx with
      | some a, some c => a.takesValue && a.spec.optional && a.raw.isNone && (assoc? tok c.flags).isNone &&
          (assoc? tok c.inverse).isNone && (m.lookupCtx tok).isSome && !(m.st = .unknown)
      | _, _ => false)
  | .error _ => false
example : pendingOptional "u".toList (runBody (some exCore) exReg false (bodyOf (exArgv ["t", "val", "--opt"]))) = true := by decide
def errOf : Except Err PResult → Option Err | .error e => some e | .ok _ => none
theorem eq_error_of_errOf {r : Except Err PResult} {e : Err} (h : errOf r = some e) : r = .error e := by
  cases r with
  | error e' => simp [errOf] at h; rw [h]
  | ok x => simp [errOf] at h

/-- the converse theorems applied to concrete failing parses (their hypotheses are satisfiable) -/
example : ∃ m, ReachEnd { initial := some exCore, cur := none, registry := exReg, ignoreUnknown := false } m ∧ SitMissing m "t".toList :=
  error_missing_positionals_converse (some exCore) exReg false (exArgv ["t", "-f"]) _ (by decide) (eq_error_of_errOf (by decide))
example : ∃ m, ReachEnd { initial := some exCore, cur := none, registry := exReg, ignoreUnknown := false } m ∧ SitNeeded m "name".toList :=
  error_needed_value_converse (some exCore) exReg false (exArgv ["t", "val", "--name"]) _ (by decide) (eq_error_of_errOf (by decide))
example : ∃ m, Reach { initial := some exCore, cur := none, registry := exReg, ignoreUnknown := false } m ∧ SitAmbig m "u".toList :=
  error_ambiguous_converse (some exCore) exReg false (exArgv ["t", "val", "--opt", "u"]) _ (by decide) (eq_error_of_errOf (by decide))
example : ∃ m, Reach { initial := some exCore, cur := none, registry := exReg, ignoreUnknown := false } m ∧ SitNoIdea m "nope".toList :=
  error_unknown_token_converse (some exCore) exReg false (exArgv ["nope", "t", "val"]) _ (by decide) (eq_error_of_errOf (by decide))
example : ∃ m, Reach { initial := some exCore, cur := none, registry := exReg, ignoreUnknown := false } m ∧ SitInvalid m "abc".toList :=
  error_invalid_value_converse (some exCore) exReg false (exArgv ["-T", "abc"]) _ (by decide) (eq_error_of_errOf (by decide))
/-- no fuel exhaustion on a token that is split into many pieces -/
example : (procTok' 9 { initial := some exCore, cur := none, registry := exReg, ignoreUnknown := false } "-eeeeee".toList).isSome = true :=
  no_fuel_exhaustion 9 _ _ (by decide)

/-! ## The integer cast (`kind = int`): the ASCII part of Python's `int(text)`

`pyInt?` models `int(str)` for ASCII text: surrounding ASCII whitespace (space, \t, \n, \r, \x0b, \x0c) is stripped, an
optional sign stands directly before the digits, leading zeros are allowed (`08`, `007`), single underscores may separate
digits (`1_000`), nothing else (no `0x`/`0o`/`0b` literals: that would be `int(text, 0)`).  NOT modelled, judged by the
harness oracle (`int()` itself) only: non-ASCII decimal digits and non-ASCII whitespace, which `int()` also accepts.
A text `pyInt?` rejects makes the parse fail with the "invalid-value" `ParseError` (`error_invalid_value_converse`). -/

/-- plain decimals WITH leading zeros are integers -/
theorem cast_int_leading_zeros (ds : List Char) (hne : ds ≠ []) (h : ds.all Char.isDigit = true) :
    pyInt? ds = some (Int.ofNat (digitsToNat ds)) := pyInt?_decimal ds hne h

/-- leading ASCII whitespace does not matter -/
theorem cast_int_leading_space (c : Char) (s : Tok) (hc : isPySpace c = true) : pyInt? (c :: s) = pyInt? s :=
  pyInt?_leading_space c s hc

/-- the cast on the value shapes the harness generates (each line agrees with CPython's `int()`) -/
theorem cast_int_table :
    ["0", "7", "00", "08", "007", "010", "-09", "+010", "-0", "1_000", " 7", "7 ", "7\n", "\t7", "99999999999999999999"].map
        (fun s => pyInt? s.toList) =
      [some 0, some 7, some 0, some 8, some 7, some 10, some (-9), some 10, some 0, some 1000, some 7, some 7, some 7, some 7,
       some 99999999999999999999] ∧
    ["0x1f", "0X1F", "0o17", "0b101", "_1", "1_", "1__0", "+ 7", "", "+", "-", "7 7", "1e3", "1.0", "7\x1c"].all
        (fun s => (pyInt? s.toList).isNone) = true := by decide

/-- non-vacuity of `cast_int_leading_zeros` -/
example : "007".toList ≠ [] ∧ "007".toList.all Char.isDigit = true := by decide
/-- a zero-padded decimal for an int flag parses (and an `0x` literal is the documented cast failure) -/
example : errKind (parseArgv (some exCore) exReg false (exArgv ["-T", "08"])) = none ∧
          errKind (parseArgv (some exCore) exReg false (exArgv ["-T=0x1f"])) = some "invalid-value" := by decide

/-! ## The pre-fix behaviour (DESIGN §4 #6) as a statement about a non-well-formed argument state:
    outside `specWF` the model does reach a non-ParseError exit, so the hypothesis is not redundant. -/
theorem not_wf_counterexample :
    let bad : Ctx := exCtx (some "t".toList) [] [{ names := ["v".toList], kind := .str, default := .s "x".toList, incrementable := true }]
    specWF none [bad] = false ∧
    errKind (parseArgv none [bad] false (exArgv ["t", "-v"])) = some "OTHER:TypeError" := by decide

/-! ## Tables regenerated from the repository on every run (`Invoke/Generated/Parser.lean`) -/

/-- the model runs `complete_flag ; complete_context` (`M.enter`) on entering EVERY state and has no exit actions -/
theorem machine_states_table :
    Generated.machineInitial = "context" ∧
    Generated.machineStates =
      [("context", ["complete_flag", "complete_context"], []),
       ("unknown", ["complete_flag", "complete_context"], []),
       ("end", ["complete_flag", "complete_context"], [])] := by decide

/-- the transitions the model implements (`finish`, `switchToContext`, `seeUnknown`), unguarded -/
theorem machine_transitions_table :
    Generated.machineTransitions =
      [("finish", ["context", "unknown"], "end", [], []),
       ("see_context", ["context"], "context", ["switch_to_context"], []),
       ("see_unknown", ["context", "unknown"], "unknown", ["store_only"], [])] := by decide

/-- the branch order of `M.handle`, observed on the real `Parser.parse_argv` by probing -/
theorem handle_dispatch_table :
    Generated.handleDispatch = ["flag", "inverse", "value", "positional", "context", "coreflag", "unknown"] ∧
    ("coreflag", "positional") ∈ Generated.handleFacts ∧ ("flag", "coreflag") ∈ Generated.handleFacts := by decide

end Inv
