import Invoke.Lemmas.ParserTerm
import Invoke.Lemmas.ParserWF
import Invoke.Generated.Parser
/-! # C07 — parsing is total, side-effect free and fails only with the documented parse error (WORK IN PROGRESS stub) -/
namespace Inv

/-- the insert-while-iterating loop of `parse_argv` terminates: with the fuel `parseArgv` supplies
    (`t.length + 2`) the loop never runs out of fuel, whatever the machine state and the token -/
theorem no_fuel_exhaustion (n : Nat) (m : M) (t : Tok) (h : t.length < n) : (procTok' n m t).isSome = true :=
  procTok'_isSome n m t h

end Inv
