import Invoke.Lemmas.RunnerTerm
import Invoke.Lemmas.RunnerFair
import Invoke.Lemmas.RunnerTimer
import Invoke.Lemmas.Terminal
/-! # C08 — command execution always terminates, leaving no threads or timers behind

On the runner transition system (`Model/RunnerIO.lean`; main thread, two readers, stdin handler,
timer; tied to the real threads by the gate-scheduled correspondence runs).  The real threads
*poll* (`wait`, `handle_stdin`), so an unfair scheduler can starve a worker forever: termination
is a statement about FAIR schedules.  It is stated over **rounds** — finite lists of thread steps
in which every thread occurs at least once (the timer need not) — which keeps everything finitary
and yields an explicit bound `mu s` on the number of rounds.  The environment assumption is
`EnvDone`: the process has ended (exit, kill, or interrupt followed by exit) and every holder of
the pipes' write ends has closed them.  Helper lemmas: `Lemmas/RunnerTerm.lean`.

What the model cannot exhibit and is measured on real runs instead (harness/props/c08.py): file
descriptors, zombies, GC-driven release of pipe objects, real termios state. -/
namespace Inv

/-- no thread step ever increases the measure -/
theorem measure_nonincreasing (s : S) (a : Actor) (h : Good s) : mu (step s a) ≤ mu s :=
  step_mu_le s a h.env h.wf

/-- as long as the run is not over, some thread has a productive step -/
theorem progress_exists (s : S) (h : Good s) (hn : ¬ Terminal s) :
    ∃ a, a ≠ .timer ∧ En s a = true ∧ mu (step s a) < mu s := by
  obtain ⟨a, ha⟩ := progress s h.wf hn
  refine ⟨a, ?_, ha, step_mu_lt s a h.env h.wf ha⟩
  intro e; subst e; simp [En] at ha

/-- a productive step stays available while other threads move -/
theorem progress_stable (s : S) (a b : Actor) (he : En s a = true) (hab : b ≠ a) : En (step s b) a = true :=
  en_stable s a b he hab

/-- every fair round strictly decreases the measure until the run is over -/
theorem fair_round_decreases (s : S) (r : List Actor) (h : Good s) (hn : ¬ Terminal s) (hc : Covers r) :
    mu (runRound s r) < mu s := round_decreases s r h hn hc

/-- HEADLINE: once the process has come to an end, ANY sequence of more than `mu s` fair rounds —
    whatever the order of the thread steps inside each round — ends with `run` returned/raised,
    both readers finished and the stdin handler finished. -/
theorem rounds_terminate (s : S) (rs : List (List Actor)) (h : Good s) (hc : ∀ r ∈ rs, Covers r)
    (hl : mu s < rs.length) : Terminal (rs.foldl runRound s) := by
  rcases rounds_bound rs s h hc with h1 | h1
  · exact h1
  · omega

/-- INFINITE-SCHEDULE FORM (corollary): along ANY infinite schedule of thread steps that is fair -
    every thread of the runner is scheduled again and again; nothing is assumed about the order or
    about the timer - a state in which the process has ended reaches the terminal state after
    finitely many steps. -/
theorem fair_termination (σ : Sched) (hf : Fair σ) (s : S) (h : Good s) :
    ∃ k, Terminal (runRound s (seg σ 0 k)) :=
  fair_terminates_aux σ hf (mu s) s 0 (Nat.le_refl _) h

/-- round-robin is fair -/
example : Fair (fun i => match i % 4 with | 0 => Actor.main | 1 => .out | 2 => .err | _ => .stdin) := by
  intro a ha n
  cases a with
  | timer => exact absurd rfl ha
  | main => exact ⟨4 * n, by omega, by simp [Nat.mul_mod_right]⟩
  | out => exact ⟨4 * n + 1, by omega, by simp [Nat.add_mod, Nat.mul_mod_right]⟩
  | err => exact ⟨4 * n + 2, by omega, by simp [Nat.add_mod, Nat.mul_mod_right]⟩
  | stdin => exact ⟨4 * n + 3, by omega, by simp [Nat.add_mod, Nat.mul_mod_right]⟩

/-- the bound is explicit: bytes still in the pipes, input items still to forward, and the main
    thread's remaining program points -/
theorem rounds_needed_bound (s : S) : mu s = muM s + muO s + muE s + muI s := rfl

/-- the hypotheses of `rounds_terminate` hold in every state reachable by ANY schedule from ANY
    initial configuration (with a positive read size) as soon as the process has exited and the
    pipes are closed -/
theorem reachable_good (hi ht w p e : Bool) (o er : List Chunk) (ins : List InItem) (ho sf : Bool)
    (n : Nat) (asy : Bool) (hn : 0 < n) (evs : List Ev)
    (hx : (run (S.init hi ht w p e o er ins ho sf n asy) evs).exited = true)
    (h1 : (run (S.init hi ht w p e o er ins ho sf n asy) evs).out.isOpen = false)
    (h2 : (run (S.init hi ht w p e o er ins ho sf n asy) evs).err.isOpen = false) :
    Good (run (S.init hi ht w p e o er ins ho sf n asy) evs) := by
  refine ⟨⟨hx, h1, h2, ?_⟩, termWF_run _ evs (termWF_init hi ht w p e o er ins ho sf n asy)⟩
  have := opts_run (S.init hi ht w p e o er ins ho sf n asy) evs
  simp only [S.opts, Prod.mk.injEq] at this
  rw [this.2.2.2.2.2.2.2]; simpa [S.init] using hn

/-- termination from reachable states: the two previous theorems composed -/
theorem reachable_terminates (hi ht w p e : Bool) (o er : List Chunk) (ins : List InItem) (ho sf : Bool)
    (n : Nat) (asy : Bool) (hn : 0 < n) (evs : List Ev) (rs : List (List Actor))
    (hx : (run (S.init hi ht w p e o er ins ho sf n asy) evs).exited = true)
    (h1 : (run (S.init hi ht w p e o er ins ho sf n asy) evs).out.isOpen = false)
    (h2 : (run (S.init hi ht w p e o er ins ho sf n asy) evs).err.isOpen = false)
    (hc : ∀ r ∈ rs, Covers r) (hl : mu (run (S.init hi ht w p e o er ins ho sf n asy) evs) < rs.length) :
    Terminal (rs.foldl runRound (run (S.init hi ht w p e o er ins ho sf n asy) evs)) :=
  rounds_terminate _ rs (reachable_good hi ht w p e o er ins ho sf n asy hn evs hx h1 h2) hc hl

/-- resources: at the end every I/O worker has finished … -/
theorem resources_released (s : S) (h : Terminal s) :
    s.mainPc = .done ∧ s.finished .out = true ∧ s.finished .err = true ∧ s.finished .stdin = true := by
  obtain ⟨h1, h2, h3, h4⟩ := h
  refine ⟨h1, by simpa [S.finished] using h2, ?_, ?_⟩
  · simp only [S.finished, Bool.or_eq_true]; exact h3
  · simp only [S.finished, Bool.or_eq_true, Bool.not_eq_true', decide_eq_true_eq]; exact h4

/-- … and the timeout timer is disarmed whenever `run` has returned, along every schedule -/
theorem timer_disarmed_after_return (hi ht w p e : Bool) (o er : List Chunk) (ins : List InItem) (ho sf : Bool)
    (n : Nat) (asy : Bool) (evs : List Ev) :
    (run (S.init hi ht w p e o er ins ho sf n asy) evs).mainPc = .done →
    (run (S.init hi ht w p e o er ins ho sf n asy) evs).tmPc ≠ .armed :=
  (doneDisarmed_run _ evs (doneDisarmed_init hi ht w p e o er ins ho sf n asy)).done

/-- a process that cannot be started: `run` reports the failure at once, no worker and no timer exist -/
theorem start_failure_reports (hi ht w p e : Bool) (o er : List Chunk) (ins : List InItem) (ho : Bool) (n : Nat) (asy : Bool) :
    let s := S.init hi ht w p e o er ins ho true n asy
    Terminal s ∧ s.outcome = .startFailed ∧ s.tmPc = .none := by
  simp [S.init, Terminal, S.rdDone]

/-- a dead worker ends the wait loop at the next poll even though the process is still running:
    from `poll` (no interrupt pending) three main-thread steps set `program_finished` and start the joins -/
theorem dead_worker_leaves_wait_loop (s : S) (hd : s.anyDead = true) (hp : s.mainPc = .poll) (hi : s.intr = false)
    (hx : s.exited = false) (hpd : s.processDone = false) :
    (step (step (step s .main) .main) .main).fin = true ∧
    preJoin (step (step (step s .main) .main) .main).mainPc = false := by
  have e1 : step s .main = { s with mainPc := .pollDead false } := by simp [step, mainStep, hp, hi, hx]
  have e2 : step (step s .main) .main = { s with mainPc := .setFin, processDone := (s.processDone || false) } := by
    rw [e1]
    simp [step, mainStep, leaveWait, hpd]
    exact hd
  rw [e2]
  simp only [step, mainStep]
  unfold enterJoin afterJoins
  (repeat' split) <;> simp [preJoin]

/-- a reader whose sibling died is joined with a timeout: after `joinPatience` fruitless polls the
    main thread moves on instead of hanging on a reader blocked in `read` -/
theorem join_gives_up (s : S) (i n : Nat) (a : Actor) (hm : s.mainPc = .join i n true)
    (hj : s.joinOrder[i]? = some a) (hn : joinPatience ≤ n) :
    (step s .main) = nextJoin s i := by
  simp only [step, mainStep, hm, hj]
  split
  · rfl
  · simp [hn]

/-- … and the failure is what gets reported -/
theorem dead_worker_reported (s : S) (hd : s.anyDead = true) : (afterJoins s).outcome = .threadExc := by
  simp [afterJoins, hd]

/-- non-vacuity: a concrete reachable state (output, stdin and a timer in flight, process exited)
    satisfies `Good`, and 40 round-robin rounds end the run with everything released -/
def exState : S :=
  run (S.init true true false false false [[104, 105], [33]] [[69]] [.data [120], .notReady, .eof] false false 1)
    [.env .writeOut, .act .out, .env .writeErr, .env .writeOut, .act .stdin, .act .main, .env (.exit 0)]

example : mu exState < 40 ∧ exState.exited = true ∧ exState.out.isOpen = false ∧ exState.err.isOpen = false ∧
    ¬ Terminal exState ∧
    Terminal ((List.replicate 40 [Actor.main, .out, .err, .stdin]).foldl runRound exState) := by decide +kernel

example : Covers [Actor.main, .out, .err, .stdin] := by
  intro a ha; cases a <;> simp_all

/-! ### The terminal serving as the input stream (`character_buffered`, `Model/Terminal.lean`)

What `tty.setcbreak` does (`sc`) and the body are parameters: the statements hold for every one of them. -/

/-- **bracket_restores_tty** - whatever `setcbreak` does, whether the body returns or raises: if the body
    itself leaves the terminal as it found it, the attributes after the bracket are the attributes
    before it - for a tty, a non-tty, a backgrounded tty, a terminal already in cbreak mode -/
theorem bracket_restores_tty (sc : TtyAttrs → TtyAttrs) (body : TtyAttrs → TtyAttrs × Bool) (t : TtyEnv)
    (hframe : ∀ a, (body a).1 = a) : (characterBuffered sc body t).after = t.attrs :=
  characterBuffered_after sc body t hframe

/-- … and when the bracket did switch the terminal, it restores the saved settings even if the body
    changed the mode itself (the `finally:` writes back what was saved) -/
theorem bracket_restores_saved_settings (sc : TtyAttrs → TtyAttrs) (body : TtyAttrs → TtyAttrs × Bool) (t : TtyEnv)
    (h : touches t = true) : (characterBuffered sc body t).after = t.attrs := by
  simp [characterBuffered, h]

/-- the body's exception is neither swallowed nor invented -/
theorem bracket_propagates_outcome (sc : TtyAttrs → TtyAttrs) (body : TtyAttrs → TtyAttrs × Bool) (t : TtyEnv) :
    (characterBuffered sc body t).raised = (body (characterBuffered sc body t).during).2 := by
  unfold characterBuffered; split <;> rfl

/-- a stream that is not a foregrounded tty, or is in cbreak mode already, is never touched -/
theorem bracket_inert_unless_plain_foreground_tty (sc : TtyAttrs → TtyAttrs) (body : TtyAttrs → TtyAttrs × Bool) (t : TtyEnv)
    (h : t.isTty = false ∨ t.foreground = false ∨ cbreakAlreadySet t.attrs = true) :
    (characterBuffered sc body t).during = t.attrs := by
  have : touches t = false := by
    unfold touches; rcases h with h | h | h <;> simp [h]
  simp [characterBuffered, this]

/-- with the standard `setcbreak` the body of a touched bracket runs in cbreak mode, and a nested
    bracket (another runner sharing the terminal) is inert - so it cannot restore prematurely -/
theorem body_runs_in_cbreak_and_nested_bracket_is_inert (f : Nat → Nat) (t : TtyEnv) (h : touches t = true) :
    cbreakAlreadySet (stdSetcbreak f t.attrs) = true ∧
    touches { t with attrs := stdSetcbreak f t.attrs } = false := by
  simp [cbreakAlreadySet, stdSetcbreak, touches]

/-- HISTORIES: the application edits the terminal mode between commands in any way; after EVERY command
    the mode is the one from just before that command, and the final mode is just the edits composed -/
theorem session_restores_every_command (sc : TtyAttrs → TtyAttrs) (isTty fg : Bool) (a : TtyAttrs)
    (steps : List ((TtyAttrs → TtyAttrs) × Bool)) :
    (session sc isTty fg a steps).2 = steps.map (fun _ => true) ∧
    (session sc isTty fg a steps).1 = steps.foldl (fun x s => s.1 x) a :=
  session_all_restored sc isTty fg a steps

/-- non-vacuity: a plain foreground tty is touched, a raising body still leaves it restored -/
example :
    let t : TtyEnv := { isTty := true, foreground := true, attrs := { echo := true, icanon := true, vmin := 0, vtime := 7, rest := 42 } }
    touches t = true ∧
    (characterBuffered (stdSetcbreak id) (fun a => (a, true)) t).after = t.attrs ∧
    (characterBuffered (stdSetcbreak id) (fun a => (a, true)) t).raised = true ∧
    cbreakAlreadySet (characterBuffered (stdSetcbreak id) (fun a => (a, true)) t).during = true := by decide

/-- the other side of `bracket_inert_unless_plain_foreground_tty` (known finding
    `C08-command-reconfigures-already-cbreak-tty`): when the bracket is inert - not a tty, not foregrounded, or ALREADY in
    cbreak mode - nothing was saved, so whatever the body does to the terminal stays -/
theorem inert_bracket_keeps_body_changes (sc : TtyAttrs → TtyAttrs) (body : TtyAttrs → TtyAttrs × Bool) (t : TtyEnv)
    (h : touches t = false) : (characterBuffered sc body t).after = (body t.attrs).1 := by
  unfold characterBuffered; simp [h]

/-- ... witnessed: a terminal already in cbreak mode, a body that switches ECHO and ICANON back on - the mode after the
    call is not the mode before it -/
theorem already_cbreak_body_change_counterexample :
    let t : TtyEnv := { isTty := true, foreground := true, attrs := { echo := false, icanon := false, vmin := 1, vtime := 0, rest := 0 } }
    (characterBuffered (stdSetcbreak id) (fun a => ({ a with echo := true, icanon := true }, false)) t).after ≠ t.attrs := by
  decide

end Inv
