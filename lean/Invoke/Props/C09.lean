import Invoke.Lemmas.TaskSig
/-! # C09 — a task signature maps to a well-formed CLI whose parsed values always bind

Property theorems only; helper lemmas live in `Invoke/Lemmas/TaskSig.lean`, the model in
`Invoke/Model/TaskSig.lean` (`argList` = `Task.get_arguments`, `mkCtx` = `ParserContext(name, args=…)`
incl. the uniqueness checks of `add_arg`, `Ctx.asKwargs` = `ParserContext.as_kwargs`).

A signature is a list of parameters (name, default) plus the decorator options.  Hypotheses used:

* `IdentSig ps`      — every name is an ASCII identifier `[A-Za-z_][A-Za-z0-9_]*`;
* `NonEmptyNames ps` — no name is the empty string (implied by `IdentSig`; a Python parameter has a name);
* `NoBlankName ps`   — every CLI name is non-empty, i.e. no name consists of underscores only (`_`, `__`).
                        Since fix #29 `get_arguments` refuses such a parameter, so for a context that was
                        built this is *derived* (`built_implies_no_blank_name`), not assumed;
* `(ps.map name).Nodup` — Python refuses duplicate parameter names.

All theorems quantify over *all* parameter lists, defaults and decorator options. -/
namespace Inv

/-- every parameter name is an ASCII Python identifier -/
def IdentSig (ps : List Param) : Prop := ∀ p ∈ ps, pyIdent p.name = true
/-- no parameter name is the empty string -/
def NonEmptyNames (ps : List Param) : Prop := ∀ p ∈ ps, p.name ≠ []
/-- every parameter has a non-empty CLI name (no parameter is named with underscores only) -/
def NoBlankName (ps : List Param) : Prop := ∀ p ∈ ps, dashedName p.name ≠ []

theorem IdentSig.nonEmpty {ps : List Param} (h : IdentSig ps) : NonEmptyNames ps := by
  intro p hp e
  have := h p hp
  rw [e] at this
  simp [pyIdent] at this

/-- a name that does not consist of underscores only has a non-empty CLI name -/
theorem noBlankName_of_not_all_underscores {ps : List Param} (h : ∀ p ∈ ps, allUnderscores p.name = false) :
    NoBlankName ps := fun p hp => dashedName_ne_nil (h p hp)

/-- Since fix #29: a context is only ever built for a signature without blank names. -/
theorem built_implies_no_blank_name {nm : Tok} {o : TaskOpts} {ps : List Param} {c : Ctx}
    (hne : NonEmptyNames ps) (h : mkCtx nm o ps = .ok c) : NoBlankName ps := by
  intro p hp
  have hb := (mkCtx_ok_iff.1 h).1
  exact ne_nil_of_blank_false (hne p hp) (List.any_eq_false.1 hb p hp |> fun x => by simpa using x)

/-- …and a blank name always makes building fail with `ValueError`. -/
theorem blank_name_refused {nm : Tok} {o : TaskOpts} {ps : List Param} (hnn : NonEmptyNames ps)
    (h : ¬ NoBlankName ps) : mkCtx nm o ps = .error (.other "ValueError" "blank-name") := by
  have : ps.any blankName = true := by
    apply Classical.byContradiction
    intro hcon
    apply h
    intro p hp hd
    have hb : blankName p = false := by
      cases hb : blankName p with
      | false => rfl
      | true => exact absurd (List.any_eq_true.2 ⟨p, hp, hb⟩) hcon
    exact ne_nil_of_blank_false (hnn p hp) hb hd
  unfold mkCtx getArguments
  simp [this]

/-- the parameter has a `--no-` form: default `True` and not declared value-optional -/
def Param.defaultTrue (o : TaskOpts) (p : Param) : Prop :=
  p.default = .bool true ∧ o.optional.contains p.name = false

/-- no parameter's CLI name is the `--no-` form of a default-true boolean parameter -/
def NoInverseCollision (o : TaskOpts) (ps : List Param) : Prop :=
  ∀ p ∈ ps, ∀ q ∈ ps, q.defaultTrue o → dashedName p.name ≠ "no-".toList ++ dashedName q.name

/-! ## exactly one argument per parameter -/

/-- The argument list is a permutation of the parameter list: exactly one argument per parameter,
    known to Python under the parameter's own name. -/
theorem one_arg_per_param (o : TaskOpts) (ps : List Param) :
    ((argList o ps).map ArgSpec.pyName).Perm (ps.map Param.name) := by
  have := (argList_perm o ps).map ArgSpec.pyName
  rwa [buildArgs_map_pyName] at this

/-- …and the context built from it holds exactly these arguments, in the same order. -/
theorem context_holds_the_arguments {nm : Tok} {o : TaskOpts} {ps : List Param} {c : Ctx}
    (h : mkCtx nm o ps = .ok c) : c.args = (argList o ps).map Arg.init :=
  (ofSpecsChecked_tables (mkCtx_ok_iff.1 h).2.2).1

/-! ## well-formed long flag, at most one short flag -/

/-- Every argument's first name is the parameter name with the surrounding underscores stripped and the
    inner ones shown as dashes; it is non-empty, free of underscores, made of alphanumerics and dashes,
    begins and ends with an alphanumeric, and its flag is `--name` (or `-x` for a one-character name). -/
theorem long_flag_wellformed {o : TaskOpts} {ps : List Param} (hid : IdentSig ps) (hnb : NoBlankName ps) :
    ∀ a ∈ argList o ps, ∃ main rest, a.names = main :: rest ∧
      main = translateUnderscores a.pyName ∧ main ≠ [] ∧ '_' ∉ main ∧
      (∀ ch ∈ main, ch = '-' ∨ ch.isAlphanum = true) ∧
      (∀ ch, main.head? = some ch → ch.isAlphanum = true) ∧
      (∀ ch, main.getLast? = some ch → ch.isAlphanum = true) ∧
      toFlag main = (if main.length = 1 then '-' :: main else '-' :: '-' :: main) := by
  intro a ha
  rcases mem_argList ha with ⟨p, hp, t, rfl⟩
  refine ⟨dashedName p.name, _, argOpts_names o _ p t, ?_, hnb p hp,
    dashedName_no_underscore _, dashedName_chars (hid p hp), (dashedName_ends_alnum (hid p hp)).1,
    (dashedName_ends_alnum (hid p hp)).2, toFlag_of_no_underscore (dashedName_no_underscore _)⟩
  rw [argOpts_pyName, dashedName_eq_translate]

/-- An argument has its long name and at most one further name. -/
theorem at_most_one_short (o : TaskOpts) (ps : List Param) : ∀ a ∈ argList o ps, a.names.length ≤ 2 := by
  intro a ha
  rcases mem_argList ha with ⟨p, _, t, rfl⟩
  rw [argOpts_names]
  have := pickShort_length o.autoShort (dashedName p.name) t
  simp only [List.length_cons]; omega

/-- The further name, if any, is one alphanumeric character taken from the long name (and is not the
    long name itself); its flag is `-x`. -/
theorem short_is_alnum (o : TaskOpts) (ps : List Param) :
    ∀ a ∈ argList o ps, ∀ main s rest, a.names = main :: s :: rest →
      rest = [] ∧ ∃ ch, s = [ch] ∧ ch.isAlphanum = true ∧ ch ∈ main ∧ s ≠ main ∧ toFlag s = ['-', ch] := by
  intro a ha main s rest hn
  rcases mem_argList ha with ⟨p, _, t, rfl⟩
  rw [argOpts_names] at hn
  have hm : main = dashedName p.name := (List.cons.inj hn).1.symm
  have hs : s ∈ pickShort o.autoShort (dashedName p.name) t := by rw [(List.cons.inj hn).2]; simp
  rcases pickShort_spec hs with ⟨h1, ch, e, hc, ha', hne, _⟩
  refine ⟨?_, ch, e, ha', hm ▸ hc, ?_, ?_⟩
  · have := (List.cons.inj hn).2
    rw [h1] at this
    exact ((List.cons.inj this).2).symm
  · rw [hm, e]; exact hne
  · rw [e, toFlag_of_no_underscore (by
      intro hmem
      have : '_' = ch := by simpa using hmem
      exact alnum_ne_underscore ha' this.symm)]
    simp

/-- With `auto_shortflags=False` no short flag is assigned. -/
theorem no_short_when_disabled {o : TaskOpts} {ps : List Param} (h : o.autoShort = false) :
    ∀ a ∈ argList o ps, a.names.length = 1 := by
  intro a ha
  rcases mem_argList ha with ⟨p, _, t, rfl⟩
  rw [argOpts_names, h, pickShort_off]; rfl

/-! ## all flag names distinct, or a `ValueError` -/

/-- The flag table of the context is the list of flags of the arguments, in order; the inverse table has
    one `--no-name ↦ --name` entry per default-true boolean. -/
theorem context_tables {nm : Tok} {o : TaskOpts} {ps : List Param} {c : Ctx} (h : mkCtx nm o ps = .ok c) :
    c.flagNames = (argList o ps).flatMap ArgSpec.flagNames ∧
    c.inverse = ((argList o ps).filter ArgSpec.hasInverse).map
      (fun a => (toFlag ("no-".toList ++ a.names.headD []), toFlag (a.names.headD []))) := by
  have := ofSpecsChecked_tables (mkCtx_ok_iff.1 h).2.2
  exact ⟨this.2.1, this.2.2.1⟩

/-- HEADLINE.  Whenever the context of a task is built, all its flag names — long, short and inverse —
    are pairwise distinct. -/
theorem flags_distinct {nm : Tok} {o : TaskOpts} {ps : List Param} {c : Ctx} (hne : NonEmptyNames ps)
    (h : mkCtx nm o ps = .ok c) : (c.flagNames ++ c.inverseNames).Nodup := by
  have hnb := built_implies_no_blank_name hne h
  refine ofSpecsChecked_flags_nodup ?_ (mkCtx_ok_iff.1 h).2.2
  intro sp hsp
  rcases mem_argList hsp with ⟨p, hp, t, rfl⟩
  exact argOpts_normalSpec (hnb p hp)

/-- Every name of an argument spells a flag that reaches exactly that argument: the flag table maps it to
    the argument's slot, and the slot holds the argument (untouched). -/
theorem flag_reaches_its_argument {nm : Tok} {o : TaskOpts} {ps : List Param} {c : Ctx} (hne : NonEmptyNames ps)
    (h : mkCtx nm o ps = .ok c) {j : Nat} {a : ArgSpec} (hj : (argList o ps)[j]? = some a)
    {n : Tok} (hn : n ∈ a.names) :
    assoc? (toFlag n) c.flags = some j ∧ c.args[j]? = some (Arg.init a) := by
  have hnb := built_implies_no_blank_name hne h
  refine ofSpecsChecked_flag_reaches ?_ (mkCtx_ok_iff.1 h).2.2 hj hn
  intro sp hsp
  rcases mem_argList hsp with ⟨p, hp, t, rfl⟩
  exact argOpts_normalSpec (hnb p hp)

/-- Building fails only with `ValueError`, and only when a parameter has a blank name, a help key names no
    parameter, two parameters share a CLI name, or a parameter's CLI name is the `--no-` form of a default-true
    boolean. -/
theorem error_only_on_clash {nm : Tok} {o : TaskOpts} {ps : List Param} {e : Err} (hnn : NonEmptyNames ps)
    (h : mkCtx nm o ps = .error e) :
    (∃ site, e = .other "ValueError" site) ∧
    (¬ NoBlankName ps ∨ helpOK o ps = false ∨ ¬ (ps.map (fun p => dashedName p.name)).Nodup ∨
      ¬ NoInverseCollision o ps) := by
  unfold mkCtx getArguments at h
  cases hbl : ps.any blankName with
  | true =>
    rw [hbl] at h
    simp only [if_true, Except.error.injEq] at h
    refine ⟨⟨_, h.symm⟩, Or.inl ?_⟩
    intro hnb
    rcases List.any_eq_true.1 hbl with ⟨p, hp, hb⟩
    exact hnb p hp ((blankName_true_iff p).1 hb).2
  | false =>
  rw [hbl] at h
  simp only [Bool.false_eq_true, if_false] at h
  have hnb : NoBlankName ps := fun p hp =>
    ne_nil_of_blank_false (hnn p hp) (by simpa using List.any_eq_false.1 hbl p hp)
  cases hh : helpOK o ps with
  | false =>
    rw [hh] at h
    simp only [Bool.false_eq_true, if_false, Except.error.injEq] at h
    exact ⟨⟨_, h.symm⟩, Or.inr (Or.inl rfl)⟩
  | true =>
    rw [hh] at h
    simp only [if_true] at h
    have hne : ∀ sp ∈ argList o ps, sp.names ≠ [] := by
      intro sp hsp
      rcases mem_argList hsp with ⟨p, _, t, rfl⟩
      rw [argOpts_names]; simp
    refine ⟨foldChecked_error hne h, Or.inr (Or.inr ?_)⟩
    -- otherwise the constructor loop would have accepted everything
    refine Classical.byContradiction fun hcon => ?_
    have hd : (ps.map (fun p => dashedName p.name)).Nodup := Classical.byContradiction fun x => hcon (Or.inl x)
    have hc : NoInverseCollision o ps := Classical.byContradiction fun x => hcon (Or.inr x)
    have : ∃ c, Ctx.ofSpecsChecked (some nm) [] (argList o ps) = .ok c := by
      refine ofSpecsChecked_ok_of_global (argList_allNames_nodup hd) hne ?_
      intro sp hsp sp' hsp' hi hm
      rcases mem_argList hsp with ⟨p, hp, t, rfl⟩
      rcases mem_argList hsp' with ⟨q, hq, t', rfl⟩
      rw [argOpts_inverseName] at hm
      rw [argOpts_flagNames] at hm
      have hq' : q.defaultTrue o := argOpts_hasInverse.1 hi
      have hnq : NormalName ("no-".toList ++ dashedName q.name) := no_prefix_normal (dashedName_normal (hnb q hq))
      rcases List.mem_cons.1 hm with hm | hm
      · exact hc p hp q hq hq' (toFlag_inj hnq (dashedName_normal (hnb p hp)) hm).symm
      · rcases List.mem_map.1 hm with ⟨s, hs, es⟩
        rcases (pickShort_spec hs).2 with ⟨ch, e', _, ha', _, _⟩
        have := toFlag_inj (short_normal ⟨ch, e', ha'⟩) hnq es
        rw [e'] at this
        simp at this
    rcases this with ⟨c, hc'⟩
    rw [hc'] at h; cases h

/-- Both outcomes in one statement: either a context with pairwise distinct flag names, or a `ValueError`
    whose cause is a blank name, a leftover help key, a shared CLI name or a colliding `--no-` form. -/
theorem flags_distinct_or_error (nm : Tok) (o : TaskOpts) (ps : List Param) (hnn : NonEmptyNames ps) :
    match mkCtx nm o ps with
    | .ok c => (c.flagNames ++ c.inverseNames).Nodup
    | .error e => (∃ site, e = .other "ValueError" site) ∧
        (¬ NoBlankName ps ∨ helpOK o ps = false ∨ ¬ (ps.map (fun p => dashedName p.name)).Nodup ∨
          ¬ NoInverseCollision o ps) := by
  cases h : mkCtx nm o ps with
  | ok c => exact flags_distinct hnn h
  | error e => exact error_only_on_clash hnn h

/-- Conversely, each of these situations makes building fail: a context exists exactly when no CLI name is
    blank, all help keys are used, the CLI names are pairwise distinct and no `--no-` form collides. -/
theorem built_iff_no_clash {nm : Tok} {o : TaskOpts} {ps : List Param} (hnn : NonEmptyNames ps) :
    (∃ c, mkCtx nm o ps = .ok c) ↔
      (NoBlankName ps ∧ helpOK o ps = true ∧ (ps.map (fun p => dashedName p.name)).Nodup ∧
        NoInverseCollision o ps) := by
  constructor
  · rintro ⟨c, h⟩
    have hnd := flags_distinct hnn h
    have ht := context_tables h
    have hfl : c.flagNames = (argList o ps).flatMap ArgSpec.flagNames := ht.1
    refine ⟨built_implies_no_blank_name hnn h, (mkCtx_ok_iff.1 h).2.1,
      argList_flags_nodup_dashed (hfl ▸ (List.nodup_append.1 hnd).1), ?_⟩
    intro p hp q hq hq' e
    rcases argList_has (o := o) hp with ⟨t, ha⟩
    rcases argList_has (o := o) hq with ⟨t', hb⟩
    have h1 : toFlag (dashedName p.name) ∈ c.flagNames := by
      rw [hfl]
      exact List.mem_flatMap.2 ⟨_, ha, by rw [argOpts_flagNames]; simp⟩
    have h2 : toFlag ("no-".toList ++ dashedName q.name) ∈ c.inverseNames := by
      unfold Ctx.inverseNames
      rw [ht.2]
      refine List.mem_map.2 ⟨(toFlag ("no-".toList ++ dashedName q.name), toFlag (dashedName q.name)), ?_, rfl⟩
      exact List.mem_map.2 ⟨_, List.mem_filter.2 ⟨hb, argOpts_hasInverse.2 hq'⟩, by rw [argOpts_names]; rfl⟩
    exact (List.nodup_append.1 hnd).2.2 _ h1 _ h2 (by rw [e])
  · rintro ⟨hb, hh, hd, hc⟩
    cases hm : mkCtx nm o ps with
    | ok c => exact ⟨c, rfl⟩
    | error e =>
      rcases (error_only_on_clash hnn hm).2 with h | h | h | h
      · exact absurd hb h
      · rw [hh] at h; cases h
      · exact absurd hd h
      · exact absurd hc h

/-! ## positionals -/

/-- Unless the task says otherwise, the positional arguments of the context are the parameters without
    default, in declaration order. -/
theorem implicit_positionals_in_order {nm : Tok} {o : TaskOpts} {ps : List Param} {c : Ctx}
    (hn : (ps.map Param.name).Nodup) (hpos : o.positional = none) (h : mkCtx nm o ps = .ok c) :
    c.positionalNames = (ps.filter Param.noDefault).map Param.name := by
  have ht := (ofSpecsChecked_tables (mkCtx_ok_iff.1 h).2.2).2.2.2
  have e : positionalNames o ps = (ps.filter Param.noDefault).map Param.name := by
    unfold positionalNames; rw [hpos]
  have hs := implicit_positional_nodup_sub hn
  rw [ht, argList_positional_names hn (e ▸ hs.1) (e ▸ hs.2), e]

/-- When the task lists its positionals (distinct parameter names), they are positional in the order listed. -/
theorem explicit_positionals_in_given_order {nm : Tok} {o : TaskOpts} {ps : List Param} {c : Ctx} {l : List Tok}
    (hn : (ps.map Param.name).Nodup) (hpos : o.positional = some l) (hl : l.Nodup)
    (hsub : ∀ x ∈ l, x ∈ ps.map Param.name) (h : mkCtx nm o ps = .ok c) :
    c.positionalNames = l := by
  have ht := (ofSpecsChecked_tables (mkCtx_ok_iff.1 h).2.2).2.2.2
  have e : positionalNames o ps = l := by unfold positionalNames; rw [hpos]
  rw [ht, argList_positional_names hn (e ▸ hl) (e ▸ hsub), e]

/-- A parameter without default is of list type exactly when the task declares it iterable; such an
    argument starts out holding `[]`, so the parser never counts it as a missing positional (the documented
    exception: it cannot be filled positionally). -/
theorem list_positional_never_missing (o : TaskOpts) (pos : List Tok) (p : Param) (t : List Tok)
    (hd : p.default = .empty) (hinc : o.incrementable.contains p.name = false) :
    ((argOpts o pos p t).kind = .list ↔ o.iterable.contains p.name = true) ∧
    ((argOpts o pos p t).kind = .list → (Arg.init (argOpts o pos p t)).value = .l []) := by
  rw [init_value, argOpts_kind, argOpts_incrementable, hd, hinc]
  generalize o.optional.contains p.name = op
  generalize o.iterable.contains p.name = it
  cases op <;> cases it <;> simp [kindDefault, baseKind]

/-! ## kinds, booleans, inverse flags -/

/-- what `arg_opts` must make of one parameter -/
def KindRule (o : TaskOpts) (p : Param) (a : ArgSpec) : Prop :=
  match p.default with
  | .str s => a.kind = .str ∧ a.default = .s s
  | .int i => a.kind = .int ∧ a.default = .i i
  | .list xs => a.kind = .list ∧ a.default = .l xs
  | .bool b =>
    if o.optional.contains p.name then a.default = .b b ∧ a.kind = (if o.iterable.contains p.name then .list else .str)
    else a.kind = .bool ∧ a.default = .b b
  | .none => if o.iterable.contains p.name then a.kind = .list ∧ a.default = .l [] else a.kind = .str ∧ a.default = .none
  | .empty => a.default = .none ∧ a.kind = (if o.iterable.contains p.name then .list else .str)

/-- A default that is a string, an integer or a list fixes the value type (and is kept as the default);
    without a usable default the type is `str`, or `list` (default `[]`) for an iterable parameter. -/
theorem kind_from_default (o : TaskOpts) (ps : List Param) :
    ∀ a ∈ argList o ps, ∃ p ∈ ps, a.pyName = p.name ∧ KindRule o p a := by
  intro a ha
  rcases mem_argList ha with ⟨p, hp, t, rfl⟩
  refine ⟨p, hp, argOpts_pyName _ _ _ _, ?_⟩
  unfold KindRule
  rw [argOpts_kind, argOpts_default]
  generalize o.optional.contains p.name = op
  generalize o.iterable.contains p.name = it
  generalize p.default = d
  cases d <;> cases op <;> cases it <;> simp [kindDefault, baseKind, iterDefault, PyDefault.toPVal]

/-- A boolean parameter (not declared value-optional) takes no value on the command line; it gains a
    `--no-name` inverse flag exactly when its default is `True`. -/
theorem bool_no_value_and_inverse {nm : Tok} {o : TaskOpts} {ps : List Param} {c : Ctx}
    (h : mkCtx nm o ps = .ok c) :
    (∀ a ∈ argList o ps, ∃ p ∈ ps, a.pyName = p.name ∧
      ∀ b, p.default = .bool b → o.optional.contains p.name = false →
        a.kind = .bool ∧ (Arg.init a).takesValue = false ∧ a.hasInverse = b ∧
        (b = true → assoc? (toFlag ("no-".toList ++ a.names.headD [])) c.inverse = some (toFlag (a.names.headD [])))) ∧
    (∀ f ∈ c.inverseNames, ∃ a ∈ argList o ps, a.hasInverse = true ∧ f = toFlag ("no-".toList ++ a.names.headD [])) := by
  have ht := context_tables h
  have hmem : ∀ a ∈ argList o ps, a.hasInverse = true →
      (toFlag ("no-".toList ++ a.names.headD []), toFlag (a.names.headD [])) ∈ c.inverse := by
    intro a ha hi
    rw [ht.2]
    exact List.mem_map.2 ⟨a, List.mem_filter.2 ⟨ha, hi⟩, rfl⟩
  -- first entry found for a key is the entry of that argument: values are determined by the key
  have hassoc : ∀ (l : List (Tok × Tok)) (k v : Tok), (k, v) ∈ l → (∀ kv ∈ l, kv.1 = k → kv.2 = v) →
      assoc? k l = some v := by
    intro l k v
    induction l with
    | nil => intro hm; cases hm
    | cons x r ih =>
      intro hm hu
      rcases x with ⟨k', v'⟩
      unfold assoc?
      by_cases hk : k = k'
      · simp only [hk, if_true]
        exact congrArg some (hu (k', v') (by simp) hk.symm)
      · simp only [hk, if_false]
        rcases List.mem_cons.1 hm with hm | hm
        · exact absurd (Prod.mk.inj hm).1 hk
        · exact ih hm (fun kv hkv => hu kv (List.mem_cons_of_mem _ hkv))
  refine ⟨?_, ?_⟩
  · intro a ha
    rcases mem_argList ha with ⟨p, hp, t, rfl⟩
    refine ⟨p, hp, argOpts_pyName _ _ _ _, ?_⟩
    intro b hb hop
    have hk1 : (argOpts o (positionalNames o ps) p t).kind = .bool := by
      rw [argOpts_kind, hb, hop]; rfl
    have hk2 : (argOpts o (positionalNames o ps) p t).default = .b b := by
      rw [argOpts_default, hb, hop]; rfl
    have hinv : (argOpts o (positionalNames o ps) p t).hasInverse = b := by
      unfold ArgSpec.hasInverse
      rw [hk1, hk2]
      cases b <;> simp
    refine ⟨hk1, by simp [Arg.takesValue, Arg.init, hk1], hinv, ?_⟩
    intro hbt
    subst hbt
    refine hassoc _ _ _ (hmem _ ha hinv) ?_
    intro kv hkv hk1
    rw [ht.2] at hkv
    rcases List.mem_map.1 hkv with ⟨a', ha', rfl⟩
    -- same inverse flag, hence same long name
    have ha'' := (List.mem_filter.1 ha').1
    rcases mem_argList ha'' with ⟨q, _, t', rfl⟩
    simp only [argOpts_names, List.headD_cons] at hk1 ⊢
    have := toFlag_inj (no_prefix_normal' (dashedName_no_underscore q.name))
      (no_prefix_normal' (dashedName_no_underscore p.name)) hk1
    rw [List.append_cancel_left this]
  · intro f hf
    unfold Ctx.inverseNames at hf
    rw [ht.2] at hf
    rcases List.mem_map.1 hf with ⟨kv, hkv, rfl⟩
    rcases List.mem_map.1 hkv with ⟨a, ha, rfl⟩
    exact ⟨a, (List.mem_filter.1 ha).1, (List.mem_filter.1 ha).2, rfl⟩

/-! ## the keyword arguments always bind -/

/-- what the keyword argument of a parameter with a default holds when the command line does not mention
    it: the function's own default — an empty list for a list-type parameter. -/
def CarriesDefault (p : Param) (a : ArgSpec) (v : PVal) : Prop :=
  (a.kind ≠ .list → v = p.default.toPVal) ∧
  (a.kind = .list → v = .l [] ∨ (v = p.default.toPVal ∧ p.default ≠ .none))

/-- HEADLINE.  The keyword arguments built from a task's context have exactly the parameter names as keys
    (a permutation of the declaration order, nothing twice), and every parameter with a default that the
    command line did not mention carries that default ([] for list-type parameters). -/
theorem kwargs_bind {nm : Tok} {o : TaskOpts} {ps : List Param} {c : Ctx} (h : mkCtx nm o ps = .ok c) :
    (c.asKwargs.map Prod.fst).Perm (ps.map Param.name) ∧
    (∀ kv ∈ c.asKwargs, ∃ p ∈ ps, ∃ a ∈ argList o ps, kv.1 = p.name ∧ a.pyName = p.name ∧
        (p.default ≠ .empty → CarriesDefault p a kv.2)) ∧
    (∀ p ∈ ps, ∃ v, (p.name, v) ∈ c.asKwargs) := by
  have hargs := context_holds_the_arguments h
  have hkw : c.asKwargs = (argList o ps).map (fun a => (a.pyName, (Arg.init a).value)) := by
    unfold Ctx.asKwargs
    rw [hargs, List.map_map]
    rfl
  refine ⟨?_, ?_, ?_⟩
  · rw [hkw, List.map_map]
    exact one_arg_per_param o ps
  · intro kv hkv
    rw [hkw] at hkv
    rcases List.mem_map.1 hkv with ⟨a, ha, rfl⟩
    rcases mem_argList ha with ⟨p, hp, t, rfl⟩
    refine ⟨p, hp, _, ha, argOpts_pyName _ _ _ _, argOpts_pyName _ _ _ _, ?_⟩
    intro hne
    simp only [CarriesDefault, init_value, argOpts_kind, argOpts_default, argOpts_incrementable]
    exact carries_table _ _ _ _ hne
  · intro p hp
    rcases argList_has (o := o) hp with ⟨t, ha⟩
    refine ⟨(Arg.init (argOpts o (positionalNames o ps) p t)).value, ?_⟩
    rw [hkw]
    exact List.mem_map.2 ⟨_, ha, by rw [argOpts_pyName]⟩

/-- The keys are pairwise different when the parameter names are (Python guarantees it): the keyword
    arguments form a dict that binds to the function's signature. -/
theorem kwargs_keys_nodup {nm : Tok} {o : TaskOpts} {ps : List Param} {c : Ctx}
    (hn : (ps.map Param.name).Nodup) (h : mkCtx nm o ps = .ok c) : (c.asKwargs.map Prod.fst).Nodup :=
  (kwargs_bind h).1.nodup_iff.2 hn

/-- The checked constructor is the constructor of the shared parser model: the context the parser theorems
    (C01/C07/C18) talk about is this one. -/
theorem same_context_as_parser_model {nm : Tok} {o : TaskOpts} {ps : List Param} {c : Ctx}
    (h : mkCtx nm o ps = .ok c) : Ctx.ofSpecs (some nm) [] (argList o ps) = .ok c := by
  have := (mkCtx_ok_iff.1 h).2.2
  unfold Ctx.ofSpecsChecked at this
  exact foldChecked_eq_foldlM this

/-! ## a context depends on the task's own signature only -/

/-- `mkCtx` is a function of the task's own parameters and decorator options and of nothing else - no other task
    of the namespace, no earlier generation - and even the name it is bound under (`docs.build`, `www.build`, an
    alias) only labels the context: the same signature bound under another name builds as well and yields the same
    arguments and the same flag, inverse-flag and positional tables. -/
theorem context_depends_on_own_signature_only {nm nm' : Tok} {o : TaskOpts} {ps : List Param} {c : Ctx}
    (h : mkCtx nm o ps = .ok c) :
    ∃ c', mkCtx nm' o ps = .ok c' ∧ c'.args = c.args ∧ c'.flags = c.flags ∧ c'.inverse = c.inverse ∧
      c'.positional = c.positional := by
  have h1 := mkCtx_ok_iff.1 h
  rcases ofSpecsChecked_name_irrelevant (nm' := some nm') (al' := []) h1.2.2 with ⟨c', hc', hs⟩
  exact ⟨c', mkCtx_ok_iff.2 ⟨h1.1, h1.2.1, hc'⟩, hs.1.symm, hs.2.1.symm, hs.2.2.1.symm, hs.2.2.2.symm⟩

/-- …and so is failure: a signature that is refused under one name is refused under every name. -/
theorem refusal_depends_on_own_signature_only {nm nm' : Tok} {o : TaskOpts} {ps : List Param}
    (h : (mkCtx nm o ps).toOption.isSome = false) : (mkCtx nm' o ps).toOption.isSome = false := by
  cases h' : mkCtx nm' o ps with
  | error e => rfl
  | ok c' =>
    rcases context_depends_on_own_signature_only (nm' := nm) h' with ⟨c, hc, _⟩
    rw [hc] at h; cases h

/-! ## non-vacuity: a signature exercising every rule, and what the theorems say about it -/

/-- `@task(iterable=['my_list'], optional=['opt'], help={'foo-bar': …})
    def t(c, pos, my_list, foo_bar='s', x1=3, color=True, quiet=False, opt=None)` -/
def exParams : List Param :=
  [⟨"pos".toList, .empty⟩, ⟨"my_list".toList, .empty⟩, ⟨"foo_bar".toList, .str "s".toList⟩,
   ⟨"x1".toList, .int 3⟩, ⟨"color".toList, .bool true⟩, ⟨"quiet".toList, .bool false⟩, ⟨"opt".toList, .none⟩]
def exOpts : TaskOpts :=
  { iterable := ["my_list".toList], optional := ["opt".toList], help := ["foo-bar".toList] }

example : IdentSig exParams := by unfold IdentSig; decide
example : NoBlankName exParams := by unfold NoBlankName; decide
example : NonEmptyNames exParams := by unfold NonEmptyNames; decide
example : (exParams.map Param.name).Nodup := by decide
example : (exParams.map (fun p => dashedName p.name)).Nodup := by decide
example : helpOK exOpts exParams = true := by decide
example : (mkCtx "t".toList exOpts exParams).toOption.isSome = true := by decide
example : (argList exOpts exParams).map ArgSpec.names =
    [["pos".toList, "p".toList], ["my-list".toList, "m".toList], ["foo-bar".toList, "f".toList],
     ["x1".toList, "x".toList], ["color".toList, "c".toList], ["quiet".toList, "q".toList],
     ["opt".toList, "o".toList]] := by decide
example : ((mkCtx "t".toList exOpts exParams).toOption.map Ctx.inverseNames) = some ["--no-color".toList] := by decide
example : ((mkCtx "t".toList exOpts exParams).toOption.map Ctx.positionalNames) =
    some ["pos".toList, "my_list".toList] := by decide
example : ((mkCtx "t".toList exOpts exParams).toOption.map Ctx.asKwargs) =
    some [("pos".toList, .none), ("my_list".toList, .l []), ("foo_bar".toList, .s "s".toList), ("x1".toList, .i 3),
          ("color".toList, .b true), ("quiet".toList, .b false), ("opt".toList, .none)] := by decide
example : ((mkCtx "t".toList exOpts exParams).toOption.map (fun c => assoc? "--foo-bar".toList c.flags)) = some (some 2) := by
  decide
/-- keyword-only parameters: `def deploy(c, host, retries=3, *, target)` - `target` lacks a default *after* a
    defaulted parameter and is positional all the same, in declaration order -/
example : ((mkCtx "deploy".toList {} [⟨"host".toList, .empty⟩, ⟨"retries".toList, .int 3⟩, ⟨"target".toList, .empty⟩]).toOption.map
    (fun c => (c.positionalNames, c.asKwargs.map Prod.fst))) =
    some (["host".toList, "target".toList], ["host".toList, "target".toList, "retries".toList]) := by decide
/-- namesakes: two tasks called `build` with different signatures get different contexts, whatever they are bound as -/
example : ((mkCtx "docs.build".toList {} [⟨"fmt".toList, .str "html".toList⟩]).toOption.map Ctx.flagNames,
           (mkCtx "www.build".toList {} [⟨"minify".toList, .bool false⟩]).toOption.map Ctx.flagNames) =
    (some ["--fmt".toList, "-f".toList], some ["--minify".toList, "-m".toList]) := by decide
/-- one function, two decorations: `def deploy(c, hosts, env='dev')` as it stands and with
    `@task(positional=[], iterable=['hosts'])` - the same signature with other options is another CLI
    (`hosts` positional string vs. repeatable `--hosts` list flag defaulting to `[]`) -/
example : ((mkCtx "dev.deploy".toList {} [⟨"hosts".toList, .empty⟩, ⟨"env".toList, .str "dev".toList⟩]).toOption.map
    Ctx.positionalNames) = some ["hosts".toList] := by decide
example : ((mkCtx "dev.deploy".toList {} [⟨"hosts".toList, .empty⟩, ⟨"env".toList, .str "dev".toList⟩]).toOption.map
    Ctx.asKwargs) = some [("hosts".toList, .none), ("env".toList, .s "dev".toList)] := by decide
example : ((mkCtx "ci.deploy".toList { positional := some [], iterable := ["hosts".toList] }
    [⟨"hosts".toList, .empty⟩, ⟨"env".toList, .str "dev".toList⟩]).toOption.map Ctx.positionalNames) = some [] := by decide
example : ((mkCtx "ci.deploy".toList { positional := some [], iterable := ["hosts".toList] }
    [⟨"hosts".toList, .empty⟩, ⟨"env".toList, .str "dev".toList⟩]).toOption.map Ctx.asKwargs) =
    some [("hosts".toList, .l []), ("env".toList, .s "dev".toList)] := by decide
/-- the error side of `built_iff_no_clash` is inhabited too -/
example : ¬ NoInverseCollision {} [⟨"color".toList, .bool true⟩, ⟨"no_color".toList, .bool false⟩] := by
  intro h
  exact h ⟨"no_color".toList, .bool false⟩ (by simp) ⟨"color".toList, .bool true⟩ (by simp) ⟨rfl, rfl⟩ (by decide)
example : ¬ ([⟨"x_".toList, .none⟩, ⟨"_x".toList, .none⟩].map (fun p : Param => dashedName p.name)).Nodup := by decide
/-- explicit positionals: `@task(positional=['b', 'a']) def t(c, a, b=1)` -/
example : ((mkCtx "t".toList { positional := some ["b".toList, "a".toList] }
    [⟨"a".toList, .empty⟩, ⟨"b".toList, .int 1⟩]).toOption.map Ctx.positionalNames) = some ["b".toList, "a".toList] := by
  decide

/-! ## behaviour before the repairs -/

/-- #29 before the repair: a parameter named `_` became an argument whose CLI name is empty — its flag was the
    bare `--` (the remainder separator).  Now `get_arguments` refuses it with `ValueError`. -/
theorem underscore_only_counterexample :
    ((mkCtxPinned29 "t".toList {} [⟨"_".toList, .empty⟩]).toOption.map Ctx.flagNames) = some ["--".toList] ∧
    ¬ NoBlankName [⟨"_".toList, .empty⟩] ∧
    mkCtx "t".toList {} [⟨"_".toList, .empty⟩] = .error (.other "ValueError" "blank-name") ∧
    mkCtx "t".toList {} [⟨"a".toList, .int 1⟩, ⟨"__".toList, .none⟩] = .error (.other "ValueError" "blank-name") := by
  refine ⟨by decide, ?_, by unfold mkCtx getArguments; rfl, by unfold mkCtx getArguments; rfl⟩
  intro h
  exact h ⟨"_".toList, .empty⟩ (by simp) (by decide)

/-- #11 before the repair: `def t(c, a=1, a_b=2)` gave `a_b` the short flag `-` (flag `--`);
    now it gets `b`. -/
theorem short_flag_dash_counterexample :
    (argListPinned {} [⟨"a".toList, .int 1⟩, ⟨"a_b".toList, .int 2⟩]).map ArgSpec.names =
      [["a".toList], ["a-b".toList, "-".toList]] ∧
    (argList {} [⟨"a".toList, .int 1⟩, ⟨"a_b".toList, .int 2⟩]).map ArgSpec.names =
      [["a".toList], ["a-b".toList, "b".toList]] := by decide

/-- #12 before the repair: `def t(c, xy=1, x_=2)` was refused (`xy` took `x`, the CLI name of `x_`) while
    `(x_, xy)` was accepted; now both orders build. -/
theorem short_flag_order_counterexample :
    (Ctx.ofSpecsChecked none [] (argListPinned {} [⟨"xy".toList, .int 1⟩, ⟨"x_".toList, .int 2⟩])).toOption.isSome = false ∧
    (Ctx.ofSpecsChecked none [] (argListPinned {} [⟨"x_".toList, .int 1⟩, ⟨"xy".toList, .int 2⟩])).toOption.isSome = true ∧
    (mkCtx [] {} [⟨"xy".toList, .int 1⟩, ⟨"x_".toList, .int 2⟩]).toOption.isSome = true := by decide

/-- #28 before the repair (`add_arg` without the inverse-flag checks = the shared model's `Ctx.addArg`):
    `def t(c, color=True, no_color=False)` built a context in which `--no-color` is a flag *and* an inverse
    flag; now building is refused. -/
theorem inverse_collision_counterexample :
    ((Ctx.ofSpecs none [] (argList {} [⟨"color".toList, .bool true⟩, ⟨"no_color".toList, .bool false⟩])).toOption.map
      (fun c => (c.flagNames.contains "--no-color".toList, c.inverseNames.contains "--no-color".toList))) =
      some (true, true) ∧
    (mkCtx [] {} [⟨"color".toList, .bool true⟩, ⟨"no_color".toList, .bool false⟩]).toOption.isSome = false := by decide

end Inv
