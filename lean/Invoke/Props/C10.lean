import Invoke.Lemmas.Collection
/-! # C10 — CLI task names, collection lookup and listings agree for every namespace tree

Property theorems only; the model is `Invoke/Model/Collection.lean` (`twc` = `task_with_config` / `__getitem__`,
`taskNames` = `task_names`, `acceptedNames` = keys + aliases of `Parser(contexts = to_contexts())`,
`cliTask` = the task `Executor` runs for a parsed context, `flatPairs` / `nestedPairs` / `serialized` = the
three `--list` formats).  Dotted names are component lists; `wf` is the decidable well-formedness of a tree
(what `add_task` / `add_collection` / `from_module` produce when no two names of one collection clash). -/
namespace Inv
open Coll

/-- HEADLINE.  For every well-formed namespace tree and every canonical dotted name (non-empty
    components left unchanged by the root's `transform`): the command line accepts the name iff the
    collection itself resolves it. -/
theorem cli_names_eq_lookup (c : Coll) (hW : wf c = true) (p : List CName) (hc : canonical c p) :
    p ∈ acceptedNames c ↔ resolves (c.twc p) = true :=
  cli_names_eq_lookup_c c hW p hc

/-- …and nothing else is accepted: every accepted name is canonical (so "exactly the canonical names
    the collection resolves") -/
theorem accepted_names_canonical (c : Coll) (hW : wf c = true) (p : List CName) (hp : p ∈ acceptedNames c) :
    canonical c p :=
  accepted_canonical c hW p hp

/-- the same at the level of dotted strings (`name` ↦ `name.split(".")`, parser keys ↦ `".".join`):
    the round trip is exact because no component of an accepted name contains a dot -/
theorem cli_names_eq_lookup_dotted (c : Coll) (hW : wf c = true) (n : CName) (hc : canonical c (splitOnDot n)) :
    n ∈ acceptedStrings c ↔ resolves (c.getitem n) = true := by
  rw [mem_acceptedStrings c hW n]
  exact cli_names_eq_lookup_c c hW (splitOnDot n) hc

/-- Each accepted name runs the very task that lookup returns (with the very same settings): the
    parser context found for the token carries the entry's primary name, and `collection[primary]`
    equals `collection[token]`. -/
theorem accepted_runs_lookup (c : Coll) (hW : wf c = true) (p : List CName) (r : Except LErr (Nat × KVs))
    (h : cliTask c p = some r) : r = c.twc p :=
  cliTask_eq_twc c hW p r h

/-- a token is known to the parser iff it is an accepted name -/
theorem cli_knows_iff_accepted (c : Coll) (p : List CName) : (cliTask c p).isSome = true ↔ p ∈ acceptedNames c :=
  cliTask_isSome_iff c p

/-- Normalisation is consistent: `transform` is idempotent and the last collection to apply it wins,
    whatever `auto_dash_names` the collections in between have; hence task names, aliases, collection
    names and default shortcuts - all rewritten by the parents' `subtask_name` - end up normalised by the
    root (`accepted_names_canonical`), and a lookup is insensitive to the normalisations applied by outer
    collections on the way down. -/
theorem transform_consistent (a b : Bool) (x : CName) (c : Coll) (p : List CName) :
    transform a (transform a x) = transform a x ∧ transform a (transform b x) = transform a x ∧
    c.twc (p.map (transform b)) = c.twc p :=
  ⟨transform_idem a x, transform_comp a b x, twc_transform_invariant c b p⟩

/-- LISTINGS, each binding exactly once in every format.  `bindings c anc` enumerates the task bindings
    of the tree (collection path, binding name, default flag, lexicon aliases), each exactly once.  The
    flat listing is exactly one line per binding, the task lines of the nested listing are exactly one
    per binding, and the task records of the JSON document are exactly one per binding - each carrying
    the binding name and exactly the lexicon aliases (declared on the task and given to `add_task`);
    flat and nested show them as normalised by the ROOT's `transform` (`rad` = its `auto_dash_names`),
    the JSON document shows each collection's own spelling. -/
theorem listing_once_all_formats (rad : Bool) (c : Coll) (anc : List CName) :
    flatPairs rad c anc = (bindings c anc).map (Binding.flat rad) ∧
    (nestedPairs rad c anc).filter NLine.isTask = (bindings c anc).map (Binding.nested rad) ∧
    jsonTasks (serialized c) = (bindings c anc).map (fun b => (b.key, b.aliases)) :=
  ⟨flat_eq_bindings rad c anc, nested_eq_bindings rad c anc, json_eq_bindings c anc⟩

/-- In a well-formed tree no two `task_names` entries have the same primary name (so the parser never
    sees a primary name twice).  What `wf` contributes: per collection, task keys pairwise distinct and
    sub-collection keys pairwise distinct; every key non-empty and left unchanged by its own collection's
    `transform` (needed so that a parent's re-normalisation of the names coming from a sub-collection is
    injective - `transform` is last-wins, hence invertible on names normalised for the sub-collection);
    all of this hereditarily.  Not needed: the alias conditions, the default, dot-freeness. -/
theorem primary_names_distinct (c : Coll) (hW : wf c = true) : ((taskNames c).map (·.1)).Nodup :=
  primaries_nodup c hW

/-- LISTING ONCE.  In EVERY well-formed tree - whatever `auto_dash_names` its collections have - every
    task appears exactly once under its primary name: the names shown by the flat listing are, in order,
    exactly the primary names of `task_names` (= the names of the parser contexts), these are pairwise
    distinct, and each occurs exactly once.  By `listings_agree` the same holds for the nested format
    (and, up to the root's normalisation of the last component, for the JSON format). -/
theorem listing_once (c : Coll) (hW : wf c = true) :
    (flatListing c).map (·.1) = (taskNames c).map (·.1) ∧ ((taskNames c).map (·.1)).Nodup ∧
    ∀ e ∈ taskNames c, ((flatListing c).map (·.1)).count e.1 = 1 :=
  flat_names_once c hW

/-- …together with its aliases, in EVERY well-formed tree: position by position the binding behind a
    listing line and the `task_names` entry have the same dotted name (the primary name), every listed
    alias is an alias of the entry, and the entry has no further alias except collection-name shortcuts
    (proper prefixes of the name). -/
theorem listing_aliases_match (c : Coll) (hW : wf c = true) :
    Pairs (ListedAs c.autoDash) (bindings c []) (taskNames c) :=
  bindings_listed_as c hW

/-- the same correspondence without any hypothesis on the tree, names compared as the root normalises them -/
theorem listing_aliases_match_all_trees (rad : Bool) (c : Coll) :
    Pairs (Matches rad []) (bindings c []) (taskNames c) :=
  bindings_match rad c []

/-- LISTINGS AGREE.  For every tree the three formats carry, position by position, the same
    (dotted name, aliases) pairs: the flat lines (their declared aliases, i.e. without the
    collection-name shortcut), the task lines of the nested listing, and - as last components, spelled
    as the root spells them - the task records of the JSON document (which itself keeps each collection's
    own spelling: it describes every collection locally and cannot be read as dotted CLI names). -/
theorem listings_agree (c : Coll) :
    (flatListing c).map flatDeclared = (bindings c []).map (Binding.cli c.autoDash) ∧
    ((nestedListing c).filter NLine.isTask).map NLine.cli = (bindings c []).map (Binding.cli c.autoDash) ∧
    (jsonTasks (serialized c)).map (normRecord c.autoDash) =
      ((bindings c []).map (Binding.cli c.autoDash)).map Entry.leaf :=
  listings_agree_all c

/-- for EVERY well-formed tree: flat and nested show the same pairs, whose names are exactly the accepted
    primary names -/
theorem listings_agree_with_cli (c : Coll) (hW : wf c = true) :
    (flatListing c).map flatDeclared = ((nestedListing c).filter NLine.isTask).map NLine.cli ∧
    ((flatListing c).map flatDeclared).map (·.1) = (taskNames c).map (·.1) := by
  obtain ⟨h1, h2, _⟩ := listings_agree_all c
  refine ⟨h1.trans h2.symm, ?_⟩
  rw [h1, List.map_map]
  show _ = primaries c
  rw [← bindings_names_eq_primaries c hW]
  exact List.map_congr_left (fun b _ => rfl)

/-! ## non-vacuity and the behaviour before the repairs -/

namespace C10ex
def S (s : String) : CName := s.toList
/-- `b`: tasks `t` (default; alias `tt` declared, `x-t` via add_task), `my-task` -/
def b : Coll := .mk (some (S "b")) true [(S "t", 1), (S "my-task", 2)] [(S "tt", S "t"), (S "x-t", S "t")] []
  (some (S "t")) []
/-- `in-ner`: default sub-collection `b` -/
def a : Coll := .mk (some (S "in-ner")) true [(S "u", 3)] [] [(S "b", b)] (some (S "b")) []
def root : Coll := .mk none true [(S "top", 4)] [(S "al", S "top")] [(S "in-ner", a)] none []
/-- auto-dash off at the root only (what `tasks.auto_dash_names = false` gives) -/
def mixed : Coll := .mk none false [(S "top_x", 4)] [] [(S "in_ner", a)] none []
end C10ex
open C10ex

example : wf root = true := by decide
example : wf mixed = true := by decide
example : taskNames root =
    [([S "top"], [[S "al"]]),
     ([S "in-ner", S "u"], []),
     ([S "in-ner", S "b", S "t"], [[S "in-ner", S "b", S "tt"], [S "in-ner", S "b", S "x-t"], [S "in-ner", S "b"], [S "in-ner"]]),
     ([S "in-ner", S "b", S "my-task"], [])] := by decide
example : canonical root [S "in-ner"] := ⟨by decide, by decide⟩
example : [S "in-ner"] ∈ acceptedNames root := by decide
example : ¬ canonical root [S "in_ner"] := fun h => absurd (h.2 (S "in_ner") (by decide)).2 (by decide)
-- the parent re-normalises what its sub-collections produced: underscores with the flag off at the root
example : (taskNames mixed).map (·.1) =
    [[S "top_x"], [S "in_ner", S "u"], [S "in_ner", S "b", S "t"], [S "in_ner", S "b", S "my_task"]] := by decide

example : uniformDash root.autoDash root = true := by decide
example : (flatListing root).map flatDeclared =
    [([S "top"], [[S "al"]]), ([S "in-ner", S "u"], []),
     ([S "in-ner", S "b", S "t"], [[S "in-ner", S "b", S "tt"], [S "in-ner", S "b", S "x-t"]]),
     ([S "in-ner", S "b", S "my-task"], [])] := by decide
example : jsonTasks (serialized root) =
    [(S "top", [S "al"]), (S "u", []), (S "t", [S "tt", S "x-t"]), (S "my-task", [])] := by decide
example : (bindings root []).map (Binding.flat root.autoDash) =
    [([S "top"], [[S "al"]]),
     ([S "in-ner", S "u"], []),
     ([S "in-ner", S "b", S "t"], [[S "in-ner", S "b"], [S "in-ner", S "b", S "tt"], [S "in-ner", S "b", S "x-t"]]),
     ([S "in-ner", S "b", S "my-task"], [])] := by decide
example : [S "in-ner", S "b", S "t"] ∈ acceptedNames root ∧ S "in-ner.b.t" ∈ acceptedStrings root := by decide
example : canonical root (splitOnDot (S "in-ner.b.x-t")) := ⟨by decide, by decide⟩

-- mixed settings (flag off at the root only): the listing shows what the CLI accepts, the JSON keeps `my-task`
example : (flatListing mixed).map (·.1) = (taskNames mixed).map (·.1) := by decide
example : [S "in_ner", S "b", S "my_task"] ∈ (flatListing mixed).map (·.1) ∧
    (S "my-task", []) ∈ jsonTasks (serialized mixed) ∧
    (S "my_task", []) ∈ (jsonTasks (serialized mixed)).map (normRecord mixed.autoDash) := by decide

/-- before "task listings show names as normalized by the top-level collection" (N4): with the flag off at
    the root only, the flat listing printed the sub-collection's own spelling `in_ner.b.my-task`, while the
    parser is keyed by `in_ner.b.my_task`; the repaired listing shows the latter -/
theorem mixed_dash_listing_counterexample :
    uniformDash mixed.autoDash mixed = false ∧
    [S "in_ner", S "b", S "my-task"] ∈ flatNamesPinned mixed ∧
    [S "in_ner", S "b", S "my-task"] ∉ acceptedNames mixed ∧
    [S "in_ner", S "b", S "my_task"] ∈ acceptedNames mixed ∧
    [S "in_ner", S "b", S "my_task"] ∈ (flatListing mixed).map (·.1) := by decide

/-- before "aliases given to add_task are accepted as CLI task names": a lexicon alias that is not the
    task's own was resolved by lookup but missing from the parser -/
theorem add_task_alias_counterexample :
    [S "al"] ∉ acceptedOwnOnly root ∧ [S "al"] ∈ acceptedNames root ∧ resolves (root.twc [S "al"]) = true := by
  decide

/-- before "default sub-collection chains yield the collection-name shortcut": only `coll.default ==
    task_name` was tested, so the chain `in-ner → b → t` gave no shortcut `in-ner` -/
theorem default_chain_shortcut_counterexample :
    isShortcut a.default none [S "b", S "t"] = false ∧
    isShortcut a.default (defaultTaskName a) [S "b", S "t"] = true := by decide

end Inv
