import Invoke.Lemmas.ConfigReach
import Invoke.Lemmas.ConfigInto
/-! # C11 — clones are faithful and independent; supplied data is never mutated

Property theorems only.  The model (`Model/Config.lean`) is pure: a configuration IS its ten data
slots and its view is a function of them, so what remains to be shown for faithfulness is that
`clone` carries EVERY slot — and the list of slots the real `Config.clone()` carries is regenerated
from the working tree by behavioural probing on every run (`Generated.cloneSlots`).

Independence / non-mutation of caller-held data are statements about object identity; the model has
none, so on the model they hold by construction (`clone_independent` states it as a frame theorem);
on the REAL objects they are established by the snapshot comparison and alias probe of
`harness/props/c11.py` (DESIGN.md C11: `copy_is_fresh` / `sources_unchanged` on a heap model are
stretch goals that were not attempted). -/
namespace Inv
open Inv.Hist

/-- TABLE OBLIGATION.  Every data slot of a configuration is among the slots the real
    `Config.clone()` was observed to carry over (dropping e.g. `deletions` or `overrides` from the
    clone loop breaks this `decide`). -/
theorem generated_clone_slots_complete : ∀ s ∈ Cfg.dataSlots, s ∈ Generated.cloneSlots := by decide

/-- The clone of any type-consistent configuration — whatever history produced its slots,
    modifications and deletion marks included — has exactly the original's slots. -/
theorem clone_slots_eq (c : Cfg) (hc : TypeOK c) : c.clone = .ok c :=
  cloneWith_complete Generated.cloneSlots generated_clone_slots_complete c hc

/-- HEADLINE.  A clone reads identically to its original at the moment of cloning: the same merged
    view, hence the same node at every key path (the view is a function of the slots). -/
theorem clone_view_eq (c : Cfg) (hc : TypeOK c) :
    ∃ k, c.clone = .ok k ∧ k.view = c.view ∧ ∀ p, node p k.viewT = node p c.viewT :=
  ⟨c, clone_slots_eq c hc, rfl, fun _ => rfl⟩

/-- In particular for every configuration REACHABLE by any history of reloads, navigated writes and
    deletions (`Reach`, C06): the clone reads identically — runtime modifications and deletions
    included — and, by C06's `reachable_reads_like_dict`, both read like the same nested dict. -/
theorem clone_of_reachable (c : Cfg) (es : List Edit) (h : Reach c es) :
    ∃ k, c.clone = .ok k ∧ k.view = c.view ∧ (∀ p, node p k.viewT = node p c.viewT) ∧ Reach k es :=
  ⟨c, clone_slots_eq c (reach_inv h).1, rfl, fun _ => rfl, h⟩

/-- ...and it keeps reading identically under the same later history (same reloads, same edits). -/
theorem clone_same_future (c : Cfg) (hc : TypeOK c) (ops : List HOp) :
    ∃ k, c.clone = .ok k ∧ run k ops = run c ops :=
  ⟨c, clone_slots_eq c hc, rfl⟩

/-- FRAME.  In any interleaving of operations addressed to the original and to the clone, each object
    ends up exactly where it would have ended up had only its own operations been run: nothing done
    to one side is observable on the other (pure model: by construction). -/
theorem clone_independent (c k : Cfg) (ops : List (Side × HOp)) :
    ops.foldl execPair (c, k) = (run c (opsOf .orig ops), run k (opsOf .clone ops)) :=
  runPair_frame ops c k

/-- in particular operations on the clone alone leave the original untouched, and vice versa -/
theorem clone_ops_leave_original (c k : Cfg) (ops : List HOp) :
    ((ops.map (fun o => (Side.clone, o))).foldl execPair (c, k)).1 = c := by
  rw [clone_independent]
  have : opsOf .orig (ops.map (fun o => (Side.clone, o))) = [] := by
    induction ops with
    | nil => rfl
    | cons o rest ih => simp [opsOf]
  simp [this, run]

/-- PRE-FIX BEHAVIOUR (divergence #2).  A clone that does not carry the deletion marks resurrects a
    deleted setting: `defaults = {a: {b: 1}}`, `del c.a.b`, clone. -/
theorem clone_without_deletions_counterexample :
    let c : Cfg := { defaults := [(['a'], .dict [(['b'], .leaf (.i 1))])],
                     dels := [(['a'], .dict [(['b'], .leaf .none)])] }
    let names := ["defaults", "collection", "system", "user", "project", "env", "runtime", "overrides", "modifications"]
    node [['a'], ['b']] c.viewT = none ∧
    ∃ k, Cfg.cloneWith names c [] = .ok k ∧ node [['a'], ['b']] k.viewT = some (.leaf (.i 1)) := by
  refine ⟨?_, ?_⟩
  · simp [Cfg.viewT, Cfg.baseT, Cfg.lower, viewT, mergeLevelsT, mergeT_cons, mergeVal, obl_cons, oblStep, Inv.insert, lookup, erase, node]
  · refine ⟨{ defaults := [(['a'], .dict [(['b'], .leaf (.i 1))])] }, ?_, ?_⟩
    · simp [Cfg.cloneWith, cloneSlots, cloneSlot, Slot.all, Slot.name, Cfg.get, Cfg.set, copyDict, mergeKVs_cons,
        mergeStep, Except.map, Inv.insert, lookup, Cfg.view, Cfg.lower, mergeLevels]
    · simp [Cfg.viewT, Cfg.baseT, Cfg.lower, viewT, mergeLevelsT, mergeT_cons, mergeVal, obl_cons, oblStep, Inv.insert, lookup, erase, node]

/-- `clone(into=Subclass)` (as repaired, finding C11-into-overwrites-defaults): the original's
    defaults level wins over the subclass's global defaults - a setting the original reads as `1`
    still reads `1` in the clone although the subclass defaults say `0` - and the subclass only
    contributes what the original lacks (`a.n`). -/
theorem clone_into_keeps_original_defaults :
    let c : Cfg := { defaults := [(['a'], .dict [(['b'], .leaf (.i 1))])] }
    let into : KVs := [(['a'], .dict [(['b'], .leaf (.i 0)), (['n'], .leaf (.i 5))])]
    node [['a'], ['b']] c.viewT = some (.leaf (.i 1)) ∧
    ∃ k, c.clone into = .ok k ∧ node [['a'], ['b']] k.viewT = some (.leaf (.i 1)) ∧
      node [['a'], ['n']] k.viewT = some (.leaf (.i 5)) := by
  refine ⟨?_, ?_⟩
  · simp [Cfg.viewT, Cfg.baseT, Cfg.lower, viewT, mergeLevelsT, mergeT_cons, mergeVal, obl_cons, oblStep, Inv.insert, lookup, erase, node]
  · refine ⟨{ defaults := [(['a'], .dict [(['b'], .leaf (.i 1)), (['n'], .leaf (.i 5))])] }, ?_, ?_, ?_⟩
    · simp [Cfg.clone, Generated.cloneSlots, Cfg.cloneWith, cloneSlots, cloneSlot, Slot.all, Slot.name, Cfg.get,
        Cfg.set, copyDict, mergeKVs_cons, mergeStep, Except.map, Inv.insert, lookup, Cfg.view, Cfg.lower, mergeLevels]
    · simp [Cfg.viewT, Cfg.baseT, Cfg.lower, viewT, mergeLevelsT, mergeT_cons, mergeVal, obl_cons, oblStep, Inv.insert, lookup, erase, node]
    · simp [Cfg.viewT, Cfg.baseT, Cfg.lower, viewT, mergeLevelsT, mergeT_cons, mergeVal, obl_cons, oblStep, Inv.insert, lookup, erase, node]

/-- GENERAL FORM.  `clone(into=Subclass)` of any type-consistent configuration, for subclass defaults
    type-consistent with it: (1) every key path the original's view defines - leaf or section, from
    whatever level, modifications included - reads THE SAME in the clone (the original wins); (2) a
    path the original does not define and that is not under a deletion mark reads what the subclass's
    global defaults say (only such paths become visible); (3) deleted paths stay absent. -/
theorem clone_into_original_wins (c : Cfg) (into : KVs) (hc : TypeOK c) (hci : Compat into c.defaults)
    (hk : TypeOK (intoCfg c into)) :
    ∃ k, c.clone into = .ok k ∧
      (∀ p x, node p c.viewT = some x → node p k.viewT = some x) ∧
      (∀ p, node p c.viewT = none → marked c.dels p = false → node p k.viewT = node p into) ∧
      (∀ p, marked c.dels p = true → node p k.viewT = none) := by
  refine ⟨intoCfg c into, cloneWith_into _ generated_clone_slots_complete c into hc hk hci, ?_, ?_, ?_⟩
  · intro p x hx
    have hm : marked c.dels p = false := by
      cases hmk : marked c.dels p with
      | false => rfl
      | true => rw [node_cfg_viewT c hc, hmk] at hx; simp at hx
    rw [node_into_viewT c into hc hk hci, hm, hx]; simp
  · intro p hn hm
    rw [node_into_viewT c into hc hk hci, hm, hn]; simp
  · intro p hm
    rw [node_into_viewT c into hc hk hci, hm]; simp

/-! Non-vacuity: a type-consistent configuration with a modification and a deletion mark, and its clone. -/

/-- `defaults = {a: {b: 1, c: 2}}`, after `c.a.z = 9` and `del c.a.b` -/
def c11Witness : Cfg :=
  { defaults := [(['a'], .dict [(['b'], .leaf (.i 1)), (['c'], .leaf (.i 2))])],
    mods := [(['a'], .dict [(['z'], .leaf (.i 9))])],
    dels := [(['a'], .dict [(['b'], .leaf .none)])] }

theorem c11Witness_typeOK : TypeOK c11Witness :=
  typeOK_simple (wfB_sound _ (by decide)) (wfB_sound _ (by decide)) (wfB_sound _ (by decide))
    (compatB_sound _ _ (by decide))

example : ∃ k, c11Witness.clone = .ok k ∧
    node [['a'], ['b']] k.viewT = none ∧ node [['a'], ['z']] k.viewT = some (.leaf (.i 9)) ∧
    node [['a'], ['c']] k.viewT = some (.leaf (.i 2)) := by
  refine ⟨_, clone_slots_eq _ c11Witness_typeOK, ?_, ?_, ?_⟩ <;>
  simp [c11Witness, Cfg.viewT, Cfg.baseT, Cfg.lower, viewT, mergeLevelsT, mergeT_cons, mergeVal, obl_cons, oblStep,
    Inv.insert, lookup, erase, node]

/-- the hypotheses of `clone_into_original_wins` are satisfiable: the witness cloned into a class whose
    global defaults are `{a: {b: 0, n: 5}, q: 1}` -/
def c11Into : KVs := [(['a'], .dict [(['b'], .leaf (.i 0)), (['n'], .leaf (.i 5))]), (['q'], .leaf (.i 1))]

example : TypeOK c11Witness ∧ Compat c11Into c11Witness.defaults ∧ TypeOK (intoCfg c11Witness c11Into) := by
  refine ⟨c11Witness_typeOK, compatB_sound _ _ (by decide), ?_⟩
  have e : mergeT c11Into c11Witness.defaults =
      [(['a'], .dict [(['b'], .leaf (.i 1)), (['n'], .leaf (.i 5)), (['c'], .leaf (.i 2))]), (['q'], .leaf (.i 1))] := by
    simp [c11Into, c11Witness, mergeT_cons, mergeVal, Inv.insert, lookup]
  unfold intoCfg
  rw [e]
  exact typeOK_simple (wfB_sound _ (by decide)) (wfB_sound _ (by decide)) (wfB_sound _ (by decide))
    (compatB_sound _ _ (by decide))

end Inv
