import Invoke.Lemmas.ConfigReach
import Invoke.Lemmas.ConfigInto
import Invoke.Lemmas.ConfigHeap
/-! # C11 — clones are faithful and independent; supplied data is never mutated

Property theorems only.  The model (`Model/Config.lean`) is pure: a configuration IS its ten data
slots and its view is a function of them, so what remains to be shown for faithfulness is that
`clone` carries EVERY slot — and the list of slots the real `Config.clone()` carries is regenerated
from the working tree by behavioural probing on every run (`Generated.cloneSlots`).

Independence / non-mutation of caller-held data are statements about object identity; the model has
none, so on the model they hold by construction (`clone_independent` states it as a frame theorem);
on the REAL objects they are established by the snapshot comparison and alias probe of
`harness/props/c11.py` (DESIGN.md C11: `copy_is_fresh` / `sources_unchanged` on a heap model are
stretch goals that were not attempted). -/
namespace Inv
open Inv.Hist

/-- TABLE OBLIGATION.  Every data slot of a configuration is among the slots the real
    `Config.clone()` was observed to carry over (dropping e.g. `deletions` or `overrides` from the
    clone loop breaks this `decide`). -/
theorem generated_clone_slots_complete : ∀ s ∈ Cfg.dataSlots, s ∈ Generated.cloneSlots := by decide

/-- The clone of any type-consistent configuration — whatever history produced its slots,
    modifications and deletion marks included — has exactly the original's slots. -/
theorem clone_slots_eq (c : Cfg) (hc : TypeOK c) : c.clone = .ok c :=
  cloneWith_complete Generated.cloneSlots generated_clone_slots_complete c hc

/-- HEADLINE.  A clone reads identically to its original at the moment of cloning: the same merged
    view, hence the same node at every key path (the view is a function of the slots). -/
theorem clone_view_eq (c : Cfg) (hc : TypeOK c) :
    ∃ k, c.clone = .ok k ∧ k.view = c.view ∧ ∀ p, node p k.viewT = node p c.viewT :=
  ⟨c, clone_slots_eq c hc, rfl, fun _ => rfl⟩

/-- In particular for every configuration REACHABLE by any history of reloads, navigated writes and
    deletions (`Reach`, C06): the clone reads identically — runtime modifications and deletions
    included — and, by C06's `reachable_reads_like_dict`, both read like the same nested dict. -/
theorem clone_of_reachable (c : Cfg) (es : List Edit) (h : Reach c es) :
    ∃ k, c.clone = .ok k ∧ k.view = c.view ∧ (∀ p, node p k.viewT = node p c.viewT) ∧ Reach k es :=
  ⟨c, clone_slots_eq c (reach_inv h).1, rfl, fun _ => rfl, h⟩

/-- ...and it keeps reading identically under the same later history (same reloads, same edits). -/
theorem clone_same_future (c : Cfg) (hc : TypeOK c) (ops : List HOp) :
    ∃ k, c.clone = .ok k ∧ run k ops = run c ops :=
  ⟨c, clone_slots_eq c hc, rfl⟩

/-- FRAME.  In any interleaving of operations addressed to the original and to the clone, each object
    ends up exactly where it would have ended up had only its own operations been run: nothing done
    to one side is observable on the other (pure model: by construction). -/
theorem clone_independent (c k : Cfg) (ops : List (Side × HOp)) :
    ops.foldl execPair (c, k) = (run c (opsOf .orig ops), run k (opsOf .clone ops)) :=
  runPair_frame ops c k

/-- in particular operations on the clone alone leave the original untouched, and vice versa -/
theorem clone_ops_leave_original (c k : Cfg) (ops : List HOp) :
    ((ops.map (fun o => (Side.clone, o))).foldl execPair (c, k)).1 = c := by
  rw [clone_independent]
  have : opsOf .orig (ops.map (fun o => (Side.clone, o))) = [] := by
    induction ops with
    | nil => rfl
    | cons o rest ih => simp [opsOf]
  simp [this, run]

/-- PRE-FIX BEHAVIOUR (divergence #2).  A clone that does not carry the deletion marks resurrects a
    deleted setting: `defaults = {a: {b: 1}}`, `del c.a.b`, clone. -/
theorem clone_without_deletions_counterexample :
    let c : Cfg := { defaults := [(['a'], .dict [(['b'], .leaf (.i 1))])],
                     dels := [(['a'], .dict [(['b'], .leaf .none)])] }
    let names := ["defaults", "collection", "system", "user", "project", "env", "runtime", "overrides", "modifications"]
    node [['a'], ['b']] c.viewT = none ∧
    ∃ k, Cfg.cloneWith names c [] = .ok k ∧ node [['a'], ['b']] k.viewT = some (.leaf (.i 1)) := by
  refine ⟨?_, ?_⟩
  · simp [Cfg.viewT, Cfg.baseT, Cfg.lower, viewT, mergeLevelsT, mergeT_cons, mergeVal, obl_cons, oblStep, Inv.insert, lookup, erase, node]
  · refine ⟨{ defaults := [(['a'], .dict [(['b'], .leaf (.i 1))])] }, ?_, ?_⟩
    · simp [Cfg.cloneWith, cloneSlots, cloneSlot, Slot.all, Slot.name, Cfg.get, Cfg.set, copyDict, mergeKVs_cons,
        mergeStep, Except.map, Inv.insert, lookup, Cfg.view, Cfg.lower, mergeLevels]
    · simp [Cfg.viewT, Cfg.baseT, Cfg.lower, viewT, mergeLevelsT, mergeT_cons, mergeVal, obl_cons, oblStep, Inv.insert, lookup, erase, node]

/-- `clone(into=Subclass)` (as repaired, finding C11-into-overwrites-defaults): the original's
    defaults level wins over the subclass's global defaults - a setting the original reads as `1`
    still reads `1` in the clone although the subclass defaults say `0` - and the subclass only
    contributes what the original lacks (`a.n`). -/
theorem clone_into_keeps_original_defaults :
    let c : Cfg := { defaults := [(['a'], .dict [(['b'], .leaf (.i 1))])] }
    let into : KVs := [(['a'], .dict [(['b'], .leaf (.i 0)), (['n'], .leaf (.i 5))])]
    node [['a'], ['b']] c.viewT = some (.leaf (.i 1)) ∧
    ∃ k, c.clone into = .ok k ∧ node [['a'], ['b']] k.viewT = some (.leaf (.i 1)) ∧
      node [['a'], ['n']] k.viewT = some (.leaf (.i 5)) := by
  refine ⟨?_, ?_⟩
  · simp [Cfg.viewT, Cfg.baseT, Cfg.lower, viewT, mergeLevelsT, mergeT_cons, mergeVal, obl_cons, oblStep, Inv.insert, lookup, erase, node]
  · refine ⟨{ defaults := [(['a'], .dict [(['b'], .leaf (.i 1)), (['n'], .leaf (.i 5))])] }, ?_, ?_, ?_⟩
    · simp [Cfg.clone, Generated.cloneSlots, Cfg.cloneWith, cloneSlots, cloneSlot, Slot.all, Slot.name, Cfg.get,
        Cfg.set, copyDict, mergeKVs_cons, mergeStep, Except.map, Inv.insert, lookup, Cfg.view, Cfg.lower, mergeLevels]
    · simp [Cfg.viewT, Cfg.baseT, Cfg.lower, viewT, mergeLevelsT, mergeT_cons, mergeVal, obl_cons, oblStep, Inv.insert, lookup, erase, node]
    · simp [Cfg.viewT, Cfg.baseT, Cfg.lower, viewT, mergeLevelsT, mergeT_cons, mergeVal, obl_cons, oblStep, Inv.insert, lookup, erase, node]

/-- GENERAL FORM.  `clone(into=Subclass)` of any type-consistent configuration, for subclass defaults
    type-consistent with it: (1) every key path the original's view defines - leaf or section, from
    whatever level, modifications included - reads THE SAME in the clone (the original wins); (2) a
    path the original does not define and that is not under a deletion mark reads what the subclass's
    global defaults say (only such paths become visible); (3) deleted paths stay absent. -/
theorem clone_into_original_wins (c : Cfg) (into : KVs) (hc : TypeOK c) (hci : Compat into c.defaults)
    (hk : TypeOK (intoCfg c into)) :
    ∃ k, c.clone into = .ok k ∧
      (∀ p x, node p c.viewT = some x → node p k.viewT = some x) ∧
      (∀ p, node p c.viewT = none → marked c.dels p = false → node p k.viewT = node p into) ∧
      (∀ p, marked c.dels p = true → node p k.viewT = none) := by
  refine ⟨intoCfg c into, cloneWith_into _ generated_clone_slots_complete c into hc hk hci, ?_, ?_, ?_⟩
  · intro p x hx
    have hm : marked c.dels p = false := by
      cases hmk : marked c.dels p with
      | false => rfl
      | true => rw [node_cfg_viewT c hc, hmk] at hx; simp at hx
    rw [node_into_viewT c into hc hk hci, hm, hx]; simp
  · intro p hn hm
    rw [node_into_viewT c into hc hk hci, hm, hn]; simp
  · intro p hm
    rw [node_into_viewT c into hc hk hci, hm]; simp

/-- A clone - plain or into any class - is a function of the CURRENT data slots only: two configurations
    whose ten slots agree have the same clone, whatever histories (earlier clones into the same class,
    merged or unmerged level loads, edits, deletions) produced them.  In the model this holds by
    construction (a `Cfg` IS its slots: no cache, no memo); it is stated because the implementation has
    to behave the same way, which the correspondence check of the clone-history family tests: model
    configuration after the same operation sequence -> `clone into` -> compared with the real clone. -/
theorem clone_depends_on_current_slots_only (c₁ c₂ : Cfg) (into : KVs) (h : ∀ s : Slot, c₁.get s = c₂.get s) :
    c₁.clone into = c₂.clone into := by
  have e : c₁ = c₂ := by
    cases c₁; cases c₂
    have h1 := h .defaults; have h2 := h .collection; have h3 := h .system; have h4 := h .user
    have h5 := h .project; have h6 := h .env; have h7 := h .runtime; have h8 := h .overrides
    have h9 := h .modifications; have h10 := h .deletions
    simp only [Cfg.get] at h1 h2 h3 h4 h5 h6 h7 h8 h9 h10
    subst h1 h2 h3 h4 h5 h6 h7 h8 h9 h10
    rfl
  rw [e]

/-- in particular a level replaced WITHOUT re-merging (`load_*(…, merge=False)`) is already the level a
    subsequent clone carries, and an earlier clone into the same class leaves no trace -/
theorem clone_after_unmerged_load (c : Cfg) (s : Slot) (data into : KVs) :
    (c.loadUnmerged s data).clone into = (c.set s data).clone into := rfl

/-! ## heap model: freshness of copies, caller-held data never written

`Model/ConfigHeap.lean`: dict objects at `Nat` addresses, `copy_dict` / `merge_dicts` / `obliterate` /
`excise` / the `_modify` and `_remove` walks / `Config.merge()` built from `alloc` and in-place `setD`.
The owner tag (`src` = data handed to the configuration, `own` = allocated by it) is ghost state. -/

/-- `copy_dict`: the heap only grows (no existing object is touched) and NO dict object reachable from
    the copy is reachable from the source - whatever the fuel, for every closed heap. -/
theorem copy_is_fresh (f : Nat) (h : Heap.Heap) (hc : Heap.Closed h) (src : Nat) (hs : src < h.length) :
    (∃ ext, (Heap.hcopy f h src).1 = h ++ ext) ∧
    ∀ x, Heap.Reach (Heap.hcopy f h src).1 (Heap.hcopy f h src).2 x → ¬ Heap.Reach (Heap.hcopy f h src).1 src x := by
  obtain ⟨ha, hge, ext, he⟩ := Heap.hcopy_fresh f h src h.length (Nat.le_refl _) (Heap.above_self h)
  refine ⟨⟨ext, he⟩, ?_⟩
  intro x hr hr'
  have h1 := Heap.reach_above ha hr hge
  rw [he] at hr'
  have h2 := Heap.reach_below hc hr' hs
  omega

/-- `Config.merge()`, `_modify` (value stored by reference into the modifications, deletion mark
    excised, re-merge) and `_remove` write only to objects the configuration owns or has just
    allocated: every caller-held dict object (`src`) has the same contents afterwards, at any nesting
    depth, and the invariant "owned objects reference only owned objects" is kept (so this holds along
    whole histories). -/
theorem sources_unchanged (f : Nat) (h : Heap.Heap) (c : Heap.HCfg) (hi : Heap.HInv h) (hc : Heap.HCfg.Owned h c) :
    (∀ a, a < h.length → Heap.ownerAt h a = .src → Heap.cellAt (c.merge f h).1 a = Heap.cellAt h a) ∧
    (∀ p v, Heap.ValOwn h v → Heap.HInv (c.modify f h p v).1 ∧ Heap.HCfg.Owned (c.modify f h p v).1 c ∧
      ∀ a, a < h.length → Heap.ownerAt h a = .src → Heap.cellAt (c.modify f h p v).1 a = Heap.cellAt h a) ∧
    (∀ p, Heap.HInv (c.remove f h p).1 ∧ Heap.HCfg.Owned (c.remove f h p).1 c ∧
      ∀ a, a < h.length → Heap.ownerAt h a = .src → Heap.cellAt (c.remove f h p).1 a = Heap.cellAt h a) := by
  refine ⟨(Heap.merge_spec f h c hi).2.src, ?_, ?_⟩
  · intro p v hv
    obtain ⟨m1, m2⟩ := Heap.modify_spec f h c p v hi hc hv
    exact ⟨m1, hc.mono m2, m2.src⟩
  · intro p
    obtain ⟨m1, m2⟩ := Heap.remove_spec f h c p hi hc
    exact ⟨m1, hc.mono m2, m2.src⟩

/-- `merge_dicts(base, updates)` with an owned `base` (the cache, a clone's slot): `updates` - typically
    caller-held - and every other caller-held object keep their contents. -/
theorem merge_dicts_leaves_sources (f : Nat) (h : Heap.Heap) (base upd : Nat) (hi : Heap.HInv h)
    (hb : base < h.length) (ho : Heap.ownerAt h base = .own) :
    ∀ a, a < h.length → Heap.ownerAt h a = .src → Heap.cellAt (Heap.hmerge f h base upd) a = Heap.cellAt h a :=
  (Heap.hmerge_spec f h base upd hi hb ho).2.src

/-! Non-vacuity: a type-consistent configuration with a modification and a deletion mark, and its clone. -/

/-- `defaults = {a: {b: 1, c: 2}}`, after `c.a.z = 9` and `del c.a.b` -/
def c11Witness : Cfg :=
  { defaults := [(['a'], .dict [(['b'], .leaf (.i 1)), (['c'], .leaf (.i 2))])],
    mods := [(['a'], .dict [(['z'], .leaf (.i 9))])],
    dels := [(['a'], .dict [(['b'], .leaf .none)])] }

theorem c11Witness_typeOK : TypeOK c11Witness :=
  typeOK_simple (wfB_sound _ (by decide)) (wfB_sound _ (by decide)) (wfB_sound _ (by decide))
    (compatB_sound _ _ (by decide))

example : ∃ k, c11Witness.clone = .ok k ∧
    node [['a'], ['b']] k.viewT = none ∧ node [['a'], ['z']] k.viewT = some (.leaf (.i 9)) ∧
    node [['a'], ['c']] k.viewT = some (.leaf (.i 2)) := by
  refine ⟨_, clone_slots_eq _ c11Witness_typeOK, ?_, ?_, ?_⟩ <;>
  simp [c11Witness, Cfg.viewT, Cfg.baseT, Cfg.lower, viewT, mergeLevelsT, mergeT_cons, mergeVal, obl_cons, oblStep,
    Inv.insert, lookup, erase, node]

/-- the hypotheses of `clone_into_original_wins` are satisfiable: the witness cloned into a class whose
    global defaults are `{a: {b: 0, n: 5}, q: 1}` -/
def c11Into : KVs := [(['a'], .dict [(['b'], .leaf (.i 0)), (['n'], .leaf (.i 5))]), (['q'], .leaf (.i 1))]

example : TypeOK c11Witness ∧ Compat c11Into c11Witness.defaults ∧ TypeOK (intoCfg c11Witness c11Into) := by
  refine ⟨c11Witness_typeOK, compatB_sound _ _ (by decide), ?_⟩
  have e : mergeT c11Into c11Witness.defaults =
      [(['a'], .dict [(['b'], .leaf (.i 1)), (['n'], .leaf (.i 5)), (['c'], .leaf (.i 2))]), (['q'], .leaf (.i 1))] := by
    simp [c11Into, c11Witness, mergeT_cons, mergeVal, Inv.insert, lookup]
  unfold intoCfg
  rw [e]
  exact typeOK_simple (wfB_sound _ (by decide)) (wfB_sound _ (by decide)) (wfB_sound _ (by decide))
    (compatB_sound _ _ (by decide))

/-- a heap satisfying the hypotheses of `sources_unchanged`: a caller-held `{a: {b: 1}}` (objects 0, 1) and
    the configuration's own modifications / deletions objects (2, 3) -/
def c11Heap : Heap.Heap :=
  [⟨.src, [(['a'], .ref 1)]⟩, ⟨.src, [(['b'], .leaf (.i 1))]⟩, ⟨.own, []⟩, ⟨.own, []⟩]

example : Heap.HInv c11Heap ∧ Heap.HCfg.Owned c11Heap ⟨[0], 2, 3, 0⟩ ∧ Heap.Closed c11Heap := by
  refine ⟨?_, ⟨⟨by decide, rfl⟩, ⟨by decide, rfl⟩⟩, ?_⟩
  · intro a c hc ho
    match a, hc with
    | 0, hc => simp [c11Heap] at hc; rw [← hc] at ho; cases ho
    | 1, hc => simp [c11Heap] at hc; rw [← hc] at ho; cases ho
    | 2, hc => simp [c11Heap] at hc; rw [← hc]; exact Heap.refsOwn_nil _
    | 3, hc => simp [c11Heap] at hc; rw [← hc]; exact Heap.refsOwn_nil _
    | n + 4, hc => simp [c11Heap] at hc
  · intro a k b hm
    match a with
    | 0 => simp [c11Heap, Heap.cellAt] at hm; rw [hm.2]; decide
    | 1 => simp [c11Heap, Heap.cellAt] at hm
    | 2 => simp [c11Heap, Heap.cellAt] at hm
    | 3 => simp [c11Heap, Heap.cellAt] at hm
    | n + 4 => simp [c11Heap, Heap.cellAt] at hm

/-- the heap model computes: `cfg.a.z = 9` on that heap leaves objects 0 and 1 alone, records the write in
    fresh objects below the modifications object (2 -> 4), and builds a fresh cache (5 -> 6) reading
    `{a: {b: 1, z: 9}}` -/
example : (Heap.HCfg.modify 4 c11Heap ⟨[0], 2, 3, 0⟩ [['a'], ['z']] (.leaf (.i 9))) =
    ([⟨.src, [(['a'], .ref 1)]⟩, ⟨.src, [(['b'], .leaf (.i 1))]⟩, ⟨.own, [(['a'], .ref 4)]⟩, ⟨.own, []⟩,
      ⟨.own, [(['z'], .leaf (.i 9))]⟩, ⟨.own, [(['a'], .ref 6)]⟩,
      ⟨.own, [(['b'], .leaf (.i 1)), (['z'], .leaf (.i 9))]⟩],
     ⟨[0], 2, 3, 5⟩) := by decide

end Inv
