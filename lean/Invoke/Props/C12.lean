import Invoke.Lemmas.Watcher
/-! # C12 — auto-responses depend on the output text, not on how it was chunked

Property theorems only; helper lemmas live in `Invoke/Lemmas/Watcher.lean`.
Patterns are fixed-width sequences of character classes (DESIGN.md, C12). -/
namespace Inv

/-- HEADLINE.  For every fixed-width pattern and every way of splitting the output into reads, the
    responder answers exactly once per leftmost non-overlapping occurrence in the *whole* text. -/
theorem responder_chunk_invariant (p : Pat) (hp : 0 < p.length) (chunks : List (List Char)) :
    runChunks (submit p) 0 [] chunks = (findall p chunks.flatten).length := by
  have := runFixed_eq p hp [] chunks
  simpa [lastEnd, findall, starts] using this

/-- any two chunkings of the same text produce the same number of responses -/
theorem responder_chunkings_agree (p : Pat) (hp : 0 < p.length) (c₁ c₂ : List (List Char))
    (h : c₁.flatten = c₂.flatten) :
    runChunks (submit p) 0 [] c₁ = runChunks (submit p) 0 [] c₂ := by
  rw [responder_chunk_invariant p hp, responder_chunk_invariant p hp, h]

/-- never re-answers: after any prefix of reads the index sits at the end of the last answered
    occurrence, and a further read adds exactly the *new* occurrences. -/
theorem never_reanswers (p : Pat) (hp : 0 < p.length) (T c : List Char) :
    submit p (lastEnd p T) (T ++ c) =
      (lastEnd p (T ++ c), (findall p (T ++ c)).length - (findall p T).length) :=
  (submit_spec p hp T c).1

/-- a read that brings no new occurrence produces no response (in particular an empty re-submit) -/
theorem no_new_text_no_response (p : Pat) (hp : 0 < p.length) (T : List Char) :
    (submit p (lastEnd p T) T).2 = 0 := by
  have := (submit_spec p hp T []).1
  simp only [List.append_nil] at this
  rw [this]; simp

/-- the index rule the code had before the repair was chunk-dependent:
    "PASS: PA" | "SS" answers once, the whole text has two occurrences. -/
theorem responder_pinned_counterexample :
    runChunks (submitPinned ("PASS".toList.map Cls.lit)) 0 [] ["PASS: PA".toList, "SS".toList] = 1 ∧
    (findall ("PASS".toList.map Cls.lit) "PASS: PASS".toList).length = 2 := by decide

/-- non-vacuity: the same witness on the repaired rule gives 2 -/
example : runChunks (submit ("PASS".toList.map Cls.lit)) 0 [] ["PASS: PA".toList, "SS".toList] = 2 := by decide
example : 0 < ("PASS".toList.map Cls.lit).length := by decide

end Inv
