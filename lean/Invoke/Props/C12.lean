import Invoke.Lemmas.Watcher
/-! # C12 — auto-responses depend on the output text, not on how it was chunked

Property theorems only; helper lemmas live in `Invoke/Lemmas/Watcher.lean`.
Patterns are fixed-width sequences of character classes (DESIGN.md, C12). -/
namespace Inv

/-- HEADLINE.  For every fixed-width pattern and every way of splitting the output into reads, the
    responder answers exactly once per leftmost non-overlapping occurrence in the *whole* text. -/
theorem responder_chunk_invariant (p : Pat) (hp : 0 < p.length) (chunks : List (List Char)) :
    runChunks (submit p) 0 [] chunks = (findall p chunks.flatten).length := by
  have := runFixed_eq p hp [] chunks
  simpa [lastEnd, findall, starts] using this

/-- any two chunkings of the same text produce the same number of responses -/
theorem responder_chunkings_agree (p : Pat) (hp : 0 < p.length) (c₁ c₂ : List (List Char))
    (h : c₁.flatten = c₂.flatten) :
    runChunks (submit p) 0 [] c₁ = runChunks (submit p) 0 [] c₂ := by
  rw [responder_chunk_invariant p hp, responder_chunk_invariant p hp, h]

/-- never re-answers: after any prefix of reads the index sits at the end of the last answered
    occurrence, and a further read adds exactly the *new* occurrences. -/
theorem never_reanswers (p : Pat) (hp : 0 < p.length) (T c : List Char) :
    submit p (lastEnd p T) (T ++ c) =
      (lastEnd p (T ++ c), (findall p (T ++ c)).length - (findall p T).length) :=
  (submit_spec p hp T c).1

/-- a read that brings no new occurrence produces no response (in particular an empty re-submit) -/
theorem no_new_text_no_response (p : Pat) (hp : 0 < p.length) (T : List Char) :
    (submit p (lastEnd p T) T).2 = 0 := by
  have := (submit_spec p hp T []).1
  simp only [List.append_nil] at this
  rw [this]; simp

/-- the index rule the code had before the repair was chunk-dependent:
    "PASS: PA" | "SS" answers once, the whole text has two occurrences. -/
theorem responder_pinned_counterexample :
    runChunks (submitPinned ("PASS".toList.map Cls.lit)) 0 [] ["PASS: PA".toList, "SS".toList] = 1 ∧
    (findall ("PASS".toList.map Cls.lit) "PASS: PASS".toList).length = 2 := by decide

/-- non-vacuity: the same witness on the repaired rule gives 2 -/
example : runChunks (submit ("PASS".toList.map Cls.lit)) 0 [] ["PASS: PA".toList, "SS".toList] = 2 := by decide
example : 0 < ("PASS".toList.map Cls.lit).length := by decide


/-! ### FailingResponder -/

/-- a failing-responder NEVER raises when its sentinel does not occur in the output, however the
    output is split into reads -/
theorem failing_never_raises_without_sentinel (p sent : Pat) (hs : 0 < sent.length) (chunks : List (List Char))
    (h : findall sent chunks.flatten = []) : none ∉ frun p sent {} [] chunks :=
  frun_never_raises p sent hs {} [] chunks rfl (by simpa using h)

/-- a failing-responder raises when the sentinel arrives in a read after earlier reads that did not
    contain it: the run over `pre ++ [c] ++ rest` produces ordinary responses for every read of `pre`
    and raises exactly at `c`, whatever follows.  (The code sets its `tried` flag on ANY completed
    submit - it tests the truthiness of a generator - so "after it has responded" is implied by
    "after an earlier read"; a sentinel in the very first read does not raise.) -/
theorem failing_raises_after_response (p sent : Pat) (hs : 0 < sent.length) (pre : List (List Char))
    (hpre : pre ≠ []) (c : List Char) (rest : List (List Char))
    (h1 : findall sent pre.flatten = []) (h2 : findall sent (pre.flatten ++ c) ≠ []) :
    ∃ outs : List Nat, outs.length = pre.length ∧
      frun p sent {} [] (pre ++ c :: rest) = outs.map some ++ [none] :=
  frun_raises_at p sent hs pre c rest {} [] rfl (Or.inr hpre) (by simpa using h1) (by simpa using h2)

/-- non-vacuity: "pw:" answered, then "bad" arrives split across two later reads -/
example : frun ("pw:".toList.map Cls.lit) ("bad".toList.map Cls.lit) {} [] ["pw".toList, ": b".toList, "ad".toList, "x".toList]
    = [some 0, some 1, none] := by decide
example : none ∉ frun ("pw:".toList.map Cls.lit) ("bad".toList.map Cls.lit) {} [] ["pw".toList, ": ba".toList, "_d".toList] := by decide

end Inv
