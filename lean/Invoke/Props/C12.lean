import Invoke.Lemmas.Watcher
/-! # C12 — auto-responses depend on the output text, not on how it was chunked

Property theorems only; helper lemmas live in `Invoke/Lemmas/Watcher.lean`.
Patterns are fixed-width sequences of character classes (DESIGN.md, C12). -/
namespace Inv

/-- HEADLINE.  For every fixed-width pattern and every way of splitting the output into reads, the
    responder answers exactly once per leftmost non-overlapping occurrence in the *whole* text. -/
theorem responder_chunk_invariant (p : Pat) (hp : 0 < p.length) (chunks : List (List Char)) :
    runChunks (submit p) 0 [] chunks = (findall p chunks.flatten).length := by
  have := runFixed_eq p hp [] chunks
  simpa [lastEnd, findall, starts] using this

/-- any two chunkings of the same text produce the same number of responses -/
theorem responder_chunkings_agree (p : Pat) (hp : 0 < p.length) (c₁ c₂ : List (List Char))
    (h : c₁.flatten = c₂.flatten) :
    runChunks (submit p) 0 [] c₁ = runChunks (submit p) 0 [] c₂ := by
  rw [responder_chunk_invariant p hp, responder_chunk_invariant p hp, h]

/-- never re-answers: after any prefix of reads the index sits at the end of the last answered
    occurrence, and a further read adds exactly the *new* occurrences. -/
theorem never_reanswers (p : Pat) (hp : 0 < p.length) (T c : List Char) :
    submit p (lastEnd p T) (T ++ c) =
      (lastEnd p (T ++ c), (findall p (T ++ c)).length - (findall p T).length) :=
  (submit_spec p hp T c).1

/-- a read that brings no new occurrence produces no response (in particular an empty re-submit) -/
theorem no_new_text_no_response (p : Pat) (hp : 0 < p.length) (T : List Char) :
    (submit p (lastEnd p T) T).2 = 0 := by
  have := (submit_spec p hp T []).1
  simp only [List.append_nil] at this
  rw [this]; simp

/-- the index rule the code had before the repair was chunk-dependent:
    "PASS: PA" | "SS" answers once, the whole text has two occurrences. -/
theorem responder_pinned_counterexample :
    runChunks (submitPinned ("PASS".toList.map Cls.lit)) 0 [] ["PASS: PA".toList, "SS".toList] = 1 ∧
    (findall ("PASS".toList.map Cls.lit) "PASS: PASS".toList).length = 2 := by decide

/-- non-vacuity: the same witness on the repaired rule gives 2 -/
example : runChunks (submit ("PASS".toList.map Cls.lit)) 0 [] ["PASS: PA".toList, "SS".toList] = 2 := by decide
example : 0 < ("PASS".toList.map Cls.lit).length := by decide

/-! ### when each response is issued -/

/-- the per-read trace (what the correspondence check compares with the real `Responder`, read by
    read): for every pattern and every chunking, the number of responses issued at a read is exactly
    the number of occurrences that this read adds to the text seen so far - a response is issued at
    the read that completes its occurrence, never earlier, never later, never twice. -/
theorem responses_issued_at_completing_read (p : Pat) (hp : 0 < p.length) (chunks : List (List Char)) :
    runChunksTrace (submit p) 0 [] chunks = newPerRead p [] chunks := by
  have := runTrace_eq p hp [] chunks
  simpa [lastEnd, findall, starts] using this

/-- the per-read counts add up to the chunk-independent total of the headline -/
theorem per_read_responses_sum_to_total (p : Pat) (hp : 0 < p.length) (chunks : List (List Char)) :
    (runChunksTrace (submit p) 0 [] chunks).sum = (findall p chunks.flatten).length := by
  rw [runTrace_sum, responder_chunk_invariant p hp]

/-- non-vacuity: "PASS: PA" | "SS" | "!" answers at the first and the second read, not at the third -/
example : runChunksTrace (submit ("PASS".toList.map Cls.lit)) 0 []
    ["PASS: PA".toList, "SS".toList, "!".toList] = [1, 1, 0] := by decide

/-! ### one occurrence spanning many reads -/

/-- the headline instantiated where it is least obvious: EVERY read is shorter than a single
    occurrence of the pattern (so every occurrence is delivered in several reads, and the text that
    starts it was already scanned - without a hit - by earlier submits).  The hypothesis is not
    needed for the proof; the statement is the explicit instance. -/
theorem responder_span_exceeds_reads (p : Pat) (hp : 0 < p.length) (chunks : List (List Char))
    (_hshort : ∀ c ∈ chunks, c.length < p.length) :
    runChunks (submit p) 0 [] chunks = (findall p chunks.flatten).length :=
  responder_chunk_invariant p hp chunks

/-- concrete long-span witness: pattern `a..........b` (width 12), every read has 1 or 2 characters,
    two occurrences, each delivered in nine reads; answered exactly twice, as in the whole text -/
example :
    let p : Pat := Cls.lit 'a' :: (List.replicate 10 Cls.any ++ [Cls.lit 'b'])
    let chunks : List (List Char) :=
      ["x", "a0", "1", "23", "4", "56", "7", "89", "b", ".a", "01", "2", "34", "5", "67", "8", "9b", "!"].map String.toList
    (∀ c ∈ chunks, c.length < p.length) ∧
      runChunksTrace (submit p) 0 [] chunks = [0, 0, 0, 0, 0, 0, 0, 0, 1, 0, 0, 0, 0, 0, 0, 0, 1, 0] ∧
      runChunks (submit p) 0 [] chunks = 2 ∧ (findall p chunks.flatten).length = 2 := by decide

/-- a responder that forgets text it scanned without a hit (here: rescans only the last 4 characters
    seen before the new read) is NOT chunk independent on that witness: this is what the theorem
    excludes.  `submit` from index `seen.length - 4` instead of from the stored index. -/
example :
    let p : Pat := Cls.lit 'a' :: (List.replicate 10 Cls.any ++ [Cls.lit 'b'])
    (submit p ("xa0123456789".length - 4) "xa0123456789b".toList).2 = 0 ∧
      (submit p 0 "xa0123456789b".toList).2 = 1 := by decide


/-! ### FailingResponder -/

/-- a failing-responder NEVER raises when its sentinel does not occur in the output, however the
    output is split into reads -/
theorem failing_never_raises_without_sentinel (p sent : Pat) (hs : 0 < sent.length) (chunks : List (List Char))
    (h : findall sent chunks.flatten = []) : none ∉ frun p sent {} [] chunks :=
  frun_never_raises p sent hs {} [] chunks rfl (by simpa using h)

/-- a failing-responder raises when the sentinel arrives in a read after earlier reads that did not
    contain it: the run over `pre ++ [c] ++ rest` produces ordinary responses for every read of `pre`
    and raises exactly at `c`, whatever follows.  (The code sets its `tried` flag on ANY completed
    submit - it tests the truthiness of a generator - so "after it has responded" is implied by
    "after an earlier read"; a sentinel in the very first read does not raise.) -/
theorem failing_raises_after_response (p sent : Pat) (hs : 0 < sent.length) (pre : List (List Char))
    (hpre : pre ≠ []) (c : List Char) (rest : List (List Char))
    (h1 : findall sent pre.flatten = []) (h2 : findall sent (pre.flatten ++ c) ≠ []) :
    ∃ outs : List Nat, outs.length = pre.length ∧
      frun p sent {} [] (pre ++ c :: rest) = outs.map some ++ [none] :=
  frun_raises_at p sent hs pre c rest {} [] rfl (Or.inr hpre) (by simpa using h1) (by simpa using h2)

/-- non-vacuity: "pw:" answered, then "bad" arrives split across two later reads -/
example : frun ("pw:".toList.map Cls.lit) ("bad".toList.map Cls.lit) {} [] ["pw".toList, ": b".toList, "ad".toList, "x".toList]
    = [some 0, some 1, none] := by decide
example : none ∉ frun ("pw:".toList.map Cls.lit) ("bad".toList.map Cls.lit) {} [] ["pw".toList, ": ba".toList, "_d".toList] := by decide

/-! ### several commands on one Context: fresh responders, configured watchers untouched -/

/-- a FRESH responder's answers are a function of the text: the responses of one command, per
    watcher, are the occurrences in that command's whole output -/
theorem fresh_responses_depend_on_text_only (ws : List Pat) (hws : ∀ p ∈ ws, 0 < p.length)
    (chunks : List (List Char)) :
    cmdResponses ws chunks = ws.map (fun p => (findall p chunks.flatten).length) := by
  unfold cmdResponses
  apply List.map_congr_left
  intro p hp
  exact responder_chunk_invariant p (hws p hp) chunks

/-- in ANY history of `run`/`sudo` commands on one Context every command is answered exactly as its
    own watchers (configured ones, plus the one password responder for sudo) demand on its own
    output: neither the chunking nor the earlier commands matter -/
theorem history_determined_by_own_text (conf : List Pat) (cmds : List Cmd)
    (hw : ∀ c ∈ cmds, ∀ p ∈ c.watchers conf, 0 < p.length) :
    history conf cmds = cmds.map (cmdReference conf) := by
  induction cmds with
  | nil => rfl
  | cons c cs ih =>
    have ih' := ih (fun c' hc' => hw c' (List.mem_cons_of_mem _ hc'))
    show cmdResponses (c.watchers conf) c.chunks :: history conf cs = _
    rw [ih', fresh_responses_depend_on_text_only _ (hw c (by simp))]
    rfl

/-- the answers to a command do not depend on what ran before (or after) it on the same Context -/
theorem history_earlier_commands_irrelevant (conf : List Pat) (pre : List Cmd) (c : Cmd) (post : List Cmd) :
    (history conf (pre ++ c :: post))[pre.length]? = some (cmdResponses (c.watchers conf) c.chunks) := by
  induction pre with
  | nil => rfl
  | cons d ds ih =>
    show (cmdResponses (d.watchers conf) d.chunks :: history conf (ds ++ c :: post))[ds.length + 1]? = _
    simpa using ih

/-- the configured watchers are the same list after any history -/
theorem history_leaves_configuration (conf : List Pat) (cmds : List Cmd) :
    cmds.foldl Cmd.confAfter conf = conf := by
  induction cmds with
  | nil => rfl
  | cons c cs ih => simpa [List.foldl, Cmd.confAfter] using ih

/-- a sudo that leaves its responder in the configured list breaks exactly this: the second sudo
    answers its single prompt twice, a later plain run is answered although it has no watcher -/
theorem history_leaky_counterexample :
    let pw : Pat := "pw:".toList.map Cls.lit
    let cmds : List Cmd := [⟨some pw, none, ["pw:".toList]⟩, ⟨some pw, none, ["p".toList, "w:".toList]⟩, ⟨none, none, ["say pw: x".toList]⟩]
    historyLeaky [] cmds = [[1], [1, 1], [1, 1]] ∧ history [] cmds = [[1], [1], []] ∧
      cmds.map (cmdReference []) = [[1], [1], []] := by decide

end Inv
