import Invoke.Lemmas.RunnerStdin
import Invoke.Lemmas.RunnerReuse
import Invoke.Lemmas.Encode
import Invoke.Lemmas.Utf8Roundtrip
import Invoke.Lemmas.Decode
/-! # C13 — input-stream text reaches the command complete, in order, then EOF

Stated over EVERY schedule (`Inv.run` over arbitrary lists of thread steps and environment
actions) of the runner transition system, from every initial configuration.  The input stream is a
script of `data d` / `notReady` / `eof` reads; `fwd` is what the stdin handler wrote to the child.
Helper lemmas: `Lemmas/RunnerStdin.lean`. -/
namespace Inv

/-- HEADLINE: nothing read from the input stream is lost, duplicated or reordered:
    forwarded ++ (read but not yet written) ++ (data still in the stream) = the whole input -/
theorem stdin_forwarded_exactly (hi ht w p e : Bool) (o er : List Chunk) (ins : List InItem) (ho sf : Bool)
    (n : Nat) (asy : Bool) (evs : List Ev) :
    let s := run (S.init hi ht w p e o er ins ho sf n asy) evs
    s.fwd ++ s.inPending ++ dataOf s.inScript = dataOf ins :=
  (stdinInv_run ins _ evs (stdinInv_init hi ht w p e o er ins ho sf n asy)).cons

/-- what the child received from the handler is always a prefix of the input text -/
theorem forwarded_is_prefix (hi ht w p e : Bool) (o er : List Chunk) (ins : List InItem) (ho sf : Bool)
    (n : Nat) (asy : Bool) (evs : List Ev) :
    ∃ rest, dataOf ins = (run (S.init hi ht w p e o er ins ho sf n asy) evs).fwd ++ rest := by
  have h := stdin_forwarded_exactly hi ht w p e o er ins ho sf n asy evs
  exact ⟨_, by rw [← h, List.append_assoc]⟩

/-- once the stream is exhausted and nothing is pending, the child has received exactly the input -/
theorem exhausted_input_fully_forwarded (hi ht w p e : Bool) (o er : List Chunk) (ins : List InItem) (ho sf : Bool)
    (n : Nat) (asy : Bool) (evs : List Ev) :
    let s := run (S.init hi ht w p e o er ins ho sf n asy) evs
    s.inScript = [] → s.inPending = [] → s.fwd = dataOf ins := by
  intro s h1 h2
  have h := stdin_forwarded_exactly hi ht w p e o er ins ho sf n asy evs
  simp only [] at h
  rw [h1, h2] at h
  simpa [dataOf] using h

/-- the child's stdin is closed at most once, exactly when the handler saw EOF without a pty,
    and never under a pty -/
theorem eof_closes_at_most_once (hi ht w p e : Bool) (o er : List Chunk) (ins : List InItem) (ho sf : Bool)
    (n : Nat) (asy : Bool) (evs : List Ev) :
    let s := run (S.init hi ht w p e o er ins ho sf n asy) evs
    s.closeCount ≤ 1 ∧ (s.closeCount = 1 ↔ s.inClosed = true) ∧ (s.pty = true → s.closeCount = 0) := by
  have h := stdinInv_run ins _ evs (stdinInv_init hi ht w p e o er ins ho sf n asy)
  have hc := h.closes
  have hp := h.ptyNoClose
  generalize run (S.init hi ht w p e o er ins ho sf n asy) evs = s at hc hp
  simp only []
  refine ⟨?_, ?_, ?_⟩
  · rw [hc]; split <;> omega
  · rw [hc]; by_cases hx : s.inClosed = true <;> simp [hx]
  · intro hpty
    rw [hc, hp hpty]; rfl

/-- a read that reports EOF (or an exhausted stream) without a pty is followed by exactly one close -/
theorem eof_read_leads_to_close (s : S) (r : List InItem) (hs : s.hasStdin = true) (hr : s.inPc = .read)
    (he : s.inScript = .eof :: r ∨ s.inScript = []) (hp : s.pty = false) (hc : s.inClosed = false) :
    (step s .stdin).inPc = .close ∧
    (step (step s .stdin) .stdin).closeCount = s.closeCount + 1 ∧
    (step (step s .stdin) .stdin).inClosed = true := by
  rcases he with he | he <;> simp [step, stdinStep, hs, hr, he, hp, hc]

/-- under a pty an EOF on the input stream closes nothing -/
theorem pty_eof_no_close (s : S) (r : List InItem) (hs : s.hasStdin = true) (hr : s.inPc = .read)
    (he : s.inScript = .eof :: r) (hp : s.pty = true) :
    (step s .stdin).inPc = .isSet false ∧ (step s .stdin).closeCount = s.closeCount := by
  simp [step, stdinStep, hs, hr, he, hp]

/-- echo rule: an explicit `echo_stdin` wins; by default input is mirrored iff it is a terminal and
    no pty is used -/
theorem echo_table (p t : Bool) :
    effEcho (some true) p t = true ∧ effEcho (some false) p t = false ∧
    effEcho none p t = (!p && t) := ⟨rfl, rfl, rfl⟩

/-- what is mirrored is exactly the forwarded text when echoing, and nothing otherwise -/
theorem echo_mirrors_forwarded (hi ht w p e : Bool) (o er : List Chunk) (ins : List InItem) (ho sf : Bool)
    (n : Nat) (asy : Bool) (evs : List Ev) :
    let s := run (S.init hi ht w p e o er ins ho sf n asy) evs
    s.echoed = if e then s.fwd else [] := by
  have h := (stdinInv_run ins _ evs (stdinInv_init hi ht w p e o er ins ho sf n asy)).echoed
  have ho' := opts_run (S.init hi ht w p e o er ins ho sf n asy) evs
  simp only [S.opts, Prod.mk.injEq] at ho'
  have he : (run (S.init hi ht w p e o er ins ho sf n asy) evs).echo = e := by
    have := ho'.2.2.2.2.1; simpa [S.init] using this
  simp only []
  rw [h, he]

/-- a disabled input stream forwards nothing and closes nothing (watcher responses are written by
    the reader threads, not by the handler) -/
theorem disabled_input_forwards_nothing (ht w p e : Bool) (o er : List Chunk) (ins : List InItem) (ho sf : Bool)
    (n : Nat) (asy : Bool) (evs : List Ev) :
    let s := run (S.init false ht w p e o er ins ho sf n asy) evs
    s.fwd = [] ∧ s.closeCount = 0 := by
  have h := stdinInv_run ins _ evs (stdinInv_init false ht w p e o er ins ho sf n asy)
  have ho' := opts_run (S.init false ht w p e o er ins ho sf n asy) evs
  simp only [S.opts, Prod.mk.injEq] at ho'
  exact h.noStdin (by have := ho'.1; simpa [S.init] using this)

/-- the handler leaves its loop only after the program was flagged as finished -/
theorem handler_exits_only_after_finish (hi ht w p e : Bool) (o er : List Chunk) (ins : List InItem) (ho sf : Bool)
    (n : Nat) (asy : Bool) (evs : List Ev) :
    let s := run (S.init hi ht w p e o er ins ho sf n asy) evs
    s.inPc = .done → s.fin = true :=
  (stdinInv_run ins _ evs (stdinInv_init hi ht w p e o er ins ho sf n asy)).doneFin

/-- the don't-care region: input that only becomes available after the command has exited need not
    be forwarded - the handler stops once the program is finished and a read yields nothing -/
example :
    let s := run (S.init true false false false false [] [] [.data [104], .notReady, .data [33], .eof] false false 1000)
      ([.act .stdin, .act .stdin, .act .stdin, .env (.exit 0), .act .main, .act .main, .act .main] ++
       List.replicate 6 (.act .stdin))
    s.fwd = [[104]] ∧ s.closeCount = 0 ∧ s.inPc = .done := by decide

/-- non-vacuity: "hi", not-ready, "!" and EOF, with the process exiting afterwards, are forwarded
    completely and in order, then the child's stdin is closed once and the handler exits -/
example :
    let s := run (S.init true false false false false [] [] [.data [104], .data [105], .notReady, .data [33], .eof] false false 1000)
      (List.replicate 14 (.act .stdin) ++ [.env (.exit 0), .act .main, .act .main, .act .main, .act .stdin, .act .stdin])
    s.fwd = [[104], [105], [33]] ∧ s.closeCount = 1 ∧ s.inPc = .done := by decide

/-! ## the encoding step (`write_proc_stdin`) -/

/-- ENCODING: forwarding the input piece by piece through ONE incremental encoder yields the encoding of the whole
    text, for every encoder (stateful or not) and every way the text was cut into pieces -/
theorem encode_incremental_eq_whole (E : Encoder) (pieces : List (List Nat)) :
    E.encodeIncremental pieces = E.encodeWhole pieces.flatten := by
  unfold Encoder.encodeIncremental Encoder.encodeWhole
  rw [Encoder.runPieces_flatten]

/-- HEADLINE (composition with `exhausted_input_fully_forwarded`): once the input stream is exhausted and nothing is
    pending, the bytes the command has received are the encoding, in the effective encoding, of exactly the input
    text - on every schedule, from every initial configuration, for every encoder -/
theorem command_receives_encoding_of_input (E : Encoder) (hi ht w p e : Bool) (o er : List Chunk) (ins : List InItem)
    (ho sf : Bool) (n : Nat) (asy : Bool) (evs : List Ev) :
    let s := run (S.init hi ht w p e o er ins ho sf n asy) evs
    s.inScript = [] → s.inPending = [] → E.encodeIncremental s.fwd = E.encodeWhole (dataOf ins).flatten := by
  intro s h1 h2
  rw [encode_incremental_eq_whole, exhausted_input_fully_forwarded hi ht w p e o er ins ho sf n asy evs h1 h2]

/-- encoding every piece on its own is the same thing only for encoders without state ... -/
theorem stateless_per_piece_eq_whole (E : Encoder) (h : E.Stateless) (pieces : List (List Nat)) :
    E.encodePerPiece pieces = E.encodeWhole pieces.flatten := by
  unfold Encoder.encodePerPiece Encoder.encodeWhole
  induction pieces with
  | nil => simp [Encoder.run]
  | cons p ps ih =>
    simp only [List.map_cons, List.flatten_cons]
    rw [Encoder.run_append, ih, Encoder.stateless_run E h (E.run E.init p).1]

theorem utf8_stateless : utf8enc.Stateless := fun _ _ => rfl
theorem latin1_stateless : latin1enc.Stateless := fun _ _ => rfl

/-- ... and NOT for encoders with a start-of-stream marker: `utf-16` text "ab" forwarded as two pieces, each encoded
    on its own, carries a second byte-order mark (the defect `C13-bom-per-piece`, repaired) -/
theorem per_piece_repeats_marker_counterexample :
    utf16enc.encodePerPiece [[97], [98]] = [0xFF, 0xFE, 97, 0, 0xFF, 0xFE, 98, 0] ∧
    utf16enc.encodeIncremental [[97], [98]] = [0xFF, 0xFE, 97, 0, 98, 0] ∧
    utf8sigenc.encodePerPiece [[97], [98]] ≠ utf8sigenc.encodeWhole [97, 98] := by decide

/-- a marker encoder writes its marker exactly once per stream: before the first code point and never again -/
theorem utf16_marker_once (c : Nat) (cs : List Nat) :
    utf16enc.encodeWhole (c :: cs) = [0xFF, 0xFE] ++ (c :: cs).flatMap u16bytes := by
  unfold Encoder.encodeWhole
  have h : ∀ cs : List Nat, (utf16enc.run true cs).2 = cs.flatMap u16bytes := by
    intro cs
    induction cs with
    | nil => rfl
    | cons d ds ih =>
      simp only [Encoder.run, List.flatMap_cons]
      show ([] ++ u16bytes d) ++ (utf16enc.run true ds).2 = _
      rw [ih]; simp
  simp only [Encoder.run, List.flatMap_cons]
  show ([0xFF, 0xFE] ++ u16bytes c) ++ (utf16enc.run true cs).2 = _
  rw [h]; simp

example : utf16enc.encodeWhole [0x61, 0xF1, 0x1F600] = [0xFF, 0xFE, 0x61, 0, 0xF1, 0, 0x3D, 0xD8, 0x00, 0xDE] := by decide
example : utf8enc.encodeWhole [0x61, 0xF1, 0x20AC, 0x1F600] = [0x61, 0xC3, 0xB1, 0xE2, 0x82, 0xAC, 0xF0, 0x9F, 0x98, 0x80] := by decide

/-! ## byte-mode input: decode, then encode -/

/-- BYTE INPUT (UTF-8): an input stream opened in byte mode that carries the UTF-8 encoding of a text, read in ANY
    pieces (reads may end inside a character): decoding the reads with one incremental decoder (`read_our_stdin`, which
    never flushes it) and encoding the resulting text (`write_proc_stdin`) hands the command exactly the bytes of the
    stream.  (A stream that is NOT the encoding of a text is outside the property: undecodable bytes arrive as U+FFFD,
    the bytes of a character the stream ends in the middle of are dropped - `truncated_tail_is_dropped` - and the
    correspondence compares model and code on such streams too.) -/
theorem byte_input_reaches_command_verbatim (cs : List Nat) (hv : ∀ c ∈ cs, ValidCp c) (reads : List (List Byte))
    (hr : reads.flatten = cs.flatMap u8bytes) :
    utf8enc.encodeWhole ((utf8.decodeUnflushed reads).map Char.toNat) = reads.flatten := by
  have hd : utf8.decodeUnflushed reads = cs.map Char.ofNat := by
    simp only [Decoder.decodeUnflushed, Decoder.runChunks_flatten, hr]
    show (utf8.run {} (cs.flatMap u8bytes)).2 = _
    rw [utf8_run_encoded cs hv]
  have hm : (cs.map Char.ofNat).map Char.toNat = cs := by
    rw [List.map_map]
    conv => rhs; rw [← List.map_id cs]
    exact List.map_congr_left (fun c hc => toNat_ofNat_valid c (hv c hc))
  rw [hd, hm, utf8enc_whole, hr]

/-- what the code does with a stream ending inside a character: nothing is forwarded for the dangling bytes -/
theorem truncated_tail_is_dropped :
    utf8enc.encodeWhole ((utf8.decodeUnflushed [[0x61], [0xC3]]).map Char.toNat) = [0x61] := by decide

/-- the hypotheses are satisfiable with reads that end inside characters: "añ€😀" read as 2 + 3 + 4 + 1 bytes -/
example : (∀ c ∈ [0x61, 0xF1, 0x20AC, 0x1F600], ValidCp c) ∧
    [[0x61, 0xC3], [0xB1, 0xE2, 0x82], [0xAC, 0xF0, 0x9F, 0x98], [0x80]].flatten = [0x61, 0xF1, 0x20AC, 0x1F600].flatMap u8bytes ∧
    utf8enc.encodeWhole ((utf8.decodeUnflushed [[0x61, 0xC3], [0xB1, 0xE2, 0x82], [0xAC, 0xF0, 0x9F, 0x98], [0x80]]).map Char.toNat)
      = [0x61, 0xC3, 0xB1, 0xE2, 0x82, 0xAC, 0xF0, 0x9F, 0x98, 0x80] := by
  refine ⟨?_, by decide, by decide⟩
  intro c hc
  simp at hc
  rcases hc with rfl | rfl | rfl | rfl <;> (unfold ValidCp; omega)

/-! ## runs on one runner object -/

/-- REUSE: the model starts every run from `S.init` / resolves every call's options from that call alone.  The table
    regenerated from the real `Local` - attributes that differ, when the second run's workers start, between a fresh
    object and one that has already timed out / failed / read half a character / answered a watcher / lost a worker /
    run asynchronously / used a pty / used other options - contains only inert leftovers (`RunnerReuse.inertLeftovers`):
    no event, codec, watcher list, timer or kill flag of an earlier run is in effect. -/
theorem reused_runner_starts_like_fresh :
    ∀ r ∈ Generated.carriedOver, RunnerReuse.rowInert r = true := by decide

/-- the probe is not vacuous: every first run it drives does leave per-run state behind -/
theorem reuse_probe_dirties_state :
    RunnerReuse.everyScenarioDirties = true ∧ 10 ≤ Generated.dirtyScenarios.length ∧ 20 ≤ Generated.probedAttrs.length := by
  decide

end Inv
