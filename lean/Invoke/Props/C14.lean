import Invoke.Lemmas.RunnerTimer
/-! # C14 — a timed-out command is killed and reported promptly; a timely one is left alone

Over EVERY schedule of the runner transition system (timer expiry, kill, process exit, reads,
main-thread steps in any order).  `timed_out` is derived by the code from the liveness of the
Timer thread at decision time and the timer is only cancelled in `stop()`, so both orderings
"decide while the Timer thread is still inside `kill()`" and "the timer expires after the command
has finished but before `stop()`" are reachable: the full statements are therefore FALSE of the
code (DESIGN.md section 4 #26, a recorded known finding pinned by the repository's own tests); they
are witnessed here by `…_counterexample` theorems, and the `_partial` theorems carry the excluding
hypothesis.  Helper lemmas: `Lemmas/RunnerTimer.lean`. -/
namespace Inv

/-- a timed-out failure is only ever reported after the kill was issued and the timer ran to
    completion: `CommandTimedOut` ⇒ exactly one kill -/
theorem timed_out_means_killed (hi ht w p e : Bool) (o er : List Chunk) (ins : List InItem) (ho sf : Bool)
    (n : Nat) (evs : List Ev) (rc : Int) :
    (run (S.init hi ht w p e o er ins ho sf n) evs).outcome = .timedOut rc →
    (run (S.init hi ht w p e o er ins ho sf n) evs).kills = 1 ∧
    (run (S.init hi ht w p e o er ins ho sf n) evs).tmPc = .done := by
  intro h
  have inv := timerInv_run _ evs (timerInv_init hi ht w p e o er ins ho sf n)
  have hd := inv.timedOutDone rc h
  exact ⟨by rw [inv.kills, hd]; rfl, hd⟩

/-- the command is killed at most once -/
theorem kills_at_most_once (hi ht w p e : Bool) (o er : List Chunk) (ins : List InItem) (ho sf : Bool)
    (n : Nat) (evs : List Ev) :
    (run (S.init hi ht w p e o er ins ho sf n) evs).kills ≤ 1 := by
  have inv := timerInv_run _ evs (timerInv_init hi ht w p e o er ins ho sf n)
  rw [inv.kills]; split <;> omega

/-- without a timeout nothing is ever killed and no timed-out failure is ever raised -/
theorem no_timeout_no_kill (hi w p e : Bool) (o er : List Chunk) (ins : List InItem) (ho sf : Bool)
    (n : Nat) (evs : List Ev) :
    (run (S.init hi false w p e o er ins ho sf n) evs).kills = 0 ∧
    ∀ rc, (run (S.init hi false w p e o er ins ho sf n) evs).outcome ≠ .timedOut rc := by
  have inv := timerInv_run _ evs (timerInv_init hi false w p e o er ins ho sf n)
  have ho' := opts_run (S.init hi false w p e o er ins ho sf n) evs
  simp only [S.opts, Prod.mk.injEq] at ho'
  have hnt : (run (S.init hi false w p e o er ins ho sf n) evs).hasTimer = false := by
    have := ho'.2.1; simpa [S.init] using this
  have hnone := inv.noneIff.2 (Or.inl hnt)
  refine ⟨by rw [inv.kills, hnone]; rfl, ?_⟩
  intro rc hrc
  have := inv.timedOutDone rc hrc
  rw [hnone] at this; cases this

/-- `timeout_kills_and_raises_partial`: when the timer has expired, killed and run to completion
    before the main thread decides, the run raises the timed-out failure - whatever `warn` is and
    whatever the exit status - carrying the status the kill produced. -/
theorem timeout_kills_and_raises_partial (s : S) (hc : s.mainPc = .checkTimeout) (ht : s.tmPc = .done) :
    (step s .main).outcome = .timedOut s.rc := by
  simp [step, mainStep, hc, ht, decideOutcome, timerAlive]

/-- expiry kills: from an armed timer, two timer steps issue exactly one kill and leave the child
    ended (status -9 unless it had ended already) -/
theorem expiry_kills (s : S) (hh : s.hasTimer = true) (ha : s.tmPc = .armed) :
    (step (step s .timer) .timer).kills = s.kills + 1 ∧ (step (step s .timer) .timer).exited = true ∧
    (s.exited = false → (step (step s .timer) .timer).rc = -9) := by
  simp only [step, timerStep, hh, ha, Bool.not_true, Bool.false_eq_true, if_false, killEffect]
  split <;> simp_all

/-- `timely_command_normal_partial`: when the command has finished and the main thread decides
    while the timer is still armed, the outcome ignores the timer (normal return / unexpected exit
    by status and `warn`), the timer is cancelled by `stop()`, -/
theorem timely_command_normal_partial (s : S) (hc : s.mainPc = .checkTimeout) (ha : s.tmPc = .armed) :
    (step s .main).outcome = decideOutcome s false ∧
    (∀ rc, (step s .main).outcome ≠ .timedOut rc) ∧
    (step (step s .main) .main).tmPc = .cancelled ∧ (step (step s .main) .main).mainPc = .done := by
  refine ⟨by simp [step, mainStep, hc, ha, timerAlive], ?_, by simp [step, mainStep, hc, ha], by simp [step, mainStep, hc, ha]⟩
  intro rc
  have : (step s .main).outcome = decideOutcome s false := by simp [step, mainStep, hc, ha, timerAlive]
  rw [this]; exact decideOutcome_false_ne s rc

/-- … and a cancelled timer never kills: along every later schedule the kill count stays put -/
theorem cancelled_never_kills (s : S) (evs : List Ev) (hc : s.tmPc = .cancelled) :
    (run s evs).tmPc = .cancelled ∧ (run s evs).kills = s.kills ∧ (run s evs).killsAfterReturn = s.killsAfterReturn := by
  induction evs generalizing s with
  | nil => exact ⟨hc, rfl, rfl⟩
  | cons e r ih =>
    simp only [run, List.foldl_cons] at ih ⊢
    have key : (evStep s e).tmPc = .cancelled ∧ (evStep s e).kills = s.kills ∧
        (evStep s e).killsAfterReturn = s.killsAfterReturn := by
      cases e with
      | env e => cases e <;> simp only [evStep, envStep] <;> (try split) <;> simp_all
      | act a =>
        cases a with
        | out => exact ⟨hc, rfl, rfl⟩
        | err => simp only [evStep, step]; split <;> exact ⟨hc, rfl, rfl⟩
        | timer => simp only [evStep, step, timerStep, hc]; split <;> exact ⟨hc, rfl, rfl⟩
        | stdin => simp only [evStep, step, stdinStep]; (repeat' split) <;> exact ⟨hc, rfl, rfl⟩
        | main =>
          simp only [evStep, step]
          unfold mainStep nextJoin enterJoin afterJoins
          cases s.mainPc <;> simp only [] <;> (repeat' split) <;> simp_all
    obtain ⟨k1, k2, k3⟩ := key
    obtain ⟨i1, i2, i3⟩ := ih (evStep s e) k1
    exact ⟨i1, by rw [i2, k2], by rw [i3, k3]⟩

/-! ### Counterexamples: the full statements fail on the code as it is (known finding #26) -/

def raceInit (warn : Bool) : S := S.init false true warn false false [] [] [] false false 1000

/-- (i) `timeout_kills_and_raises` is false: the timer expires and kills the still-running command,
    but the main thread decides while the Timer thread has not finished: under `warn` the run
    RETURNS a result with status -9 instead of raising the timed-out failure. -/
theorem timeout_raises_counterexample :
    (run (raceInit true) [.act .timer, .act .timer, .act .main, .act .main, .act .main, .act .out, .act .main,
                          .act .err, .act .main, .act .main, .act .main]).outcome = .ret (-9) ∧
    (run (raceInit true) [.act .timer, .act .timer, .act .main, .act .main, .act .main, .act .out, .act .main,
                          .act .err, .act .main, .act .main, .act .main]).kills = 1 := by decide

/-- (ii) `timely_command_normal` is false: the command exits with status 0 BEFORE the timer expires,
    yet the timer fires during the joins: a kill is issued on the finished process and the timed-out
    failure is raised. -/
theorem timely_command_counterexample :
    (run (raceInit false) [.env (.exit 0), .act .main, .act .main, .act .main, .act .timer, .act .timer, .act .timer,
                           .act .out, .act .main, .act .err, .act .main, .act .main, .act .main]).outcome = .timedOut 0 ∧
    (run (raceInit false) [.env (.exit 0), .act .main, .act .main, .act .main, .act .timer, .act .timer, .act .timer,
                           .act .out, .act .main, .act .err, .act .main, .act .main, .act .main]).kills = 1 := by decide

/-- (iii) "nothing is killed afterwards" is false: the timer expires just before `stop()` (which
    only cancels an armed timer); the kill is issued after `run` has already returned normally. -/
theorem kill_after_return_counterexample :
    (run (raceInit false) [.env (.exit 0), .act .main, .act .main, .act .main, .act .out, .act .main, .act .err, .act .main,
                           .act .main, .act .timer, .act .main, .act .timer]).outcome = .ret 0 ∧
    (run (raceInit false) [.env (.exit 0), .act .main, .act .main, .act .main, .act .out, .act .main, .act .err, .act .main,
                           .act .main, .act .timer, .act .main, .act .timer]).killsAfterReturn = 1 := by decide

/-- non-vacuity of the intended behaviour: expiry, kill and timer completion before main decides
    gives the timed-out failure under `warn` too -/
example :
    (run (raceInit true) [.act .timer, .act .timer, .act .timer, .act .main, .act .main, .act .main, .act .out, .act .main,
                          .act .err, .act .main, .act .main, .act .main]).outcome = .timedOut (-9) := by decide

/-- non-vacuity: a timely command with the timer still armed returns normally, timer cancelled, no kill -/
example :
    let s := run (raceInit false) [.env (.exit 0), .act .main, .act .main, .act .main, .act .out, .act .main, .act .err,
                                   .act .main, .act .main, .act .main, .act .timer, .act .timer]
    s.outcome = .ret 0 ∧ s.tmPc = .cancelled ∧ s.kills = 0 := by decide

end Inv
