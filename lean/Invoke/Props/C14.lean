import Invoke.Lemmas.RunnerTimer
import Invoke.Lemmas.RunnerPrompt
import Invoke.Lemmas.RunnerReuse
import Invoke.Lemmas.RunnerJoined
/-! # C14 — a timed-out command is killed and reported promptly; a timely one is left alone

Over EVERY schedule of the runner transition system (timer expiry, kill, process exit, reads,
main-thread steps and environment events in any order).

The repaired code (fix commit "timeout reporting no longer depends on Timer-thread timing") keeps
three facts under a lock - `_process_done` (the wait loop saw the subprocess ended), `_kill_issued`
(`kill()` ran while it was not known to have ended), `_kill_skipped` (`kill()` found it ended and did
nothing) - disarms the timer as soon as the wait loop has seen a timely end, and reports a timeout
iff a kill was issued.  "The command exceeds its timeout" is therefore, in the model as in the
code, "the Timer thread's `kill()` ran before the main thread saw the subprocess ended"
(`killIssued`), and "it finishes before its timeout" is "the main thread saw it ended before any
kill was issued" (`Timely`).  With that reading both halves of the property hold on EVERY
schedule, including the three interleavings that were known finding #26 of the unrepaired code
(`race_*_repaired` below replay exactly those schedules).  Helper lemmas and the invariant
`TimerInv`: `Lemmas/RunnerTimer.lean`. -/
namespace Inv

/-- **timeout_kills_and_raises** - if the timer expired and its kill was issued (the command had
    not been seen to end), then once `run` completes it raises the timed-out failure - whatever
    `warn` is, whatever the exit status - unless a worker thread died (which is reported first,
    C08).  The command has been killed exactly once and has ended. -/
theorem timeout_kills_and_raises (hi ht w p e : Bool) (o er : List Chunk) (ins : List InItem) (ho sf : Bool)
    (n : Nat) (asy : Bool) (evs : List Ev)
    (hk : (run (S.init hi ht w p e o er ins ho sf n asy) evs).killIssued = true)
    (hdone : (run (S.init hi ht w p e o er ins ho sf n asy) evs).mainPc = .done) :
    ((run (S.init hi ht w p e o er ins ho sf n asy) evs).outcome = .threadExc ∨
     ∃ rc, (run (S.init hi ht w p e o er ins ho sf n asy) evs).outcome = .timedOut rc) ∧
    (run (S.init hi ht w p e o er ins ho sf n asy) evs).kills = 1 ∧
    (run (S.init hi ht w p e o er ins ho sf n asy) evs).exited = true := by
  have inv := timerInv_run _ evs (timerInv_init hi ht w p e o er ins ho sf n asy)
  refine ⟨inv.issuedTimedOut (by rw [hdone]; rfl) hk, by rw [inv.kills, hk]; rfl, ?_⟩
  exact killed_exited_run _ evs (by simp [S.init]) hk

/-- the kill count IS the `kill issued` flag: the command is killed at most once, and exactly once
    iff the timer's kill ran before the command was seen to end -/
theorem kills_eq_issued (hi ht w p e : Bool) (o er : List Chunk) (ins : List InItem) (ho sf : Bool)
    (n : Nat) (asy : Bool) (evs : List Ev) :
    (run (S.init hi ht w p e o er ins ho sf n asy) evs).kills =
      if (run (S.init hi ht w p e o er ins ho sf n asy) evs).killIssued then 1 else 0 :=
  (timerInv_run _ evs (timerInv_init hi ht w p e o er ins ho sf n asy)).kills

/-- a timed-out failure is only ever reported after the kill was issued: `CommandTimedOut` ⇒ exactly
    one kill, and the command has ended -/
theorem timed_out_means_killed (hi ht w p e : Bool) (o er : List Chunk) (ins : List InItem) (ho sf : Bool)
    (n : Nat) (asy : Bool) (evs : List Ev) (rc : Int) :
    (run (S.init hi ht w p e o er ins ho sf n asy) evs).outcome = .timedOut rc →
    (run (S.init hi ht w p e o er ins ho sf n asy) evs).kills = 1 ∧
    (run (S.init hi ht w p e o er ins ho sf n asy) evs).exited = true := by
  intro h
  have inv := timerInv_run _ evs (timerInv_init hi ht w p e o er ins ho sf n asy)
  have hk := inv.timedOutIssued rc h
  exact ⟨by rw [inv.kills, hk]; rfl, killed_exited_run _ evs (by simp [S.init]) hk⟩

/-- the command is killed at most once -/
theorem kills_at_most_once (hi ht w p e : Bool) (o er : List Chunk) (ins : List InItem) (ho sf : Bool)
    (n : Nat) (asy : Bool) (evs : List Ev) :
    (run (S.init hi ht w p e o er ins ho sf n asy) evs).kills ≤ 1 := by
  have inv := timerInv_run _ evs (timerInv_init hi ht w p e o er ins ho sf n asy)
  rw [inv.kills]; split <;> omega

/-- **timely_command_normal** - if at any point of any schedule the main thread has seen the command
    ended and no kill had been issued (`evs₁`), then along EVERY continuation (`evs₂`): nothing is
    ever killed (neither before nor after `run` returns), the timed-out failure is never raised, the
    exit status stays the command's own, and once `run` completes its outcome is the ordinary one -
    a normal return or the unexpected-exit failure, by exit status and `warn` - unless a worker
    thread died. -/
theorem timely_command_normal (hi ht w p e : Bool) (o er : List Chunk) (ins : List InItem) (ho sf : Bool)
    (n : Nat) (asy : Bool) (evs₁ evs₂ : List Ev)
    (hpd : (run (S.init hi ht w p e o er ins ho sf n asy) evs₁).processDone = true)
    (hnk : (run (S.init hi ht w p e o er ins ho sf n asy) evs₁).killIssued = false) :
    (run (S.init hi ht w p e o er ins ho sf n asy) (evs₁ ++ evs₂)).kills = 0 ∧
    (run (S.init hi ht w p e o er ins ho sf n asy) (evs₁ ++ evs₂)).killsAfterReturn = 0 ∧
    (∀ rc, (run (S.init hi ht w p e o er ins ho sf n asy) (evs₁ ++ evs₂)).outcome ≠ .timedOut rc) ∧
    (run (S.init hi ht w p e o er ins ho sf n asy) (evs₁ ++ evs₂)).rc = (run (S.init hi ht w p e o er ins ho sf n asy) evs₁).rc ∧
    ((run (S.init hi ht w p e o er ins ho sf n asy) (evs₁ ++ evs₂)).mainPc = .done →
      (run (S.init hi ht w p e o er ins ho sf n asy) (evs₁ ++ evs₂)).outcome = .threadExc ∨
      (run (S.init hi ht w p e o er ins ho sf n asy) (evs₁ ++ evs₂)).outcome =
        decideOutcome (run (S.init hi ht w p e o er ins ho sf n asy) (evs₁ ++ evs₂)) false) := by
  have happ : run (S.init hi ht w p e o er ins ho sf n asy) (evs₁ ++ evs₂) =
      run (run (S.init hi ht w p e o er ins ho sf n asy) evs₁) evs₂ := by simp [run, List.foldl_append]
  have inv1 := timerInv_run _ evs₁ (timerInv_init hi ht w p e o er ins ho sf n asy)
  have inv2 := timerInv_run _ (evs₁ ++ evs₂) (timerInv_init hi ht w p e o er ins ho sf n asy)
  have sh2 := outcomeShape_run _ (evs₁ ++ evs₂) (timerInv_init hi ht w p e o er ins ho sf n asy)
    (outcomeShape_init hi ht w p e o er ins ho sf n asy)
  obtain ⟨t1, t2⟩ := timely_run _ evs₂ ⟨hpd, hnk⟩
  rw [← happ] at t1 t2
  have hk0 : (run (S.init hi ht w p e o er ins ho sf n asy) (evs₁ ++ evs₂)).kills = 0 := by rw [inv2.kills, t2]; rfl
  have hnt : ∀ rc, (run (S.init hi ht w p e o er ins ho sf n asy) (evs₁ ++ evs₂)).outcome ≠ .timedOut rc := by
    intro rc hrc; have := inv2.timedOutIssued rc hrc; rw [t2] at this; cases this
  refine ⟨hk0, ?_, hnt, ?_, ?_⟩
  · have := inv2.late; omega
  · rw [happ]; exact (rc_frozen_run _ evs₂ (inv1.doneExited hpd)).1
  · intro hd
    have hsf : (run (S.init hi ht w p e o er ins ho sf n asy) (evs₁ ++ evs₂)).startFails = false := by
      cases hx : (run (S.init hi ht w p e o er ins ho sf n asy) (evs₁ ++ evs₂)).startFails with
      | false => rfl
      | true => exact (startFails_never_done hi ht w p e o er ins ho sf n asy (evs₁ ++ evs₂) hx t1).elim
    rcases sh2 (by rw [hd]; rfl) hsf with h | h | h
    · exact Or.inl h
    · obtain ⟨rc, hrc⟩ := h; exact absurd hrc (hnt rc)
    · exact Or.inr h

/-- **timeout_reported_promptly** ("promptly" as a bound on fair rounds, composing C08's termination
    argument with the bookkeeping invariant): from ANY reachable state in which the kill has been
    issued, if no grandchild holds the pipes, every sequence of more than `mu` fair rounds of thread
    steps - in any order inside each round, with or without further timer steps - ends with `run`
    over, every worker finished, exactly one kill, and the timed-out failure raised (whatever `warn`
    and the exit status are) unless a worker thread died.  `mu` counts the bytes still in the pipes,
    the input items still to forward and main's remaining program points - NOT how much longer the
    command would have run. -/
theorem timeout_reported_promptly (hi ht w p e : Bool) (o er : List Chunk) (ins : List InItem) (sf : Bool)
    (n : Nat) (asy : Bool) (hn : 0 < n) (evs : List Ev) (rs : List (List Actor))
    (hk : (run (S.init hi ht w p e o er ins false sf n asy) evs).killIssued = true)
    (hc : ∀ r ∈ rs, Covers r) (hl : mu (run (S.init hi ht w p e o er ins false sf n asy) evs) < rs.length) :
    Terminal (rs.foldl runRound (run (S.init hi ht w p e o er ins false sf n asy) evs)) ∧
    ((rs.foldl runRound (run (S.init hi ht w p e o er ins false sf n asy) evs)).outcome = .threadExc ∨
     ∃ rc, (rs.foldl runRound (run (S.init hi ht w p e o er ins false sf n asy) evs)).outcome = .timedOut rc) ∧
    (rs.foldl runRound (run (S.init hi ht w p e o er ins false sf n asy) evs)).kills = 1 := by
  have hx := killed_exited_run _ evs (by simp [S.init]) hk
  have hho : (run (S.init hi ht w p e o er ins false sf n asy) evs).holdOpen = false := by
    have := opts_run (S.init hi ht w p e o er ins false sf n asy) evs
    simp only [S.opts, Prod.mk.injEq] at this
    rw [this.2.2.2.2.2.1]; simp [S.init]
  obtain ⟨c1, c2⟩ := closedInv_run _ evs (closedInv_init hi ht w p e o er ins false sf n asy) hx hho
  have hterm := reachable_terminates' hi ht w p e o er ins false sf n asy hn evs rs hx c1 c2 hc hl
  have hrun : rs.foldl runRound (run (S.init hi ht w p e o er ins false sf n asy) evs) =
      run (S.init hi ht w p e o er ins false sf n asy) (evs ++ rs.flatten.map .act) := by
    rw [rounds_eq_run]; simp [run, List.foldl_append]
  rw [hrun] at hterm ⊢
  have hk' : (run (S.init hi ht w p e o er ins false sf n asy) (evs ++ rs.flatten.map .act)).killIssued = true := by
    have := killIssued_mono_run _ (rs.flatten.map .act) hk
    simpa [run, List.foldl_append] using this
  exact ⟨hterm, (timeout_kills_and_raises hi ht w p e o er ins false sf n asy _ hk' hterm.1).1,
    (timeout_kills_and_raises hi ht w p e o er ins false sf n asy _ hk' hterm.1).2.1⟩

/-- without a timeout nothing is ever killed and no timed-out failure is ever raised -/
theorem no_timeout_no_kill (hi w p e : Bool) (o er : List Chunk) (ins : List InItem) (ho sf : Bool)
    (n : Nat) (asy : Bool) (evs : List Ev) :
    (run (S.init hi false w p e o er ins ho sf n asy) evs).kills = 0 ∧
    ∀ rc, (run (S.init hi false w p e o er ins ho sf n asy) evs).outcome ≠ .timedOut rc := by
  have inv := timerInv_run _ evs (timerInv_init hi false w p e o er ins ho sf n asy)
  have ho' := opts_run (S.init hi false w p e o er ins ho sf n asy) evs
  simp only [S.opts, Prod.mk.injEq] at ho'
  have hnt : (run (S.init hi false w p e o er ins ho sf n asy) evs).hasTimer = false := by
    have := ho'.2.1; simpa [S.init] using this
  have hnone := inv.noneIff.2 (Or.inl hnt)
  have hf := inv.fired
  rw [hnone] at hf
  have hki : (run (S.init hi false w p e o er ins ho sf n asy) evs).killIssued = false := by
    simp [timerFired] at hf; exact hf.1
  refine ⟨by rw [inv.kills, hki]; rfl, ?_⟩
  intro rc hrc
  have := inv.timedOutIssued rc hrc
  rw [hki] at this; cases this

/-- expiry kills: from an armed timer whose command has not been seen to end, two timer steps issue
    exactly one kill and leave the child ended (status -9 unless it had ended already) -/
theorem expiry_kills (s : S) (hh : s.hasTimer = true) (ha : s.tmPc = .armed) (hp : s.processDone = false) :
    (step (step s .timer) .timer).kills = s.kills + 1 ∧ (step (step s .timer) .timer).exited = true ∧
    (step (step s .timer) .timer).killIssued = true ∧
    (s.exited = false → (step (step s .timer) .timer).rc = -9) := by
  simp only [step, timerStep, hh, ha, hp, Bool.not_true, Bool.false_eq_true, if_false, killEffect]
  split <;> simp_all

/-- … while a timer that expires after the command was seen to end kills nothing -/
theorem late_expiry_kills_nothing (s : S) (hh : s.hasTimer = true) (ha : s.tmPc = .armed) (hp : s.processDone = true) :
    (step (step s .timer) .timer).kills = s.kills ∧ (step (step s .timer) .timer).killIssued = s.killIssued ∧
    (step (step s .timer) .timer).rc = s.rc := by
  simp [step, timerStep, hh, ha, hp]

/-- a cancelled timer never kills: along every later schedule the kill count stays put -/
theorem cancelled_never_kills (s : S) (evs : List Ev) (hc : s.tmPc = .cancelled) :
    (run s evs).tmPc = .cancelled ∧ (run s evs).kills = s.kills ∧ (run s evs).killsAfterReturn = s.killsAfterReturn := by
  induction evs generalizing s with
  | nil => exact ⟨hc, rfl, rfl⟩
  | cons e r ih =>
    simp only [run, List.foldl_cons] at ih ⊢
    have key : (evStep s e).tmPc = .cancelled ∧ (evStep s e).kills = s.kills ∧
        (evStep s e).killsAfterReturn = s.killsAfterReturn := by
      cases e with
      | env e => cases e <;> simp only [evStep, envStep] <;> (try split) <;> simp_all
      | act a =>
        cases a with
        | out => exact ⟨hc, rfl, rfl⟩
        | err => simp only [evStep, step]; split <;> exact ⟨hc, rfl, rfl⟩
        | timer => simp only [evStep, step, timerStep, hc]; split <;> exact ⟨hc, rfl, rfl⟩
        | stdin => simp only [evStep, step, stdinStep]; (repeat' split) <;> exact ⟨hc, rfl, rfl⟩
        | main =>
          simp only [evStep, step]
          unfold mainStep nextJoin enterJoin afterJoins leaveWait
          cases s.mainPc <;> simp only [] <;> (repeat' split) <;> simp_all
    obtain ⟨k1, k2, k3⟩ := key
    obtain ⟨i1, i2, i3⟩ := ih (evStep s e) k1
    exact ⟨i1, by rw [i2, k2], by rw [i3, k3]⟩

/-! ### The three race schedules of the former known finding #26, replayed on the repaired model -/

def raceInit (warn : Bool) : S := S.init false true warn false false [] [] [] false false 1000

/-- (i) the timer expires and kills the still-running command and the main thread decides while the
    Timer thread has not finished: formerly `warn` made the run RETURN status -9; now it raises the
    timed-out failure. -/
theorem race_decide_during_kill_repaired :
    (run (raceInit true) [.act .timer, .act .timer, .act .main, .act .main, .act .main, .act .out, .act .main,
                          .act .err, .act .main, .act .main, .act .main]).outcome = .timedOut (-9) ∧
    (run (raceInit true) [.act .timer, .act .timer, .act .main, .act .main, .act .main, .act .out, .act .main,
                          .act .err, .act .main, .act .main, .act .main]).kills = 1 := by decide

/-- (ii) the command exits with status 0 and is seen ended BEFORE the timer expires, the timer fires
    right after: formerly a kill was issued on the finished process and the timed-out failure
    raised; now nothing is killed and the run returns normally. -/
theorem race_expiry_during_joins_repaired :
    (run (raceInit false) [.env (.exit 0), .act .main, .act .main, .act .timer, .act .timer, .act .timer, .act .main, .act .main,
                           .act .main, .act .out, .act .main, .act .err, .act .main, .act .main, .act .main]).outcome = .ret 0 ∧
    (run (raceInit false) [.env (.exit 0), .act .main, .act .main, .act .timer, .act .timer, .act .timer, .act .main, .act .main,
                           .act .main, .act .out, .act .main, .act .err, .act .main, .act .main, .act .main]).kills = 0 := by decide

/-- (iii) the timer expires just before `stop()`: formerly the kill was issued after `run` had
    returned normally; now the timer was disarmed when the wait loop saw the command ended. -/
theorem race_kill_after_return_repaired :
    (run (raceInit false) [.env (.exit 0), .act .main, .act .main, .act .main, .act .main, .act .main, .act .out, .act .main, .act .err,
                           .act .main, .act .main, .act .timer, .act .main, .act .timer, .act .timer]).outcome = .ret 0 ∧
    (run (raceInit false) [.env (.exit 0), .act .main, .act .main, .act .main, .act .main, .act .main, .act .out, .act .main, .act .err,
                           .act .main, .act .main, .act .timer, .act .main, .act .timer, .act .timer]).killsAfterReturn = 0 ∧
    (run (raceInit false) [.env (.exit 0), .act .main, .act .main, .act .main, .act .main, .act .main, .act .out, .act .main, .act .err,
                           .act .main, .act .main, .act .timer, .act .main, .act .timer, .act .timer]).tmPc = .cancelled := by decide

/-! ### The residual window (known finding C14-exit-unseen-at-expiry)

`Timely` is judged by what the wait loop has SEEN.  Read against the environment instead ("the
command ended before the timer's kill ran"), `timely_command_normal` is false of the code in one
window: the command ends, and the timer fires before the wait loop polls again. -/

/-- the command exits with status 0, the timer's kill runs before the next poll: a kill is issued on
    the ended process and the timed-out failure is raised with the command's own status -/
theorem exit_unseen_at_expiry_counterexample :
    (run (raceInit false) [.env (.exit 0), .act .timer, .act .timer, .act .timer, .act .main, .act .main, .act .main,
                           .act .out, .act .main, .act .err, .act .main, .act .main, .act .main]).outcome = .timedOut 0 ∧
    (run (raceInit false) [.env (.exit 0), .act .timer, .act .timer, .act .timer, .act .main, .act .main, .act .main,
                           .act .out, .act .main, .act .err, .act .main, .act .main, .act .main]).kills = 1 := by decide

/-- asynchronous runs are the same machine started in `idle` (the Promise has been handed out, workers
    and timer are running, `join()` not yet called): every theorem above takes the `asy` flag.  The
    clock starts with the command, not with `join()`: a timer that expires and kills while the main
    thread is still idle yields the timed-out failure at the (late) join. -/
theorem late_join_times_out :
    (run (S.init false true true false false [] [] [] false false 1000 true)
      [.act .timer, .act .timer, .act .timer, .act .main, .act .main, .act .main, .act .out, .act .main,
       .act .err, .act .main, .act .main, .act .main]).outcome = .timedOut (-9) ∧
    (run (S.init false true true false false [] [] [] false false 1000 true)
      [.act .timer, .act .timer, .act .timer]).mainPc = .idle := by decide

/-- non-vacuity of `timeout_kills_and_raises`: a schedule on which the kill is issued and `run`
    completes, under `warn` -/
example :
    (run (raceInit true) [.act .timer, .act .timer, .act .timer, .act .main, .act .main, .act .main, .act .out, .act .main,
                          .act .err, .act .main, .act .main, .act .main]).killIssued = true ∧
    (run (raceInit true) [.act .timer, .act .timer, .act .timer, .act .main, .act .main, .act .main, .act .out, .act .main,
                          .act .err, .act .main, .act .main, .act .main]).mainPc = .done := by decide

/-- non-vacuity of `timely_command_normal`: the premises hold after `exit 3; poll; polldead` -/
example :
    (run (raceInit false) [.env (.exit 3), .act .main, .act .main]).processDone = true ∧
    (run (raceInit false) [.env (.exit 3), .act .main, .act .main]).killIssued = false := by decide

/-! ## runs on one runner object -/

/-- REUSE: every theorem above starts from `S.init`.  For a runner object that has already done a run this is tied to
    the code by the regenerated `RunnerState` tables: nothing but inert leftovers is carried into the next run
    (`carriedOver`), and - the kill path being where `Local.kill` chooses between the pty child's `pid` and
    `process.pid` - a second run that overruns a 0.3 s timeout ends, after every kind of first run (plain, timed out,
    asynchronous, pty, failed under a pty, timed out under a pty) and for both kinds of second run, exactly as on a
    fresh object: killed, reported as timed out, within 3 s. -/
theorem reused_runner_times_out_like_fresh :
    (∀ r ∈ Generated.carriedOver, RunnerReuse.rowInert r = true) ∧
    (∀ r ∈ Generated.overrunOutcomes, RunnerReuse.overrunRowOk r = true) ∧ 12 ≤ Generated.overrunOutcomes.length := by
  decide

/-! ## later joins of the same run -/

/-- a run that was NOT reported as timed out by its first join is not reported as timed out by a later join either,
    and one that was stays so - along every schedule of the second pass (the "disarmed as timely" flag is latched;
    corollary of the second-join invariant, `Lemmas/RunnerRejoin.lean` / `Lemmas/RunnerJoined.lean`) -/
theorem timed_out_verdict_stable_across_joins (hi ht w p e : Bool) (o er : List Chunk) (ins : List InItem) (ho : Bool)
    (n : Nat) (asy : Bool) (evs₁ evs₂ : List Ev)
    (hdone : (run (S.init hi ht w p e o er ins ho false n asy) evs₁).mainPc = .done)
    (h2 : (run (rejoin (run (S.init hi ht w p e o er ins ho false n asy) evs₁)) evs₂).mainPc = .done) (rc : Int) :
    (run (rejoin (run (S.init hi ht w p e o er ins ho false n asy) evs₁)) evs₂).outcome = .timedOut rc ↔
      (run (S.init hi ht w p e o er ins ho false n asy) evs₁).outcome = .timedOut rc := by
  have hj := joined_reachable hi ht w p e o er ins ho n asy evs₁ hdone
  have h := (rj_run _ _ evs₂ (rj_rejoin _ hj)).dec (by rw [h2]; rfl)
  rw [h]

end Inv
