import Invoke.Lemmas.RunOpts
import Invoke.Lemmas.RunnerReuse
/-! # C15 — the command, options and environment actually used are the documented resolution

Property theorems only (helpers: `Invoke/Lemmas/RunOpts.lean`).  The option keys, their built-in defaults and the
`hide` vocabulary are the tables REGENERATED from the repository (`Generated.runOptionKeys`, `Generated.runDefaults`,
`Generated.hideVocabulary`, `Generated.hideProbe`). -/
namespace Inv
open Generated

/-! ## per-call value, else configured value, else built-in default -/

/-- the three levels of one option: a per-call value that is not None, else the configured value (the config levels
    above the defaults if they define the key, else the built-in default) -/
theorem resolveKey_levels (cfg kw : KW) (k : Key) :
    resolveKey cfg kw k =
      match kwGet kw k with
      | some v => if v = .none then (match kwGet cfg k with | some c => c | none => defaultOf k) else v
      | none => (match kwGet cfg k with | some c => c | none => defaultOf k) := by
  unfold resolveKey resolveOpt cfgGet
  cases hk : kwGet kw k with
  | none => cases kwGet cfg k <;> rfl
  | some v => cases v <;> cases kwGet cfg k <;> simp

/-- HEADLINE: every option other than the two rewritten by the documented interactions (`echo`, `hide`) is the per-call
    value if given (not None), else the configured one; `timeout` follows the PRESENCE of the kwarg -/
theorem opt_resolution (cfg : KW) (ct : V) (kw : KW) (u : Unified) (h : unify cfg ct kw = .ok u) :
    (∀ k, k ∈ runOptionKeys → k ≠ "echo" → k ≠ "hide" → optGet u.opts k = resolveOpt (kwGet kw k) (cfgGet cfg k)) ∧
    u.timeout = (match kwGet kw "timeout" with | some v => v | none => ct) := by
  rw [unify_eq] at h
  split at h
  · cases h
  · split at h
    · cases h
    · split at h
      · cases h
      · injection h with h
        subst h
        refine ⟨fun k hk he hh => ?_, ?_⟩
        · exact finalOpts_get cfg kw k hk he hh
        · simp only [resolveTimeout]; cases kwGet kw "timeout" <;> rfl

/-- every generated key has a built-in default (the "else the built-in default" level is total) -/
theorem every_key_has_default : ∀ k ∈ runOptionKeys, (kwGet runDefaults k).isSome = true := by decide

/-- `echo` and `hide` after the interactions, in closed form -/
theorem echo_hide_resolution (cfg : KW) (ct : V) (kw : KW) (u : Unified) (h : unify cfg ct kw = .ok u) :
    optGet u.opts "echo" =
      (if resolveKey cfg kw "dry" = .true then .true
       else if resolveKey cfg kw "hide" = .true then .false else resolveKey cfg kw "echo") ∧
    some u.hide = normalizeHide (if (resolveKey cfg kw "asynchronous").truthy then .true else resolveKey cfg kw "hide")
                    (resolveKey cfg kw "out_stream") (resolveKey cfg kw "err_stream") := by
  rw [unify_eq] at h
  split at h
  · cases h
  · split at h
    · cases h
    · rw [finalOpts_hide, finalOpts_get _ _ _ mem_out (by decide) (by decide),
        finalOpts_get _ _ _ mem_err (by decide) (by decide)] at h
      split at h
      · cases h
      · rename_i hide hn
        injection h with h
        subst h
        exact ⟨finalOpts_echo cfg kw, hn.symm⟩

/-! ## the documented interactions -/

/-- hide=True (the documented trigger) suppresses echo, unless dry-run forces it -/
theorem hide_true_suppresses_echo (penv : EnvMap) (cfg : KW) (ct : V) (kw : KW) (cmd : List Char) (r : RunOut)
    (h : runBody penv cfg ct kw cmd = .ok r)
    (hh : resolveKey cfg kw "hide" = .true) (hd : resolveKey cfg kw "dry" ≠ .true) : r.echoed = false := by
  unfold runBody at h
  cases hu : unify cfg ct kw with
  | error e => simp [hu] at h
  | ok u =>
    have he := (echo_hide_resolution cfg ct kw u hu).1
    simp only [hd, if_false, hh, if_true] at he
    simp only [hu] at h
    split at h <;> (injection h with h; subst h; simp [he, V.truthy])

/-- dry-run forces echo and starts no process -/
theorem dry_forces_echo_and_starts_nothing (penv : EnvMap) (cfg : KW) (ct : V) (kw : KW) (cmd : List Char) (r : RunOut)
    (h : runBody penv cfg ct kw cmd = .ok r) (hd : resolveKey cfg kw "dry" = .true) :
    r.echoed = true ∧ r.started = none := by
  unfold runBody at h
  cases hu : unify cfg ct kw with
  | error e => simp [hu] at h
  | ok u =>
    have he := (echo_hide_resolution cfg ct kw u hu).1
    have hdry : optGet u.opts "dry" = .true := by
      rw [(opt_resolution cfg ct kw u hu).1 "dry" mem_dry (by decide) (by decide)]; exact hd
    simp only [hd, if_true] at he
    simp only [hu, hdry, V.truthy, if_true] at h
    injection h with h; subst h
    simp [he]

/-- a process is started iff the run is not a dry-run; it gets the given command, the resolved shell and the
    generated environment -/
theorem started_iff_not_dry (penv : EnvMap) (cfg : KW) (ct : V) (kw : KW) (cmd : List Char) (r : RunOut)
    (h : runBody penv cfg ct kw cmd = .ok r) :
    r.started = if (resolveKey cfg kw "dry").truthy then none
                else some { command := cmd, shell := resolveKey cfg kw "shell", env := r.env } := by
  unfold runBody at h
  cases hu : unify cfg ct kw with
  | error e => simp [hu] at h
  | ok u =>
    have hdry : optGet u.opts "dry" = resolveKey cfg kw "dry" :=
      (opt_resolution cfg ct kw u hu).1 "dry" mem_dry (by decide) (by decide)
    have hsh : optGet u.opts "shell" = resolveKey cfg kw "shell" :=
      (opt_resolution cfg ct kw u hu).1 "shell" mem_shell (by decide) (by decide)
    simp only [hu, hdry, hsh] at h
    split at h <;> (injection h with h; subst h; simp_all)

/-- asynchronous runs hide both streams (minus the overridden ones) and disconnect stdin unless one was given -/
theorem async_hides_and_disconnects (cfg : KW) (ct : V) (kw : KW) (u : Unified) (h : unify cfg ct kw = .ok u)
    (ha : (resolveKey cfg kw "asynchronous").truthy = true) :
    some u.hide = normalizeHide .true (resolveKey cfg kw "out_stream") (resolveKey cfg kw "err_stream") ∧
    u.inStream = (if (resolveKey cfg kw "in_stream").isNone then .false else resolveKey cfg kw "in_stream") ∧
    u.async = true := by
  have hh := (echo_hide_resolution cfg ct kw u h).2
  simp only [ha, if_true] at hh
  refine ⟨hh, ?_⟩
  rw [unify_eq] at h
  split at h
  · cases h
  · split at h
    · cases h
    · split at h
      · cases h
      · injection h with h
        subst h
        simp [finalOpts_get _ _ _ mem_in, ha]

/-- synchronous runs read `sys.stdin` (stream 0) unless a stream (or False) was given -/
theorem sync_default_stdin (cfg : KW) (ct : V) (kw : KW) (u : Unified) (h : unify cfg ct kw = .ok u)
    (ha : (resolveKey cfg kw "asynchronous").truthy = false) :
    u.inStream = (if (resolveKey cfg kw "in_stream").isNone then .stream 0 else resolveKey cfg kw "in_stream") := by
  rw [unify_eq] at h
  split at h
  · cases h
  · split at h
    · cases h
    · split at h
      · cases h
      · injection h with h
        subst h
        simp [finalOpts_get _ _ _ mem_in, ha]

/-- asynchronous together with disown is rejected (ValueError) before anything starts: no `RunOut` exists -/
theorem async_disown_rejected (penv : EnvMap) (cfg : KW) (ct : V) (kw : KW) (cmd : List Char)
    (hk : hasUnknown kw = false)
    (ha : (resolveKey cfg kw "asynchronous").truthy = true) (hd : (resolveKey cfg kw "disown").truthy = true) :
    runBody penv cfg ct kw cmd = .error .asyncDisown := by
  simp [runBody, unify_eq, hk, ha, hd]

/-- an unknown option is rejected (TypeError) before anything starts -/
theorem unknown_kwarg_rejected (penv : EnvMap) (cfg : KW) (ct : V) (kw : KW) (cmd : List Char)
    (hk : hasUnknown kw = true) : runBody penv cfg ct kw cmd = .error .typeError := by
  simp [runBody, unify_eq, hk]

/-- the five interactions as one statement -/
theorem interactions (penv : EnvMap) (cfg : KW) (ct : V) (kw : KW) (cmd : List Char) :
    (∀ r, runBody penv cfg ct kw cmd = .ok r → resolveKey cfg kw "hide" = .true → resolveKey cfg kw "dry" ≠ .true →
        r.echoed = false) ∧
    (∀ r, runBody penv cfg ct kw cmd = .ok r → resolveKey cfg kw "dry" = .true → r.echoed = true ∧ r.started = none) ∧
    (∀ u, unify cfg ct kw = .ok u → (resolveKey cfg kw "asynchronous").truthy = true →
        some u.hide = normalizeHide .true (resolveKey cfg kw "out_stream") (resolveKey cfg kw "err_stream") ∧
        u.inStream = (if (resolveKey cfg kw "in_stream").isNone then .false else resolveKey cfg kw "in_stream")) ∧
    (hasUnknown kw = false → (resolveKey cfg kw "asynchronous").truthy = true → (resolveKey cfg kw "disown").truthy = true →
        runBody penv cfg ct kw cmd = .error .asyncDisown) ∧
    (hasUnknown kw = true → runBody penv cfg ct kw cmd = .error .typeError) :=
  ⟨fun r h => hide_true_suppresses_echo penv cfg ct kw cmd r h,
   fun r h => dry_forces_echo_and_starts_nothing penv cfg ct kw cmd r h,
   fun u h ha => ⟨(async_hides_and_disconnects cfg ct kw u h ha).1, (async_hides_and_disconnects cfg ct kw u h ha).2.1⟩,
   async_disown_rejected penv cfg ct kw cmd,
   unknown_kwarg_rejected penv cfg ct kw cmd⟩

/-! ## `hide` -/

/-- the table: what each vocabulary word hides, minus the streams overridden by the caller -/
theorem normalize_hide_table (outS errS : V) :
    normalizeHide .none outS errS = some [] ∧ normalizeHide .false outS errS = some [] ∧
    (∀ v, v = .true ∨ v = .str "both" →
      normalizeHide v outS errS = some ((if outS.isNone then ["stdout"] else []) ++ (if errS.isNone then ["stderr"] else []))) ∧
    (∀ v, v = .str "out" ∨ v = .str "stdout" → normalizeHide v outS errS = some (if outS.isNone then ["stdout"] else [])) ∧
    (∀ v, v = .str "err" ∨ v = .str "stderr" → normalizeHide v outS errS = some (if errS.isNone then ["stderr"] else [])) := by
  refine ⟨?_, ?_, ?_, ?_, ?_⟩
  · cases ho : outS.isNone <;> cases he : errS.isNone <;> simp [normalizeHide, hideBase, ho, he]
  · cases ho : outS.isNone <;> cases he : errS.isNone <;> simp [normalizeHide, hideBase, ho, he]
  · rintro v (rfl | rfl) <;> cases ho : outS.isNone <;> cases he : errS.isNone <;>
      simp [normalizeHide, hideBase, ho, he, List.erase]
  · rintro v (rfl | rfl) <;> cases ho : outS.isNone <;> cases he : errS.isNone <;>
      simp [normalizeHide, hideBase, ho, he, List.erase]
  · rintro v (rfl | rfl) <;> cases ho : outS.isNone <;> cases he : errS.isNone <;>
      simp [normalizeHide, hideBase, ho, he, List.erase]

/-- the generated vocabulary is exactly the documented one, every word of it is accepted … -/
theorem hide_vocabulary :
    hideVocabulary = [.none, .false, .true, .str "out", .str "stdout", .str "err", .str "stderr", .str "both"] ∧
    ∀ v ∈ hideVocabulary, (hideBase v).isSome = true := by decide

/-- … and the model reproduces every probe of the real `normalize_hide` (incl. the rejected words) -/
theorem hide_probe_agrees :
    ∀ row ∈ hideProbe,
      normalizeHide row.1 (if row.2.1 then .stream 9 else .none) (if row.2.2.1 then .stream 9 else .none) = row.2.2.2 := by
  decide

/-! ## environment -/

/-- replace_env: the child environment is the given mapping; otherwise the parent's updated with it (given wins) -/
theorem generate_env (parent given : EnvMap) :
    generateEnv parent given true = given ∧
    ∀ name, envGet (generateEnv parent given false) name =
      (match givenGet given name with | some x => some x | none => envGet parent name) := by
  refine ⟨rfl, fun name => ?_⟩
  simp only [generateEnv, Bool.false_eq_true, if_false]
  exact envGet_envUpdate parent given name

/-- for a mapping without duplicate names (a Python dict) "given" is plain lookup -/
theorem generate_env_dict (parent given : EnvMap) (hn : (envKeys given).Nodup) (name : String) :
    envGet (generateEnv parent given false) name =
      (match envGet given name with | some x => some x | none => envGet parent name) := by
  rw [(generate_env parent given).2 name, givenGet_eq_envGet given name hn]

/-- the environment handed to `start` is generated from the resolved `env` / `replace_env` options -/
theorem env_used (penv : EnvMap) (cfg : KW) (ct : V) (kw : KW) (cmd : List Char) (r : RunOut)
    (h : runBody penv cfg ct kw cmd = .ok r) :
    r.env = generateEnv penv (resolveKey cfg kw "env").asEnv (resolveKey cfg kw "replace_env").truthy := by
  unfold runBody at h
  cases hu : unify cfg ct kw with
  | error e => simp [hu] at h
  | ok u =>
    have h1 := (opt_resolution cfg ct kw u hu).1 "env" mem_env (by decide) (by decide)
    have h2 := (opt_resolution cfg ct kw u hu).1 "replace_env" mem_replace (by decide) (by decide)
    simp only [hu] at h
    split at h <;> (injection h with h; subst h; simp [h1, h2, resolveKey])

/-! ## the command handed to the shell -/

/-- `" && ".join(cd-prefix ++ prefixes ++ [command])` — for ALL strings, verbatim (no character of a directory, prefix or
    command is special) -/
theorem prefix_composition (c : Ctx) (cmd : Str) :
    prefixCommands c cmd = joinWith " && ".toList
      ((if c.cwd.isEmpty then [] else ["cd ".toList ++ c.cwd]) ++ c.prefixes ++ [cmd]) := rfl

/-- nested `prefix` blocks contribute in nesting order (outermost first) -/
theorem nested_prefixes_in_order (s : SudoCfg) (ps : List Str) (cmd : Str) (c : Ctx) :
    (exec s c (nestPrefixes ps (.run cmd .done))).log = [.ran (prefixCommands { c with prefixes := c.prefixes ++ ps } cmd)] ∧
    (exec s c (nestPrefixes ps (.run cmd .done))).raised = none := by
  induction ps generalizing c with
  | nil => simp [nestPrefixes, exec]
  | cons p ps ih =>
    have h := ih (pushPrefix c p)
    simp only [nestPrefixes, exec, seqOut, h.2, h.1]
    simp [pushPrefix, List.append_assoc]

/-- nested `cd` blocks: the directory is the join of the paths from the last absolute one on -/
theorem nested_cds_in_order (s : SudoCfg) (ds : List Str) (cmd : Str) (c : Ctx) :
    (exec s c (nestCds ds (.run cmd .done))).log = [.ran (prefixCommands { c with cwds := c.cwds ++ ds } cmd)] ∧
    (exec s c (nestCds ds (.run cmd .done))).raised = none := by
  induction ds generalizing c with
  | nil => simp [nestCds, exec]
  | cons p ps ih =>
    have h := ih (pushCwd c p)
    simp only [nestCds, exec, seqOut, h.2, h.1]
    simp [pushCwd, List.append_assoc]

/-- the anchor rule of the current directory: ONLY a component that itself STARTS with `~` or `/` restarts it — the
    directory is the join of the (space-escaped) components from the last such component on; `~` or `/` in the
    interior or at the end of a component (`data/~tmp`, `/~archive`, `x/`, `a~`) never cuts anything -/
theorem cwd_anchor_rule (pre : List Str) (a : Str) (rest : List Str) (ha : startsAbs a = true)
    (h : rest.any startsAbs = false) :
    cwdOf (pre ++ a :: rest) = pathJoin ((a :: rest).map escapeSpaces) := by
  have hne : (pre ++ a :: rest).isEmpty = false := by cases pre <;> rfl
  simp only [cwdOf, hne, Bool.false_eq_true, if_false, fromLastAbs_append_abs pre a rest ha h]

/-- without any anchored component nothing is cut at all -/
theorem cwd_no_anchor (l : List Str) (hne : l ≠ []) (h : l.any startsAbs = false) :
    cwdOf l = pathJoin (l.map escapeSpaces) := by
  have : l.isEmpty = false := by cases l with | nil => exact absurd rfl hne | cons _ _ => rfl
  simp only [cwdOf, this, Bool.false_eq_true, if_false, fromLastAbs_no_abs l h]

/-- being an anchor depends on the FIRST character only -/
theorem anchor_is_leading_char (c : Char) (s : Str) : startsAbs (c :: s) = (c == '~' || c == '/') := rfl

/-- from a fresh context: exactly `p₁ && … && pₙ && command` -/
theorem fresh_nested_prefixes (s : SudoCfg) (ps : List Str) (cmd : Str) :
    (exec s { prefixes := [], cwds := [] } (nestPrefixes ps (.run cmd .done))).log =
      [.ran (joinWith " && ".toList (ps ++ [cmd]))] := by
  rw [(nested_prefixes_in_order s ps cmd _).1]
  simp [prefixCommands, cdPrefix, Ctx.cwd, cwdOf]

/-- HEADLINE: after ANY block program — normal or exceptional exit, any nesting, exceptions caught half-way — both
    stacks are what they were before -/
theorem prefix_stack_restored (s : SudoCfg) (p : Prog) (c : Ctx) : (exec s c p).ctx = c := by
  induction p generalizing c with
  | done => rfl
  | raise e => rfl
  | run cmd k ih => simp [exec, ih]
  | sudo cmd u e k ih => simp [exec, ih]
  | obs k ih => simp [exec, ih]
  | cd path body k ihb ihk =>
    simp only [exec, seqOut, ihb, popCwd_pushCwd, ihk]
    split <;> rfl
  | pfx q body k ihb ihk =>
    simp only [exec, seqOut, ihb, popPrefix_pushPrefix, ihk]
    split <;> rfl
  | «catch» body k ihb ihk => simp [exec, ihb, ihk]

/-- in particular a command run after a block that raised sees the stacks of before the block -/
theorem run_after_failed_block (s : SudoCfg) (c : Ctx) (body : Prog) (path cmd : Str) :
    ∃ l, (exec s c (.catch (.cd path body .done) (.run cmd .done))).log = l ++ [.ran (prefixCommands c cmd)] := by
  refine ⟨(exec s c (.cd path body .done)).log, ?_⟩
  have h := prefix_stack_restored s (.cd path body .done) c
  simp only [exec] at h
  simp only [exec, h]

/-- whatever KIND of exception leaves nested blocks (Exception, KeyboardInterrupt, SystemExit, GeneratorExit, a
    failing command), an observation made after catching it sees the stacks of before the blocks -/
theorem any_exception_kind_restores (s : SudoCfg) (c : Ctx) (e : ExcKind) (p d : Str) :
    (exec s c (.catch (.pfx p (.cd d (.raise e) .done) .done) (.obs .done))).log = [.stacks c.prefixes c.cwds] ∧
    (exec s c (.catch (.pfx p (.cd d (.raise e) .done) .done) (.obs .done))).raised = none := by
  have h := prefix_stack_restored s (.pfx p (.cd d (.raise e) .done) .done) c
  simp only [exec, seqOut] at h ⊢
  simp [h]

/-- `sudo -S -p '<prompt>' [--preserve-env='<names>' ][-H -u <user> ]<command>`.
    The statement quantifies over ALL strings: prompt, user, env names and the (already prefixed) command are DATA that
    is concatenated — no character is special, in particular not `{`, `}`, `%` or `$`, which are special to Python's
    own string templating (`str.format`, `%`, `string.Template`).  The harness family "template tokens in every text
    position" ties exactly this to the code (a `.format` applied AFTER the texts were spliced into the template breaks it). -/
theorem sudo_command (prompt : Str) (user : Option Str) (names : List Str) (cmd : Str) :
    sudoCommand prompt user names cmd =
      "sudo -S -p '".toList ++ prompt ++ "' ".toList ++
      (if names.isEmpty then [] else "--preserve-env='".toList ++ joinWith ",".toList names ++ "' ".toList) ++
      (match user with | none => [] | some u => "-H -u ".toList ++ u ++ " ".toList) ++ cmd := by
  cases user <;> rfl

/-- sudo wraps the SAME prefixed command `run` would execute in that context, with the configured prompt and the
    user taken from the kwarg if present (even None), else from the configuration -/
theorem sudo_wraps_prefixed_command (s : SudoCfg) (c : Ctx) (cmd : Str) (ukw : Option (Option Str)) (names : List Str) :
    (exec s c (.sudo cmd ukw names .done)).log =
      [.ran (sudoCommand s.prompt (match ukw with | some u => u | none => s.user) names (prefixCommands c cmd))] ∧
    (exec s c (.run cmd .done)).log = [.ran (prefixCommands c cmd)] := by
  cases ukw <;> simp [exec, popKw]

/-! ## non-vacuity / concrete instances -/

example : prefixCommands { prefixes := ["act".toList, "src x".toList], cwds := ["/a".toList, "b c".toList] } "ls".toList
    = "cd /a/b\\ c && act && src x && ls".toList := by decide
example : cwdOf ["/a".toList, "b".toList, "~/c".toList, "d".toList] = "~/c/d".toList := by decide
example : cwdOf ["x".toList, "y".toList] = "x/y".toList := by decide
/-- two SIBLING stacks on one context that share the relative leaf `logs` under different parents: `exec` threads the
    stack functionally, so each run sees the stack of the moment of the call (same depth and same innermost entry do
    NOT mean the same directory) -/
example : (exec { prompt := [], user := none, password := none } { prefixes := [], cwds := [] }
    (.cd "/srv/alpha".toList (.cd "logs".toList (.run "ls".toList .done) .done)
      (.cd "/srv/beta".toList (.cd "logs".toList (.run "ls".toList .done) .done)
        (.cd "/srv/alpha".toList (.cd "logs".toList (.sudo "ls".toList none [] .done) .done) .done)))).log
    = [.ran "cd /srv/alpha/logs && ls".toList, .ran "cd /srv/beta/logs && ls".toList,
       .ran "sudo -S -p '' cd /srv/alpha/logs && ls".toList] := by decide
example : cwdOf ["/srv".toList, "data/~tmp".toList, "logs".toList] = "/srv/data/~tmp/logs".toList := by decide
example : cwdOf ["/~archive".toList] = "/~archive".toList := by decide
example : cwdOf ["a~".toList, "x/".toList, "~".toList, "b/~".toList, "".toList] = "~/b/~/".toList := by decide
example : sudoCommand "[sudo] password: ".toList (some "bob".toList) ["A".toList, "B".toList] "cd /x && ls".toList
    = "sudo -S -p '[sudo] password: ' --preserve-env='A,B' -H -u bob cd /x && ls".toList := by decide
example : sudoCommand "P".toList none [] "ls".toList = "sudo -S -p 'P' ls".toList := by decide
example : sudoCommand "P".toList none [] "find . -exec rm {} ;".toList = "sudo -S -p 'P' find . -exec rm {} ;".toList := by decide
example : sudoCommand "{}> ".toList (some "{u}".toList) ["{E}".toList, "X%s".toList] "xargs -I{0} echo {0} ${HOME} {{x}} %(y)s".toList
    = "sudo -S -p '{}> ' --preserve-env='{E},X%s' -H -u {u} xargs -I{0} echo {0} ${HOME} {{x}} %(y)s".toList := by decide
example : (exec { prompt := "PW> ".toList, user := none, password := none } { prefixes := [], cwds := [] }
    (.cd "/srv/{a}".toList (.pfx "export P=${P}".toList (.sudo "awk '{print $1}' f".toList none [] (.run "echo {{x}} %s".toList .done)) .done) .done)).log
    = [.ran "sudo -S -p 'PW> ' cd /srv/{a} && export P=${P} && awk '{print $1}' f".toList,
       .ran "cd /srv/{a} && export P=${P} && echo {{x}} %s".toList] := by decide
example : (exec { prompt := [], user := none, password := none } { prefixes := [], cwds := [] }
    (.catch (.pfx "a".toList (.cd "/x".toList (.run "l".toList (.raise .keyboardInterrupt)) .done) (.run "never".toList .done)) (.obs (.run "z".toList .done)))).log
    = [.ran "cd /x && a && l".toList, .stacks [] [], .ran "z".toList] := by decide
example : unifyView [("echo", .true)] .none [("hide", .true), ("echo", .none)]
    = some (.false, ["stdout", "stderr"], .none, .stream 0, .stream 1) := by decide
example : unifyView [] (.str "9") [("timeout", .none), ("asynchronous", .true), ("out_stream", .stream 7)]
    = some (.false, ["stderr"], .none, .false, .stream 7) := by decide
example : unifyView [] (.str "9") [("dry", .true), ("hide", .true)]
    = some (.true, ["stdout", "stderr"], .str "9", .stream 0, .stream 1) := by decide
example : unifyErr [] .none [("asynchronous", .true), ("disown", .true)] = some .asyncDisown := by decide
example : unifyErr [("disown", .true)] .none [("asynchronous", .true), ("disown", .none)] = some .asyncDisown := by decide
example : unifyErr [] .none [("bogus", .true)] = some .typeError := by decide
example : unifyErr [] .none [("hide", .str "bogus")] = some .badHide := by decide
example : generateEnv [("A", "p"), ("B", "q")] [("A", "1"), ("C", "2")] false = [("A", "1"), ("B", "q"), ("C", "2")] := by decide

/-- observation (DESIGN §4, not demanded by the property): `hide="both"` hides both streams but does NOT switch
    echo off — only the documented trigger `hide=True` does -/
theorem hide_both_keeps_echo_observation :
    unifyView [] .none [("hide", .str "both"), ("echo", .true)]
      = some (.true, ["stdout", "stderr"], .none, .stream 0, .stream 1) := by decide

/-! ## runs on one runner object -/

/-- REUSE: the model starts every run from `S.init` / resolves every call's options from that call alone.  The table
    regenerated from the real `Local` - attributes that differ, when the second run's workers start, between a fresh
    object and one that has already timed out / failed / read half a character / answered a watcher / lost a worker /
    run asynchronously / used a pty / used other options - contains only inert leftovers (`RunnerReuse.inertLeftovers`):
    no event, codec, watcher list, timer or kill flag of an earlier run is in effect. -/
theorem reused_runner_starts_like_fresh :
    ∀ r ∈ Generated.carriedOver, RunnerReuse.rowInert r = true := by decide

/-- the probe is not vacuous: every first run it drives does leave per-run state behind -/
theorem reuse_probe_dirties_state :
    RunnerReuse.everyScenarioDirties = true ∧ 10 ≤ Generated.dirtyScenarios.length ∧ 20 ≤ Generated.probedAttrs.length := by
  decide

end Inv
