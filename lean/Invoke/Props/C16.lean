import Invoke.Lemmas.Env
import Invoke.Lemmas.Levels
/-! # C16 — environment variables override exactly the existing settings they name, typed; ambiguity refused

Property theorems only (helpers: `Lemmas/Env.lean`).  `crawl` / `castLeaf` / `loadEnv` model
`invoke.env.Environment._crawl` / `._cast` / `.load`; the branch order of the cast is the table REGENERATED
from the repository (`Generated.envCastOrder`, probed on the real `Config.load_shell_env`). -/
namespace Inv

/-! ## the regenerated tables are the documented ones -/

/-- the probed branch order of the cast: the bool rule is effective (comes before the class-call fallback, which
    would read every non-empty string as True), so are the str / None / list-tuple rules -/
theorem generated_cast_order_documented :
    Generated.envCastOrder = ["bool", "str", "none", "seq", "other"] := by decide

/-- the observed behaviour per type of the overridden setting -/
theorem generated_cast_table_documented : Generated.envCastTable =
    [("bool", "falseOnlyForEmptyOrZero"), ("str", "verbatim"), ("none", "verbatim"), ("list", "uncastable"),
     ("tuple", "uncastable"), ("int", "classCall"), ("float", "classCall")] := by decide

/-! ## which variables name which settings -/

/-- a successful crawl returns exactly the leaf settings, each under its variable name -/
theorem crawl_all_leaves (c : KVs) (hw : WF c) (m : Vars) (h : crawl [] c [] = .ok m) (v : List Char)
    (p : List Key) : (v, p) ∈ m ↔ (isLeaf p c = true ∧ v = envVarName p) := by
  rw [crawl_eq] at h
  by_cases hg : NoClash (leafVarNames [] c) []
  · simp only [hg, if_true, List.nil_append, Except.ok.injEq] at h
    subst h
    rw [mem_varsOf]
    constructor
    · rintro ⟨hp, hv⟩
      obtain ⟨p', hp', hleaf⟩ := getLeaf_of_mem_leafPaths c hw [] p hp
      simp only [List.nil_append] at hp'
      subst hp'; exact ⟨hleaf, hv⟩
    · rintro ⟨hleaf, hv⟩
      refine ⟨?_, hv⟩
      simp only [isLeaf] at hleaf
      cases hx : getLeaf p c with
      | none => simp [hx] at hleaf
      | some x => simpa using mem_leafPaths_of_getLeaf p c [] x hx
  · simp [hg] at h

/-- the crawl fails only by refusing an ambiguity -/
theorem crawl_fails_only_ambiguous (c : KVs) (e : CErr) (h : crawl [] c [] = .error e) : e = .ambiguousEnv := by
  rw [crawl_eq] at h
  by_cases hg : NoClash (leafVarNames [] c) []
  · simp [hg] at h
  · simp only [hg, if_false, Except.error.injEq] at h; exact h.symm

/-- the crawl is refused as ambiguous exactly when two leaf paths (two positions of the crawl order) map to
    the same variable name -/
theorem ambiguous_iff_collision (c : KVs) :
    crawl [] c [] = .error .ambiguousEnv ↔ ¬ (leafVarNames [] c).Nodup := by
  rw [crawl_eq]
  by_cases hg : NoClash (leafVarNames [] c) []
  · simp [hg, hg.1]
  · have : ¬ (leafVarNames [] c).Nodup := fun hn => hg ⟨hn, by simp⟩
    simp [hg, this]

/-- … and then the whole load is refused, whatever the environment contains -/
theorem load_refuses_ambiguous (pre : List Char) (environ : Environ) (c : KVs)
    (h : ¬ (leafVarNames [] c).Nodup) : loadEnv pre environ c = .error .ambiguousEnv := by
  rw [loadEnv_eq]; simp [h]

/-- two distinct leaf settings with one variable name are a collision -/
theorem two_settings_collide (pre : List Char) (environ : Environ) (c : KVs) (p q : List Key) (hne : p ≠ q)
    (hp : isLeaf p c = true) (hq : isLeaf q c = true) (hv : envVarName p = envVarName q) :
    loadEnv pre environ c = .error .ambiguousEnv := by
  apply load_refuses_ambiguous
  intro hnd
  simp only [isLeaf] at hp hq
  cases hx : getLeaf p c with
  | none => simp [hx] at hp
  | some x =>
    cases hy : getLeaf q c with
    | none => simp [hy] at hq
    | some y =>
      have h1 := mem_leafPaths_of_getLeaf p c [] x hx
      have h2 := mem_leafPaths_of_getLeaf q c [] y hy
      simp only [List.nil_append] at h1 h2
      exact hne (eq_of_nodup_map envVarName _ hnd h1 h2 hv)

/-- HEADLINE.  For a configuration (a well-formed nested dict) the load is refused as ambiguous exactly when two
    DISTINCT settings map to the same variable name -/
theorem ambiguous_iff_two_settings (c : KVs) (hw : WF c) :
    crawl [] c [] = .error .ambiguousEnv ↔
      ∃ p q, p ≠ q ∧ isLeaf p c = true ∧ isLeaf q c = true ∧ envVarName p = envVarName q := by
  rw [ambiguous_iff_collision]
  constructor
  · intro hn
    obtain ⟨a, ha, b, hb, hab, hf⟩ := exists_ne_of_not_nodup_map envVarName _ (leafPaths_nodup c hw []) hn
    obtain ⟨p, hp, hpl⟩ := getLeaf_of_mem_leafPaths c hw [] a ha
    obtain ⟨q, hq, hql⟩ := getLeaf_of_mem_leafPaths c hw [] b hb
    simp only [List.nil_append] at hp hq
    subst hp; subst hq
    exact ⟨a, b, hab, hpl, hql, hf⟩
  · rintro ⟨p, q, hne, hp, hq, hv⟩ hnd
    simp only [isLeaf] at hp hq
    cases hx : getLeaf p c with
    | none => simp [hx] at hp
    | some x =>
      cases hy : getLeaf q c with
      | none => simp [hy] at hq
      | some y =>
        have h1 := mem_leafPaths_of_getLeaf p c [] x hx
        have h2 := mem_leafPaths_of_getLeaf q c [] y hy
        simp only [List.nil_append] at h1 h2
        exact hne (eq_of_nodup_map envVarName _ hnd h1 h2 hv)

/-! ## what a successful load writes -/

/-- NEVER NEW SETTINGS: every setting of the loaded env level is an existing setting of the configuration that a
    (prefixed) variable of the environment names, and its value is the cast of that variable -/
theorem env_never_new_keys (pre : List Char) (environ : Environ) (c data : KVs)
    (h : loadEnv pre environ c = .ok data) (p : List Key) (y : Leaf) (hy : getLeaf p data = some y) :
    ∃ old s, getLeaf p c = some old ∧ lookupEnv (pre ++ envVarName p) environ = some s ∧
      castLeaf old s = .ok y := by
  rw [loadEnv_eq] at h
  by_cases hn : (leafVarNames [] c).Nodup
  · simp only [hn, if_true] at h
    rcases applyVars_sound pre environ c _ [] data h p y hy with h1 | ⟨v, old, s, hm, hs, hold, hc⟩
    · simp at h1
    · have := varsOf_names _ _ hm
      simp only at this
      subst this
      exact ⟨old, s, hold, hs, hc⟩
  · simp [hn] at h

/-- ALL NAMED SETTINGS: every existing setting whose variable is set in the environment is overridden, by the
    cast of that variable according to the type of the current value -/
theorem env_applies_all_named (pre : List Char) (environ : Environ) (c data : KVs)
    (h : loadEnv pre environ c = .ok data) (p : List Key) (old : Leaf) (s : List Char)
    (hold : getLeaf p c = some old) (hs : lookupEnv (pre ++ envVarName p) environ = some s) :
    ∃ y, castLeaf old s = .ok y ∧ getLeaf p data = some y := by
  rw [loadEnv_eq] at h
  by_cases hn : (leafVarNames [] c).Nodup
  · simp only [hn, if_true] at h
    have hm : (envVarName p, p) ∈ varsOf (leafPaths [] c) := by
      rw [mem_varsOf]
      exact ⟨by simpa using mem_leafPaths_of_getLeaf p c [] old hold, rfl⟩
    exact applyVars_complete pre environ c _ (varsOf_names _) [] data h p old s hm hold hs
  · simp [hn] at h

/-- HEADLINE.  The settings of the env level are exactly the existing settings named by the environment -/
theorem env_applies_exactly_existing (pre : List Char) (environ : Environ) (c data : KVs)
    (h : loadEnv pre environ c = .ok data) (p : List Key) :
    isLeaf p data = true ↔ (isLeaf p c = true ∧ envNames pre environ p = true) := by
  constructor
  · intro hp
    simp only [isLeaf] at hp
    cases hy : getLeaf p data with
    | none => simp [hy] at hp
    | some y =>
      obtain ⟨old, s, h1, h2, _⟩ := env_never_new_keys pre environ c data h p y hy
      simp [isLeaf, envNames, h1, h2]
  · rintro ⟨h1, h2⟩
    simp only [isLeaf, envNames] at h1 h2
    cases hx : getLeaf p c with
    | none => simp [hx] at h1
    | some old =>
      cases hs : lookupEnv (pre ++ envVarName p) environ with
      | none => simp [hs] at h2
      | some s =>
        obtain ⟨y, _, hy⟩ := env_applies_all_named pre environ c data h p old s hx hs
        simp [isLeaf, hy]

/-- variables that name no setting are ignored: adding them to the environment changes nothing (also not
    whether the load fails, nor how) -/
theorem unrelated_ignored (pre : List Char) (environ extra : Environ) (c : KVs)
    (hextra : ∀ p ∈ leafPaths [] c, lookupEnv (pre ++ envVarName p) extra = none) :
    loadEnv pre (environ ++ extra) c = loadEnv pre environ c := by
  rw [loadEnv_eq, loadEnv_eq]
  by_cases hn : (leafVarNames [] c).Nodup
  · simp only [hn, if_true]
    apply applyVars_congr
    intro e he
    obtain ⟨v, p⟩ := e
    rw [mem_varsOf] at he
    obtain ⟨hp, hv⟩ := he
    subst hv
    rw [lookupEnv_append, hextra p hp]
    cases lookupEnv (pre ++ envVarName p) environ <;> rfl
  · simp [hn]

/-! ## the cast table -/

/-- booleans are false only for the empty string and "0"; strings and None take the value verbatim; lists and
    tuples are rejected; integers go through `int()` (stated over the regenerated branch order) -/
theorem env_cast_table (s : List Char) :
    (∀ b, castLeaf (.b b) s = .ok (.b (!(s == [] || s == ['0'])))) ∧
    (∀ t, castLeaf (.s t) s = .ok (.s s)) ∧
    castLeaf .none s = .ok (.s s) ∧
    (∀ xs, castLeaf (.l xs) s = .error .uncastable) ∧
    (∀ n, castLeaf (.i n) s = match pyInt s with
      | some k => .ok (.i k)
      | none => .error (.value "int()")) := by
  simp only [castLeaf, generated_cast_order_documented]
  refine ⟨?_, ?_, ?_, ?_, ?_⟩
  · intro b; simp [castWith, branchApplies, runBranch, envTruthy]
  · intro t; simp [castWith, branchApplies, runBranch]
  · simp [castWith, branchApplies, runBranch]
  · intro xs; simp [castWith, branchApplies, runBranch]
  · intro n
    simp only [castWith, branchApplies, runBranch, classCall, List.find?, String.reduceBEq, if_true, if_false,
      Bool.false_eq_true]
    cases pyInt s <;> rfl

/-- what the class-call fallback would do to a boolean (every non-empty string, "0" included, reads as True):
    the reason the bool branch has to come first -/
theorem bool_through_class_call_counterexample :
    castWith ["other", "bool"] (.b false) ['0'] = .ok (.b true) ∧ castLeaf (.b true) ['0'] = .ok (.b false) := by
  simp only [castLeaf, generated_cast_order_documented]
  simp [castWith, branchApplies, runBranch, envTruthy, classCall]

/-- the env level is merged above the project file and below the runtime file (C03 order) -/
theorem env_level_position :
    mergeOrder = [.defaults, .collection, .system, .user, .project] ++ .env :: [.runtime, .overrides, .modifications] := by
  decide

/-! ## loading again (several `load_shell_env()` on one object) -/

/-- a successful cast keeps the kind of the value: casting by a value the environment supplied earlier is
    casting by the value it replaced -/
theorem cast_kind_stable (old y : Leaf) (s : List Char) (h : castLeaf old s = .ok y) (s' : List Char) :
    castLeaf y s' = castLeaf old s' := castLeaf_kind_stable old y s h s'

/-- `load` sees the configuration only through its leaf paths and through how each leaf casts: two
    configurations with the same settings whose values cast alike give the same result under every environment -/
theorem load_depends_on_paths_and_casts (pre : List Char) (environ : Environ) (c c' : KVs)
    (hpaths : leafPaths [] c = leafPaths [] c')
    (hcast : ∀ p ∈ leafPaths [] c, ∀ s, castAt c p s = castAt c' p s) :
    loadEnv pre environ c = loadEnv pre environ c' := loadEnv_congr_config pre environ c c' hpaths hcast

/-- whatever env level the object carries (from an earlier load, or copied by `clone()`) is irrelevant to
    `load_shell_env`: the resulting configuration is the same as for an object without one -/
theorem load_shell_env_ignores_old_env (c : LoadSt) (old : KVs) (pre : List Char) (environ : Environ) :
    LoadSt.loadShellEnv { c with slots := c.slots.set .env old } pre environ = c.loadShellEnv pre environ := by
  simp only [LoadSt.loadShellEnv, LoadSt.load, Levels.set_set]

/-- RELOAD (no caveat).  The configuration after ANY `load_shell_env` depends only on what the other levels hold
    NOW and on the environment NOW: loading under `e₂` after a load under `e₁` is loading under `e₂` directly —
    also whether, and how, it is refused -/
theorem reload_env_determined (c c₁ : LoadSt) (pre : List Char) (e₁ e₂ : Environ)
    (h : c.loadShellEnv pre e₁ = .ok c₁) : c₁.loadShellEnv pre e₂ = c.loadShellEnv pre e₂ := by
  unfold LoadSt.loadShellEnv at h
  cases hl : loadEnv pre e₁ (view (c.slots.set .env [])) with
  | error e => simp [hl] at h
  | ok ev =>
    simp only [hl, Except.ok.injEq] at h
    subst h
    simp only [LoadSt.loadShellEnv, LoadSt.load, Levels.set_set]

/-- … and other loads in between change the outcome only through the levels they replace: the env level after
    the second load is computed from the other levels as they are then -/
theorem reload_after_other_loads (c c₁ : LoadSt) (pre : List Char) (e₁ e₂ : Environ) (l : Level) (d : KVs)
    (hl : l ≠ .env) (h : c.loadShellEnv pre e₁ = .ok c₁) :
    (c₁.load l d).loadShellEnv pre e₂ = ({ c with cache := c₁.cache }.load l d).loadShellEnv pre e₂ := by
  unfold LoadSt.loadShellEnv at h
  cases hq : loadEnv pre e₁ (view (c.slots.set .env [])) with
  | error e => simp [hq] at h
  | ok ev =>
    simp only [hq, Except.ok.injEq] at h
    subst h
    have hne : Level.env ≠ l := fun e => hl e.symm
    simp only [LoadSt.loadShellEnv, LoadSt.load]
    rw [Levels.set_comm c.slots hne ev d]
    simp only [Levels.set_set]

/-- DEFERRED MERGES.  `load_shell_env` always crawls the view of the levels as they are NOW: after a load with
    `merge=False` (stale merged cache) it gives exactly what it gives after the same load merged -/
theorem load_shell_env_after_unmerged_load (c : LoadSt) (l : Level) (d : KVs) (pre : List Char) (environ : Environ) :
    (c.loadUnmerged l d).loadShellEnv pre environ = (c.load l d).loadShellEnv pre environ := by
  simp only [LoadSt.loadShellEnv, LoadSt.load, LoadSt.loadUnmerged]

/-- … and, generally, the merged cache the object happens to carry is irrelevant to `load_shell_env` -/
theorem load_shell_env_ignores_cache (c : LoadSt) (stale : KVs) (pre : List Char) (environ : Environ) :
    LoadSt.loadShellEnv { c with cache := stale } pre environ = c.loadShellEnv pre environ := by
  simp only [LoadSt.loadShellEnv, LoadSt.load]

/-- collection `{a: 1}` and `P_A=5`, load; the collection is replaced by `{b: 2}`; same environment, load again —
    with the rule before the repair -/
def staleWitnessPinned : Except CErr LoadSt :=
  match (LoadSt.init.load .collection [(['a'], .leaf (.i 1))]).loadShellEnvPinned ['P', '_'] [(['P', '_', 'A'], ['5'])] with
  | .error e => .error e
  | .ok c1 => (c1.load .collection [(['b'], .leaf (.i 2))]).loadShellEnvPinned ['P', '_'] [(['P', '_', 'A'], ['5'])]

/-- the same history with the repaired rule -/
def staleWitness : Except CErr LoadSt :=
  match (LoadSt.init.load .collection [(['a'], .leaf (.i 1))]).loadShellEnv ['P', '_'] [(['P', '_', 'A'], ['5'])] with
  | .error e => .error e
  | .ok c1 => (c1.load .collection [(['b'], .leaf (.i 2))]).loadShellEnv ['P', '_'] [(['P', '_', 'A'], ['5'])]

/-- FIXED FINDING (C16-stale-env-premerge), the rule before the repair: the pre-merge of `load_shell_env` contained
    the env level of the previous load, so a setting that no other level defined any more was kept alive by the
    environment -/
theorem stale_env_pinned_counterexample :
    ∃ c, staleWitnessPinned = .ok c ∧ getLeaf [['a']] c.cache = some (.i 5) ∧
      getLeaf [['a']] (view (c.slots.set .env [])) = none := by
  simp [staleWitnessPinned, LoadSt.loadShellEnvPinned, LoadSt.load, LoadSt.init, Levels.set, Levels.empty, view, viewOf,
    env_level_position, mergeLevel, mergeT, lookup, insert, loadEnv, crawl, clash, hasVarName, varNames, envVarName,
    joinUnderscore, upperChar, applyVars, lookupEnv, getLeaf, castLeaf, generated_cast_order_documented, castWith,
    branchApplies, runBranch, classCall, pyInt, stripSpaces, dropSpaces, isPySpace, signedVal, digitsVal,
    isAsciiDigit, setLeaf]

/-- the repaired rule on the same history: `a` is gone, `b` is there, nothing was applied -/
theorem stale_env_repaired_example :
    ∃ c, staleWitness = .ok c ∧ getLeaf [['a']] c.cache = none ∧ getLeaf [['b']] c.cache = some (.i 2) ∧
      c.slots .env = [] := by
  simp [staleWitness, LoadSt.loadShellEnv, LoadSt.load, LoadSt.init, Levels.set, Levels.empty, view, viewOf,
    env_level_position, mergeLevel, mergeT, lookup, insert, loadEnv, crawl, clash, hasVarName, varNames, envVarName,
    joinUnderscore, upperChar, applyVars, lookupEnv, getLeaf, castLeaf, generated_cast_order_documented, castWith,
    branchApplies, runBranch, classCall, pyInt, stripSpaces, dropSpaces, isPySpace, signedVal, digitsVal,
    isAsciiDigit, setLeaf]

/-! ## non-vacuity -/

/-- `{a: {b: true, n: 7}, s: "x", a_b: 1}`: `a.b` and `a_b` both map to `A_B` -/
def exAmbiguous : KVs :=
  [(['a'], .dict [(['b'], .leaf (.b true)), (['n'], .leaf (.i 7))]), (['s'], .leaf (.s ['x'])),
   (['a', '_', 'b'], .leaf (.i 1))]

/-- `{a: {b: true, n: 7}, s: "x"}` -/
def exTree : KVs :=
  [(['a'], .dict [(['b'], .leaf (.b true)), (['n'], .leaf (.i 7))]), (['s'], .leaf (.s ['x']))]

example : leafVarNames [] exTree = [['A', '_', 'B'], ['A', '_', 'N'], ['S']] := by
  simp [leafVarNames, leafPaths, exTree, envVarName, joinUnderscore, upperChar]
example : ¬ (leafVarNames [] exAmbiguous).Nodup := by
  simp [leafVarNames, leafPaths, exAmbiguous, envVarName, joinUnderscore, upperChar]
example : loadEnv ['P', '_'] [] exAmbiguous = .error .ambiguousEnv :=
  two_settings_collide _ _ _ [['a'], ['b']] [['a', '_', 'b']] (by decide) (by decide) (by decide)
    (by simp [envVarName, joinUnderscore, upperChar])
/-- keys are opaque: the top-level key `a.b` and the nested path `a → b` are two settings with two variable names
    (`A.B`, `A_B`); nothing is ambiguous, and each is cast by its own value -/
def exDotted : KVs := [(['a', '.', 'b'], .leaf (.i 5)), (['a'], .dict [(['b'], .leaf (.s ['t']))])]
example : leafVarNames [] exDotted = [['A', '.', 'B'], ['A', '_', 'B']] := by
  simp [leafVarNames, leafPaths, exDotted, envVarName, joinUnderscore, upperChar]
example : ∃ d, loadEnv ['P', '_'] [(['P', '_', 'A', '_', 'B'], ['7'])] exDotted = .ok d ∧
    getLeaf [['a'], ['b']] d = some (.s ['7']) ∧ getLeaf [['a', '.', 'b']] d = none := by
  simp [loadEnv, crawl, clash, hasVarName, varNames, exDotted, envVarName, joinUnderscore, upperChar, applyVars, lookupEnv,
    getLeaf, lookup, castLeaf, generated_cast_order_documented, castWith, branchApplies, runBranch, setLeaf, insert]
example : WF exTree := wfB_sound _ (by decide)
example : castLeaf (.b true) ['0'] = .ok (.b false) ∧ castLeaf (.b false) ['n', 'o'] = .ok (.b true) :=
  ⟨((env_cast_table _).1 _), ((env_cast_table _).1 _)⟩
/-- `load_depends_on_paths_and_casts` instantiated: `{n: 7}` and `{n: 12}` load alike -/
example (environ : Environ) : loadEnv ['P', '_'] environ [(['n'], .leaf (.i 7))] = loadEnv ['P', '_'] environ [(['n'], .leaf (.i 12))] :=
  load_depends_on_paths_and_casts _ _ _ _ (by simp [leafPaths]) (by
    intro p hp s
    simp only [leafPaths, List.nil_append, List.mem_singleton] at hp
    subst hp
    simp only [castAt, getLeaf, lookup, if_true]
    rw [(env_cast_table s).2.2.2.2 7, (env_cast_table s).2.2.2.2 12])
example : pyInt [' ', '-', '4', '_', '2', ' '] = some (-42) := by decide
example : pyInt ['4', '_', '_', '2'] = none ∧ pyInt ['x'] = none ∧ pyInt [] = none := by decide

end Inv
