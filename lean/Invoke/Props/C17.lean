import Invoke.Lemmas.Collection
import Invoke.Lemmas.CollectionHeap
import Invoke.Lemmas.CollectionOps
/-! # C17 — a task's namespace settings are the deep merge along its path, outer wins

Property theorems only; the model is `Invoke/Model/Collection.lean` (`twc` = `Collection.task_with_config`,
settings merged with `mergeKVs` = `invoke.config.merge_dicts`), helper lemmas and the specification
vocabulary (`IsChain`, `Holds`, `mergeAlong`, `leafAlong`, `graft`, `visits`) live in
`Invoke/Lemmas/Collection.lean`.  Names are component lists (`"a.b.t"` ↦ `[a, b, t]`).
Freshness of the returned mapping is an aliasing property of the Python objects: it is proved on a minimal
object model (`OVal`: dicts carry the address of the object they are, `copy_dict` / `merge_dicts` allocate
fresh addresses; `configuration_fresh*`) that is shown to compute the value model, and it is established on
the real result by the harness (identity scan + mutation). -/
namespace Inv
open Coll

/-- HEADLINE.  For every tree and every name: if the lookup resolves to task `t` with settings `cfg`,
    there is a chain `c → c₁ → … → cₙ` of nested sub-collections such that `t` is bound in `cₙ` and
    `cfg` is the fold of `merge_dicts` over `[cfg c, cfg c₁, …, cfg cₙ]` with the innermost as base
    and every outer collection merged over it, the root last (outer wins). -/
theorem ns_config_is_deep_merge_outer_wins (c : Coll) (p : List CName) (t : Nat) (cfg : KVs)
    (h : c.twc p = .ok (t, cfg)) :
    ∃ chain, IsChain c chain ∧ Holds (lastOf c chain) t ∧
      mergeAlong (c.cfg :: chain.map Coll.cfg) = .ok cfg :=
  twc_chain c p t cfg h

/-- …hence, when the settings along the path are dicts (duplicate-free keys) and type-consistent,
    at EVERY key path the value is that of the outermost collection on the path defining it, and
    where no outer collection defines it the inner setting is preserved, at any nesting depth. -/
theorem ns_config_leaf_outermost_wins (c : Coll) (p : List CName) (t : Nat) (cfg : KVs)
    (h : c.twc p = .ok (t, cfg)) :
    ∃ chain, IsChain c chain ∧ Holds (lastOf c chain) t ∧
      ((∀ x ∈ c.cfg :: chain.map Coll.cfg, WF x) → (c.cfg :: chain.map Coll.cfg).Pairwise Compat →
        ∀ kp, getLeaf kp cfg = leafAlong kp (c.cfg :: chain.map Coll.cfg)) := by
  obtain ⟨chain, hc, hh, hm⟩ := twc_chain c p t cfg h
  refine ⟨chain, hc, hh, ?_⟩
  intro hw hp kp
  rw [mergeAlong_eq_T _ hw hp] at hm
  cases hm
  exact getLeaf_mergeAlongT kp _ hw hp

/-- under the same side conditions merging along a path never raises -/
theorem ns_config_total_when_consistent (l : List KVs) (hw : ∀ x ∈ l, WF x) (hp : l.Pairwise Compat) :
    mergeAlong l = .ok (mergeAlongT l) :=
  mergeAlong_eq_T l hw hp

/-- Sibling collections contribute nothing, at any depth: if the lookup of `p` does not pass through
    the collection at address `addr`, replacing that whole sub-tree by ANY other tree changes neither
    the task found nor its settings. -/
theorem siblings_contribute_nothing (addr : List CName) (new c : Coll) (p : List CName)
    (h : visits addr c p = false) : (graft addr new c).twc p = c.twc p :=
  graft_off_path addr new c p h

/-- Whichever name the task was invoked by: every alias of a `task_names` entry of a well-formed tree -
    an alias declared on the task or given to `add_task`, the name of a collection whose default task
    it is, or of a collection whose default *sub-collection* chain ends in it - looks up the same task
    with the same settings as the primary dotted name. -/
theorem same_for_alias_and_default_shortcut (c : Coll) (hW : wf c = true) (e : Entry) (he : e ∈ taskNames c)
    (q : List CName) (hq : q ∈ e.2) : c.twc q = c.twc e.1 :=
  entry_names_agree c hW e he q hq

/-- the outer collection has normalised the name with its own `auto_dash_names` before handing it
    down: the settings found do not depend on that -/
theorem lookup_ignores_outer_normalisation (c : Coll) (b : Bool) (p : List CName) :
    c.twc (p.map (transform b)) = c.twc p :=
  twc_transform_invariant c b p

/-! ## non-vacuity: a concrete three-level tree -/

namespace C17ex
def S (s : String) : CName := s.toList
def I (k : String) (i : Int) : Key × Val := (S k, .leaf (.i i))
/-- `b`: task `t` (default), alias `tt`; settings `{kb: 1, sec: {x: 1, y: 7}}` -/
def b : Coll := .mk (some (S "b")) true [(S "t", 1), (S "other", 2)] [(S "tt", S "t")] [] (some (S "t"))
  [I "kb" 1, (S "sec", .dict [I "x" 1, I "y" 7])]
/-- a sibling of `b` with clashing settings -/
def sib : Coll := .mk (some (S "sib")) true [(S "s", 3)] [] [] none [I "kb" 99, (S "sec", .dict [I "x" 99])]
/-- `a`: default sub-collection `b`; settings `{ka: 2, sec: {y: 2}}` -/
def a : Coll := .mk (some (S "a")) true [] [] [(S "b", b), (S "sib", sib)] (some (S "b")) [I "ka" 2, (S "sec", .dict [I "y" 2])]
/-- root: settings `{kr: 3, sec: {z: 3}}` -/
def root : Coll := .mk none true [(S "top", 4)] [] [(S "a", a)] none [I "kr" 3, (S "sec", .dict [I "z" 3])]
end C17ex
open C17ex

example : wf root = true := by decide
-- the name `a` (default sub-collection chain a → b → t) is an alias of the entry `a.b.t`
example : ([S "a", S "b", S "t"], [[S "a", S "b", S "tt"], [S "a", S "b"], [S "a"]]) ∈ taskNames root := by decide
example : visits [S "a", S "sib"] root [S "a"] = false := by decide
example : visits [S "a", S "b"] root [S "a"] = true := by decide

set_option linter.unusedSimpArgs false in
/-- evaluation of the model on the tree (through `merge_dicts`): invoked by the bare collection name
    `a`, task `t` of `a.b` gets `b`'s settings overridden by `a`'s, overridden by the root's -/
theorem root_a_eval : root.twc [S "a"] =
    .ok (1, [I "kb" 1, (S "sec", .dict [I "x" 1, I "y" 2, I "z" 3]), I "ka" 2, I "kr" 3]) := by
  simp +decide [root, a, b, sib, S, I, twc_mk, twcKids, stepName, isEmptyName, transform, xfAux, xfChar, assoc,
    lexGet, lexResult, mergeOuter, splitOnDot, mergeKVs.eq_1, mergeKVs.eq_2, mergeKVs.eq_3, mergeKVs.eq_4,
    mergeKVs.eq_5, mergeKVs.eq_6, mergeKVs.eq_7, Inv.lookup, Inv.insert, Except.map]

/-- the hypotheses of the headline theorem are satisfiable on a path of three collections with a shared
    section: `sec.x` comes from `b`, `sec.y` is overridden by `a`, `sec.z` is added by the root -/
example : ∃ t cfg, root.twc [S "a"] = .ok (t, cfg) ∧
    getLeaf [S "sec", S "x"] cfg = some (.i 1) ∧ getLeaf [S "sec", S "y"] cfg = some (.i 2) ∧
    getLeaf [S "sec", S "z"] cfg = some (.i 3) ∧ getLeaf [S "kb"] cfg = some (.i 1) :=
  ⟨_, _, root_a_eval, by decide⟩

/-- the default-sub-collection shortcut `a`, the default-task shortcut `a.b` and the alias `a.b.tt` all give
    what the primary name `a.b.t` gives (before the repair of the empty-name branch, `a` lost `b`'s settings) -/
example : root.twc [S "a"] = root.twc [S "a", S "b", S "t"] ∧ root.twc [S "a", S "b"] = root.twc [S "a", S "b", S "t"] ∧
    root.twc [S "a", S "b", S "tt"] = root.twc [S "a", S "b", S "t"] :=
  have he : ([S "a", S "b", S "t"], [[S "a", S "b", S "tt"], [S "a", S "b"], [S "a"]]) ∈ taskNames root := by decide
  ⟨same_for_alias_and_default_shortcut root (by decide) _ he _ (by decide),
   same_for_alias_and_default_shortcut root (by decide) _ he _ (by decide),
   same_for_alias_and_default_shortcut root (by decide) _ he _ (by decide)⟩

/-- the sibling `a.sib` (with clashing settings) can be replaced by anything: nothing changes for `a` -/
example : (graft [S "a", S "sib"] b root).twc [S "a"] = root.twc [S "a"] :=
  siblings_contribute_nothing [S "a", S "sib"] b root [S "a"] (by decide)

set_option linter.unusedSimpArgs false in
/-- the collection `a` asked for its default (empty name), after the repair: `b`'s settings are there -/
theorem a_default_eval : a.twc [[]] =
    .ok (1, [I "kb" 1, (S "sec", .dict [I "x" 1, I "y" 2]), I "ka" 2]) := by
  simp +decide [a, b, sib, S, I, twc_mk, twcKids, stepName, isEmptyName, transform, xfAux, xfChar, assoc,
    lexGet, lexResult, mergeOuter, splitOnDot, mergeKVs.eq_1, mergeKVs.eq_2, mergeKVs.eq_3, mergeKVs.eq_4,
    mergeKVs.eq_5, mergeKVs.eq_6, mergeKVs.eq_7, Inv.lookup, Inv.insert, Except.map]

set_option linter.unusedSimpArgs false in
/-- the rule before the repair of the empty-name branch (`return self[self.default], ours`) found the
    right task through the default SUB-COLLECTION `b` but returned only `a`'s own settings: `kb` and
    `sec.x` of `b` were lost; the repaired lookup has them -/
theorem default_subcollection_settings_counterexample :
    taskOf (twcEmptyPinned a) = some 1 ∧ leafOf (twcEmptyPinned a) [S "kb"] = none ∧
    leafOf (twcEmptyPinned a) [S "sec", S "x"] = none ∧
    taskOf (a.twc [[]]) = some 1 ∧ leafOf (a.twc [[]]) [S "kb"] = some (.i 1) ∧
    leafOf (a.twc [[]]) [S "sec", S "x"] = some (.i 1) := by
  have hp : twcEmptyPinned a = .ok (1, a.cfg) := by
    simp +decide [twcEmptyPinned, a, b, sib, S, I, twc_mk, twcKids, stepName, isEmptyName, transform, xfAux, xfChar,
      assoc, lexGet, lexResult, mergeOuter, splitOnDot, mergeKVs.eq_1, mergeKVs.eq_2, mergeKVs.eq_3, mergeKVs.eq_4,
      mergeKVs.eq_5, mergeKVs.eq_6, mergeKVs.eq_7, Inv.lookup, Inv.insert, Except.map, Coll.default, Coll.cfg]
  rw [hp, a_default_eval]
  decide

/-- before the repair (`dict(config, **ours)`) the inner setting `sec.x` was lost under the outer `sec`;
    the recursive merge keeps it -/
theorem shallow_merge_counterexample :
    getLeaf [S "sec", S "x"] (shallowMerge b.cfg a.cfg) = none ∧
    getLeaf [S "sec", S "y"] (shallowMerge b.cfg a.cfg) = some (.i 2) := by decide

/-! ## histories on one tree

The real objects are mutable: `configure`, `add_task`, `add_collection` may be called on any collection of
the tree at any time, between lookups.  `runHist` (`Model/CollectionOps.lean`) is the trace semantics of
such a history; the harness replays the same steps on the real objects. -/

/-- the answer to a lookup depends only on the tree AS IT IS NOW - the result of the mutations made so
    far - never on which lookups were made earlier or when: a history splits at any point into "apply
    the mutations so far, then go on from that tree" -/
theorem history_lookup_depends_only_on_current_tree (c : Coll) (pre post : List HStep) :
    runHist c (pre ++ post) = runHist c pre ++ runHist (applyOps (opsOf pre) c) post :=
  runHist_append pre post c

/-- …in particular two histories with the same mutations (whatever lookups they contain, in whatever
    places) answer a final lookup alike -/
theorem history_earlier_lookups_irrelevant (c : Coll) (pre pre' : List HStep) (addr p : List CName)
    (h : opsOf pre = opsOf pre') :
    (runHist c (pre ++ [HStep.look addr p])).getLast? = (runHist c (pre' ++ [HStep.look addr p])).getLast? := by
  rw [runHist_append, runHist_append, h]
  simp [runHist]

/-- HEADLINE over histories.  After ANY sequence of `configure` / `add_task` / `add_collection` calls at any
    depth, interleaved with any lookups, a lookup through the collection at `addr` that resolves returns the
    fold of `merge_dicts` over the configurations - as they are in the tree produced by those calls - of
    exactly the collections on the path from that collection to the holder of the task, outer last. -/
theorem history_config_is_deep_merge_of_current_tree (c : Coll) (pre : List HStep) (addr p : List CName)
    (t : Nat) (cfg : KVs)
    (h : (runHist c (pre ++ [HStep.look addr p])).getLast? = some (.ok (t, cfg))) :
    ∃ s chain, subAt addr (applyOps (opsOf pre) c) = some s ∧ IsChain s chain ∧ Holds (lastOf s chain) t ∧
      mergeAlong (s.cfg :: chain.map Coll.cfg) = .ok cfg := by
  rw [runHist_append] at h
  simp only [runHist, List.getLast?_append, List.getLast?_singleton, Option.some_or, Option.some.injEq] at h
  unfold lookAt at h
  cases hs : subAt addr (applyOps (opsOf pre) c) with
  | none => simp [hs] at h
  | some s =>
    simp only [hs] at h
    obtain ⟨chain, hc, hh, hm⟩ := twc_chain s p t cfg h
    exact ⟨s, chain, rfl, hc, hh, hm⟩

/-- `configure` at any depth reaches exactly the collection addressed: afterwards that collection stores
    `merge_dicts(old, options)` (so, by the headline theorem, every lookup passing through it sees the new
    settings, however far above it the lookup starts) … -/
theorem configure_updates_the_addressed_collection (c s : Coll) (addr : List CName) (opts m : KVs)
    (hs : subAt addr c = some s) (hm : mergeKVs s.cfg opts = .ok m) :
    ∃ s', subAt addr ((TreeOp.configure addr opts).apply c) = some s' ∧ s'.cfg = m :=
  ⟨configureHere opts s, subAt_updAt _ addr c s hs, cfg_configureHere opts s m hm⟩

/-- …and a mutation of a collection the lookup does not pass through (a sibling, at any depth) changes nothing -/
theorem mutation_off_path_changes_nothing (o : TreeOp) (c : Coll) (p : List CName)
    (h : visits o.addr c p = false) : (o.apply c).twc p = c.twc p :=
  updAt_off_path o.here o.addr c p h

set_option linter.unusedSimpArgs false in
/-- non-vacuity, on the three-level tree above: the settings are asked through the root (by the default
    shortcut `a`), then the GRANDCHILD `a.b` is configured, then they are asked again through the root and
    through the middle collection (by an alias): both see the new `sec.x`, everything else is as before -/
theorem history_deep_configure_is_seen_example :
    runHist root [HStep.look [] [S "a"], .op (.configure [S "a", S "b"] [(S "sec", .dict [I "x" 5])]),
      .look [] [S "a"], .look [S "a"] [S "b", S "tt"]] =
    [.ok (1, [I "kb" 1, (S "sec", .dict [I "x" 1, I "y" 2, I "z" 3]), I "ka" 2, I "kr" 3]),
     .ok (1, [I "kb" 1, (S "sec", .dict [I "x" 5, I "y" 2, I "z" 3]), I "ka" 2, I "kr" 3]),
     .ok (1, [I "kb" 1, (S "sec", .dict [I "x" 5, I "y" 2]), I "ka" 2])] := by
  simp +decide [runHist, lookAt, subAt, TreeOp.apply, TreeOp.here, TreeOp.addr, updAt, setKid, configureHere,
    root, a, b, sib, S, I, twc_mk, twcKids, stepName, isEmptyName, transform, xfAux, xfChar, assoc,
    lexGet, lexResult, mergeOuter, splitOnDot, mergeKVs.eq_1, mergeKVs.eq_2, mergeKVs.eq_3, mergeKVs.eq_4,
    mergeKVs.eq_5, mergeKVs.eq_6, mergeKVs.eq_7, Inv.lookup, Inv.insert, Except.map]

/-- several tasks in ONE run (`execute(n₁, …, nₖ)` / one command line): the settings each task receives are those of
    a lookup of ITS name in the tree - whatever was looked up before it in the same run; with
    `same_for_alias_and_default_shortcut` this holds for every invocation form, nested default shortcuts (`a.b`,
    `a.b.c`) included -/
theorem run_settings_are_pointwise (c : Coll) (names : List (List CName)) :
    runHist c (names.map (HStep.look [])) = names.map (lookAt c []) := by
  induction names with
  | nil => rfl
  | cons n r ih => simp only [List.map_cons, runHist, ih]

/-! ### collections loaded from a module

`Collection.from_module` / `add_collection(module)` is CONSTRUCTION: it yields a NEW collection (`fromModule`: the
tasks, aliases and sub-collections of the module's `ns` under the new normalisation, its configuration merged
with the `config=` argument) which is then an ordinary sub-tree.  The model of a tree with module-backed
collections is the resulting tree - every load of one module is a separate sub-tree with its own stored
configuration - and the harness serialises exactly that (each loaded copy enters a history as an `addColl`
step).  Hence "siblings contribute nothing" covers the copies of one module among each other. -/

namespace C17ex
/-- the collection `b` taken as a module's `ns`, loaded under the name `nm` -/
def loaded (nm : String) : Coll :=
  match fromModule b (some (S nm)) (S "mod") true [] with
  | .ok c => c
  | .error _ => b
/-- one module mounted twice, as `staging` and as `prod` -/
def twice : Coll := .mk none true [(S "top", 9)] [] [(S "staging", loaded "staging"), (S "prod", loaded "prod")] none [I "kr" 3]
end C17ex

/-- whatever is configured later on ONE loaded copy (or added to it), the tasks of the OTHER copy of the same
    module keep their settings -/
theorem loaded_copies_are_independent_example (o : TreeOp) (h : o.addr = [S "staging"]) :
    (o.apply twice).twc [S "prod", S "t"] = twice.twc [S "prod", S "t"] :=
  mutation_off_path_changes_nothing o twice _ (by rw [h]; decide)

/-! ## freshness (object model) -/

open OVal in
/-- `configuration_fresh`.  Let the stored configuration objects of the collections on the path (root
    first) be `objs`, all allocated before the call (addresses below the allocation counter `n₀`).  Every
    dict object reachable from the mapping that `task_with_config` / `configuration` builds
    (`copy_dict` of the innermost, then `merge_dicts(config, copy_dict(outer))` outwards) was allocated
    during the call: none of them is (part of) a stored configuration of any collection on the path -
    changing the result cannot change a stored configuration. -/
theorem configuration_fresh (objs : List OVal) (n₀ : Nat) (r : OVal × Nat)
    (hstored : ∀ x ∈ objs, ∀ a ∈ addrs x, a < n₀) (h : buildAlong n₀ objs = some r) :
    (∀ a ∈ addrs r.1, n₀ ≤ a) ∧ ∀ a ∈ addrs r.1, ∀ x ∈ objs, a ∉ addrs x := by
  have hf := (buildAlong_fresh objs n₀ r h).2
  refine ⟨fun a ha => (hf a ha).1, ?_⟩
  intro a ha x hx hax
  have := hstored x hx a hax
  have := (hf a ha).1
  omega

open OVal in
/-- …and the object model computes the value model: for ANY lookup that resolves, if `objs` are the
    stored configuration objects of the collections on the path (their values are the `cfg`s of the
    chain of C17's headline theorem, well-formed dicts), the construction succeeds, the object built has
    exactly the settings `cfg` the lookup returns, and it is fresh. -/
theorem configuration_fresh_for_lookup (c : Coll) (p : List CName) (t : Nat) (cfg : KVs)
    (h : c.twc p = .ok (t, cfg)) :
    ∃ chain, IsChain c chain ∧ Holds (lastOf c chain) t ∧
      ∀ (objs : List OVal) (n₀ : Nat), objs.map cfgOf = c.cfg :: chain.map Coll.cfg →
        (∀ x ∈ objs, IsCfg x) → (∀ x ∈ objs, ∀ a ∈ addrs x, a < n₀) →
        ∃ r, buildAlong n₀ objs = some r ∧ cfgOf r.1 = cfg ∧ ∀ a ∈ addrs r.1, ∀ x ∈ objs, a ∉ addrs x := by
  obtain ⟨chain, hc, hh, hm⟩ := twc_chain c p t cfg h
  refine ⟨chain, hc, hh, ?_⟩
  intro objs n₀ hmap hcfg hst
  have hne : objs ≠ [] := by intro e; subst e; simp at hmap
  have he := buildAlong_erase objs n₀ hcfg hne
  rw [hmap, hm] at he
  cases hb : buildAlong n₀ objs with
  | none => rw [hb] at he; cases he
  | some r =>
    rw [hb] at he
    simp only [Except.ok.injEq] at he
    exact ⟨r, rfl, he.2.symm, (configuration_fresh objs n₀ r hst hb).2⟩

namespace C17ex
def L (k : String) (i : Int) : Key × OVal := (S k, .leaf (.i i))
/-- stored configuration objects of `a` (addresses 0, 1) and `b` (addresses 2, 3) -/
def oa : OVal := .dict 0 [L "ka" 2, (S "sec", .dict 1 [L "y" 2])]
def ob : OVal := .dict 2 [L "kb" 1, (S "sec", .dict 3 [L "x" 1, L "y" 7])]
end C17ex

-- the result built for a task of `a.b` at allocation counter 10: objects 10 and 11 (the copy of `b`'s dict and
-- of its section, mutated in place by the merge); the copies 12, 13 of `a`'s objects are garbage afterwards
example : (OVal.buildAlong 10 [oa, ob]).map (fun r => (OVal.addrs r.1, r.2)) = some ([10, 11], 14) := by decide
example : ∀ x ∈ [oa, ob], ∀ a ∈ OVal.addrs x, a < 10 := by decide

/-- a shallow copy of the stored dict (what `dict(self._configuration)` would give) is NOT fresh: the
    nested section is the stored object itself -/
theorem shallow_copy_shares_counterexample :
    3 ∈ OVal.addrs (OVal.shallowCopyO 10 ob) ∧ 3 ∈ OVal.addrs ob := by decide

end Inv
