import Invoke.Lemmas.ProgramParse
import Invoke.Lemmas.ProgramPlacementI
import Invoke.Lemmas.SpellCheck
import Invoke.Generated.Program
import Invoke.Props.C18Tables
/-! # C18 — core options mean the same anywhere; task tokens and the remainder stay intact

Property theorems only; helper lemmas live in `Invoke/Lemmas/ProgramParse.lean`.
Model: `Invoke/Model/Program.lean` (`corePass` ∘ `taskPass` ∘ `updateCore` ∘ `overrides`) on top of the argv
machine `Invoke/Model/Parser.lean`; the core-argument table is regenerated from the real
`Program(...).initial_context` on every run (`Invoke/Generated/Program.lean`).

FULL STATEMENT of the placement property (not proved in this generality, validated by the metamorphic
correspondence through the real `Program`, see `harness/props/c18.py`):

    theorem core_flag_placement_invariant (o : core option ≠ help/list) (s : spelling of o) (calls : task invocations)
        (k j : position j inside call k's argument list, at an item boundary — the task is not waiting for a value —
               and call k's task declares no flag spelled like the head of s) :
      (programParse core reg (s ++ flat calls)).map effect = (programParse core reg (insert s at (k, j))).map effect
      where effect r = (overrides r.core, r.tasks)

What IS proved (whole argv, admissible chains of calls in the sense of C01, the core item between two items of ANY call):
Boolean core flags (`core_flag_placement_invariant_partial2(_later)`), value-taking core flags in every spelling — spaced,
`=`, glued (`core_value_flag_placement_partial3(_later)`), combined blocks of Boolean core letters
(`core_bool_block_placement_partial2`) and with a value letter last (`core_block_with_value_placement`), the general
expansion of ANY short block into its letters in order (`short_block_expands_in_order` and its parse/program corollaries),
core OPTIONAL-value flags given with a value (`core_optional_value_flag_placement`) and bare when followed by a Boolean
core flag (`core_optional_bare_then_core_flag_placement`); the single-step content for every machine state "between
items" (`…_partial`), for ANY task signature, including tasks with still missing positionals (DESIGN §4 #27).
Still missing for the full theorem: `help`; a bare optional core flag followed by a flag of the task or by the end of the
command line (machine level only, `core_optional_bare_tied_off_partial`); call positions right after a bare optional flag
of the task for some of the item kinds (see each statement).  Concrete instances of the full statement are checked by `decide` below. -/
namespace Inv
open M

/-! ## Remainder -/

/-- REMAINDER VERBATIM (parser).  Everything after the first `--` becomes the remainder, joined by single spaces,
    and influences nothing else: the parse of `body ++ "--" :: rem` is the parse of `body` with the remainder filled in
    (same contexts, same unparsed tokens, same error). -/
theorem remainder_verbatim (initial : Option Ctx) (registry : List Ctx) (ign : Bool) (body rem : List Tok)
    (hb : ['-', '-'] ∉ body) :
    parseArgv initial registry ign (body ++ ['-', '-'] :: rem) = withRemainder rem (parseArgv initial registry ign body) :=
  parseArgv_remainder initial registry ign body rem hb

/-- REMAINDER VERBATIM (Program).  Core values, task contexts, unparsed tokens and errors of the two-pass parse
    do not depend on the tokens after `--`; `remainder = " ".join(rem)`. -/
theorem program_remainder_verbatim (core : Ctx) (registry : List Ctx) (body rem : List Tok) (hb : ['-', '-'] ∉ body) :
    programParse core registry (body ++ ['-', '-'] :: rem) = withRemainderP rem (programParse core registry body) :=
  programParse_remainder core registry body rem hb

/-- in particular two different remainders give the same core values and task contexts -/
theorem remainder_influences_nothing (core : Ctx) (registry : List Ctx) (body rem rem' : List Tok) (hb : ['-', '-'] ∉ body)
    (r r' : ProgResult) (h : programParse core registry (body ++ ['-', '-'] :: rem) = .ok r)
    (h' : programParse core registry (body ++ ['-', '-'] :: rem') = .ok r') :
    r.core = r'.core ∧ r.tasks = r'.tasks ∧ r.unparsed = r'.unparsed ∧
    r.remainder = [' '].intercalate rem ∧ r'.remainder = [' '].intercalate rem' := by
  rw [programParse_remainder core registry body rem hb] at h
  rw [programParse_remainder core registry body rem' hb] at h'
  cases hp : programParse core registry body with
  | error e => simp [hp, withRemainderP] at h
  | ok r0 =>
    simp only [hp, withRemainderP, Except.ok.injEq] at h h'
    subst h; subst h'
    exact ⟨rfl, rfl, rfl, rfl, rfl⟩

/-! ## Unparsed tokens -/

/-- UNPARSED IS A SUFFIX (any parser).  If a parse succeeds, the unparsed list is empty, or the tokens before `--`
    split as `pre ++ t :: rest` where `t` is the first token (partly) stored as unknown and
    `unparsed = ps ++ rest`: every token after `t` reaches the next stage verbatim, in order, none dropped or
    duplicated; `ps` are the stored pieces of `t`, and `ps = [t]` whenever `t` is not flag-like (e.g. a task name). -/
theorem unparsed_is_suffix (initial : Option Ctx) (registry : List Ctx) (ign : Bool) (argv : List Tok) (r : PResult)
    (h : parseArgv initial registry ign argv = .ok r) :
    r.unparsed = [] ∨ ∃ pre t rest ps, bodyOf argv = pre ++ t :: rest ∧ r.unparsed = ps ++ rest ∧ ps ≠ [] ∧
      (isFlag t = false → ps = [t]) :=
  parseArgv_unparsed initial registry ign argv r h

/-- the same for `Program`: what the core pass hands to task parsing (`Program.core.unparsed`) -/
theorem program_unparsed_is_suffix (core : Ctx) (registry : List Ctx) (argv : List Tok) (r : ProgResult)
    (h : programParse core registry argv = .ok r) :
    r.unparsed = [] ∨ ∃ pre t rest ps, bodyOf argv = pre ++ t :: rest ∧ r.unparsed = ps ++ rest ∧ ps ≠ [] ∧
      (isFlag t = false → ps = [t]) := by
  obtain ⟨r1, h1, hu, _⟩ := programParse_unparsed core registry argv r h
  rw [hu]
  exact parseArgv_unparsed (some core) [] true argv r1 h1

/-- once the machine is in state "unknown" a token is never split, interpreted or dropped -/
theorem unknown_state_stores_verbatim (n : Nat) (m m' : M) (t : Tok) (hu : m.st = .unknown ∧ m.unparsed ≠ [])
    (h : procTok (n + 1) m t = .ok m') : m'.st = .unknown ∧ m'.unparsed = m.unparsed ++ [t] :=
  procTok_unknown n m m' t hu h

/-! ## Placement of a core option (one-step statements, any task signature) -/

/-- PLACEMENT, boolean core flag (partial: one step, no pending flag).
    EXCLUDED POINT (hypothesis `hflt : mt.flag = none`, more generally "the machine is not waiting for a value"):
    directly after a bare OPTIONAL-value flag — of the task or of the core (`-l`/`--list`, `-h`/`--help`) — the next token
    is taken as that flag's value unless it is a flag of the TASK; a core flag is not looked up at that point, so it is
    swallowed (before the repair recorded as finding C18-core-optional-then-core-flag it was swallowed, see
    `core_optional_then_core_flag_pinned_counterexample`; now a core flag is recognised there, `…_repaired`).  Handled inside a task context — whatever the
    task's own arguments, even with positionals still missing — an unshadowed boolean core flag has exactly the effect
    it has in the core context: the same core argument gets the same value; the task context, the finished contexts
    and the unparsed list are untouched. -/
theorem core_flag_placement_invariant_partial (mc mt : M) (c ic : Ctx) (tok : Tok) (i : Nat) (a a' : Arg)
    -- the machine before any task …
    (hstc : mc.st = .context) (hcic : mc.curIsInitial = true) (hic : mc.initial = some ic) (hflc : mc.flag = none)
    -- … and inside task context `c`, between two items
    (hstt : mt.st = .context) (hcit : mt.curIsInitial = false) (hct : mt.cur = some c) (hit : mt.initial = some ic)
    (hflt : mt.flag = none)
    -- the task does not declare the spelling, and it is not a task name
    (hcf : assoc? tok c.flags = none) (hcinv : assoc? tok c.inverse = none) (hl : mt.lookupCtx tok = none)
    -- `tok` is a boolean core flag other than --help
    (hf : assoc? tok ic.flags = some i) (ha : ic.args[i]? = some a) (hh : a.spec.names.headD [] ≠ "help".toList)
    (ht : a.takesValue = false) (hs : a.setValue (.b true) = .ok a') :
    ∃ mc' mt', handle mc tok = .ok mc' ∧ handle mt tok = .ok mt' ∧
      mc'.initial = some { ic with args := ic.args.set i a' } ∧ mt'.initial = mc'.initial ∧
      mt'.cur = mt.cur ∧ mt'.done = mt.done ∧ mt'.unparsed = mt.unparsed ∧ mt'.st = mt.st :=
  ⟨_, _, core_bool_in_core mc ic tok i a a' hstc hcic hic hflc hf ha ht hs,
    core_bool_in_task mt c ic tok i a a' hstt hcit hct hit hflt hcf hcinv hl hf ha hh ht hs, rfl, rfl, rfl, rfl, rfl, rfl⟩

/-- PLACEMENT, value-taking core flag, spaced spelling (partial: two steps).  Same excluded point as above
    (`hfl : m.flag = none`: not directly after a bare optional-value flag).  Inside a task context the flag token
    makes the machine point at the CORE argument and the following token becomes its value; the task context
    is untouched even when the task still lacks positionals (so `inv t2 -T 5 posval` works). -/
theorem core_value_flag_placement_partial (m : M) (c ic : Ctx) (tok v : Tok) (i : Nat) (a a' : Arg)
    (hst : m.st = .context) (hci : m.curIsInitial = false) (hc : m.cur = some c) (hi : m.initial = some ic) (hfl : m.flag = none)
    (hcf : assoc? tok c.flags = none) (hcinv : assoc? tok c.inverse = none) (hl : m.lookupCtx tok = none)
    (hvf : assoc? v c.flags = none) (hvinv : assoc? v c.inverse = none)
    (hf : assoc? tok ic.flags = some i) (ha : ic.args[i]? = some a) (hh : a.spec.names.headD [] ≠ "help".toList)
    (ht : a.takesValue = true) (hr : a.raw = none) (ho : a.spec.optional = false) (hk : a.spec.kind ≠ .list)
    (hs : a.setValue (.s v) = .ok a') :
    ∃ m1 m2, handle m tok = .ok m1 ∧ handle m1 v = .ok m2 ∧
      m2.initial = some { ic with args := ic.args.set i a' } ∧ m2.cur = m.cur ∧ m2.done = m.done ∧ m2.unparsed = m.unparsed := by
  have h1 := core_value_flag_in_task m c ic tok i a hst hci hc hi hfl hcf hcinv hl hf ha hh ht
  have h2 := core_value_received_in_task { m with flag := some (.initial, i), flagGotValue := false } c ic v i a a'
      hst hci hc hi rfl hvf hvinv ha ht hr ho hk hs
  exact ⟨_, _, h1, h2, rfl, rfl, rfl, rfl⟩

/-- SHADOWING.  If the task itself declares the spelling, the task receives it — a boolean flag is set on the TASK
    context — and the core context is unchanged, whether or not the core declares the same spelling. -/
theorem shadowing_flag_wins_partial (m : M) (c : Ctx) (tok : Tok) (i : Nat) (a a' : Arg) (hst : m.st = .context)
    (hci : m.curIsInitial = false) (hc : m.cur = some c) (hfl : m.flag = none)
    (hf : assoc? tok c.flags = some i) (ha : c.args[i]? = some a) (ht : a.takesValue = false)
    (hs : a.setValue (.b true) = .ok a') :
    ∃ m', handle m tok = .ok m' ∧ m'.initial = m.initial ∧ m'.cur = some { c with args := c.args.set i a' } ∧
      m'.flag = some (.cur, i) :=
  ⟨_, shadow_bool_in_task m c tok i a a' hst hci hc hfl hf ha ht hs, rfl, rfl, rfl⟩

/-- SHADOWING, value-taking flag: the machine points at the TASK's argument (the next token is its value), core unchanged -/
theorem shadowing_value_flag_wins_partial (m : M) (c : Ctx) (tok : Tok) (i : Nat) (a : Arg) (hst : m.st = .context)
    (hci : m.curIsInitial = false) (hc : m.cur = some c) (hfl : m.flag = none)
    (hf : assoc? tok c.flags = some i) (ha : c.args[i]? = some a) (ht : a.takesValue = true) :
    ∃ m', handle m tok = .ok m' ∧ m'.initial = m.initial ∧ m'.cur = m.cur ∧ m'.flag = some (.cur, i) :=
  ⟨_, shadow_value_in_task m c tok i a hst hci hc hfl hf ha ht, rfl, rfl, rfl⟩

/-! ## Placement of a core option: WHOLE command lines (C01 item language for the task arguments)

`Call`, `Item`, `ChainOK` are the C01 notions (`Lemmas/Spell*.lean`): a chain of task calls, each spelled by any admissible
items (spaced / `=` / glued value flags, toggles, inverse flags, combined short blocks, positionals, bare optional-value
flags) in any order.  `argvWithCore k pre post ctoks calls2` is the command line
`k.tname :: pre… ++ ctoks ++ post… ++ calls2…`: the core item `ctoks` sits between two items of the FIRST call.

NO EXCLUDED POINT ANY MORE at the item boundaries: the core item may also come directly after a bare optional-value flag
of the task (`pre` may end with `Item.optBare`) — the machine ties that flag off with `True` and handles the core item as
a flag, not as the pending flag's value (fix of finding C18-core-optional-then-core-flag; `CoreStepB`,
`popt_procTok_core`).  Core optional-value flags (`--list`, `--help`) are not themselves core items in the sense of
`CoreStep`; `core_optional_then_core_flag_repaired` shows the repaired behaviour for them on concrete command lines. -/

/-- PLACEMENT, BOOLEAN CORE FLAG, WHOLE ARGV (partial2).  For every chain of task calls `k :: calls2` admissible in the
    sense of C01, every split `pre ++ post` of the first call's items and every unsplit Boolean core flag `tok`
    (`--echo`, `-e`, …; not `--help`) that the task does not declare: the command line with `tok` between `pre` and
    `post` and the command line with `tok` before all tasks both parse, deliver exactly the same task contexts (those
    of the chain without the flag), the same observable core values (`Ctx.view`: declaration + value of every core
    argument) and hence the same configuration overrides.  Holds with positionals of the task still missing at the
    insertion point (DESIGN §4 #27).
    The other cases of the full statement are separate theorems below: a later call (`…_later`), value flags in every
    spelling (`core_value_flag_placement_partial3`), the combined short block (`core_bool_block_placement_partial2`). -/
theorem core_flag_placement_invariant_partial2 (ic : Ctx) (reg : List Ctx) (k : Call) (pre post : List Item)
    (calls2 : List Call) (tok : Tok) (i : Nat) (a a' : Arg)
    (hk : k.items = pre ++ post) (hok : ChainOK (some ic) reg (some ic) (k :: calls2))
    (hun : Unsplit tok) (hcf : assoc? tok k.ctx.flags = none) (hcinv : assoc? tok k.ctx.inverse = none)
    (hl : reg.find? (fun x => x.name = some tok || x.aliases.contains tok) = none)
    (hf : assoc? tok ic.flags = some i) (ha : ic.args[i]? = some a) (hh : a.spec.names.headD [] ≠ "help".toList)
    (ht : a.takesValue = false) (hkl : a.spec.kind ≠ .list) (hfresh : a.gotValue = false)
    (hs : a.setValue (.b true) = .ok a') (hpos : ic.positional = [])
    (hbody : ∀ t ∈ argvWithCore k pre post [tok] calls2, t ≠ ['-', '-']) :
    ∃ rA rB, programParse ic reg (argvWithCore k pre post [tok] calls2) = .ok rA ∧
      programParse ic reg (tok :: (k :: calls2).flatMap Call.toks) = .ok rB ∧
      rA.core.view = rB.core.view ∧ overrides rA.core = overrides rB.core ∧
      rA.tasks = (k :: calls2).map Call.result ∧ rB.tasks = rA.tasks ∧ rA.remainder = rB.remainder := by
  obtain ⟨s1, s2, s3⟩ := Arg.setValue_settled a a' (.b true) true (by simp) hs
  have htab := foldl_apply_tables pre k.ctx
  have hcore : CoreStepB ic (ic.setArg i a') reg (pre.foldl Item.apply k.ctx) [tok] :=
    coreStepB_bool ic reg _ tok i a a' hun (by rw [htab.1]; exact hcf) (by rw [htab.2]; exact hcinv) hl hf ha hh ht hs
  have hcore0 : CoreStep0 ic (ic.setArg i a') [tok] := coreStep0_bool ic tok i a a' hun hf ha ht hs
  have hmiss' : (ic.setArg i a').missingPositional = [] := by
    simp [Ctx.missingPositional, Ctx.setArg, hpos]
  obtain ⟨hA, hB⟩ := program_with_core ic (ic.setArg i a') reg k pre post calls2 [tok] rfl rfl hmiss' hk hok hcore hcore0 hbody
  have hga' : a'.gotValue = true := by
    have : ¬ a'.spec.kind = .list := by rw [s1]; exact hkl
    simp [Arg.gotValue, this, s3]
  have hview := updateCore_view ic i a a' ha s1 hfresh hga' s3
  exact ⟨_, _, hA, hB, hview, overrides_view _ _ hview, rfl, rfl, rfl⟩

/-- PLACEMENT, VALUE-TAKING CORE FLAG IN SPACED FORM, WHOLE ARGV (partial2): `--command-timeout 5`, `-T 5`, `--hide both`
    between any two items of the first call mean the same as before all tasks.  The value must not be a flag of the
    task or of the core context; it may be flag-like otherwise (`-T -5`). -/
theorem core_value_flag_placement_partial2 (ic : Ctx) (reg : List Ctx) (k : Call) (pre post : List Item)
    (calls2 : List Call) (tok v : Tok) (i : Nat) (a a' : Arg)
    (hk : k.items = pre ++ post) (hok : ChainOK (some ic) reg (some ic) (k :: calls2))
    (hun : Unsplit tok) (hcf : assoc? tok k.ctx.flags = none) (hcinv : assoc? tok k.ctx.inverse = none)
    (hl : reg.find? (fun x => x.name = some tok || x.aliases.contains tok) = none)
    (hvf : assoc? v k.ctx.flags = none) (hvinv : assoc? v k.ctx.inverse = none)
    (hvf0 : assoc? v ic.flags = none) (hvinv0 : assoc? v ic.inverse = none)
    (hf : assoc? tok ic.flags = some i) (ha : ic.args[i]? = some a) (hh : a.spec.names.headD [] ≠ "help".toList)
    (ht : a.takesValue = true) (hr0 : a.raw = none) (ho : a.spec.optional = false) (hkl : a.spec.kind ≠ .list)
    (hfresh : a.gotValue = false) (hs : a.setValue (.s v) = .ok a') (hpos : ic.positional = [])
    (hbody : ∀ t ∈ argvWithCore k pre post [tok, v] calls2, t ≠ ['-', '-']) :
    ∃ rA rB, programParse ic reg (argvWithCore k pre post [tok, v] calls2) = .ok rA ∧
      programParse ic reg (tok :: v :: (k :: calls2).flatMap Call.toks) = .ok rB ∧
      rA.core.view = rB.core.view ∧ overrides rA.core = overrides rB.core ∧
      rA.tasks = (k :: calls2).map Call.result ∧ rB.tasks = rA.tasks ∧ rA.remainder = rB.remainder := by
  obtain ⟨s1, s2, s3⟩ := Arg.setValue_settled a a' (.s v) true (by simp) hs
  have htab := foldl_apply_tables pre k.ctx
  have hcore : CoreStepB ic (ic.setArg i a') reg (pre.foldl Item.apply k.ctx) [tok, v] :=
    coreStepB_value ic reg _ tok v [tok, v] i a a' (.spaced hun) (by rw [htab.1]; exact hcf) (by rw [htab.2]; exact hcinv) hl
      (by rw [htab.1]; exact hvf) (by rw [htab.2]; exact hvinv) hf ha hh ht hr0 ho hs
  have hcore0 : CoreStep0 ic (ic.setArg i a') [tok, v] := coreStep0_value_spaced ic tok v i a a' hun hvf0 hvinv0 hf ha ht hr0 ho hs
  have hmiss' : (ic.setArg i a').missingPositional = [] := by
    simp [Ctx.missingPositional, Ctx.setArg, hpos]
  obtain ⟨hA, hB⟩ := program_with_core ic (ic.setArg i a') reg k pre post calls2 [tok, v] rfl rfl hmiss' hk hok hcore hcore0 hbody
  have hga' : a'.gotValue = true := by
    have : ¬ a'.spec.kind = .list := by rw [s1]; exact hkl
    simp [Arg.gotValue, this, s3]
  have hview := updateCore_view ic i a a' ha s1 hfresh hga' s3
  exact ⟨_, _, hA, hB, hview, overrides_view _ _ hview, rfl, rfl, rfl⟩

/-- PLACEMENT, VALUE-TAKING CORE FLAG, EVERY SPELLING, WHOLE ARGV (partial3).  The same statement for the three documented
    spellings of a core value flag (`CoreValSpelling`): spaced `-T 5`, equals `-T=5` / `--command-timeout=5`, and glued
    `-T5` (DESIGN §4 #9) — the split is done by `presplit`, consulting the CORE flags when the task does not declare the
    two-character prefix; a glued value may contain `=` (`-Fx=y`, `glued_core_value_with_equals_repaired`). -/
theorem core_value_flag_placement_partial3 (ic : Ctx) (reg : List Ctx) (k : Call) (pre post : List Item)
    (calls2 : List Call) (tok v : Tok) (ctoks : List Tok) (i : Nat) (a a' : Arg)
    (hsp : CoreValSpelling tok v ctoks)
    (hk : k.items = pre ++ post) (hok : ChainOK (some ic) reg (some ic) (k :: calls2))
    (hcf : assoc? tok k.ctx.flags = none) (hcinv : assoc? tok k.ctx.inverse = none)
    (hl : reg.find? (fun x => x.name = some tok || x.aliases.contains tok) = none)
    (hvf : assoc? v k.ctx.flags = none) (hvinv : assoc? v k.ctx.inverse = none)
    (hvf0 : assoc? v ic.flags = none) (hvinv0 : assoc? v ic.inverse = none)
    (hf : assoc? tok ic.flags = some i) (ha : ic.args[i]? = some a) (hh : a.spec.names.headD [] ≠ "help".toList)
    (ht : a.takesValue = true) (hr0 : a.raw = none) (ho : a.spec.optional = false) (hkl : a.spec.kind ≠ .list)
    (hfresh : a.gotValue = false) (hs : a.setValue (.s v) = .ok a') (hpos : ic.positional = [])
    (hbody : ∀ t ∈ argvWithCore k pre post ctoks calls2, t ≠ ['-', '-']) :
    ∃ rA rB, programParse ic reg (argvWithCore k pre post ctoks calls2) = .ok rA ∧
      programParse ic reg (ctoks ++ (k :: calls2).flatMap Call.toks) = .ok rB ∧
      rA.core.view = rB.core.view ∧ overrides rA.core = overrides rB.core ∧
      rA.tasks = (k :: calls2).map Call.result ∧ rB.tasks = rA.tasks ∧ rA.remainder = rB.remainder := by
  obtain ⟨s1, s2, s3⟩ := Arg.setValue_settled a a' (.s v) true (by simp) hs
  have htab := foldl_apply_tables pre k.ctx
  have hcore : CoreStepB ic (ic.setArg i a') reg (pre.foldl Item.apply k.ctx) ctoks :=
    coreStepB_value ic reg _ tok v ctoks i a a' hsp (by rw [htab.1]; exact hcf) (by rw [htab.2]; exact hcinv) hl
      (by rw [htab.1]; exact hvf) (by rw [htab.2]; exact hvinv) hf ha hh ht hr0 ho hs
  have hcore0 : CoreStep0 ic (ic.setArg i a') ctoks := coreStep0_value ic tok v ctoks i a a' hsp hvf0 hvinv0 hf ha ht hr0 ho hs
  have hmiss' : (ic.setArg i a').missingPositional = [] := by
    simp [Ctx.missingPositional, Ctx.setArg, hpos]
  obtain ⟨hA, hB⟩ := program_with_core ic (ic.setArg i a') reg k pre post calls2 ctoks rfl rfl hmiss' hk hok hcore hcore0 hbody
  have hga' : a'.gotValue = true := by
    have : ¬ a'.spec.kind = .list := by rw [s1]; exact hkl
    simp [Arg.gotValue, this, s3]
  have hview := updateCore_view ic i a a' ha s1 hfresh hga' s3
  exact ⟨_, _, hA, hB, hview, overrides_view _ _ hview, rfl, rfl, rfl⟩

/-- PLACEMENT, BOOLEAN CORE FLAG INSIDE A LATER CALL (partial2, any call of the chain).  The chain is
    `(k0 :: r0) ++ k :: calls2`, the flag sits between the items `pre` and `post` of `k`. -/
theorem core_flag_placement_invariant_partial2_later (ic : Ctx) (reg : List Ctx) (k0 : Call) (r0 : List Call) (k : Call)
    (pre post : List Item) (calls2 : List Call) (tok : Tok) (i : Nat) (a a' : Arg)
    (hk : k.items = pre ++ post) (hok : ChainOK (some ic) reg (some ic) ((k0 :: r0) ++ k :: calls2))
    (hun : Unsplit tok) (hcf : assoc? tok k.ctx.flags = none) (hcinv : assoc? tok k.ctx.inverse = none)
    (hl : reg.find? (fun x => x.name = some tok || x.aliases.contains tok) = none)
    (hf : assoc? tok ic.flags = some i) (ha : ic.args[i]? = some a) (hh : a.spec.names.headD [] ≠ "help".toList)
    (ht : a.takesValue = false) (hkl : a.spec.kind ≠ .list) (hfresh : a.gotValue = false)
    (hs : a.setValue (.b true) = .ok a') (hpos : ic.positional = [])
    (hbodyA : ∀ t ∈ (k0 :: r0).flatMap Call.toks ++ argvWithCore k pre post [tok] calls2, t ≠ ['-', '-'])
    (hbodyB : ∀ t ∈ [tok] ++ ((k0 :: r0) ++ k :: calls2).flatMap Call.toks, t ≠ ['-', '-']) :
    ∃ rA rB, programParse ic reg ((k0 :: r0).flatMap Call.toks ++ argvWithCore k pre post [tok] calls2) = .ok rA ∧
      programParse ic reg ([tok] ++ ((k0 :: r0) ++ k :: calls2).flatMap Call.toks) = .ok rB ∧
      rA.core.view = rB.core.view ∧ overrides rA.core = overrides rB.core ∧
      rA.tasks = ((k0 :: r0) ++ k :: calls2).map Call.result ∧ rB.tasks = rA.tasks ∧ rA.remainder = rB.remainder := by
  obtain ⟨s1, s2, s3⟩ := Arg.setValue_settled a a' (.b true) true (by simp) hs
  have htab := foldl_apply_tables pre k.ctx
  have hcore : CoreStepB ic (ic.setArg i a') reg (pre.foldl Item.apply k.ctx) [tok] :=
    coreStepB_bool ic reg _ tok i a a' hun (by rw [htab.1]; exact hcf) (by rw [htab.2]; exact hcinv) hl hf ha hh ht hs
  have hcore0 : CoreStep0 ic (ic.setArg i a') [tok] := coreStep0_bool ic tok i a a' hun hf ha ht hs
  have hmiss' : (ic.setArg i a').missingPositional = [] := by
    simp [Ctx.missingPositional, Ctx.setArg, hpos]
  obtain ⟨hA, hB⟩ := program_with_core_later ic (ic.setArg i a') reg k0 r0 k pre post calls2 [tok] rfl rfl hmiss' hk hok
    hcore hcore0 hbodyA hbodyB
  have hga' : a'.gotValue = true := by
    have : ¬ a'.spec.kind = .list := by rw [s1]; exact hkl
    simp [Arg.gotValue, this, s3]
  have hview := updateCore_view ic i a a' ha s1 hfresh hga' s3
  exact ⟨_, _, hA, hB, hview, overrides_view _ _ hview, rfl, rfl, rfl⟩

/-- PLACEMENT, VALUE-TAKING CORE FLAG (every spelling) INSIDE A LATER CALL (partial3, any call of the chain) -/
theorem core_value_flag_placement_partial3_later (ic : Ctx) (reg : List Ctx) (k0 : Call) (r0 : List Call) (k : Call)
    (pre post : List Item) (calls2 : List Call) (tok v : Tok) (ctoks : List Tok) (i : Nat) (a a' : Arg)
    (hsp : CoreValSpelling tok v ctoks)
    (hk : k.items = pre ++ post) (hok : ChainOK (some ic) reg (some ic) ((k0 :: r0) ++ k :: calls2))
    (hcf : assoc? tok k.ctx.flags = none) (hcinv : assoc? tok k.ctx.inverse = none)
    (hl : reg.find? (fun x => x.name = some tok || x.aliases.contains tok) = none)
    (hvf : assoc? v k.ctx.flags = none) (hvinv : assoc? v k.ctx.inverse = none)
    (hvf0 : assoc? v ic.flags = none) (hvinv0 : assoc? v ic.inverse = none)
    (hf : assoc? tok ic.flags = some i) (ha : ic.args[i]? = some a) (hh : a.spec.names.headD [] ≠ "help".toList)
    (ht : a.takesValue = true) (hr0 : a.raw = none) (ho : a.spec.optional = false) (hkl : a.spec.kind ≠ .list)
    (hfresh : a.gotValue = false) (hs : a.setValue (.s v) = .ok a') (hpos : ic.positional = [])
    (hbodyA : ∀ t ∈ (k0 :: r0).flatMap Call.toks ++ argvWithCore k pre post ctoks calls2, t ≠ ['-', '-'])
    (hbodyB : ∀ t ∈ ctoks ++ ((k0 :: r0) ++ k :: calls2).flatMap Call.toks, t ≠ ['-', '-']) :
    ∃ rA rB, programParse ic reg ((k0 :: r0).flatMap Call.toks ++ argvWithCore k pre post ctoks calls2) = .ok rA ∧
      programParse ic reg (ctoks ++ ((k0 :: r0) ++ k :: calls2).flatMap Call.toks) = .ok rB ∧
      rA.core.view = rB.core.view ∧ overrides rA.core = overrides rB.core ∧
      rA.tasks = ((k0 :: r0) ++ k :: calls2).map Call.result ∧ rB.tasks = rA.tasks ∧ rA.remainder = rB.remainder := by
  obtain ⟨s1, s2, s3⟩ := Arg.setValue_settled a a' (.s v) true (by simp) hs
  have htab := foldl_apply_tables pre k.ctx
  have hcore : CoreStepB ic (ic.setArg i a') reg (pre.foldl Item.apply k.ctx) ctoks :=
    coreStepB_value ic reg _ tok v ctoks i a a' hsp (by rw [htab.1]; exact hcf) (by rw [htab.2]; exact hcinv) hl
      (by rw [htab.1]; exact hvf) (by rw [htab.2]; exact hvinv) hf ha hh ht hr0 ho hs
  have hcore0 : CoreStep0 ic (ic.setArg i a') ctoks := coreStep0_value ic tok v ctoks i a a' hsp hvf0 hvinv0 hf ha ht hr0 ho hs
  have hmiss' : (ic.setArg i a').missingPositional = [] := by
    simp [Ctx.missingPositional, Ctx.setArg, hpos]
  obtain ⟨hA, hB⟩ := program_with_core_later ic (ic.setArg i a') reg k0 r0 k pre post calls2 ctoks rfl rfl hmiss' hk hok
    hcore hcore0 hbodyA hbodyB
  have hga' : a'.gotValue = true := by
    have : ¬ a'.spec.kind = .list := by rw [s1]; exact hkl
    simp [Arg.gotValue, this, s3]
  have hview := updateCore_view ic i a a' ha s1 hfresh hga' s3
  exact ⟨_, _, hA, hB, hview, overrides_view _ _ hview, rfl, rfl, rfl⟩

/-- PLACEMENT, COMBINED SHORT BOOLEAN BLOCK OF CORE FLAGS, WHOLE ARGV (partial2).  `-xyz…` whose letters are all Boolean core
    flags (`BoolPieces`: none declared by the task, none a task name, none `-h`) between two items of ANY call of the chain
    (`calls1` may be empty) means the same as before all tasks.  `hfresh`: the Boolean core arguments start unset (true of
    the real core table). -/
theorem core_bool_block_placement_partial2 (ic ic' : Ctx) (reg : List Ctx) (calls1 : List Call) (k : Call) (pre post : List Item)
    (calls2 : List Call) (x : Char) (ys : List Char)
    (hk : k.items = pre ++ post) (hok : ChainOK (some ic) reg (some ic) (calls1 ++ k :: calls2))
    (hx : x ≠ '-') (hys : ys ≠ []) (hne : hasEq ('-' :: x :: ys) = false)
    (hp : BoolPieces reg k.ctx ic (blockPieces x ys) ic')
    (hfresh : ∀ a ∈ ic.args, a.takesValue = false → a.gotValue = false ∧ a.spec.kind ≠ .list)
    (hpos : ic.positional = [])
    (hbodyA : ∀ t ∈ calls1.flatMap Call.toks ++ argvWithCore k pre post ['-' :: x :: ys] calls2, t ≠ ['-', '-'])
    (hbodyB : ∀ t ∈ ['-' :: x :: ys] ++ (calls1 ++ k :: calls2).flatMap Call.toks, t ≠ ['-', '-']) :
    ∃ rA rB, programParse ic reg (calls1.flatMap Call.toks ++ argvWithCore k pre post ['-' :: x :: ys] calls2) = .ok rA ∧
      programParse ic reg (['-' :: x :: ys] ++ (calls1 ++ k :: calls2).flatMap Call.toks) = .ok rB ∧
      rA.core.view = rB.core.view ∧ overrides rA.core = overrides rB.core ∧
      rA.tasks = (calls1 ++ k :: calls2).map Call.result ∧ rB.tasks = rA.tasks ∧ rA.remainder = rB.remainder := by
  have htab := foldl_apply_tables pre k.ctx
  have hp' : BoolPieces reg (pre.foldl Item.apply k.ctx) ic (blockPieces x ys) ic' := BoolPieces.congr htab.1 htab.2 hp
  have hcore := coreStepB_block ic ic' reg _ x ys hx hys hne hp'
  have hcore0 := coreStep0_block ic ic' reg _ x ys hx hys hne hp'
  obtain ⟨t1, t2, t3⟩ := hp.tables
  have hmiss' : ic'.missingPositional = [] := by simp [Ctx.missingPositional, t3, hpos]
  have hview := updateCore_view_pieces reg k.ctx ic ic' _ hfresh hp
  cases calls1 with
  | nil =>
    obtain ⟨hA, hB⟩ := program_with_core ic ic' reg k pre post calls2 ['-' :: x :: ys] t1 t2 hmiss' hk hok hcore hcore0
      (by simpa using hbodyA)
    exact ⟨_, _, hA, hB, hview, overrides_view _ _ hview, rfl, rfl, rfl⟩
  | cons k0 r0 =>
    obtain ⟨hA, hB⟩ := program_with_core_later ic ic' reg k0 r0 k pre post calls2 ['-' :: x :: ys] t1 t2 hmiss' hk hok
      hcore hcore0 hbodyA hbodyB
    exact ⟨_, _, hA, hB, hview, overrides_view _ _ hview, rfl, rfl, rfl⟩

/-! ## A combined short block is processed exactly like its letters in order -/

/-- SHORT BLOCKS EXPAND IN ORDER (general: any machine state, any length, any letters — Boolean or value-taking, of the task,
    of the core, or unknown).  Wherever the token loop splits `-xyz…` at all (`SplitsAsBlock`: nothing unparsed yet, the
    split is not rolled back, `-x` is not a value-taking flag there), the rest of the command line is processed exactly
    as if the letters had been written one by one, in the order written: `… -xyz …` ≡ `… -x -y -z …`. -/
theorem short_block_expands_in_order (m0 : M) (a b : List Tok) (x : Char) (ys : List Char) (hx : x ≠ '-') (hys : ys ≠ [])
    (hne : hasEq ('-' :: x :: ys) = false) (hs : ∀ m1, runToks m0 a = .ok m1 → SplitsAsBlock m1 x) :
    runToks m0 (a ++ ('-' :: x :: ys) :: b) = runToks m0 (a ++ (blockPieces x ys ++ b)) :=
  short_block_expands_in_list m0 a b x ys hx hys hne hs

/-- the same for `parse_argv` of ANY parser (contexts, unparsed tokens, remainder and errors all equal) -/
theorem parse_block_expands_in_order (initial : Option Ctx) (registry : List Ctx) (ign : Bool) (a b : List Tok) (x : Char)
    (ys : List Char) (hx : x ≠ '-') (hys : ys ≠ []) (hy : '-' ∉ ys) (hne : hasEq ('-' :: x :: ys) = false)
    (ha : ∀ t ∈ a, t ≠ ['-', '-'])
    (hs : ∀ m0 m1, M.enter { initial := initial, cur := none, registry := registry, ignoreUnknown := ign } = .ok m0 →
      runToks m0 a = .ok m1 → SplitsAsBlock m1 x) :
    parseArgv initial registry ign (a ++ ('-' :: x :: ys) :: b) = parseArgv initial registry ign (a ++ (blockPieces x ys ++ b)) :=
  parseArgv_block_expands initial registry ign a b x ys hx hys hy hne ha hs

/-- … for the two-pass `Program` parse, block BEFORE the tasks (the whole result is equal) -/
theorem program_block_expands_before_tasks (ic : Ctx) (reg : List Ctx) (a b : List Tok) (x : Char) (ys : List Char)
    (hx : x ≠ '-') (hys : ys ≠ []) (hy : '-' ∉ ys) (hne : hasEq ('-' :: x :: ys) = false) (ha : ∀ t ∈ a, t ≠ ['-', '-'])
    (hs : ∀ m0 m1, M.enter (M.start (some ic) [] true) = .ok m0 → runToks m0 a = .ok m1 → SplitsAsBlock m1 x) :
    programParse ic reg (a ++ ('-' :: x :: ys) :: b) = programParse ic reg (a ++ (blockPieces x ys ++ b)) :=
  program_block_expands_core ic reg a b x ys hx hys hy hne ha hs

/-- … and block INSIDE a task's argument list, anywhere after the first task name (`ProgResult.eff` = core context, task
    contexts, remainder; only the verbatim `unparsed` list differs, it holds the spelling as written) -/
theorem program_block_expands_inside_task (ic ic' : Ctx) (reg : List Ctx) (ctoks : List Tok) (tname : Tok) (mid post : List Tok)
    (x : Char) (ys : List Char) (hx : x ≠ '-') (hys : ys ≠ []) (hy : '-' ∉ ys) (hne : hasEq ('-' :: x :: ys) = false)
    (hc0 : CoreStep0 ic ic' ctoks) (hmiss0 : ic.missingPositional = []) (hnf : isFlag tname = false)
    (hf : assoc? tname ic'.flags = none) (hi : assoc? tname ic'.inverse = none) (hmiss : ic'.missingPositional = [])
    (hbody : ∀ t ∈ ctoks ++ tname :: (mid ++ post), t ≠ ['-', '-'])
    (hs : ∀ m0 m1, M.enter (M.start (some ic) reg false) = .ok m0 → runToks m0 (tname :: mid) = .ok m1 → SplitsAsBlock m1 x) :
    (programParse ic reg (ctoks ++ tname :: (mid ++ ('-' :: x :: ys) :: post))).map ProgResult.eff =
      (programParse ic reg (ctoks ++ tname :: (mid ++ (blockPieces x ys ++ post)))).map ProgResult.eff :=
  program_block_expands_in_task ic ic' reg ctoks tname mid post x ys hx hys hy hne hc0 hmiss0 hnf hf hi hmiss hbody hs

/-- PLACEMENT OF A BLOCK WITH A VALUE LETTER LAST, WHOLE ARGV.  `-x…z v` where `x…` are Boolean core flags and `z` is a
    value-taking core flag (`BlockValue`; none declared by the task), between two items of ANY call of an admissible chain —
    also directly after a bare optional-value flag of the task — means the same as before all tasks: same task contexts, same
    observable core values, same overrides.  (`short_block_with_value_flag_last` is the instance `-epT 5` / `-ewpT 5`.) -/
theorem core_block_with_value_placement (ic ic1 : Ctx) (reg : List Ctx) (calls1 : List Call) (k : Call) (pre post : List Item)
    (calls2 : List Call) (x : Char) (ys : List Char) (bps : List Tok) (vtok v : Tok) (i : Nat) (a a' : Arg)
    (hk : k.items = pre ++ post) (hok : ChainOK (some ic) reg (some ic) (calls1 ++ k :: calls2))
    (hb : BlockValue reg k.ctx ic ic1 x ys bps vtok v i a a')
    (hfresh : ∀ b ∈ ic.args, b.takesValue = false → b.gotValue = false ∧ b.spec.kind ≠ .list)
    (hfv : ∀ o, ic.args[i]? = some o → o.gotValue = false ∧ o.spec.kind ≠ .list)
    (hpos : ic.positional = [])
    (hbodyA : ∀ t ∈ calls1.flatMap Call.toks ++ argvWithCore k pre post ['-' :: x :: ys, v] calls2, t ≠ ['-', '-'])
    (hbodyB : ∀ t ∈ ['-' :: x :: ys, v] ++ (calls1 ++ k :: calls2).flatMap Call.toks, t ≠ ['-', '-']) :
    ∃ rA rB, programParse ic reg (calls1.flatMap Call.toks ++ argvWithCore k pre post ['-' :: x :: ys, v] calls2) = .ok rA ∧
      programParse ic reg (['-' :: x :: ys, v] ++ (calls1 ++ k :: calls2).flatMap Call.toks) = .ok rB ∧
      rA.core.view = rB.core.view ∧ overrides rA.core = overrides rB.core ∧
      rA.tasks = (calls1 ++ k :: calls2).map Call.result ∧ rB.tasks = rA.tasks ∧ rA.remainder = rB.remainder := by
  have htab := foldl_apply_tables pre k.ctx
  have hb' : BlockValue reg (pre.foldl Item.apply k.ctx) ic ic1 x ys bps vtok v i a a' :=
    { hb with pieces := BoolPieces.congr htab.1 htab.2 hb.pieces
              hcf := by rw [htab.1]; exact hb.hcf
              hcinv := by rw [htab.2]; exact hb.hcinv
              hvf := by rw [htab.1]; exact hb.hvf
              hvinv := by rw [htab.2]; exact hb.hvinv }
  have hcore := coreStepB_block_value hb'
  have hcore0 := coreStep0_block_value hb'
  obtain ⟨t1, t2, t3⟩ := hb.pieces.tables
  have e1 : (ic1.setArg i a').flags = ic.flags := t1
  have e2 : (ic1.setArg i a').inverse = ic.inverse := t2
  have hmiss' : (ic1.setArg i a').missingPositional = [] := by
    have : (ic1.setArg i a').positional = [] := by rw [← hpos]; exact t3
    simp [Ctx.missingPositional, this]
  have hview := updateCore_view_block_value hb hfresh hfv
  cases calls1 with
  | nil =>
    obtain ⟨hA, hB⟩ := program_with_core ic (ic1.setArg i a') reg k pre post calls2 ['-' :: x :: ys, v] e1 e2 hmiss' hk hok hcore hcore0
      (by simpa using hbodyA)
    exact ⟨_, _, hA, hB, hview, overrides_view _ _ hview, rfl, rfl, rfl⟩
  | cons k0 r0 =>
    obtain ⟨hA, hB⟩ := program_with_core_later ic (ic1.setArg i a') reg k0 r0 k pre post calls2 ['-' :: x :: ys, v] e1 e2 hmiss' hk hok
      hcore hcore0 hbodyA hbodyB
    exact ⟨_, _, hA, hB, hview, overrides_view _ _ hview, rfl, rfl, rfl⟩

/-! ### Core OPTIONAL-value flags (`-l [STRING]`, `--list`; `-h [STRING]` is the `help` special case and stays excluded) -/

/-- PLACEMENT, CORE OPTIONAL-VALUE FLAG GIVEN WITH A VALUE, EVERY SPELLING, WHOLE ARGV, ANY CALL.  `--list=sub`, `-l=sub`,
    `-lsub`, `--list sub` (`CoreValSpelling`; the statement does not ask whether the value is optional, so it covers the
    plain value flags too) between two items of ANY call of an admissible chain means the same as before all tasks, when
    the value `v` is an ordinary word: not flag-like, not a flag / inverse flag of the task or of the core, not a task name,
    and every positional of the task is filled at that point (`hmissk`; these are exactly the conditions under which
    `check_ambiguity` lets an optional value through — otherwise the parser raises "ambiguous", the documented rule). -/
theorem core_optional_value_flag_placement (ic : Ctx) (reg : List Ctx) (calls1 : List Call) (k : Call) (pre post : List Item)
    (calls2 : List Call) (tok v : Tok) (ctoks : List Tok) (i : Nat) (a a' : Arg)
    (hsp : CoreValSpelling tok v ctoks)
    (hk : k.items = pre ++ post) (hok : ChainOK (some ic) reg (some ic) (calls1 ++ k :: calls2))
    (hcf : assoc? tok k.ctx.flags = none) (hcinv : assoc? tok k.ctx.inverse = none)
    (hl : reg.find? (fun x => x.name = some tok || x.aliases.contains tok) = none)
    (hvnf : isFlag v = false) (hvf : assoc? v k.ctx.flags = none) (hvinv : assoc? v k.ctx.inverse = none)
    (hvf0 : assoc? v ic.flags = none) (hvinv0 : assoc? v ic.inverse = none)
    (hvl : reg.find? (fun x => x.name = some v || x.aliases.contains v) = none)
    (hmissk : (pre.foldl Item.apply k.ctx).missingPositional = [])
    (hf : assoc? tok ic.flags = some i) (ha : ic.args[i]? = some a) (hh : a.spec.names.headD [] ≠ "help".toList)
    (ht : a.takesValue = true) (hr0 : a.raw = none) (hkl : a.spec.kind ≠ .list)
    (hfresh : a.gotValue = false) (hs : a.setValue (.s v) = .ok a') (hpos : ic.positional = [])
    (hbodyA : ∀ t ∈ calls1.flatMap Call.toks ++ argvWithCore k pre post ctoks calls2, t ≠ ['-', '-'])
    (hbodyB : ∀ t ∈ ctoks ++ (calls1 ++ k :: calls2).flatMap Call.toks, t ≠ ['-', '-']) :
    ∃ rA rB, programParse ic reg (calls1.flatMap Call.toks ++ argvWithCore k pre post ctoks calls2) = .ok rA ∧
      programParse ic reg (ctoks ++ (calls1 ++ k :: calls2).flatMap Call.toks) = .ok rB ∧
      rA.core.view = rB.core.view ∧ overrides rA.core = overrides rB.core ∧
      rA.tasks = (calls1 ++ k :: calls2).map Call.result ∧ rB.tasks = rA.tasks ∧ rA.remainder = rB.remainder := by
  obtain ⟨s1, s2, s3⟩ := Arg.setValue_settled a a' (.s v) true (by simp) hs
  have htab := foldl_apply_tables pre k.ctx
  have hmiss0 : ic.missingPositional = [] := by simp [Ctx.missingPositional, hpos]
  have hcore : CoreStepB ic (ic.setArg i a') reg (pre.foldl Item.apply k.ctx) ctoks :=
    coreStepB_optvalue ic reg _ tok v ctoks i a a' hsp (by rw [htab.1]; exact hcf) (by rw [htab.2]; exact hcinv) hl hvnf
      (by rw [htab.1]; exact hvf) (by rw [htab.2]; exact hvinv) hvf0 hvl hmissk hf ha hh ht hr0 hs
  have hcore0 : CoreStep0 ic (ic.setArg i a') ctoks :=
    coreStep0_optvalue ic tok v ctoks i a a' hsp hvnf hvf0 hvinv0 hmiss0 hf ha ht hr0 hs
  have hmiss' : (ic.setArg i a').missingPositional = [] := by
    simp [Ctx.missingPositional, Ctx.setArg, hpos]
  have hga' : a'.gotValue = true := by
    have : ¬ a'.spec.kind = .list := by rw [s1]; exact hkl
    simp [Arg.gotValue, this, s3]
  have hview := updateCore_view ic i a a' ha s1 hfresh hga' s3
  cases calls1 with
  | nil =>
    obtain ⟨hA, hB⟩ := program_with_core ic (ic.setArg i a') reg k pre post calls2 ctoks rfl rfl hmiss' hk hok hcore hcore0
      (by simpa using hbodyA)
    exact ⟨_, _, hA, hB, hview, overrides_view _ _ hview, rfl, rfl, rfl⟩
  | cons k0 r0 =>
    obtain ⟨hA, hB⟩ := program_with_core_later ic (ic.setArg i a') reg k0 r0 k pre post calls2 ctoks rfl rfl hmiss' hk hok
      hcore hcore0 hbodyA hbodyB
    exact ⟨_, _, hA, hB, hview, overrides_view _ _ hview, rfl, rfl, rfl⟩

/-- PLACEMENT, BARE CORE OPTIONAL-VALUE FLAG FOLLOWED BY A BOOLEAN CORE FLAG, WHOLE ARGV, ANY CALL.  `-l -e`, `--list --echo`:
    the optional flag `tok` (index `i`, not `help`, not a list) given bare and directly followed by a DIFFERENT Boolean core
    flag token `t2` (index `j`), neither declared by the task nor a task name, between two items of ANY call at a point where
    every positional of the task is filled, means the same as the two tokens before all tasks: the optional flag gets its
    "given without a value" value `ab` (= `set_value(True, cast=False)`), the Boolean flag is set.

    WHAT STAYS EXCLUDED for the bare form (everything else about it is the lemma level, see below):
    * bare `-l` followed by a NON-flag token — the documented ambiguity: inside a task the token is taken as the value unless it
      is a task name or a positional is missing ("ambiguous" error), before the tasks `-l t1` takes `t1` as the value;
    * bare `-l` followed by a flag OF THE TASK, and bare `-l` as the very last token: the machine is tied off exactly as here
      (`core_optional_bare_tied_off_partial`), but the whole-argv statement is not proved — and it has no "before all tasks"
      twin of the same length, since `-l t1 …` is the previous case;
    * bare `-l` followed by a core VALUE flag, a block or an `=` form: `coreStep_optbare_then` covers every core item that
      starts with an unsplit core flag token, the whole-argv corollary is stated for the Boolean case only. -/
theorem core_optional_bare_then_core_flag_placement (ic : Ctx) (reg : List Ctx) (calls1 : List Call) (k : Call)
    (pre post : List Item) (calls2 : List Call) (tok t2 : Tok) (i j : Nat) (a ab a2 a2' : Arg)
    (hk : k.items = pre ++ post) (hok : ChainOK (some ic) reg (some ic) (calls1 ++ k :: calls2))
    (hun : Unsplit tok) (hcf : assoc? tok k.ctx.flags = none) (hcinv : assoc? tok k.ctx.inverse = none)
    (hl : reg.find? (fun x => x.name = some tok || x.aliases.contains tok) = none)
    (hf : assoc? tok ic.flags = some i) (ha : ic.args[i]? = some a) (hh : a.spec.names.headD [] ≠ "help".toList)
    (ht : a.takesValue = true) (hr0 : a.raw = none) (ho : a.spec.optional = true) (hkl : a.spec.kind ≠ .list)
    (hfresh : a.gotValue = false) (hs : a.setValue (.b true) false = .ok ab)
    (hun2 : Unsplit t2) (h2cf : assoc? t2 k.ctx.flags = none) (h2cinv : assoc? t2 k.ctx.inverse = none)
    (h2l : reg.find? (fun x => x.name = some t2 || x.aliases.contains t2) = none)
    (h2f : assoc? t2 ic.flags = some j) (h2a : ic.args[j]? = some a2) (hji : j ≠ i)
    (hh2 : a2.spec.names.headD [] ≠ "help".toList) (ht2 : a2.takesValue = false) (hkl2 : a2.spec.kind ≠ .list)
    (hfresh2 : a2.gotValue = false) (hs2 : a2.setValue (.b true) = .ok a2')
    (hmissk : (pre.foldl Item.apply k.ctx).missingPositional = []) (hpos : ic.positional = [])
    (hbodyA : ∀ t ∈ calls1.flatMap Call.toks ++ argvWithCore k pre post [tok, t2] calls2, t ≠ ['-', '-'])
    (hbodyB : ∀ t ∈ [tok, t2] ++ (calls1 ++ k :: calls2).flatMap Call.toks, t ≠ ['-', '-']) :
    ∃ rA rB, programParse ic reg (calls1.flatMap Call.toks ++ argvWithCore k pre post [tok, t2] calls2) = .ok rA ∧
      programParse ic reg ([tok, t2] ++ (calls1 ++ k :: calls2).flatMap Call.toks) = .ok rB ∧
      rA.core.view = rB.core.view ∧ overrides rA.core = overrides rB.core ∧
      rA.tasks = (calls1 ++ k :: calls2).map Call.result ∧ rB.tasks = rA.tasks ∧ rA.remainder = rB.remainder := by
  obtain ⟨s1, s2, s3⟩ := Arg.setValue_settled a ab (.b true) false (by simp) hs
  obtain ⟨q1, q2, q3⟩ := Arg.setValue_settled a2 a2' (.b true) true (by simp) hs2
  have htab := foldl_apply_tables pre k.ctx
  have hmiss0 : ic.missingPositional = [] := by simp [Ctx.missingPositional, hpos]
  have haj : (ic.setArg i ab).args[j]? = some a2 := by simp [Ctx.setArg, List.getElem?_set_ne (Ne.symm hji), h2a]
  have hcf' : assoc? tok (pre.foldl Item.apply k.ctx).flags = none := by rw [htab.1]; exact hcf
  have hcinv' : assoc? tok (pre.foldl Item.apply k.ctx).inverse = none := by rw [htab.2]; exact hcinv
  have h2cf' : assoc? t2 (pre.foldl Item.apply k.ctx).flags = none := by rw [htab.1]; exact h2cf
  have h2cinv' : assoc? t2 (pre.foldl Item.apply k.ctx).inverse = none := by rw [htab.2]; exact h2cinv
  have hstep : CoreStep (ic.setArg i ab) ((ic.setArg i ab).setArg j a2') reg (pre.foldl Item.apply k.ctx) [t2] :=
    coreStep_bool (ic.setArg i ab) reg _ t2 j a2 a2' hun2 h2cf' h2cinv' h2l h2f haj hh2 ht2 hs2
  have hstep0 : CoreStep0 (ic.setArg i ab) ((ic.setArg i ab).setArg j a2') [t2] :=
    coreStep0_bool (ic.setArg i ab) t2 j a2 a2' hun2 h2f haj ht2 hs2
  have hcore : CoreStepB ic ((ic.setArg i ab).setArg j a2') reg (pre.foldl Item.apply k.ctx) [tok, t2] :=
    coreStepB_optbare_then ic _ reg _ tok t2 [] i j a ab a2 hun hcf' hcinv' hl hf ha hh ht hr0 ho hkl hs hun2 h2cf' h2cinv' h2l
      h2f h2a hji hh2 hmissk hstep
  have hcore0 : CoreStep0 ic ((ic.setArg i ab).setArg j a2') [tok, t2] :=
    coreStep0_optbare_then ic _ tok t2 [] i j a ab hun hf ha ht hr0 ho hkl hs hun2 h2f hmiss0 hstep0
  have hmiss' : ((ic.setArg i ab).setArg j a2').missingPositional = [] := by
    simp [Ctx.missingPositional, Ctx.setArg, hpos]
  have hview : (updateCore ic ((ic.setArg i ab).setArg j a2')).view = (updateCore ((ic.setArg i ab).setArg j a2') ic).view := by
    apply zipWith_rel_view
    apply ArgsRel.set _ _ j a2'
    · apply ArgsRel.set _ _ i ab (ArgsRel.refl _)
      intro o x ho' _ _
      rw [ha] at ho'
      have : o = a := (Option.some.inj ho').symm
      subst this
      refine Or.inr ⟨hfresh, s1, ?_, s3⟩
      have : ¬ ab.spec.kind = .list := by rw [s1]; exact hkl
      simp [Arg.gotValue, this, s3]
    · intro o x ho' _ _
      rw [h2a] at ho'
      have : o = a2 := (Option.some.inj ho').symm
      subst this
      refine Or.inr ⟨hfresh2, q1, ?_, q3⟩
      have : ¬ a2'.spec.kind = .list := by rw [q1]; exact hkl2
      simp [Arg.gotValue, this, q3]
  cases calls1 with
  | nil =>
    obtain ⟨hA, hB⟩ := program_with_core ic ((ic.setArg i ab).setArg j a2') reg k pre post calls2 [tok, t2] rfl rfl hmiss' hk hok hcore hcore0
      (by simpa using hbodyA)
    exact ⟨_, _, hA, hB, hview, overrides_view _ _ hview, rfl, rfl, rfl⟩
  | cons k0 r0 =>
    obtain ⟨hA, hB⟩ := program_with_core_later ic ((ic.setArg i ab).setArg j a2') reg k0 r0 k pre post calls2 [tok, t2] rfl rfl hmiss' hk hok
      hcore hcore0 hbodyA hbodyB
    exact ⟨_, _, hA, hB, hview, overrides_view _ _ hview, rfl, rfl, rfl⟩

/-- BARE CORE OPTIONAL-VALUE FLAG FOLLOWED BY A FLAG OF THE TASK, OR BY THE END OF THE COMMAND LINE (partial).
    FULL STATEMENT (not proved): for an admissible chain, `… k pre -l post …` with `post` empty-and-last or starting with a
    flag-led item of the task parses to the task contexts of the chain and the core context `ic.setArg i ab`.
    PROVED here, from ANY machine between two items of a task context `c` (`Ready m c`) after the bare flag token has been
    handled (`core_opt_switch`): (1) a flag token `t2` of the task, not a task name, every positional of `c` filled, is handled
    exactly as from the machine in which the optional flag has been tied off with `ab` and the core context is
    `ic.setArg i ab` — a machine whose flag is settled, i.e. one the erasure lemma `settled_flag_is_inert` applies to; (2) the
    end-of-input transition from both machines is the same.  MISSING: the step from "first handled piece" to whole task items
    (`presplit`/`rollback` of a block or `=`/glued item with the core flag pending — `keepSplit` keeps the split because the
    first piece is a flag of the context) and the chain plumbing of `program_with_core` for a step that is not a core item. -/
theorem core_optional_bare_tied_off_partial (ic : Ctx) (reg : List Ctx) (c : Ctx) (t2 : Tok) (i : Nat) (a ab : Arg)
    (m : M) (hr : Ready m c) (hi : m.initial = some ic) (hreg : m.registry = reg)
    (ha : ic.args[i]? = some a) (hr0 : a.raw = none) (ho : a.spec.optional = true) (hkl : a.spec.kind ≠ .list)
    (hs : a.setValue (.b true) false = .ok ab) :
    Inert (m.withCore (ic.setArg i ab) (some (.initial, i)) false) ∧
    ((assoc? t2 c.flags).isSome = true → reg.find? (fun x => x.name = some t2 || x.aliases.contains t2) = none →
      c.missingPositional = [] →
      ({ m with flag := some (.initial, i), flagGotValue := false } : M).handle t2 =
        (m.withCore (ic.setArg i ab) (some (.initial, i)) false).handle t2) ∧
    M.enter { ({ m with flag := some (.initial, i), flagGotValue := false } : M) with st := .end } =
      M.enter { (m.withCore (ic.setArg i ab) (some (.initial, i)) false) with st := .end } :=
  ⟨inert_withCore_optbare m ic i a ab .initial (Or.inl rfl) ha hkl hs,
   fun h2cf h2l hmiss => core_optbare_next_taskflag ic reg c t2 i a ab m hr hi hreg h2cf h2l hmiss ha hr0 ho hs,
   core_optbare_end ic i a ab m hi ha hr0 ho hs⟩

/-- SHADOWING, WHOLE ARGV.  In a chain of calls admissible in the sense of C01 every flag token is, by `Item.ok`, a flag
    the TASK declares — also when the core context declares the same spelling (`-p`: `--pty` vs. the auto short flag
    of a parameter `pos`).  Then the task receives it (its context is exactly the C01 result) and the core context keeps
    exactly its declared values: no override is produced. -/
theorem shadowing_flag_wins_whole (ic : Ctx) (reg : List Ctx) (k : Call) (calls2 : List Call)
    (hok : ChainOK (some ic) reg (some ic) (k :: calls2))
    (hbody : ∀ t ∈ (k :: calls2).flatMap Call.toks, t ≠ ['-', '-']) :
    ∃ r, programParse ic reg ((k :: calls2).flatMap Call.toks) = .ok r ∧ r.core.view = ic.view ∧
      overrides r.core = overrides ic ∧ r.tasks = (k :: calls2).map Call.result :=
  ⟨_, program_plain ic reg k calls2 hok hbody, updateCore_self_view ic, overrides_view _ _ (updateCore_self_view ic), rfl⟩

/-- THE ERASURE LEMMA behind both: once the machine's current flag is settled, it plays no role in what the parser
    does with any further tokens — two machines that differ only in such a flag stay in lockstep. -/
theorem settled_flag_is_inert (ts : List Tok) (m : M) (f : Option (Where × Nat)) (g : Bool)
    (hm : Inert m) (hn : Inert (m.reflag f g)) : RelR (runToks m ts) (runToks (m.reflag f g) ts) :=
  runToks_rel ts m _ (Or.inr ⟨f, g, rfl, hm, hn⟩)

/-! ### the whole-argv placement theorems applied (non-vacuity) -/

/-- `t2 val -v` then `t1 --name zed` in the C01 item language -/
def plCall : Call := { tname := "t2".toList, ctx := c18Reg.headD (Ctx.empty none),
                       items := [.pos "val".toList 0, .toggle "-v".toList 1] }
def plCall2 : Call := { tname := "t1".toList, ctx := c18Reg.getD 1 (Ctx.empty none),
                        items := [.spaced "--name".toList "zed".toList 1] }

/-- the chain is admissible in the sense of C01 -/
example : ChainOK (some coreCtx) c18Reg (some coreCtx) [plCall, plCall2] := chainOKb_sound _ (by decide)

/-- `core_flag_placement_invariant_partial2` applied with the real core table: `t2 -e val -v t1 --name zed`
    (core flag BEFORE the still missing positional, #27) vs `-e t2 val -v t1 --name zed` -/
example : ∃ rA rB,
    programParse coreCtx c18Reg (argvOf ["t2", "-e", "val", "-v", "t1", "--name", "zed"]) = .ok rA ∧
    programParse coreCtx c18Reg (argvOf ["-e", "t2", "val", "-v", "t1", "--name", "zed"]) = .ok rB ∧
    overrides rA.core = overrides rB.core ∧ rB.tasks = rA.tasks :=
  have h := core_flag_placement_invariant_partial2 coreCtx c18Reg plCall [] plCall.items [plCall2] "-e".toList 5
    (coreCtx.args.getD 5 (Arg.init { names := [] })) _ rfl (chainOKb_sound _ (by decide)) (unsplitB_sound (by decide))
    (by decide) (by decide) (by decide) (by decide) (by decide) (by decide) (by decide) (by decide) (by decide) rfl (by decide)
    (noSentinelB_sound (by decide))
  let ⟨rA, rB, h1, h2, _, h4, _, h6, _⟩ := h
  ⟨rA, rB, h1, h2, h4, h6⟩

/-- `core_value_flag_placement_partial2` applied: `t2 val -T 5 -v` vs `-T 5 t2 val -v` -/
example : ∃ rA rB,
    programParse coreCtx c18Reg (argvOf ["t2", "val", "-T", "5", "-v"]) = .ok rA ∧
    programParse coreCtx c18Reg (argvOf ["-T", "5", "t2", "val", "-v"]) = .ok rB ∧
    overrides rA.core = overrides rB.core ∧ rB.tasks = rA.tasks :=
  have h := core_value_flag_placement_partial2 coreCtx c18Reg plCall [.pos "val".toList 0] [.toggle "-v".toList 1] []
    "-T".toList "5".toList 0 (coreCtx.args.getD 0 (Arg.init { names := [] })) _ rfl (chainOKb_sound _ (by decide))
    (unsplitB_sound (by decide)) (by decide) (by decide) (by decide) (by decide) (by decide) (by decide) (by decide)
    (by decide) (by decide) (by decide) (by decide) (by decide) (by decide) (by decide) (by decide) rfl (by decide)
    (noSentinelB_sound (by decide))
  let ⟨rA, rB, h1, h2, _, h4, _, h6, _⟩ := h
  ⟨rA, rB, h1, h2, h4, h6⟩

/-- `core_value_flag_placement_partial3` applied to the glued and the `=` spelling: `t2 val -T5 -v` / `t2 val --command-timeout=5 -v` -/
example : ∃ rA rB,
    programParse coreCtx c18Reg (argvOf ["t2", "val", "-T5", "-v"]) = .ok rA ∧
    programParse coreCtx c18Reg (argvOf ["-T5", "t2", "val", "-v"]) = .ok rB ∧
    overrides rA.core = overrides rB.core ∧ rB.tasks = rA.tasks :=
  have h := core_value_flag_placement_partial3 coreCtx c18Reg plCall [.pos "val".toList 0] [.toggle "-v".toList 1] []
    "-T".toList "5".toList ["-T5".toList] 0 (coreCtx.args.getD 0 (Arg.init { names := [] })) _
    (.glued 'T' '5' [] rfl rfl (by decide) (by decide)) rfl (chainOKb_sound _ (by decide))
    (by decide) (by decide) (by decide) (by decide) (by decide) (by decide) (by decide)
    (by decide) (by decide) (by decide) (by decide) (by decide) (by decide) (by decide) (by decide) rfl (by decide)
    (noSentinelB_sound (by decide))
  let ⟨rA, rB, h1, h2, _, h4, _, h6, _⟩ := h
  ⟨rA, rB, h1, h2, h4, h6⟩
example : ∃ rA rB,
    programParse coreCtx c18Reg (argvOf ["t2", "val", "--command-timeout=5", "-v"]) = .ok rA ∧
    programParse coreCtx c18Reg (argvOf ["--command-timeout=5", "t2", "val", "-v"]) = .ok rB ∧
    overrides rA.core = overrides rB.core ∧ rB.tasks = rA.tasks :=
  have h := core_value_flag_placement_partial3 coreCtx c18Reg plCall [.pos "val".toList 0] [.toggle "-v".toList 1] []
    "--command-timeout".toList "5".toList ["--command-timeout=5".toList] 0 (coreCtx.args.getD 0 (Arg.init { names := [] })) _
    (.eq (flagTokB_sound (by decide))) rfl (chainOKb_sound _ (by decide))
    (by decide) (by decide) (by decide) (by decide) (by decide) (by decide) (by decide)
    (by decide) (by decide) (by decide) (by decide) (by decide) (by decide) (by decide) (by decide) rfl (by decide)
    (noSentinelB_sound (by decide))
  let ⟨rA, rB, h1, h2, _, h4, _, h6, _⟩ := h
  ⟨rA, rB, h1, h2, h4, h6⟩

/-- … and to a glued value that contains `=` (no side condition any more): `t1 -Fx=y` vs `-Fx=y t1` -/
example : ∃ rA rB,
    programParse coreCtx c18Reg (argvOf ["t1", "-Fx=y"]) = .ok rA ∧
    programParse coreCtx c18Reg (argvOf ["-Fx=y", "t1"]) = .ok rB ∧
    rA.core.view = rB.core.view ∧ rB.tasks = rA.tasks :=
  have h := core_value_flag_placement_partial3 coreCtx c18Reg
    { tname := "t1".toList, ctx := c18Reg.getD 1 (Ctx.empty none), items := [] } [] [] []
    "-F".toList "x=y".toList ["-Fx=y".toList] 10 (coreCtx.args.getD 10 (Arg.init { names := [] })) _
    (.glued 'F' 'x' "=y".toList rfl rfl (by decide) (by decide)) rfl (chainOKb_sound _ (by decide))
    (by decide) (by decide) (by decide) (by decide) (by decide) (by decide) (by decide)
    (by decide) (by decide) (by decide) (by decide) (by decide) (by decide) (by decide) (by decide) rfl (by decide)
    (noSentinelB_sound (by decide))
  let ⟨rA, rB, h1, h2, h3, _, _, h6, _⟩ := h
  ⟨rA, rB, h1, h2, h3, h6⟩

/-- `core_flag_placement_invariant_partial2_later` applied: `t1 --name zed t2 -e val -v` vs `-e t1 --name zed t2 val -v` -/
example : ∃ rA rB,
    programParse coreCtx c18Reg (argvOf ["t1", "--name", "zed", "t2", "-e", "val", "-v"]) = .ok rA ∧
    programParse coreCtx c18Reg (argvOf ["-e", "t1", "--name", "zed", "t2", "val", "-v"]) = .ok rB ∧
    overrides rA.core = overrides rB.core ∧ rB.tasks = rA.tasks :=
  have h := core_flag_placement_invariant_partial2_later coreCtx c18Reg plCall2 [] plCall [] plCall.items [] "-e".toList 5
    (coreCtx.args.getD 5 (Arg.init { names := [] })) _ rfl (chainOKb_sound _ (by decide)) (unsplitB_sound (by decide))
    (by decide) (by decide) (by decide) (by decide) (by decide) (by decide) (by decide) (by decide) (by decide) rfl (by decide)
    (noSentinelB_sound (by decide)) (noSentinelB_sound (by decide))
  let ⟨rA, rB, h1, h2, _, h4, _, h6, _⟩ := h
  ⟨rA, rB, h1, h2, h4, h6⟩

/-- `core_bool_block_placement_partial2` applied: `t2 -ew val -v` vs `-ew t2 val -v` (echo = index 5, warn-only = index 15) -/
example : ∃ rA rB,
    programParse coreCtx c18Reg (argvOf ["t2", "-ew", "val", "-v"]) = .ok rA ∧
    programParse coreCtx c18Reg (argvOf ["-ew", "t2", "val", "-v"]) = .ok rB ∧
    overrides rA.core = overrides rB.core ∧ rB.tasks = rA.tasks :=
  have hp : BoolPieces c18Reg plCall.ctx coreCtx (blockPieces 'e' ['w']) _ :=
    .cons 5 (coreCtx.args.getD 5 (Arg.init { names := [] })) _ (unsplitB_sound (by decide)) (by decide) (by decide) (by decide)
      (by decide) (by decide) (by decide) (by decide) rfl
      (.cons 15 (coreCtx.args.getD 15 (Arg.init { names := [] })) _ (unsplitB_sound (by decide)) (by decide) (by decide) (by decide)
        (by decide) (by decide) (by decide) (by decide) rfl (.nil _))
  have h := core_bool_block_placement_partial2 coreCtx _ c18Reg [] plCall [] plCall.items [] 'e' ['w'] rfl
    (chainOKb_sound _ (by decide)) (by decide) (by decide) (by decide) hp (by decide) (by decide)
    (noSentinelB_sound (by decide)) (noSentinelB_sound (by decide))
  let ⟨rA, rB, h1, h2, _, h4, _, h6, _⟩ := h
  ⟨rA, rB, h1, h2, h4, h6⟩

/-- the formerly excluded point, now covered: the core flag directly after a BARE optional-value flag of the task —
    `o --opt -e` vs `-e o --opt` (`def o(c, opt=None)` with `optional=["opt"]`) -/
def plOptReg : List Ctx := [c18Ctx "o" [{ names := ["opt".toList], optional := true }]]
def plOptCall : Call := { tname := "o".toList, ctx := plOptReg.headD (Ctx.empty none), items := [.optBare "--opt".toList 0] }
example : endsBare false plOptCall.items = true := rfl
example : ∃ rA rB,
    programParse coreCtx plOptReg (argvOf ["o", "--opt", "-e"]) = .ok rA ∧
    programParse coreCtx plOptReg (argvOf ["-e", "o", "--opt"]) = .ok rB ∧
    overrides rA.core = overrides rB.core ∧ rB.tasks = rA.tasks ∧ rA.tasks = [plOptCall.result] :=
  have h := core_flag_placement_invariant_partial2 coreCtx plOptReg plOptCall plOptCall.items [] [] "-e".toList 5
    (coreCtx.args.getD 5 (Arg.init { names := [] })) _ (by simp) (chainOKb_sound _ (by decide)) (unsplitB_sound (by decide))
    (by decide) (by decide) (by decide) (by decide) (by decide) (by decide) (by decide) (by decide) (by decide) rfl (by decide)
    (noSentinelB_sound (by decide))
  let ⟨rA, rB, h1, h2, _, h4, h5, h6, _⟩ := h
  ⟨rA, rB, h1, h2, h4, h6, h5⟩
example : (plOptCall.result.valueOf "opt".toList) = .b true := by decide

/-- `shadowing_flag_wins_whole` applied: `t2 -p val -v` — `-p` is t2's own flag for `pos`, the core `pty` stays off -/
def plShadow : Call := { tname := "t2".toList, ctx := c18Reg.headD (Ctx.empty none),
                         items := [.spaced "-p".toList "val".toList 0, .toggle "-v".toList 1] }
example : ∃ r, programParse coreCtx c18Reg (argvOf ["t2", "-p", "val", "-v"]) = .ok r ∧
    overrides r.core = overrides coreCtx ∧ r.tasks = [plShadow.result] :=
  let ⟨r, h1, _, h3, h4⟩ := shadowing_flag_wins_whole coreCtx c18Reg plShadow [] (chainOKb_sound _ (by decide)) (noSentinelB_sound (by decide))
  ⟨r, h1, h3, h4⟩
example : (overrides coreCtx).pty = false ∧ plShadow.result.valueOf "pos".toList = .s "val".toList := by decide

/-- hypotheses of `settled_flag_is_inert`: a machine whose flag is a Boolean core flag that has been set -/
example : Inert ((M.start (some coreCtx) c18Reg false).reflag none false) := inert_noflag _ rfl

def plFlagCall : Call := { tname := "t1".toList, ctx := c18Reg.getD 1 (Ctx.empty none), items := [.toggle "--flag".toList 0] }

/-- `core_block_with_value_placement` applied: `t1 -epT 5 --flag` vs `-epT 5 t1 --flag` (echo = 5, pty = 13, command-timeout = 0) -/
example : ∃ rA rB,
    programParse coreCtx c18Reg (argvOf ["t1", "-epT", "5", "--flag"]) = .ok rA ∧
    programParse coreCtx c18Reg (argvOf ["-epT", "5", "t1", "--flag"]) = .ok rB ∧
    overrides rA.core = overrides rB.core ∧ rB.tasks = rA.tasks :=
  have hp : BoolPieces c18Reg plFlagCall.ctx coreCtx ["-e".toList, "-p".toList] _ :=
    .cons 5 (coreCtx.args.getD 5 (Arg.init { names := [] })) _ (unsplitB_sound (by decide)) (by decide) (by decide) (by decide)
      (by decide) (by decide) (by decide) (by decide) rfl
      (.cons 13 (coreCtx.args.getD 13 (Arg.init { names := [] })) _ (unsplitB_sound (by decide)) (by decide) (by decide) (by decide)
        (by decide) (by decide) (by decide) (by decide) rfl (.nil _))
  have hb : BlockValue c18Reg plFlagCall.ctx coreCtx _ 'e' ['p', 'T'] ["-e".toList, "-p".toList] "-T".toList "5".toList 0
      (coreCtx.args.getD 0 (Arg.init { names := [] })) _ :=
    { hx := by decide, hys := by decide, hne := by decide, split := by decide, bne := by decide, pieces := hp,
      vun := unsplitB_sound (by decide), hcf := by decide, hcinv := by decide, hl := by decide, hvf := by decide, hvinv := by decide,
      hvf0 := by decide, hvinv0 := by decide, hf := by decide, ha := by decide, hh := by decide, ht := by decide, hr0 := by decide,
      ho := by decide, hs := rfl }
  have h := core_block_with_value_placement coreCtx _ c18Reg [] plFlagCall [] plFlagCall.items [] 'e' ['p', 'T'] _ _ _ 0 _ _ rfl
    (chainOKb_sound _ (by decide)) hb (by decide) (by decide) (by decide) (noSentinelB_sound (by decide)) (noSentinelB_sound (by decide))
  let ⟨rA, rB, h1, h2, _, h4, _, h6, _⟩ := h
  ⟨rA, rB, h1, h2, h4, h6⟩
/-- `program_block_expands_inside_task` applied to a MIXED block (task Boolean `-f`, core Boolean `-e`, the task's value flag
    `-n` last): `t1 -fen zed` ≡ `t1 -f -e -n zed` -/
example : (programParse coreCtx c18Reg (argvOf ["t1", "-fen", "zed"])).map ProgResult.eff =
          (programParse coreCtx c18Reg (argvOf ["t1", "-f", "-e", "-n", "zed"])).map ProgResult.eff := by
  have hn : NameOK (some coreCtx) "t1".toList := nameOKb_sound (by decide)
  have h := program_block_expands_inside_task coreCtx coreCtx c18Reg [] "t1".toList [] ["zed".toList] 'f' ['e', 'n']
    (by decide) (by decide) (by decide) (by decide) (coreStep0_nil coreCtx) (by decide) (by decide) (by decide) (by decide) (by decide)
    (by decide) (by
      intro m0 m1 h0 h1
      rw [start_enter (some coreCtx) c18Reg false (fun p hp => by cases hp; decide)] at h0
      have e0 : m0 = M.start (some coreCtx) c18Reg false := (Except.ok.inj h0).symm
      subst e0
      obtain ⟨m1', hrun, hr, _⟩ := first_switch (some coreCtx) c18Reg false "t1".toList (c18Reg.getD 1 (Ctx.empty none)) hn (by decide)
      have hrun' : runToks (M.start (some coreCtx) c18Reg false) ["t1".toList] = .ok m1' := hrun
      rw [hrun'] at h1
      have e1 : m1 = m1' := (Except.ok.inj h1).symm
      subst e1
      exact splitsAsBlock_of_ready hr 'f' (Or.inl ⟨0, _, by decide, rfl, by decide⟩))
  simpa [blockPieces, argvOf] using h
/-- `core_optional_value_flag_placement` applied with the real core table (`list` = 8): glued `t1 -lsub --flag` vs
    `-lsub t1 --flag`, and the `=` form after the task's own flag, `t1 --flag --list=sub` vs `--list=sub t1 --flag` -/
example : ∃ rA rB,
    programParse coreCtx c18Reg (argvOf ["t1", "-lsub", "--flag"]) = .ok rA ∧
    programParse coreCtx c18Reg (argvOf ["-lsub", "t1", "--flag"]) = .ok rB ∧
    rA.core.view = rB.core.view ∧ rB.tasks = rA.tasks :=
  have h := core_optional_value_flag_placement coreCtx c18Reg [] plFlagCall [] plFlagCall.items [] "-l".toList "sub".toList _ 8
    (coreCtx.args.getD 8 (Arg.init { names := [] })) _ (.glued 'l' 's' "ub".toList rfl rfl (by decide) (by decide)) rfl
    (chainOKb_sound _ (by decide)) (by decide) (by decide) (by decide) (by decide) (by decide) (by decide) (by decide) (by decide)
    (by decide) (by decide) (by decide) (by decide) (by decide) (by decide) (by decide) (by decide) (by decide) rfl (by decide)
    (noSentinelB_sound (by decide)) (noSentinelB_sound (by decide))
  let ⟨rA, rB, h1, h2, h3, _, _, h6, _⟩ := h
  ⟨rA, rB, h1, h2, h3, h6⟩
example : ∃ rA rB,
    programParse coreCtx c18Reg (argvOf ["t1", "--flag", "--list=sub"]) = .ok rA ∧
    programParse coreCtx c18Reg (argvOf ["--list=sub", "t1", "--flag"]) = .ok rB ∧
    rA.core.view = rB.core.view ∧ rB.tasks = rA.tasks :=
  have h := core_optional_value_flag_placement coreCtx c18Reg [] plFlagCall plFlagCall.items [] [] "--list".toList "sub".toList _ 8
    (coreCtx.args.getD 8 (Arg.init { names := [] })) _ (.eq (flagTokB_sound (by decide))) (by simp)
    (chainOKb_sound _ (by decide)) (by decide) (by decide) (by decide) (by decide) (by decide) (by decide) (by decide) (by decide)
    (by decide) (by decide) (by decide) (by decide) (by decide) (by decide) (by decide) (by decide) (by decide) rfl (by decide)
    (noSentinelB_sound (by decide)) (noSentinelB_sound (by decide))
  let ⟨rA, rB, h1, h2, h3, _, _, h6, _⟩ := h
  ⟨rA, rB, h1, h2, h3, h6⟩
example : (programParse coreCtx c18Reg (argvOf ["t1", "--flag", "--list=sub"])).toOption.map
    (fun r => r.core.valueOf "list".toList) = some (.s "sub".toList) := by decide

/-- `core_optional_bare_then_core_flag_placement` applied: `t1 -l -e --flag` vs `-l -e t1 --flag` (list = 8, echo = 5) -/
example : ∃ rA rB,
    programParse coreCtx c18Reg (argvOf ["t1", "-l", "-e", "--flag"]) = .ok rA ∧
    programParse coreCtx c18Reg (argvOf ["-l", "-e", "t1", "--flag"]) = .ok rB ∧
    rA.core.view = rB.core.view ∧ overrides rA.core = overrides rB.core ∧ rB.tasks = rA.tasks :=
  have h := core_optional_bare_then_core_flag_placement coreCtx c18Reg [] plFlagCall [] plFlagCall.items [] "-l".toList "-e".toList 8 5
    (coreCtx.args.getD 8 (Arg.init { names := [] })) _ (coreCtx.args.getD 5 (Arg.init { names := [] })) _ rfl
    (chainOKb_sound _ (by decide)) (unsplitB_sound (by decide)) (by decide) (by decide) (by decide) (by decide) (by decide) (by decide)
    (by decide) (by decide) (by decide) (by decide) (by decide) rfl
    (unsplitB_sound (by decide)) (by decide) (by decide) (by decide) (by decide) (by decide) (by decide) (by decide) (by decide)
    (by decide) (by decide) rfl (by decide) (by decide)
    (noSentinelB_sound (by decide)) (noSentinelB_sound (by decide))
  let ⟨rA, rB, h1, h2, h3, h4, _, h6, _⟩ := h
  ⟨rA, rB, h1, h2, h3, h4, h6⟩

/-- `core_optional_bare_tied_off_partial` applied to the machine right after the task name `t1`; and the two whole-argv shapes
    it is about, as instances: bare `-l` before a flag of the task, and bare `-l` as the very last token -/
example : ∃ m ab, runToks (M.start (some coreCtx) c18Reg false) ["t1".toList] = .ok m ∧
    (coreCtx.args.getD 8 (Arg.init { names := [] })).setValue (.b true) false = .ok ab ∧
    Inert (m.withCore (coreCtx.setArg 8 ab) (some (.initial, 8)) false) ∧
    ({ m with flag := some (.initial, 8), flagGotValue := false } : M).handle "--flag".toList =
      (m.withCore (coreCtx.setArg 8 ab) (some (.initial, 8)) false).handle "--flag".toList := by
  obtain ⟨m, hrun, hr, hi, _, hg, _⟩ := first_switch (some coreCtx) c18Reg false "t1".toList (c18Reg.getD 1 (Ctx.empty none))
    (nameOKb_sound (by decide)) (by decide)
  obtain ⟨h1, h2, _⟩ := core_optional_bare_tied_off_partial coreCtx c18Reg _ "--flag".toList 8
    (coreCtx.args.getD 8 (Arg.init { names := [] })) _ m hr hi hg (by decide) (by decide) (by decide) (by decide) rfl
  exact ⟨m, _, hrun, rfl, h1, h2 (by decide) (by decide) (by decide)⟩
example :
    (programParse coreCtx c18Reg (argvOf ["t1", "--flag", "-l"])).toOption.map
      (fun r => (r.core.valueOf "list".toList, r.tasks.map (fun c => c.valueOf "flag".toList))) = some (.b true, [.b true]) ∧
    effect (programParse coreCtx c18Reg (argvOf ["t1", "-l", "--flag"])) =
      effect (programParse coreCtx c18Reg (argvOf ["t1", "--flag", "-l"])) := by decide
end Inv
