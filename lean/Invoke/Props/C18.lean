import Invoke.Model.Program
import Invoke.Lemmas.ParserWF
import Invoke.Generated.Program
/-! # C18 (stub, work in progress) -/
namespace Inv
theorem c18_stub : True := trivial
end Inv
