import Invoke.Lemmas.ProgramParse
import Invoke.Lemmas.ParserWF
import Invoke.Generated.Program
/-! # C18 — tables and kernel-evaluated instances

Second Props-level file of C18 (imported by `Invoke/Props/C18.lean`): the core-argument table regenerated from the repository,
the example registries, and every statement of C18 that is a closed instance evaluated by the kernel (`decide`) — repaired /
pinned findings, short blocks read in their own context, dash-like and `=`-containing values — together with the small
model-level lemmas about `presplit` / `isGlued` they illustrate.  Nothing here depends on the placement lemma library. -/
namespace Inv
open M

/-! ## The core-argument table regenerated from the repository -/

def kindOfString (s : String) : Kind :=
  if s = "int" then .int else if s = "bool" then .bool else if s = "list" then .list else .str

def defaultOfString (s : String) : PVal :=
  match s.toList with
  | ['n', 'o', 'n', 'e'] => .none
  | ['b', ':', '1'] => .b true
  | ['b', ':', '0'] => .b false
  | 'i' :: ':' :: ds => match pyInt? ds with | some n => .i n | none => .none
  | 's' :: ':' :: v => .s v
  | _ => .l []

def specOfRow (r : List String × String × String × Bool × Bool × Bool) : ArgSpec :=
  { names := r.1.map String.toList, kind := kindOfString r.2.1, default := defaultOfString r.2.2.1,
    positional := r.2.2.2.1, optional := r.2.2.2.2.1, incrementable := r.2.2.2.2.2 }

/-- the core context exactly as `Program(namespace=…).initial_context` builds it -/
def coreCtx : Ctx := match Ctx.ofSpecs none [] (Generated.coreArgs.map specOfRow) with | .ok c => c | .error _ => Ctx.empty none
/-- `Program().initial_context` (task-runner mode: plus --collection, --no-dedupe, --search-root) -/
def runnerCtx : Ctx :=
  match Ctx.ofSpecs none [] ((Generated.coreArgs ++ Generated.taskRunnerArgs).map specOfRow) with | .ok c => c | .error _ => Ctx.empty none

def Ctx.kindOf (c : Ctx) (n : String) : Option (Kind × Bool × Bool) :=
  (c.args.find? (fun a => a.spec.names.headD [] = n.toList)).map (fun a => (a.spec.kind, a.spec.optional, a.takesValue))

/-- the real core-argument table is accepted by `add_arg`, is well-formed in the sense of the C07 theorems, has no
    positional and no inverse flag, `help` is the optional-value string flag the `handle` special case expects, and the
    arguments `update_config` reads have the kinds `overrides` assumes -/
theorem core_table_wellformed :
    (Ctx.ofSpecs none [] (Generated.coreArgs.map specOfRow)).toBool = true ∧
    (Ctx.ofSpecs none [] ((Generated.coreArgs ++ Generated.taskRunnerArgs).map specOfRow)).toBool = true ∧
    specWF (some coreCtx) [] = true ∧ specWF (some runnerCtx) [] = true ∧
    coreCtx.positional = [] ∧ coreCtx.inverse = [] ∧ runnerCtx.inverse = [] ∧
    coreCtx.kindOf "help" = some (.str, true, true) ∧
    coreCtx.kindOf "echo" = some (.bool, false, false) ∧ coreCtx.kindOf "dry" = some (.bool, false, false) ∧
    coreCtx.kindOf "pty" = some (.bool, false, false) ∧ coreCtx.kindOf "warn-only" = some (.bool, false, false) ∧
    coreCtx.kindOf "hide" = some (.str, false, true) ∧ coreCtx.kindOf "command-timeout" = some (.int, false, true) ∧
    runnerCtx.kindOf "no-dedupe" = some (.bool, false, false) := by decide

/-! ## Concrete instances of the FULL placement statement and non-vacuity (evaluated by the kernel) -/

def c18Ctx (name : String) (specs : List ArgSpec) : Ctx :=
  match Ctx.ofSpecs (some name.toList) [] specs with | .ok c => c | .error _ => Ctx.empty (some name.toList)

/-- `def t2(c, pos, verbose=False)` with auto short flags -p and -v (so -p shadows --pty's -p); `def t1(c, flag=False, name="n")` -/
def c18Reg : List Ctx :=
  [c18Ctx "t2" [{ names := ["pos".toList, "p".toList], positional := true },
                { names := ["verbose".toList, "v".toList], kind := .bool, default := .b false }],
   c18Ctx "t1" [{ names := ["flag".toList, "f".toList], kind := .bool, default := .b false },
                { names := ["name".toList, "n".toList], default := .s "n".toList }]]

def argvOf (ws : List String) : List Tok := ws.map String.toList

/-- what the property compares: configuration overrides and the values delivered to the tasks -/
def effect (r : Except Err ProgResult) : Option (Overrides × List (List PVal)) :=
  match r with
  | .ok x => some (overrides x.core, x.tasks.map (fun c => c.args.map Arg.value))
  | .error _ => none

/-- boolean core flag: before the tasks = after the task name = between/after its arguments (incl. before a missing positional, #27) -/
example : effect (programParse coreCtx c18Reg (argvOf ["-e", "t2", "val", "-v"])) =
          effect (programParse coreCtx c18Reg (argvOf ["t2", "-e", "val", "-v"])) ∧
          effect (programParse coreCtx c18Reg (argvOf ["-e", "t2", "val", "-v"])) =
          effect (programParse coreCtx c18Reg (argvOf ["t2", "val", "--echo", "-v"])) ∧
          (effect (programParse coreCtx c18Reg (argvOf ["t2", "val", "-v", "-e"]))).map (fun e => e.1.echo) = some true := by decide
/-- value-taking core flag in every spelling, inside a task (glued short form: #9) -/
example : effect (programParse coreCtx c18Reg (argvOf ["-T", "5", "t1", "--flag"])) =
          effect (programParse coreCtx c18Reg (argvOf ["t1", "-T5", "--flag"])) ∧
          effect (programParse coreCtx c18Reg (argvOf ["-T", "5", "t1", "--flag"])) =
          effect (programParse coreCtx c18Reg (argvOf ["t1", "--flag", "--command-timeout=5"])) ∧
          (effect (programParse coreCtx c18Reg (argvOf ["t1", "-T=5"]))).map (fun e => e.1.timeout) = some (.i 5) := by decide
/-- combined short booleans inside a task -/
example : effect (programParse coreCtx c18Reg (argvOf ["-ew", "t1"])) = effect (programParse coreCtx c18Reg (argvOf ["t1", "-we"])) ∧
          (effect (programParse coreCtx c18Reg (argvOf ["t1", "-we"]))).map (fun e => (e.1.echo, e.1.warn)) = some (true, true) := by decide
/-- shadowing: `-p` after `t2` is t2's own flag for `pos` (it takes the next token), the core `pty` stays off -/
example : (effect (programParse coreCtx c18Reg (argvOf ["t2", "-p", "val"]))).map (fun e => (e.1.pty, e.2)) =
            some (false, [[.s "val".toList, .b false]]) ∧
          (effect (programParse coreCtx c18Reg (argvOf ["-p", "t2", "val"]))).map (fun e => e.1.pty) = some true := by decide
/-- remainder and unparsed tokens on a concrete command line -/
example : (programParse coreCtx c18Reg (argvOf ["-e", "t1", "--flag", "t2", "x", "--", "--echo", "y  z", "--", "t1"])).toOption.map
            (fun r => (r.unparsed, r.remainder)) =
          some (argvOf ["t1", "--flag", "t2", "x"], "--echo y  z -- t1".toList) := by decide
/-- REPAIRED (known finding C18-core-optional-then-core-flag, fix "a core flag directly after a core optional-value flag
    inside a task context is a flag, not that flag's value"): inside a task's argument list a bare core optional-value
    flag (`-l`/`--list`) directly followed by another core flag means what it means before the tasks — "list" plus the
    second flag.  Real table of core arguments (`Generated/Program.lean`). -/
theorem core_optional_then_core_flag_repaired :
    effect (programParse coreCtx c18Reg (argvOf ["t1", "-l", "-e"])) = effect (programParse coreCtx c18Reg (argvOf ["-l", "-e", "t1"])) ∧
    effect (programParse coreCtx c18Reg (argvOf ["t1", "-l", "-F", "nested"])) =
      effect (programParse coreCtx c18Reg (argvOf ["-l", "-F", "nested", "t1"])) ∧
    (programParse coreCtx c18Reg (argvOf ["t1", "-l", "-e"])).toOption.map
        (fun r => (r.core.valueOf "list".toList, r.core.valueOf "echo".toList)) = some (.b true, .b true) ∧
    (programParse coreCtx c18Reg (argvOf ["t1", "-l", "-F", "nested"])).toOption.map
        (fun r => (r.core.valueOf "list".toList, r.core.valueOf "list-format".toList)) = some (.b true, .s "nested".toList) ∧
    -- a flag of the TASK after the bare core flag: list = True, t1's flag set (the documented rule, unchanged)
    (programParse coreCtx c18Reg (argvOf ["t1", "-l", "--flag"])).toOption.map
        (fun r => (r.core.valueOf "list".toList, r.tasks.map (fun c => c.valueOf "flag".toList))) = some (.b true, [.b true]) := by
  decide

/-- the test of the pending-value branch of `handle` before that repair: "a value is awaited", nothing else -/
def pendingValueBranchPinned (m : M) (_tok : Tok) : Bool := m.waiting
/-- … and after it (the condition in `M.handle`) -/
def pendingValueBranch (m : M) (tok : Tok) : Bool := m.waiting && !(M.optionalPending m && M.coreFlagInTask m tok)

/-- what `see_value` would store in the core `list` argument -/
def listAfterSeeValue (r : Except Err M) (tok : Tok) : Option PVal :=
  match r with
  | .ok m => (match M.seeValue m tok with
      | .ok m' => m'.initial.map (fun ic => ic.valueOf "list".toList)
      | .error _ => none)
  | .error _ => none

/-- PRE-FIX BEHAVIOUR: in the machine reached after `t1 -l` (task context `t1`, the core flag `--list` pending with an
    optional value) the pinned rule takes the next token `-e` as that flag's VALUE (list root "-e", echo never set),
    the repaired rule does not — `-e` falls through to the core-flag branch. -/
theorem core_optional_then_core_flag_pinned_counterexample :
    (match runBody (some coreCtx) c18Reg false (argvOf ["t1", "-l"]) with
      | .ok m => (pendingValueBranchPinned m "-e".toList, pendingValueBranch m "-e".toList, M.optionalPending m,
                  M.coreFlagInTask m "-e".toList)
      | .error _ => (false, false, false, false)) = (true, false, true, true) ∧
    listAfterSeeValue (runBody (some coreCtx) c18Reg false (argvOf ["t1", "-l"])) "-e".toList = some (.s "-e".toList) := by
  decide

/-- REPAIRED (known finding C18-glued-core-value-with-equals, fix "value glued to a core short flag keeps any '=' it
    contains inside a task context too"): a value glued to a CORE short flag may contain `=` wherever the flag is
    written — `-Fx=y t1`, `t1 -Fx=y` and `t1 -F x=y` all set list-format to "x=y" and run `t1`. -/
theorem glued_core_value_with_equals_repaired :
    effect (programParse coreCtx c18Reg (argvOf ["t1", "-Fx=y"])) = effect (programParse coreCtx c18Reg (argvOf ["-Fx=y", "t1"])) ∧
    effect (programParse coreCtx c18Reg (argvOf ["t1", "-Fx=y"])) = effect (programParse coreCtx c18Reg (argvOf ["t1", "-F", "x=y"])) ∧
    (programParse coreCtx c18Reg (argvOf ["t1", "-Fx=y"])).toOption.map
        (fun r => (r.core.valueOf "list-format".toList, r.tasks.map Ctx.name)) = some (.s "x=y".toList, [some "t1".toList]) := by
  decide

/-- the glued-value rule the code had before that repair (it consulted only the flags of the current context) -/
def isGluedPinned (m : M) (orig : Tok) : Bool :=
  !isLongFlag orig && orig.length > 2 && (orig.drop 2).head? ≠ some '=' &&
    (match ctxFlag m (orig.take 2) with | some a => a.takesValue | none => false)

/-- PRE-FIX BEHAVIOUR: with the pinned rule, in a task context that does not declare `-F`, `-Fx=y` is not recognised as
    glued — so the `=` split of `presplit` applied and produced the unknown token `-Fx` — while the repaired rule
    recognises it -/
theorem glued_core_value_with_equals_pinned_counterexample :
    let m : M := { initial := some coreCtx, cur := c18Reg[1]?, curIsInitial := false, registry := c18Reg, ignoreUnknown := false }
    isGluedPinned m "-Fx=y".toList = false ∧ isGlued m "-Fx=y".toList = true ∧
    (presplit m "-Fx=y".toList).toOption = some ("-F".toList, ["x=y".toList]) ∧ beforeEq "-Fx=y".toList = "-Fx".toList := by
  decide

/-! ## Short blocks are read in their own context; dash-like values are values -/

/-- SPLIT DECISIONS HAVE NO MEMORY.  How a token is pre-split (`=` split, glued value vs. block of Boolean shorts) depends
    only on the machine's state, whether something is already unparsed, the CURRENT context and the core context —
    not on what earlier contexts of the same command line looked like (finished contexts, current flag, registry, …).
    So `-fab` after `build` and `-fab` after `deploy` are each read with the flags of their own task. -/
theorem presplit_depends_on_current_context (m m' : M) (t : Tok) (h1 : m'.st = m.st) (h2 : m'.unparsed = m.unparsed)
    (h3 : m'.cur = m.cur) (h4 : m'.initial = m.initial) (h5 : m'.curIsInitial = m.curIsInitial) :
    presplit m' t = presplit m t := by
  have hc : m'.ctx = m.ctx := by unfold M.ctx; rw [h3, h4, h5]
  unfold presplit isGlued splitShort gluedFlag
  rw [h1, h2, hc, h4, h5]

/-- … and so does the decision whether a split is kept while an optional value is pending (given the same pending flag) -/
theorem keepSplit_depends_on_current_context (m m' : M) (tok : Tok) (h3 : m'.cur = m.cur) (h4 : m'.initial = m.initial)
    (h5 : m'.curIsInitial = m.curIsInitial) (h6 : m'.flag = m.flag) : keepSplit m' tok = keepSplit m tok := by
  have hc : m'.ctx = m.ctx := by unfold M.ctx; rw [h3, h4, h5]
  unfold keepSplit M.coreFlagInTask M.flagArg
  rw [hc, h4, h5, h6]

/-- the same letter in two contexts of ONE command line, with flags of different kinds: in `b` the short `-F` is a Boolean
    flag of the task (shadowing the core value flag `-F`, i.e. `--list-format`), `d` does not declare it -/
def crossReg : List Ctx :=
  [c18Ctx "b" [{ names := ["F".toList], kind := .bool, default := .b false }, { names := ["a".toList], kind := .bool, default := .b false }],
   c18Ctx "d" [{ names := ["x".toList], kind := .bool, default := .b false }]]

/-- `b -Fa d -Fa` = `-F a b -F -a d`, in both orders: each block is read in its own context -/
theorem short_block_read_in_its_own_context :
    effect (programParse coreCtx crossReg (argvOf ["b", "-Fa", "d", "-Fa"])) =
      effect (programParse coreCtx crossReg (argvOf ["-F", "a", "b", "-F", "-a", "d"])) ∧
    effect (programParse coreCtx crossReg (argvOf ["d", "-Fa", "b", "-Fa"])) =
      effect (programParse coreCtx crossReg (argvOf ["-F", "a", "d", "b", "-F", "-a"])) ∧
    (programParse coreCtx crossReg (argvOf ["b", "-Fa", "d", "-Fa"])).toOption.map
        (fun r => (r.core.valueOf "list-format".toList, r.tasks.map (fun c => c.args.map Arg.value))) =
      some (.s "a".toList, [[.b true, .b true], [.b false]]) := by decide

/-- COMBINED SHORT BLOCKS WITH A VALUE FLAG LAST (real core table).  `-epT 5` is `-e -p -T 5` and `-ewpT 5` is
    `-e -w -p -T 5` — before the tasks and inside a task's argument list, all four with the same effect; the letters are
    handled in the order written (with the order of the inserted pieces reversed, `-T` would swallow `-p`).
    These are INSTANCES of the general theorems `short_block_expands_in_order` / `program_block_expands_inside_task` (any
    letters, any length) and `core_block_with_value_placement` (whole-argv placement of a block with a value letter last). -/
theorem short_block_with_value_flag_last :
    effect (programParse coreCtx c18Reg (argvOf ["-epT", "5", "t1", "--flag"])) =
      effect (programParse coreCtx c18Reg (argvOf ["-e", "-p", "-T", "5", "t1", "--flag"])) ∧
    effect (programParse coreCtx c18Reg (argvOf ["t1", "-epT", "5", "--flag"])) =
      effect (programParse coreCtx c18Reg (argvOf ["t1", "-e", "-p", "-T", "5", "--flag"])) ∧
    effect (programParse coreCtx c18Reg (argvOf ["t1", "-epT", "5", "--flag"])) =
      effect (programParse coreCtx c18Reg (argvOf ["-epT", "5", "t1", "--flag"])) ∧
    effect (programParse coreCtx c18Reg (argvOf ["t1", "--flag", "-ewpT", "5"])) =
      effect (programParse coreCtx c18Reg (argvOf ["-e", "-w", "-p", "-T", "5", "t1", "--flag"])) ∧
    (effect (programParse coreCtx c18Reg (argvOf ["t1", "--flag", "-ewpT", "5"]))).map
        (fun e => (e.1.echo, e.1.warn, e.1.pty, e.1.timeout)) = some (true, true, true, .i 5) ∧
    -- a task's own letters mixed with core letters, the task's value flag last: `t1 -fen zed` = `t1 -f -e -n zed`
    effect (programParse coreCtx c18Reg (argvOf ["t1", "-fen", "zed"])) =
      effect (programParse coreCtx c18Reg (argvOf ["-e", "t1", "-f", "-n", "zed"])) := by decide

/-! ### Glued values: the `=`-split guard and the glued split consult the same flag -/

/-- THE GLUED FLAG IS THE CURRENT CONTEXT'S OWN FLAG, WHEN IT DECLARES ONE.  The flag that decides whether `-xVALUE` is "flag +
    glued value" is looked up in the current context FIRST; the core context is consulted only when the context does not
    declare the two-character prefix (so a task's value flag `-e` shadows the Boolean core `-e`). -/
theorem glued_flag_prefers_current_context (m : M) (c : Ctx) (t : Tok) (i : Nat) (a : Arg) (hst : m.st ≠ .unknown)
    (hc : m.ctx = some c) (hf : assoc? t c.flags = some i) (ha : c.args[i]? = some a) : gluedFlag m t = some a := by
  simp [gluedFlag, hst, hc, hf, ha]

/-- ONE DECISION, USED TWICE.  In the model the guard "do not split this token at `=`" (`isGlued`) and the glued split itself
    (`splitShort`) are both functions of the SAME lookup `gluedFlag m (tok.take 2)`; hence whenever the guard says "glued", the
    token is split into its two-character prefix and the rest VERBATIM — whatever the rest contains (`=`, `--`, more letters). -/
theorem glued_value_verbatim (m : M) (tok : Tok) (hf : isFlag tok = true) (hu : m.unparsed = [])
    (hg : isGlued m tok = true) : presplit m tok = .ok (tok.take 2, [tok.drop 2]) := by
  unfold isGlued at hg
  simp only [Bool.and_eq_true] at hg
  obtain ⟨⟨⟨h1, h2⟩, h3⟩, h4⟩ := hg
  have hg' : isGlued m tok = true := by unfold isGlued; simp only [Bool.and_eq_true]; exact ⟨⟨⟨h1, h2⟩, h3⟩, h4⟩
  cases hgf : gluedFlag m (tok.take 2) with
  | none => rw [hgf] at h4; cases h4
  | some a =>
    rw [hgf] at h4
    have h4' : a.takesValue = true := h4
    unfold presplit splitShort
    simp [hf, hu, hg', h1, h2, hgf, h4']

/-- … in particular for a value flag of the task that shadows a core flag of ANY kind: `-ea=b` inside `pack` (value `-e`) -/
theorem shadowing_glued_value_verbatim (m : M) (c : Ctx) (x y : Char) (w : Tok) (i : Nat) (a : Arg) (hst : m.st ≠ .unknown)
    (hu : m.unparsed = []) (hc : m.ctx = some c) (hx : x ≠ '-') (hy : y ≠ '=')
    (hf : assoc? ['-', x] c.flags = some i) (ha : c.args[i]? = some a) (ht : a.takesValue = true) :
    presplit m ('-' :: x :: y :: w) = .ok (['-', x], [y :: w]) := by
  have hgf := glued_flag_prefers_current_context m c ['-', x] i a hst hc hf ha
  have hg : isGlued m ('-' :: x :: y :: w) = true := by simp [isGlued, isLongFlag, hx, hy, hgf, ht]
  simpa using glued_value_verbatim m ('-' :: x :: y :: w) rfl hu hg

/-- `pack` declares a VALUE flag `-e` (shadowing the Boolean core `-e`/`--echo`) and a Boolean `-a`; `d` is a second task -/
def packReg : List Ctx :=
  [c18Ctx "pack" [{ names := ["e".toList], default := .s "none".toList }, { names := ["a".toList], kind := .bool, default := .b false }],
   c18Ctx "d" [{ names := ["x".toList], kind := .bool, default := .b false }]]

/-- INSTANCE on the real core table: inside `pack`, `-ea=b` stores `a=b` verbatim for pack's `e`, the core `echo` stays unset,
    the next task is intact — as the first, and as the second task; and it is the spaced spelling `-e a=b` -/
theorem shadowing_glued_value_with_equals :
    (programParse coreCtx packReg (argvOf ["pack", "-ea=b", "d", "-x"])).toOption.map
        (fun r => (r.core.valueOf "echo".toList, r.tasks.map (fun c => c.args.map Arg.value))) =
      some (.b false, [[.s "a=b".toList, .b false], [.b true]]) ∧
    effect (programParse coreCtx packReg (argvOf ["-w", "d", "pack", "-ea=b=c", "-a"])) =
      effect (programParse coreCtx packReg (argvOf ["-w", "d", "pack", "-e", "a=b=c", "-a"])) ∧
    -- an explicitly EMPTY value is a value: the next token is not swallowed
    (programParse coreCtx packReg (argvOf ["--hide=", "pack", "-e=", "d"])).toOption.map
        (fun r => (r.core.valueOf "hide".toList, r.tasks.map (fun c => c.args.map Arg.value))) =
      some (.s [], [[.s [], .b false], [.b false]]) := by decide

/-- hypotheses of `shadowing_glued_value_verbatim` / `glued_value_verbatim` on that table: the machine right after `pack` -/
example : presplit ({ initial := some coreCtx, cur := packReg.head?, curIsInitial := false, registry := packReg, ignoreUnknown := false } : M)
    "-ea=b".toList =
    .ok ("-e".toList, ["a=b".toList]) :=
  shadowing_glued_value_verbatim _ (packReg.headD (Ctx.empty none)) 'e' 'a' "=b".toList 0 _ (by decide) rfl rfl (by decide) (by decide)
    (by decide) rfl (by decide)

/-- A VALUE THAT LOOKS LIKE THE SENTINEL IS A VALUE.  `--name=--`, `-n--`, core `--hide=--` (before or inside the task) store
    "--" verbatim; the later task is intact; the remainder is what follows the first BARE `--` token of the command line. -/
theorem dash_value_verbatim :
    (programParse coreCtx c18Reg (argvOf ["t1", "--name=--", "t2", "x", "--", "r", "--", "-e"])).toOption.map
        (fun r => (r.tasks.map (fun c => c.args.map Arg.value), r.remainder)) =
      some ([[.b false, .s "--".toList], [.s "x".toList, .b false]], "r -- -e".toList) ∧
    (programParse coreCtx c18Reg (argvOf ["t1", "-n--", "t2", "x"])).toOption.map
        (fun r => (r.tasks.map (fun c => c.args.map Arg.value), r.remainder)) =
      some ([[.b false, .s "--".toList], [.s "x".toList, .b false]], []) ∧
    (programParse coreCtx c18Reg (argvOf ["t1", "--hide=--", "t2", "x"])).toOption.map
        (fun r => (r.core.valueOf "hide".toList, r.tasks.length, r.remainder)) = some (.s "--".toList, 2, []) ∧
    effect (programParse coreCtx c18Reg (argvOf ["t1", "--hide=--", "t2", "x"])) =
      effect (programParse coreCtx c18Reg (argvOf ["--hide=--", "t1", "t2", "x"])) := by decide

/-- `remainder_verbatim` applies to such command lines: a token that merely CONTAINS `--` is not the sentinel -/
example : ['-', '-'] ∉ argvOf ["t1", "--name=--", "-n--", "--hide=--", "---", "-"] := by decide

/-- hypotheses of `core_flag_placement_invariant_partial` are satisfiable: `-e` in `t2`'s context with `pos` still missing -/
example : ∃ i a a', assoc? "-e".toList coreCtx.flags = some i ∧ coreCtx.args[i]? = some a ∧
    a.spec.names.headD [] ≠ "help".toList ∧ a.takesValue = false ∧ a.setValue (.b true) = .ok a' ∧
    assoc? "-e".toList (c18Reg.headD (Ctx.empty none)).flags = none ∧
    assoc? "-e".toList (c18Reg.headD (Ctx.empty none)).inverse = none ∧
    (c18Reg.headD (Ctx.empty none)).missingPositional ≠ [] := by
  refine ⟨5, _, _, by decide, rfl, by decide, by decide, rfl, by decide, by decide, by decide⟩
/-- hypotheses of `shadowing_flag_wins_partial`: `-v` is t2's own boolean flag -/
example : ∃ i a a', assoc? "-v".toList (c18Reg.headD (Ctx.empty none)).flags = some i ∧
    (c18Reg.headD (Ctx.empty none)).args[i]? = some a ∧ a.takesValue = false ∧ a.setValue (.b true) = .ok a' :=
  ⟨1, _, _, by decide, rfl, by decide, rfl⟩
/-- hypothesis of `remainder_verbatim` -/
example : ['-', '-'] ∉ argvOf ["-e", "t1", "--flag"] := by decide

end Inv
