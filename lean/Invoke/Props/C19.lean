import Invoke.Lemmas.ConfigEval
/-! # C19 — each task sees its own namespace settings; session edits persist safely

Property theorems only.  `Cfg.taskStep` is the executor's per-task step
(`config.load_collection(collection.configuration(name)); config.load_shell_env()`, `name` = the name
the task was called by, or for an unnamed call - pre/post tasks, the default task - the first name
under which the collection holds the task object),
`sessionState` runs a sequence of tasks whose bodies perform edits (`TaskRun.body`, the effective
`set` / `del` edits of C06).  The theorems are instances of the C06 journal theorem with the base
swapped per task. -/
namespace Inv
open Inv.Hist

/-- the per-task step replaces exactly the collection and env levels; modifications and deletion
    marks made by earlier tasks persist -/
theorem task_step_keeps_journal (c c' : Cfg) (none : Bool) (cfgs : List KVs) (environ : List (List Char × List Char))
    (h : c.taskStep none cfgs environ = .ok c') :
    c'.mods = c.mods ∧ c'.dels = c.dels ∧
    ∃ lvl envl, collectionLevel none cfgs = .ok lvl ∧
      c'.lower = [c.defaults, lvl, c.system, c.user, c.project, envl, c.runtime, c.overrides] ∧
      ∃ v, ((c.set .collection lvl).set .env []).view = .ok v ∧ envLoad environ [] (leafVals [] v) = .ok envl := by
  have hj := taskStep_journal h
  obtain ⟨lvl, envl, hl, he, hfresh⟩ := taskStep_spec h
  refine ⟨congrArg Journal.mods hj, congrArg Journal.dels hj, lvl, envl, hl, ?_, hfresh⟩
  subst he; rfl

/-- a task the collection holds - called by a name, or a pre/post/default task found in the collection -
    gets the settings along its namespace path (outer wins, C17) -/
theorem held_task_gets_namespace_settings (cfgs : List KVs) : collectionLevel false cfgs = nsConfig cfgs := rfl

/-- HEADLINE.  After ANY sequence of tasks `ts` (from whatever namespaces, whatever their bodies
    edited, whatever the environment was), the next task `t` starts with a view that is: the edits of
    all earlier bodies, in order, replayed over the merge of the levels with the collection level :=
    the settings for `t`'s call and the env level := the environment freshly read for `t` — not those
    of previously executed tasks: the env level is `envLoad` of `t`'s environment against the view of
    the configuration with THIS collection level and an EMPTY env level, i.e. a function of the
    current other levels, the journal and the current environment only (nothing an earlier task's
    environment load left; `stale_env_is_irrelevant`).  (`hv`, `hf`: C06's side conditions.) -/
theorem task_sees_own_ns_plus_journal (c₀ c c' : Cfg) (h₀ : c₀.mods = [] ∧ c₀.dels = [])
    (ts : List TaskRun) (t : TaskRun)
    (hs : sessionState c₀ ts = .ok c) (ht : c.taskStep t.unheld t.cfgs t.environ = .ok c')
    (hw : ∀ l ∈ c'.lower, WF l) (hv : JValid ⟨[], []⟩ (ts.flatMap TaskRun.body))
    (hf : FreshAll c'.baseT (ts.flatMap TaskRun.body)) :
    (∃ lvl envl, collectionLevel t.unheld t.cfgs = .ok lvl ∧
        c'.lower = [c.defaults, lvl, c.system, c.user, c.project, envl, c.runtime, c.overrides] ∧
        ∃ v, ((c.set .collection lvl).set .env []).view = .ok v ∧ envLoad t.environ [] (leafVals [] v) = .ok envl) ∧
    Ext c'.viewT (replay c'.baseT (ts.flatMap TaskRun.body)) := by
  obtain ⟨hm, hd, hl⟩ := task_step_keeps_journal c c' t.unheld t.cfgs t.environ ht
  refine ⟨hl, ?_⟩
  have hj := session_journal ts c₀ c hs
  have hj0 : jOf c₀ = ⟨[], []⟩ := by simp [jOf, h₀.1, h₀.2]
  rw [hj0] at hj
  have hm' : c'.mods = (journalOf ⟨[], []⟩ (ts.flatMap TaskRun.body)).mods := by rw [hm, ← hj]; rfl
  have hd' : c'.dels = (journalOf ⟨[], []⟩ (ts.flatMap TaskRun.body)).dels := by rw [hd, ← hj]; rfl
  have := journal_replay (ts.flatMap TaskRun.body) ⟨[], []⟩ wf_nil wf_nil hv c'.baseT (wf_baseT hw) hf
  simp only [viewT_empty] at this
  unfold Cfg.viewT
  rw [hm', hd']
  exact this

/-- RESIDUAL CASE.  A task object the collection does not hold at all (a pre/post task defined outside
    the namespace) has no namespace path: it gets a copy of the ROOT collection's own settings. -/
theorem unheld_task_gets_root_settings (cfgs : List KVs) (hw : WF (cfgs.headD [])) :
    collectionLevel true cfgs = .ok (cfgs.headD []) :=
  copyDict_id hw

/-- ...and sees the earlier edits replayed over the merge with collection level := the root's settings. -/
theorem unheld_task_sees_root_settings (c₀ c c' : Cfg) (h₀ : c₀.mods = [] ∧ c₀.dels = [])
    (ts : List TaskRun) (t : TaskRun) (hn : t.unheld = true) (hroot : WF (t.cfgs.headD []))
    (hs : sessionState c₀ ts = .ok c) (ht : c.taskStep t.unheld t.cfgs t.environ = .ok c')
    (hw : ∀ l ∈ c'.lower, WF l) (hv : JValid ⟨[], []⟩ (ts.flatMap TaskRun.body))
    (hf : FreshAll c'.baseT (ts.flatMap TaskRun.body)) :
    c'.collection = t.cfgs.headD [] ∧ Ext c'.viewT (replay c'.baseT (ts.flatMap TaskRun.body)) := by
  obtain ⟨⟨lvl, envl, hl, hlow, _⟩, hx⟩ := task_sees_own_ns_plus_journal c₀ c c' h₀ ts t hs ht hw hv hf
  refine ⟨?_, hx⟩
  rw [hn, unheld_task_gets_root_settings t.cfgs hroot] at hl
  simp only [Except.ok.injEq] at hl
  simp only [Cfg.lower, List.cons.injEq] at hlow
  rw [hlow.2.1, hl]

/-- REPAIRED STATEMENT (finding #23).  Every task the collection holds - called by name OR executed as a
    pre-task, post-task or default task - starts with collection level = `nsConfig` of the settings
    along its namespace path, and with the earlier edits replayed over that merge.  (`t.cfgs` is the
    path of the name used; for an unnamed call the path of the task's first binding in `task_names`
    order.  A task object bound under SEVERAL paths and called without a name therefore gets ONE of
    its own namespace paths; the property's "its own namespace path" is met by any of them, and the
    harness oracle accepts any.) -/
theorem held_task_sees_own_namespace (c₀ c c' : Cfg) (h₀ : c₀.mods = [] ∧ c₀.dels = [])
    (ts : List TaskRun) (t : TaskRun) (hn : t.unheld = false)
    (hs : sessionState c₀ ts = .ok c) (ht : c.taskStep t.unheld t.cfgs t.environ = .ok c')
    (hw : ∀ l ∈ c'.lower, WF l) (hv : JValid ⟨[], []⟩ (ts.flatMap TaskRun.body))
    (hf : FreshAll c'.baseT (ts.flatMap TaskRun.body)) :
    nsConfig t.cfgs = .ok c'.collection ∧ Ext c'.viewT (replay c'.baseT (ts.flatMap TaskRun.body)) := by
  obtain ⟨⟨lvl, envl, hl, hlow, _⟩, hx⟩ := task_sees_own_ns_plus_journal c₀ c c' h₀ ts t hs ht hw hv hf
  refine ⟨?_, hx⟩
  rw [hn, held_task_gets_namespace_settings] at hl
  simp only [Cfg.lower, List.cons.injEq] at hlow
  rw [hlow.2.1, hl]

/-- The per-task step cannot fail inside configuration handling: with type-consistent collection
    settings and environment texts the current values can adopt it succeeds; in particular a deletion
    made by an earlier task inside a section that the new collection level no longer supplies is
    harmless (`obl` is total — divergence #3, fixed). -/
theorem session_never_fails (c : Cfg) (none : Bool) (cfgs : List KVs) (environ : List (List Char × List Char))
    (lvl envl : KVs) (h1 : collectionLevel none cfgs = .ok lvl) (h2 : TypeOK (c.set .collection lvl))
    (h2' : TypeOK ((c.set .collection lvl).set .env []))
    (h3 : envLoad environ [] (leafVals [] ((c.set .collection lvl).set .env []).viewT) = .ok envl)
    (h4 : TypeOK ((c.set .collection lvl).set .env envl)) :
    c.taskStep none cfgs environ = .ok ((c.set .collection lvl).set .env envl) := by
  unfold Cfg.taskStep
  simp only [h1, Cfg.load, view_eq h2, Cfg.loadShellEnv, view_eq h2', h3, view_eq h4]

/-- The env level a previous task's environment load left behind plays no role in the next task's
    step (since the repair of `load_shell_env`): whatever it held, the step yields the same
    configuration - provided the intermediate `load_collection` can merge at all in both cases. -/
theorem stale_env_is_irrelevant (c : Cfg) (old : KVs) (none : Bool) (cfgs : List KVs)
    (environ : List (List Char × List Char)) (lvl v v' : KVs) (h1 : collectionLevel none cfgs = .ok lvl)
    (hv : ((c.set .env old).set .collection lvl).view = .ok v) (hv' : (c.set .collection lvl).view = .ok v') :
    (c.set .env old).taskStep none cfgs environ = c.taskStep none cfgs environ := by
  unfold Cfg.taskStep
  simp only [h1, Cfg.load, hv, hv']
  have e : (c.set .env old).set .collection lvl = (c.set .collection lvl).set .env old := rfl
  rw [e]
  exact loadShellEnv_ignores_old_env _ old environ

/-- PRE-FIX BEHAVIOUR (finding #23, repaired).  Before the repair every call without a name - also a
    pre/post/default task living in a sub-collection - got the ROOT collection's own settings
    (`collectionLevelPinned`); now it gets the settings along its namespace path.  Root `{}`,
    sub-collection `{c: True}`: -/
theorem called_as_none_pinned_counterexample :
    let cfgs : List KVs := [[], [(['c'], .leaf (.b true))]]
    collectionLevelPinned true cfgs = .ok [] ∧ collectionLevel false cfgs = .ok [(['c'], .leaf (.b true))] := by
  refine ⟨?_, ?_⟩
  · simp [collectionLevelPinned, copyDict]
  · simp [collectionLevel, nsConfig, mergeKVs_cons, mergeStep, Inv.insert, lookup]

/-! Non-vacuity: a two-task session (s1.t1 edits, then s2.t1 from another namespace). -/

def c19Cfg : Cfg := { defaults := [(['a'], .dict [(['b'], .leaf (.i 1))])] }

def c19Tasks : List TaskRun :=
  [{ unheld := false, cfgs := [[], [(['c'], .leaf (.b true))]], environ := [],
     body := [.set [['a'], ['b']] (.leaf (.i 5)), .del [['c']]] }]

example : sessionState c19Cfg c19Tasks =
    .ok { defaults := [(['a'], .dict [(['b'], .leaf (.i 1))])], collection := [(['c'], .leaf (.b true))],
          mods := [(['a'], .dict [(['b'], .leaf (.i 5))])], dels := [(['c'], .leaf .none)] } := by
  simp [sessionState, c19Tasks, c19Cfg, Cfg.taskStep, collectionLevel, nsConfig, mergeKVs_cons, mergeStep,
    Inv.insert, lookup, Cfg.load, Cfg.set, Cfg.view, Cfg.lower, mergeLevels, obl_cons, oblStep, Cfg.loadShellEnv,
    leafVals, envLoad, lookupEnv, envVarOf, joinUnderscore, upperKey, Except.map,
    applyEdits, journalOf, Edit.toJournal, jOf, setPath, erasePath, markDel, subDict, erase]

/-- One collection OBJECT mounted under two namespace paths (`shared` below the root and below `a`): the
    model takes the path of the NAME USED as input, so nothing new is needed - the same task gets
    `a`'s settings through `a.shared.…` and none of them through `shared.…`. -/
example :
    let root : KVs := []
    let a : KVs := [(['w'], .leaf (.s ['a'])), (['o'], .leaf (.b true))]
    let shared : KVs := [(['w'], .leaf (.s ['s']))]
    collectionLevel false [root, a, shared] = .ok [(['w'], .leaf (.s ['a'])), (['o'], .leaf (.b true))] ∧
    collectionLevel false [root, shared] = .ok [(['w'], .leaf (.s ['s']))] := by
  refine ⟨?_, ?_⟩ <;>
  simp [collectionLevel, nsConfig, mergeKVs_cons, mergeStep, Inv.insert, lookup]

example : JValid ⟨[], []⟩ (c19Tasks.flatMap TaskRun.body) := by
  refine ⟨by simp, trivial, rfl, rfl, by simp, trivial⟩

end Inv
